#!/bin/sh
# usage: try_mutant.sh <patch.diff> [property|all]  -- applies the patch to a scratch worktree of /repo HEAD and runs the checker on it
P="$1"; PROP="${2:-all}"
WT=${WT:-/tmp/mutcheck}; VD=${VD:-/tmp/mutcheck-verif}
[ -d $WT ] || git -C /repo worktree add --detach $WT HEAD >/dev/null 2>&1
git -C $WT checkout -q --detach $(git -C /repo rev-parse HEAD) 2>/dev/null; git -C $WT checkout -q -- . ; git -C $WT clean -fdq
mkdir -p $VD; cp /verif/known_findings.json $VD/
git -C $WT apply --whitespace=nowarn "$P" || { echo "PATCH DOES NOT APPLY"; exit 2; }
/verif/bin/xselcheck -property $PROP -repo $WT -verif $VD 2>&1 | grep "^VIOLATED\|^UNDECIDED\|^ERROR" | cut -c1-330
git -C $WT checkout -q -- . ; git -C $WT clean -fdq
