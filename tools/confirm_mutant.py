#!/usr/bin/env python3
"""confirm_mutant.py <outdir (e.g. /tmp/mut/C05-out/1)> <property> : verify a sub-agent change independently and,
when confirmed, store it under /verif/seeded/<property>-<n>/ with meta.json (incl. which rules catch it)."""
import sys, os, subprocess, json, re, shutil
out=sys.argv[1]; prop=sys.argv[2]; n=os.path.basename(out.rstrip('/'))
prefix=sys.argv[3] if len(sys.argv)>3 else ''
WT=os.environ.get('WT','/tmp/mutcheck'); VD=os.environ.get('VD','/tmp/mutcheck-verif')
env=dict(os.environ, GOFLAGS='-mod=mod', GOPROXY='off', GOSUMDB='off', GOTOOLCHAIN='local'); env.pop('GOWORK',None)
def sh(cmd, **k): return subprocess.run(cmd, shell=True, capture_output=True, text=True, env=env, **k)
head=sh('git -C /repo rev-parse HEAD').stdout.strip()
if not os.path.isdir(WT): sh(f'git -C /repo worktree add --detach {WT} HEAD')
def reset(): sh(f'git -C {WT} checkout -q --detach {head}; git -C {WT} checkout -q -- .; git -C {WT} clean -fdq')
reset()
patch=os.path.join(out,'patch.diff')
res={'id':f'{prefix}{prop}-{n}','property':prop,'source':'sub-agent (given only the property text and a scratch worktree)'}
r=sh(f'git -C {WT} apply --whitespace=nowarn {patch}')
if r.returncode: print('PATCH FAIL',r.stderr); sys.exit(2)
b=sh(f'cd {WT} && go build ./... && go vet ./exec/ ./store/ ./parser/ . 2>&1 | head -5')
if b.returncode: print('BUILD FAIL', b.stdout, b.stderr); reset(); sys.exit(2)
t=sh(f'cd {WT} && go test -vet=off -count=1 ./... 2>&1 | tail -15')
suite_ok = ('FAIL' not in t.stdout) and t.returncode==0
res['existing_suite_with_change']='pass' if suite_ok else 'FAIL: '+t.stdout[-400:]
# demo
demo=None; kind=None
for f in ('demo_test.go','demo.sh'):
    if os.path.exists(os.path.join(out,f)): demo=os.path.join(out,f); kind=f
def notes_text():
    for f in ('notes.md','note.md'):
        if os.path.exists(os.path.join(out,f)): return open(os.path.join(out,f)).read()
    return ''
def run_demo():
    if kind=='demo_test.go':
        first=open(demo).readline()
        pkg=None
        for cand in ('exec','store','parser','xsel'):
            if re.search(r'\b%s/'%cand, first): pkg=cand
        if pkg is None and re.search(r'root', first): pkg='.'
        if pkg is None:
            m=re.search(r'^package (\w+)', open(demo).read(), re.M)
            pk=m.group(1) if m else 'exec'
            pkg={'exec':'exec','store':'store','parser':'parser','main':'xsel','xsel':'.','xsel_test':'.'}.get(pk,'exec')
        dst=os.path.join(WT,pkg,'zz_demo_test.go'); shutil.copy(demo,dst)
        race='-race ' if '-race' in notes_text() else ''
        r=sh(f'cd {WT} && go test {race}-vet=off -count=1 ./{pkg}/ 2>&1 | tail -25', timeout=900)
        os.remove(dst)
        ok = r.returncode==0 and 'FAIL' not in r.stdout and 'panic:' not in r.stdout
        return ok, r.stdout[-600:]
    else:
        txt=open(demo).read().replace('/tmp/m10-out/%s'%prop,'/tmp/mutcheck-out').replace('/tmp/m10/%s'%prop, WT).replace('/tmp/m9-out/%s'%prop,'/tmp/mutcheck-out').replace('/tmp/m9/%s'%prop, WT).replace('/tmp/m8-out/%s'%prop,'/tmp/mutcheck-out').replace('/tmp/m8/%s'%prop, WT).replace('/tmp/m7-out/%s'%prop,'/tmp/mutcheck-out').replace('/tmp/m7/%s'%prop, WT).replace('/tmp/m6-out/%s'%prop,'/tmp/mutcheck-out').replace('/tmp/m6/%s'%prop, WT).replace('/tmp/m5-out/%s'%prop,'/tmp/mutcheck-out').replace('/tmp/m5/%s'%prop, WT).replace('/tmp/m4-out/%s'%prop,'/tmp/mutcheck-out').replace('/tmp/m4/%s'%prop, WT).replace('/tmp/mut2/%s-out'%prop,'/tmp/mutcheck-out').replace('/tmp/mut/%s-out'%prop,'/tmp/mutcheck-out').replace('/tmp/mut2/%s'%prop, WT).replace('/tmp/m3-out/%s'%prop,'/tmp/mutcheck-out').replace('/tmp/m3/%s'%prop, WT).replace('/tmp/mut/%s'%prop, WT); os.makedirs('/tmp/mutcheck-out',exist_ok=True)
        tmp='/tmp/mutcheck-demo.sh'; open(tmp,'w').write(txt)
        r=sh(f'bash {tmp} 2>&1 | tail -25', timeout=900)
        r2=sh(f'bash {tmp} >/dev/null 2>&1; echo $?')
        return r2.stdout.strip()=='0', r.stdout[-600:]
ok_with, log_with = run_demo()
res['demo_with_change']='fail (as required)' if not ok_with else 'PASSES (not a valid demonstration)'
# checker on the changed tree
os.makedirs(VD,exist_ok=True); shutil.copy('/verif/known_findings.json',VD)
c=sh(f'/verif/bin/xselcheck -property all -repo {WT} -verif {VD} 2>&1 | grep "^VIOLATED\\|^UNDECIDED\\|^ERROR"')
caught=[]
for line in c.stdout.splitlines():
    m=re.match(r'(VIOLATED|UNDECIDED) (\S+) \[(.*?)\]', line)
    if m: caught.append({'rule':m.group(2),'construct':m.group(3)})
# which property each rule belongs to: from evidence
caught_props={}
for f in os.listdir(VD+'/evidence'):
    if not f.endswith('.json'): continue
    e=json.load(open(VD+'/evidence/'+f))
    for o in e['coverage']['all_obligations']:
        if o['verdict']!='holds' and not o.get('known_finding'):
            caught_props.setdefault(o['property'],set()).add(o['rule'])
reset()
ok_without, log_without = run_demo()
res['demo_without_change']='pass' if ok_without else 'FAILS on the unchanged tree (invalid demo): '+log_without[-300:]
res['caught_by']={k:sorted(v) for k,v in sorted(caught_props.items())}
res['confirmed']= suite_ok and (not ok_with) and ok_without
notes=notes_text()
res['needs_to_manifest']=notes[:1500]
res['what_i_ran']=['git apply patch.diff on a scratch worktree of /repo HEAD %s'%head[:7],'go build ./... ; go test -vet=off -count=1 ./... (existing suite)','demonstration with the change, then on the clean tree','/verif/bin/xselcheck -property all on the changed tree']
res['expect']=[{'property':p,'rule':r} for p,rs in res['caught_by'].items() for r in rs]
res['reverse']=False
res['what']=notes.split('\n')[0][:200]
print(json.dumps({k:res[k] for k in ('id','existing_suite_with_change','demo_with_change','demo_without_change','caught_by','confirmed')},indent=1))
if res['confirmed']:
    d=f'/verif/seeded/{prefix}{prop}-{n}'; os.makedirs(d,exist_ok=True)
    shutil.copy(patch,d+'/patch.diff'); shutil.copy(demo,d+'/'+kind)
    if notes: open(d+'/notes.md','w').write(notes)
    json.dump(res,open(d+'/meta.json','w'),indent=1)
