#!/usr/bin/env python3
"""Builds /verif/variants/<sha>/ from the fix: commits of /repo: the forward patch of each commit (applied in
reverse on a scratch copy by the thorough tier) and the rules expected to fire (from tools/bisect_fixed.py)."""
import json, subprocess, os, shutil, collections
def sh(*a): return subprocess.run(a, capture_output=True, text=True)
fixed=json.load(open('/tmp/fixed_entries.json'))
byc=collections.OrderedDict()
for e in fixed: byc.setdefault(e['commit'],[]).append(e)
commits=sh('git','-C','/repo','log','--reverse','--format=%h %s').stdout.strip().split('\n')
shutil.rmtree('/verif/variants',ignore_errors=True)
n=0
for line in commits:
    sha,msg=line.split(' ',1)
    if not msg.startswith('fix:'): continue
    sha7=sha[:7]
    ents=byc.get(sha7,[])
    if not ents:
        print('no rule reports',sha7,msg); continue
    patch=sh('git','-C','/repo','show','--format=',sha).stdout
    d='/verif/variants/revert-'+sha7; os.makedirs(d,exist_ok=True)
    open(d+'/patch.diff','w').write(patch)
    chk=subprocess.run(['git','-C','/repo','apply','-R','--check',d+'/patch.diff'],capture_output=True,text=True)
    meta={'id':'revert-'+sha7,'source':'revert of '+msg,'reverse':True,'what':'re-introduces the defect repaired by commit %s (%s)'%(sha7,msg),
          'applies_to_head':chk.returncode==0,
          'expect':sorted({(e['property'],e['rule']) for e in ents})}
    meta['expect']=[{'property':p,'rule':r} for p,r in meta['expect']]
    json.dump(meta,open(d+'/meta.json','w'),indent=1); n+=1
    if chk.returncode: print('does not reverse-apply on HEAD:',sha7,msg[:50])
print(n,'variants')
