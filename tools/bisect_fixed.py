#!/usr/bin/env python3
"""For every fix: commit of /repo, find the obligations (property, rule, construct) that were violated on its
parent and are not violated on it. Output: JSON list for known_findings.json (status fixed).
Runs the checker on a scratch worktree; never touches /repo's working tree."""
import json, subprocess, os, sys, shutil
WT='/tmp/bisect_wt'; VD='/tmp/bisect_verif'
def sh(*a, **k): return subprocess.run(a, capture_output=True, text=True, **k)
commits=sh('git','-C','/repo','log','--reverse','--format=%H %s').stdout.strip().split('\n')
sh('git','-C','/repo','worktree','remove','--force',WT)
sh('git','-C','/repo','worktree','add','--detach',WT,commits[0].split()[0])
os.makedirs(VD,exist_ok=True)
shutil.copy('/verif/known_findings.json',VD)
def violated(sha):
    sh('git','-C',WT,'checkout','-q','--detach',sha)
    sh('/tmp/bisect_xselcheck','-property','all','-repo',WT,'-verif',VD)
    out={}
    for f in sorted(os.listdir(VD+'/evidence')):
        if not f.endswith('.json'): continue
        e=json.load(open(VD+'/evidence/'+f))
        for o in e['coverage']['all_obligations']:
            if o['verdict']!='holds' and not o.get('known_finding'):
                out[(o['property'],o['rule'],o['construct'])]=o['detail']
    return out
prev=None; res=[]
for line in commits:
    sha,msg=line.split(' ',1)
    cur=violated(sha)
    if prev is not None:
        fixed=[k for k in prev if k not in cur]
        new=[k for k in cur if k not in prev]
        print(sha[:7],msg[:60],'fixed',len(fixed),'new',len(new),flush=True)
        for k in sorted(fixed):
            res.append({"property":k[0],"rule":k[1],"construct":k[2],"status":"fixed","commit":sha[:7],"what":msg+" -- "+prev[k][:300]})
        for k in new: print('   NEW',k,cur[k][:120])
    else:
        print(sha[:7],'base violations',len(cur),flush=True)
    prev=cur
print('remaining at HEAD:',len(prev))
for k in sorted(prev): print('  ',k)
json.dump(res,open('/tmp/fixed_entries.json','w'),indent=1)
sh('git','-C','/repo','worktree','remove','--force',WT)
