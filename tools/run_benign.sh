#!/bin/bash
# usage: run_benign.sh <dir-with-patch.diff>...  -- applies each behaviour-preserving patch to a scratch worktree and runs ALL checks;
# any VIOLATED/UNDECIDED line is a false alarm of the machinery (development aid).
WT=${WT:-/tmp/bencheck}; VD=${VD:-/tmp/bencheck-verif}
[ -d $WT ] || git -C /repo worktree add --detach $WT HEAD >/dev/null 2>&1
git -C $WT checkout -q --detach $(git -C /repo rev-parse HEAD) 2>/dev/null
mkdir -p $VD; cp /verif/known_findings.json $VD/
for d in "$@"; do
  git -C $WT checkout -q -- . ; git -C $WT clean -fdq
  if ! git -C $WT apply --whitespace=nowarn $d/patch.diff 2>/dev/null; then echo "$d PATCH-DOES-NOT-APPLY"; continue; fi
  out=$(/verif/bin/xselcheck -property all -repo $WT -verif $VD 2>&1 | grep "^VIOLATED\|^UNDECIDED\|^ERROR\|panic" | awk '{print $1":"$2}' | sort | uniq -c | awk '{printf "%s×%s ", $2, $1}')
  echo "$d ${out:-silent}"
done
git -C $WT checkout -q -- . ; git -C $WT clean -fdq
