#!/usr/bin/env python3
"""Regenerates the generated appendices of DESIGN.md (between the BEGIN/END GENERATED markers) from
the evidence files written by the checks, known_findings.json, variants/*/meta.json and seeded/*/meta.json."""
import json, glob, os, re, collections

V = '/verif'
out = []
out.append('## Appendix A — rule catalogue (generated from the evidence of the last run of every check)\n')
out.append('One line per rule: id, analysis kind, instances on the current tree (holds / known finding), rule text.\n')
for f in sorted(glob.glob(V + '/evidence/C*.json')):
    e = json.load(open(f))
    pid = e['property_id']
    cov = e['coverage']
    cnt = collections.Counter(); kn = collections.Counter()
    for o in cov['all_obligations']:
        cnt[o['rule']] += 1
        if o.get('known_finding'):
            kn[o['rule']] += 1
    out.append('\n### %s — %d obligations\n' % (pid, cov['obligations']))
    for r in cov.get('rules', []):
        m = re.match(r'(\S+) \[(.*?)\] (.*)', r, re.S)
        if not m:
            continue
        rid, kind, text = m.groups()
        extra = ' (%d known finding)' % kn[rid] if kn[rid] else ''
        out.append('* **%s** (%s; %d instances%s) %s' % (rid, kind, cnt[rid], extra, text))
    nd = cov['explanation'].split('NOT decided: ', 1)
    if len(nd) == 2:
        out.append('\nNot decided: ' + nd[1])

out.append('\n## Appendix B — genuine defects found by the rules, and their disposition (generated)\n')
kf = json.load(open(V + '/known_findings.json'))
out.append('Known findings (reported as KNOWN-FINDING, exit 0):\n')
for k in kf:
    if k['status'] == 'known':
        out.append('* **%s** %s %s [%s]: %s' % (k['id'], k['property'], k['rule'], k['construct'], k['what']))
out.append('\nRepaired in /repo (one `fix:` commit each; the obligation is violated on the parent commit and holds on the fix commit):\n')
byc = collections.OrderedDict()
for k in kf:
    if k['status'] == 'fixed':
        byc.setdefault(k['commit'], []).append(k)
for c, ks in byc.items():
    msg = ks[0]['what'].split(' -- ')[0]
    rules = sorted(set('%s %s' % (k['property'], k['rule']) for k in ks))
    out.append('* `%s` %s — reported by %s' % (c, msg, ', '.join(rules)))

out.append('\n## Appendix C — seeded changes and the checks that catch them (generated)\n')
out.append('`variants/` = reverts of the fix commits (the pre-fix code is a natural mutant); `seeded/` = changes written by independent sub-agents that were given only the property text and a scratch worktree, each confirmed by me (existing suite passes with the change, the demonstration fails with it and passes without). The thorough tier re-applies every one of them to a scratch copy of the current tree and requires the listed rules to fire.\n')
rows = []
for d in sorted(glob.glob(V + '/variants/*/meta.json')) + sorted(glob.glob(V + '/seeded/*/meta.json')):
    m = json.load(open(d))
    exp = collections.OrderedDict()
    for e in m.get('expect', []):
        exp.setdefault(e['property'], []).append(e['rule'])
    caught = '; '.join('%s: %s' % (p, ' '.join(sorted(set(r)))) for p, r in exp.items()) or 'NOT CAUGHT'
    rows.append('| %s | %s | %s | %s |' % (m.get('id', os.path.basename(os.path.dirname(d))), m.get('source', '')[:40], (m.get('what', '') or '').replace('|', '/').replace('\n', ' ')[:110], caught))
out.append('| id | source | change | caught by |\n|----|--------|--------|-----------|')
out.extend(rows)

out.append('\n## Appendix D — behaviour-preserving variants (generated)\n')
out.append('`benign/` = refactorings and renamings that keep the behaviour; status `silent`: no check reports anything (enforced by the thorough tier, rule R00.benign); status `limitation`: the listed rules still fail closed on it.\n')
out.append('| id | status | rules that alarm | change |\n|----|--------|------------------|--------|')
for d in sorted(glob.glob(V + '/benign/*/meta.json')):
    m = json.load(open(d))
    out.append('| %s | %s | %s | %s |' % (m['id'], m['status'], m.get('rules_that_alarm', ''), (m.get('what', '') or '').replace('|', '/').replace('\n', ' ')[:160]))

text = '\n'.join(out) + '\n'
p = V + '/DESIGN.md'
s = open(p).read()
b, e = '<!-- BEGIN GENERATED -->', '<!-- END GENERATED -->'
if b in s and e in s:
    s = s[:s.index(b) + len(b)] + '\n' + text + s[s.index(e):]
else:
    s += '\n' + b + '\n' + text + e + '\n'
open(p, 'w').write(s)
print('appendices regenerated: %d lines' % text.count('\n'))
