#!/usr/bin/env python3
"""par_refresh.py [glob] [-j N] : parallel version of refresh_expect.py. For every /verif/seeded/<id> applies the patch to
a scratch worktree of /repo HEAD, runs ALL checks there, and records in meta.json which rules of which property report
it (caught_by, undecided_in) and the expectation the thorough tier replays (expect = the rules of the change's own
property). The confirmation facts of meta.json are kept."""
import sys, os, json, subprocess, glob, fnmatch, shutil, collections, queue
from concurrent.futures import ThreadPoolExecutor
pat='*'; J=6
args=sys.argv[1:]
while args:
    a=args.pop(0)
    if a=='-j': J=int(args.pop(0))
    else: pat=a
env=dict(os.environ, GOFLAGS='-mod=mod', GOPROXY='off', GOSUMDB='off', GOTOOLCHAIN='local'); env.pop('GOWORK',None)
def sh(c): return subprocess.run(c,shell=True,capture_output=True,text=True,env=env)
head=sh('git -C /repo rev-parse HEAD').stdout.strip()
base='/tmp/par-refresh-%d'%os.getpid(); os.makedirs(base,exist_ok=True)
shutil.copy('/verif/bin/xselcheck',base+'/xselcheck')
wq=queue.Queue()
for i in range(J):
    wt=f'{base}/w{i}'; vd=f'{base}/v{i}'
    sh(f'git -C /repo worktree add --detach {wt} {head}')
    os.makedirs(vd,exist_ok=True); shutil.copy('/verif/known_findings.json',vd)
    wq.put((wt,vd))
dirs=sorted(d for d in glob.glob('/verif/seeded/*/') if fnmatch.fnmatch(os.path.basename(d.rstrip('/')),pat))
def job(d):
    m=json.load(open(d+'meta.json'))
    wt,vd=wq.get()
    try:
        sh(f'git -C {wt} checkout -q -- .; git -C {wt} clean -fdq')
        if sh(f'git -C {wt} apply --whitespace=nowarn {d}patch.diff').returncode:
            return m['id']+' PATCH DOES NOT APPLY'
        shutil.rmtree(vd+'/evidence',ignore_errors=True)
        sh(f'{base}/xselcheck -property all -repo {wt} -verif {vd}')
        caught=collections.OrderedDict(); weak=collections.OrderedDict()
        for f in sorted(glob.glob(vd+'/evidence/C*.json')):
            e=json.load(open(f))
            for o in e['coverage']['all_obligations']:
                if o.get('known_finding'): continue
                if o['verdict']=='violated': caught.setdefault(e['property_id'],set()).add(o['rule'])
                elif o['verdict']=='undecided': weak.setdefault(e['property_id'],set()).add(o['rule'])
        own=m['property']
        m['caught_by']={p:sorted(r) for p,r in caught.items()}
        m['undecided_in']={p:sorted(r) for p,r in weak.items() if p not in caught}
        if own in caught: m['expect']=[{'property':own,'rule':r} for r in sorted(caught[own])]
        elif own in weak: m['expect']=[{'property':own,'rule':r} for r in sorted(weak[own])]
        else: m['expect']=[{'property':p,'rule':r} for p,rs in caught.items() for r in sorted(rs)]
        json.dump(m,open(d+'meta.json','w'),indent=1)
        st='own:'+(','.join(sorted(caught.get(own,[]))) or ('UNDECIDED '+','.join(sorted(weak.get(own,[]))) if own in weak else 'MISSED'))
        return f"{m['id']} {own} {st}"
    finally:
        sh(f'git -C {wt} checkout -q -- .; git -C {wt} clean -fdq'); wq.put((wt,vd))
with ThreadPoolExecutor(J) as ex:
    for line in ex.map(job,dirs): print(line,flush=True)
for i in range(J): sh(f'git -C /repo worktree remove --force {base}/w{i}')
shutil.rmtree(base,ignore_errors=True)
