#!/usr/bin/env python3
"""par_run.py seeded|benign|variants [glob] [-j N] : development aid. Applies every stored change to one of N scratch
worktrees of /repo HEAD (under /tmp/par, removed at the end) and runs the checker on it in parallel.
 seeded/variants: the check of the property the change breaks (or `expect` of meta.json); prints MISSED when silent.
 benign: all checks; anything reported is a false alarm (for entries with status silent)."""
import sys, os, json, subprocess, glob, fnmatch, shutil
from concurrent.futures import ThreadPoolExecutor
import queue
kind=sys.argv[1]; pat='*'; J=6
args=sys.argv[2:]
while args:
    a=args.pop(0)
    if a=='-j': J=int(args.pop(0))
    else: pat=a
env=dict(os.environ, GOFLAGS='-mod=mod', GOPROXY='off', GOSUMDB='off', GOTOOLCHAIN='local'); env.pop('GOWORK',None)
def sh(c): return subprocess.run(c,shell=True,capture_output=True,text=True,env=env)
head=sh('git -C /repo rev-parse HEAD').stdout.strip()
base='/tmp/par-%s-%d'%(kind,os.getpid())
os.makedirs(base,exist_ok=True)
shutil.copy('/verif/bin/xselcheck',base+'/xselcheck')  # a private copy: the checker may be rebuilt while this runs
wq=queue.Queue()
for i in range(J):
    wt=f'{base}/w{i}'; vd=f'{base}/v{i}'
    if not os.path.isdir(wt): sh(f'git -C /repo worktree add --detach {wt} {head}')
    sh(f'git -C {wt} checkout -q --detach {head}; git -C {wt} checkout -q -- .; git -C {wt} clean -fdq')
    os.makedirs(vd,exist_ok=True); shutil.copy('/verif/known_findings.json',vd)
    wq.put((wt,vd))
dirs=sorted(d for d in glob.glob(f'/verif/{kind}/*/') if fnmatch.fnmatch(os.path.basename(d.rstrip('/')),pat))
def job(d):
    id_=os.path.basename(d.rstrip('/'))
    meta=json.load(open(d+'meta.json')) if os.path.exists(d+'meta.json') else {}
    wt,vd=wq.get()
    try:
        sh(f'git -C {wt} checkout -q -- .; git -C {wt} clean -fdq')
        r=sh(f"git -C {wt} apply {'-R ' if meta.get('reverse') else ''}--whitespace=nowarn {d}patch.diff")
        if r.returncode: return f'{id_} PATCH-DOES-NOT-APPLY'
        if kind=='benign':
            prop='all'
        else:
            prop=meta.get('property') or meta.get('anchored_property') or 'all'
            if kind=='variants':
                ex=meta.get('expect') or []
                props=sorted({e['property'] for e in ex}) or ['all']
                prop=props[0] if len(props)==1 else 'all'
        r=sh(f'{base}/xselcheck -property {prop} -repo {wt} -verif {vd} 2>&1 | grep "^VIOLATED\\|^UNDECIDED\\|^ERROR\\|panic"')
        c={}
        for l in r.stdout.splitlines():
            p=l.split()
            k=p[0]+':'+(p[1] if len(p)>1 else '')
            c[k]=c.get(k,0)+1
        out=' '.join(f'{k}×{v}' for k,v in sorted(c.items()))
        if kind=='benign':
            st=meta.get('status','?')
            return f'{id_} [{st}] '+(out or 'silent')
        return f'{id_} {prop} '+(out or 'MISSED')
    finally:
        sh(f'git -C {wt} checkout -q -- .; git -C {wt} clean -fdq')
        wq.put((wt,vd))
with ThreadPoolExecutor(J) as ex:
    for line in ex.map(job,dirs): print(line,flush=True)
for i in range(J):
    sh(f'git -C /repo worktree remove --force {base}/w{i}')
shutil.rmtree(base,ignore_errors=True)
