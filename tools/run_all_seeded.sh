#!/bin/bash
# usage: run_all_seeded.sh [glob]  -- for every /verif/seeded/<id> applies the patch to a scratch worktree of /repo HEAD,
# runs the check of the property the change breaks, and prints which rules fire (development aid; the registered
# thorough tier does the same from a scratch copy of the working tree).
G="${1:-*}"
WT=/tmp/mutcheck; VD=/tmp/mutcheck-verif
[ -d $WT ] || git -C /repo worktree add --detach $WT HEAD >/dev/null 2>&1
git -C $WT checkout -q --detach $(git -C /repo rev-parse HEAD) 2>/dev/null
mkdir -p $VD; cp /verif/known_findings.json $VD/
for d in /verif/seeded/$G/; do
  id=$(basename $d); prop=$(python3 -c "import json;print(json.load(open('$d/meta.json'))['property'])")
  git -C $WT checkout -q -- . ; git -C $WT clean -fdq
  if ! git -C $WT apply --whitespace=nowarn $d/patch.diff 2>/dev/null; then echo "$id $prop PATCH-DOES-NOT-APPLY"; continue; fi
  out=$(/verif/bin/xselcheck -property $prop -repo $WT -verif $VD 2>&1 | grep "^VIOLATED\|^UNDECIDED\|^ERROR" | awk '{print $1":"$2}' | sort | uniq -c | awk '{printf "%s×%s ", $2, $1}')
  echo "$id $prop ${out:-MISSED}"
done
git -C $WT checkout -q -- . ; git -C $WT clean -fdq
