#!/usr/bin/env python3
"""set_benign_status.py <par_run benign log> : records in /verif/benign/*/meta.json whether every check stayed silent on
the variant (status silent) or which rules raised an alarm (status limitation, fired_rules)."""
import sys, json, re, os
for line in open(sys.argv[1]):
    m=re.match(r'(\S+) \[(\w+)\] (.*)', line.strip())
    if not m: continue
    id_, old, rest = m.groups()
    p=f'/verif/benign/{id_}/meta.json'
    if not os.path.exists(p): continue
    meta=json.load(open(p))
    if rest=='silent':
        meta['status']='silent'; meta.pop('fired_rules',None)
    elif 'PATCH' in rest:
        continue
    else:
        meta['status']='limitation'
        meta['fired_rules']=sorted(set(re.findall(r'(?:VIOLATED|UNDECIDED):(R[0-9.a-z]+)', rest)))
    json.dump(meta,open(p,'w'),indent=1)
    if old!=meta['status']: print(id_, old,'->',meta['status'], meta.get('fired_rules',''))
