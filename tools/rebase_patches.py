#!/usr/bin/env python3
"""rebase_patches.py seeded|benign [glob] : after a fix: commit moved /repo's HEAD, re-creates the stored patches that
no longer apply: tries `git apply --3way` on a scratch worktree of HEAD (the blobs named in the patch's index lines
are in the repository), and when that merges without conflict rewrites patch.diff from `git diff`. For seeded
changes the build, the existing suite and the demonstration are re-run (suite must pass, demonstration must fail with
the change); the outcome is recorded in meta.json (rebased_onto, rebase_check). Patches that conflict are listed and
left alone (the thorough tier reports them as skipped)."""
import sys, os, json, subprocess, glob, fnmatch, shutil, re
kind=sys.argv[1]; pat=sys.argv[2] if len(sys.argv)>2 else '*'
env=dict(os.environ, GOFLAGS='-mod=mod', GOPROXY='off', GOSUMDB='off', GOTOOLCHAIN='local'); env.pop('GOWORK',None)
def sh(c, **k): return subprocess.run(c,shell=True,capture_output=True,text=True,env=env, **k)
head=sh('git -C /repo rev-parse HEAD').stdout.strip()
WT='/tmp/rebase_wt'
if not os.path.isdir(WT): sh(f'git -C /repo worktree add --detach {WT} {head}')
def reset(): sh(f'git -C {WT} checkout -q --detach {head}; git -C {WT} reset -q --hard {head}; git -C {WT} clean -fdq')
def demo_pkg(demo):
    first=open(demo).readline()
    for cand in ('exec','store','parser','xsel'):
        if re.search(r'\b%s/'%cand, first): return cand
    if re.search(r'root', first): return '.'
    m=re.search(r'^package (\w+)', open(demo).read(), re.M)
    pk=m.group(1) if m else 'exec'
    return {'exec':'exec','store':'store','parser':'parser','main':'xsel','xsel':'.','xsel_test':'.'}.get(pk,'exec')
conflicts=[]; rebased=[]
for d in sorted(glob.glob(f'/verif/{kind}/*/')):
    id_=os.path.basename(d.rstrip('/'))
    if not fnmatch.fnmatch(id_,pat): continue
    reset()
    if sh(f'git -C {WT} apply --check --whitespace=nowarn {d}patch.diff').returncode==0: continue
    r=sh(f'git -C {WT} apply --3way --whitespace=nowarn {d}patch.diff')
    st=sh(f'git -C {WT} diff --name-only --diff-filter=U').stdout.strip()
    if r.returncode!=0 or st:
        conflicts.append(id_); print(id_,'CONFLICT',st.replace('\n',' ')); continue
    newp=sh(f'git -C {WT} diff HEAD').stdout
    b=sh(f'cd {WT} && go build ./... 2>&1 | tail -5')
    if b.returncode or b.stdout.strip():
        conflicts.append(id_); print(id_,'BUILD FAILS after merge',b.stdout[-300:]); continue
    t=sh(f'cd {WT} && go test -vet=off -count=1 ./... 2>&1 | tail -15')
    suite_ok=('FAIL' not in t.stdout) and t.returncode==0
    check={'suite_with_change':'pass' if suite_ok else 'FAIL'}
    if kind=='seeded':
        demo=d+'demo_test.go'
        if os.path.exists(demo):
            pkg=demo_pkg(demo); dst=os.path.join(WT,pkg,'zz_demo_test.go'); shutil.copy(demo,dst)
            notes=''
            for f in ('notes.md','note.md'):
                if os.path.exists(d+f): notes=open(d+f).read()
            race='-race ' if '-race' in notes else ''
            r1=sh(f'cd {WT} && go test {race}-vet=off -count=1 ./{pkg}/ 2>&1 | tail -25')
            fails = not (r1.returncode==0 and 'FAIL' not in r1.stdout and 'panic:' not in r1.stdout)
            # without the change
            open('/tmp/rebase_cur.patch','w').write(newp)
            sh(f'git -C {WT} reset -q --hard {head}')
            r2=sh(f'cd {WT} && go test {race}-vet=off -count=1 ./{pkg}/ 2>&1 | tail -25')
            os.remove(dst)
            passes = r2.returncode==0 and 'FAIL' not in r2.stdout
            check['demo_with_change']='fail (as required)' if fails else 'PASSES'
            check['demo_without_change']='pass' if passes else 'FAILS'
            if not fails or not passes or not suite_ok:
                conflicts.append(id_); print(id_,'NOT CONFIRMED after rebase',check); continue
        else:
            check['demo']='demo.sh not re-run'
    elif not suite_ok:
        conflicts.append(id_); print(id_,'suite fails after rebase'); continue
    open(d+'patch.diff','w').write(newp)
    mp=d+'meta.json'
    if os.path.exists(mp):
        m=json.load(open(mp)); m['rebased_onto']=head[:7]; m['rebase_check']=check; json.dump(m,open(mp,'w'),indent=1)
    rebased.append(id_); print(id_,'rebased',check)
reset(); sh(f'git -C /repo worktree remove --force {WT}')
print('rebased:',len(rebased),'conflicts:',len(conflicts),conflicts)
