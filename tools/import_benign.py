#!/usr/bin/env python3
"""import_benign.py <out-root (e.g. /tmp/b4-out)> <prefix (e.g. b4-)> [props...] : verifies (build, vet, existing suite) and stores
behaviour-preserving refactorings written by sub-agents as /verif/benign/<prefix><prop>-<n>/ (status 'unchecked'; run
tools/par_run.py benign '<prefix>*' next and set the status from its output with --status)."""
import sys, os, json, subprocess, shutil, glob
root=sys.argv[1]; prefix=sys.argv[2]; props=sys.argv[3:] or sorted(os.path.basename(p) for p in glob.glob(root+'/C*'))
env=dict(os.environ, GOFLAGS='-mod=mod', GOPROXY='off', GOSUMDB='off', GOTOOLCHAIN='local'); env.pop('GOWORK',None)
def sh(c): return subprocess.run(c,shell=True,capture_output=True,text=True,env=env)
head=sh('git -C /repo rev-parse HEAD').stdout.strip()
CAMPAIGN={'b4-':'fourth','b5-':'fifth','b6-':'sixth','b7-':'seventh','b8-':'eighth'}.get(prefix,prefix)
WT='/tmp/import_wt'
if not os.path.isdir(WT): sh(f'git -C /repo worktree add --detach {WT} {head}')
for p in props:
    for n in ('1','2','3'):
        d=f'{root}/{p}/{n}'; patch=d+'/patch.diff'
        if not os.path.exists(patch): print(p,n,'no patch'); continue
        sh(f'git -C {WT} checkout -q --detach {head}; git -C {WT} reset -q --hard {head}; git -C {WT} clean -fdq')
        if sh(f'git -C {WT} apply --whitespace=nowarn {patch}').returncode: print(p,n,'PATCH FAIL'); continue
        b=sh(f'cd {WT} && go build ./... && go vet ./exec/ ./store/ ./parser/ . ./xsel/ 2>&1 | tail -5')
        t=sh(f'cd {WT} && go test -vet=off -count=1 ./... 2>&1 | tail -10')
        ok=b.returncode==0 and t.returncode==0 and 'FAIL' not in t.stdout
        if not ok: print(p,n,'BUILD/SUITE FAIL',b.stdout[-200:],t.stdout[-200:]); continue
        dst=f'/verif/benign/{prefix}{p}-{n}'; os.makedirs(dst,exist_ok=True)
        shutil.copy(patch,dst+'/patch.diff')
        note=''
        for f in ('note.md','notes.md'):
            if os.path.exists(d+'/'+f): shutil.copy(d+'/'+f,dst+'/note.md'); note=open(d+'/'+f).read()
        meta={'id':f'{prefix}{p}-{n}','anchored_property':p,'source':CAMPAIGN+' benign campaign: sub-agent asked for small/medium behaviour-preserving refactorings of the tree after the fix commits (property text + scratch worktree only)','status':'unchecked','what':' '.join(note.split())[:400],'checked':'go build, go vet and the existing suite pass with the change (re-run by me on HEAD %s)'%head[:7]}
        json.dump(meta,open(dst+'/meta.json','w'),indent=1)
        print(p,n,'stored')
sh(f'git -C /repo worktree remove --force {WT}')
