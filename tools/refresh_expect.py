#!/usr/bin/env python3
"""Re-derives caught_by / expect in /verif/seeded/*/meta.json (and variants with --variants) with the current checker:
applies each patch to a scratch worktree of /repo HEAD, runs every check there, and records which rules of which
property report a violation. Development aid; the confirmation facts (suite passes, demonstration fails) are kept."""
import json, glob, os, subprocess, sys, collections
WT, VD = '/tmp/mutcheck', '/tmp/mutcheck-verif'
def sh(*a, **k): return subprocess.run(a, capture_output=True, text=True, **k)
if not os.path.isdir(WT): sh('git', '-C', '/repo', 'worktree', 'add', '--detach', WT, 'HEAD')
head = sh('git', '-C', '/repo', 'rev-parse', 'HEAD').stdout.strip()
sh('git', '-C', WT, 'checkout', '-q', '--detach', head)
os.makedirs(VD, exist_ok=True)
sh('cp', '/verif/known_findings.json', VD)
pat = sys.argv[1] if len(sys.argv) > 1 else '*'
missed = []
for d in sorted(glob.glob('/verif/seeded/%s/' % pat)):
    m = json.load(open(d + 'meta.json'))
    sh('git', '-C', WT, 'checkout', '-q', '--', '.'); sh('git', '-C', WT, 'clean', '-fdq')
    r = sh('git', '-C', WT, 'apply', '--whitespace=nowarn', d + 'patch.diff')
    if r.returncode != 0:
        print(m['id'], 'PATCH DOES NOT APPLY'); continue
    sh('rm', '-rf', VD + '/evidence')
    sh('/verif/bin/xselcheck', '-property', 'all', '-repo', WT, '-verif', VD)
    caught = collections.OrderedDict(); weak = collections.OrderedDict()
    for f in sorted(glob.glob(VD + '/evidence/C*.json')):
        e = json.load(open(f))
        for o in e['coverage']['all_obligations']:
            if o.get('known_finding'): continue
            if o['verdict'] == 'violated':
                caught.setdefault(e['property_id'], set()).add(o['rule'])
            elif o['verdict'] == 'undecided':
                weak.setdefault(e['property_id'], set()).add(o['rule'])
    own = m['property']
    m['caught_by'] = {p: sorted(r) for p, r in caught.items()}
    m['undecided_in'] = {p: sorted(r) for p, r in weak.items() if p not in caught}
    if own in caught:
        m['expect'] = [{'property': own, 'rule': r} for r in sorted(caught[own])]
    elif own in weak:
        m['expect'] = [{'property': own, 'rule': r} for r in sorted(weak[own])]
    else:
        m['expect'] = [{'property': p, 'rule': r} for p, rs in caught.items() for r in sorted(rs)]
        missed.append(m['id'])
    json.dump(m, open(d + 'meta.json', 'w'), indent=1)
    print(m['id'], own, 'own:', sorted(caught.get(own, [])) or ('UNDECIDED ' + str(sorted(weak.get(own, []))) if own in weak else 'MISSED'), 'others:', {p: sorted(r) for p, r in caught.items() if p != own})
sh('git', '-C', WT, 'checkout', '-q', '--', '.'); sh('git', '-C', WT, 'clean', '-fdq')
print('not caught by own property:', missed)
