// Copy into exec/ (package exec).
package exec

import (
	"fmt"
	"testing"
)

type demoF29Struct struct {
	A string `xsel:"a"`
}

func demoF29Unmarshal(result Result, value any) (err error, panicked any) {
	defer func() {
		panicked = recover()
	}()

	err = Unmarshal(result, value)
	return
}

func TestDemoF29UnmarshalReturnsErrorsInsteadOfPanicking(t *testing.T) {
	nodes := execXmlNodes(t, "/r", `<r><a>x</a></r>`)

	var nilStruct *demoF29Struct
	var nilSlice *[]string
	var nilInner *demoF29Struct
	var nilInterface any
	var nilResult Result = nodes

	bad := map[string]any{
		"non-pointer struct":     demoF29Struct{},
		"untyped nil":            nil,
		"nil interface":          nilInterface,
		"nil struct pointer":     nilStruct,
		"nil slice pointer":      nilSlice,
		"pointer to nil pointer": &nilInner,
		"non-pointer int":        1,
		"pointer to unsupported": new(int),
		"non-pointer array":      [1]string{},
		"non-pointer map":        map[string]string{},
	}

	for name, value := range bad {
		err, panicked := demoF29Unmarshal(nilResult, value)

		if panicked != nil {
			t.Errorf("%s: panic: %v", name, panicked)
		} else if err == nil {
			t.Errorf("%s: expected an error", name)
		}
	}

	good := demoF29Struct{}

	if err, panicked := demoF29Unmarshal(nodes, &good); err != nil || panicked != nil || good.A != "x" {
		t.Errorf("pointer to struct: err=%v panic=%v value=%+v", err, panicked, good)
	}

	goodPtr := &demoF29Struct{}

	if err, panicked := demoF29Unmarshal(nodes, &goodPtr); err != nil || panicked != nil || goodPtr.A != "x" {
		t.Errorf("pointer to pointer to struct: err=%v panic=%v value=%+v", err, panicked, goodPtr)
	}

	sl := make([]string, 0)
	err, panicked := demoF29Unmarshal(nodes, sl)

	if panicked != nil || fmt.Sprint(err) != "field <slice> is not settable" {
		t.Errorf("non-pointer slice: err=%v panic=%v", err, panicked)
	}

	if err, panicked := demoF29Unmarshal(execXmlNodes(t, "/r/a", `<r><a>x</a></r>`), &sl); err != nil || panicked != nil || len(sl) != 1 || sl[0] != "x" {
		t.Errorf("pointer to slice: err=%v panic=%v value=%v", err, panicked, sl)
	}
}
