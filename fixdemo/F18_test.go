// Copy into exec/ (package exec).
package exec

import (
	"math"
	"testing"
)

func TestDemoF18DivFollowsIEEE754(t *testing.T) {
	xml := `<r/>`

	execXml(t, "1 div -0", xml, Number(math.Inf(-1)))
	execXml(t, "-1 div -0", xml, Number(math.Inf(1)))
	execXml(t, "1 div 0", xml, Number(math.Inf(1)))
	execXml(t, "-1 div 0", xml, Number(math.Inf(-1)))
	execXmlNodesToString(t, "(0 div 0) div 0", xml, "NaN")
	execXmlNodesToString(t, "0 div 0", xml, "NaN")
	execXmlNodesToString(t, "-0 div 0", xml, "NaN")
	execXml(t, "15 div 3", xml, Number(5))
	execXml(t, "1 div 4", xml, Number(0.25))
}
