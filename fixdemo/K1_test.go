// Copy into exec/ (package exec).
package exec

import "testing"

func demoK1Values(t *testing.T, expr, xml string) string {
	ret := ""

	for _, i := range execXmlNodes(t, expr, xml) {
		ret += "[" + GetCursorString(i) + "]"
	}

	return ret
}

func TestDemoK1PredicatesOfAStepAreEvaluatedPerContextNode(t *testing.T) {
	xml := `<r><a k="1" m="2"><b>1</b><b>2</b></a><a k="3"><b>3</b><b>4</b><b>5</b></a></r>`

	expected := map[string]string{
		"//a/b[1]":                    "[1][3]",
		"//a/b[last()]":               "[2][5]",
		"/r/a/b[last()]":              "[2][5]",
		"/r/a/b[position() = 2]":      "[2][4]",
		"/r/a/b[2]":                   "[2][4]",
		"/r/a/b[3]":                   "[5]",
		"/r/a/child::b[1]":            "[1][3]",
		"/r/a/b[position() > 1][1]":   "[2][4]",
		"/r/a/b[. > 1][1]":            "[2][3]",
		"//b[1]":                      "[1][3]",
		"//a/@*[1]":                   "[1][3]",
		"//a/@*[last()]":              "[2][3]",
		"//b/preceding-sibling::*[1]": "[1][3][4]",
		"//b/following-sibling::b[1]": "[2][4][5]",
		"//b/ancestor::*[1]/@k":       "[1][3]",
		"//b[. = 2 or . = 5]/../b[1]": "[1][3]",
		"/r/a[2]/b[1]":                "[3]",
		"/r/a/b":                      "[1][2][3][4][5]",
		"//a[b[1] = 3]/@k":            "[3]",
		"//a[b[last()] = 2]/@k":       "[1]",
		"(//a/b)[1]":                  "[1]",
		"(//a/b)[last()]":             "[5]",
	}

	for expr, want := range expected {
		if got := demoK1Values(t, expr, xml); got != want {
			t.Errorf("%s: expected %s, received %s", expr, want, got)
		}
	}

	execXml(t, "count(//b/ancestor::*[1])", xml, Number(2))
	execXml(t, "count(//b/ancestor::*[2])", xml, Number(1))
	execXml(t, "count(//b/ancestor::*[last()])", xml, Number(1))
	execXml(t, "count(//b/ancestor::node()[last()])", xml, Number(1))

	// A function used as a step still receives the whole current node-set.
	execXml(t, "/r/a/count(b)", xml, Number(5))
	execXml(t, "/r/a/b/last()", xml, Number(1))
}
