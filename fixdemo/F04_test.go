// Copy into exec/ (package exec).
package exec

import "testing"

func TestDemoF04RootIsAnAncestor(t *testing.T) {
	xml := `<r><a><b/></a></r>`

	nodes := execXmlNodes(t, "//b/ancestor::node()", xml)

	if len(nodes) != 3 {
		t.Fatalf("//b/ancestor::node(): expected 3 nodes (a, r, root), received %d", len(nodes))
	}

	if nodes[len(nodes)-1].Pos() != 0 {
		t.Errorf("//b/ancestor::node(): the root is missing")
	}

	if n := execXmlNodes(t, "/ancestor::node()", xml); len(n) != 0 {
		t.Errorf("/ancestor::node(): expected 0 nodes, received %d", len(n))
	}

	nodes = execXmlNodes(t, "/ancestor-or-self::node()", xml)

	if len(nodes) != 1 || nodes[0].Pos() != 0 {
		t.Errorf("/ancestor-or-self::node(): expected the root, received %d nodes", len(nodes))
	}

	execXml(t, "count(//b/ancestor-or-self::node())", xml, Number(4))
	execXml(t, "count(//b/ancestor::*)", xml, Number(2))
	execXml(t, "count(/r/ancestor::node())", xml, Number(1))
}
