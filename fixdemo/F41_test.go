// Copy into exec/ (package exec).
package exec

import "testing"

func TestDemoF41EveryElementOwnsItsNamespaceNodes(t *testing.T) {
	xml := `<r xmlns:p="u"><a x="1"/><b xmlns:q="v"><c/></b></r>`

	// r: xml, p; a: xml, p; b: xml, q, p; c: xml, q, p
	execXml(t, "count(//namespace::*)", xml, Number(10))
	execXml(t, "count(/r/b/c/namespace::*)", xml, Number(3))
	// an inherited namespace node belongs to the element it was selected from
	execXmlNodesToString(t, "name(/r/a/namespace::*[name() = 'p']/..)", xml, "a")
	execXmlNodesToString(t, "name(/r/b/c/namespace::*[name() = 'p']/..)", xml, "c")
	execXml(t, "count(//namespace::*/..)", xml, Number(4))
	// document order: an element's namespace nodes come before its attributes and children
	execXml(t, "count(/r/a/namespace::*/following::*)", xml, Number(2))
	execXmlNodesToString(t, "name((/r/b/namespace::*/following::*)[1])", xml, "c")
	execXml(t, "count(/r/b/namespace::*/preceding::*)", xml, Number(1))
}
