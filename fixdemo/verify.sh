#!/bin/bash
# usage: git -C /repo worktree add --detach /tmp/fixwt HEAD; fixdemo/verify.sh; git -C /repo worktree remove --force /tmp/fixwt
# Re-verifies every demo: FAIL on the parent of its fix commit, PASS on the fix commit, PASS on the branch tip.
export GOFLAGS=-mod=mod GOPROXY=off GOSUMDB=off GOTOOLCHAIN=local; unset GOWORK
cd /tmp/fixwt || exit 2
ids=(F01 F02 F03 F04 F05 F06 F32 F07 F08 F09 F10 F12 F13 F11 F14 F15 F16 F17 F18 F33 F19 F20 F21 F22 F23 F25 F24 F26 F27 F28 F29 F30 F31 K1 F35 F36 F37 F38 F39 F40 F41)
mapfile -t shas < <(git log --reverse --format='%h' a008283..main)
run() { # id -> rc
  local id=$1 pkg=exec
  head -1 /verif/fixdemo/${id}_test.go | grep -q 'store/' && pkg=store
  cp /verif/fixdemo/${id}_test.go $pkg/zz_demo_test.go
  go test -vet=off -count=1 -run "TestDemo${id}" ./$pkg/ >/dev/null 2>&1; local rc=$?
  rm -f $pkg/zz_demo_test.go
  return $rc
}
for i in "${!ids[@]}"; do
  id=${ids[$i]}; sha=${shas[$i]}
  git checkout -q --detach ${sha}~1; run $id; before=$?
  git checkout -q --detach ${sha};   run $id; after=$?
  files=$(git show --name-only --format= $sha | tr '\n' ' ')
  echo "$id $sha before_rc=$before after_rc=$after files: $files"
done
git checkout -q --detach main
for id in "${ids[@]}"; do run $id || echo "TIP FAIL $id"; done
echo "tip check done"; git status --short; git branch --show-current
