// Copy into exec/ (package exec).
package exec

import (
	"bytes"
	"strings"
	"testing"

	"github.com/ChrisTrenkamp/xsel/grammar"
	"github.com/ChrisTrenkamp/xsel/parser"
	"github.com/ChrisTrenkamp/xsel/store"
)

func TestDemoF31FunctionReturningNoResultIsAnError(t *testing.T) {
	cursor, err := store.CreateInMemory(parser.ReadXml(bytes.NewBufferString(`<r><a/></r>`)))

	if err != nil {
		t.Fatal(err)
	}

	functions := func(c *ContextSettings) {
		c.FunctionLibrary[XmlName{"", "nothing"}] = func(context Context, args ...Result) (Result, error) {
			return nil, nil
		}

		c.FunctionLibrary[XmlName{"", "one"}] = func(context Context, args ...Result) (Result, error) {
			return Number(1), nil
		}
	}

	for _, q := range []string{"nothing()", "nothing() + 1", "//a[nothing()]", "string(nothing())", "nothing() | //a"} {
		xpath := grammar.MustBuild(q)
		result, err := Exec(cursor, &xpath, functions)

		if err == nil {
			t.Errorf("%s: expected an error, received result %v", q, result)
		} else if !strings.Contains(err.Error(), "nothing") || strings.Contains(err.Error(), "panic") {
			t.Errorf("%s: expected an error naming the function, received: %v", q, err)
		}
	}

	xpath := grammar.MustBuild("one()")
	result, err := Exec(cursor, &xpath, functions)

	if err != nil || result != Number(1) {
		t.Errorf("one(): expected 1, received %v, %v", result, err)
	}
}
