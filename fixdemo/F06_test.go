// Copy into exec/ (package exec).
package exec

import "testing"

func TestDemoF06AttributesAndNamespacesHaveNoSiblings(t *testing.T) {
	execXml(t, "count(//x/@a/following-sibling::*)", `<r><x a="1"/><y/></r>`, Number(0))
	execXml(t, "count(//x/@a/following-sibling::node())", `<r><x a="1"><c/><d/></x></r>`, Number(0))
	execXml(t, "count(//x/@a/preceding-sibling::node())", `<r><x a="1"><c/><d/></x></r>`, Number(0))
	execXml(t, "count(//x/namespace::*/following-sibling::node())", `<r><x a="1"><c/><d/></x></r>`, Number(0))
	execXml(t, "count(//x/namespace::*/following-sibling::node())", `<r><x a="1"/></r>`, Number(0))
	execXml(t, "count(//c/following-sibling::*)", `<r><x a="1"><c/><d/></x></r>`, Number(1))
	execXml(t, "count(//d/preceding-sibling::*)", `<r><x a="1"><c/><d/></x></r>`, Number(1))
}
