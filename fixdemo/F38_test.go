// Copy into exec/ (package exec).
package exec

import "testing"

func TestDemoF38NameTestsSelectThePrincipalNodeType(t *testing.T) {
	xml := `<r xmlns:p="u"><a x="1" p:y="2">t</a></r>`
	ns := func(c *ContextSettings) { c.NamespaceDecls["p"] = "u" }

	execXml(t, "count(/r/a/@x/self::*)", xml, Number(0), ns)
	execXml(t, "count(/r/a/@x/self::x)", xml, Number(0), ns)
	execXml(t, "count(/r/a/@p:y/self::p:*)", xml, Number(0), ns)
	execXml(t, "count(/r/a/@p:y/self::*:y)", xml, Number(0), ns)
	execXml(t, "count(/r/a/@x/self::node())", xml, Number(1), ns)
	execXml(t, "count(/r/a/@x/ancestor-or-self::*)", xml, Number(2), ns)
	execXml(t, "count(/r/a/@x/descendant-or-self::*)", xml, Number(0), ns)
	execXml(t, "count(/r/a/@*[self::x])", xml, Number(0), ns)
	execXml(t, "count(/r/namespace::*/self::*)", xml, Number(0), ns)
	// the attribute and namespace axes keep selecting their own kind
	execXml(t, "count(/r/a/@*)", xml, Number(2), ns)
	execXml(t, "count(/r/a/attribute::p:*)", xml, Number(1), ns)
	execXml(t, "count(/r/a/attribute::x)", xml, Number(1), ns)
	execXml(t, "count(/r/namespace::*)", xml, Number(2), ns)
	execXml(t, "count(//*)", xml, Number(2), ns)
}
