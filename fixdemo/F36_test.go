// Copy into exec/ (package exec).
package exec

import "testing"

func TestDemoF36XmlDeclarationIsNotAProcessingInstruction(t *testing.T) {
	xml := `<?xml version="1.0" encoding="UTF-8"?><r><?keep me?></r>`

	execXml(t, "count(/processing-instruction())", xml, Number(0))
	execXml(t, "count(//processing-instruction())", xml, Number(1))
	execXmlNodesToString(t, "name(/node()[1])", xml, "r")
}
