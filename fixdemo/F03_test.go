// Copy into exec/ (package exec).
package exec

import "testing"

func TestDemoF03RootHasNoParent(t *testing.T) {
	xml := `<r><a/></r>`

	if n := execXmlNodes(t, "/..", xml); len(n) != 0 {
		t.Errorf("/..: expected 0 nodes, received %d", len(n))
	}

	if n := execXmlNodes(t, "/parent::node()", xml); len(n) != 0 {
		t.Errorf("/parent::node(): expected 0 nodes, received %d", len(n))
	}

	execXml(t, "count(/r/../..)", xml, Number(0))
	execXml(t, "count(/r/..)", xml, Number(1))
	execXml(t, "count(//a/..)", xml, Number(1))
}
