// Copy into exec/ (package exec).
package exec

import "testing"

func TestDemoF15RelationalOperatorsCompareNumbers(t *testing.T) {
	xml := `<r><a>10</a><b>9</b><c>abc</c><d>abd</d></r>`

	// node-set vs node-set
	execXml(t, "//a < //b", xml, Bool(false))
	execXml(t, "//a <= //b", xml, Bool(false))
	execXml(t, "//a > //b", xml, Bool(true))
	execXml(t, "//a >= //b", xml, Bool(true))
	execXml(t, "//b < //a", xml, Bool(true))
	execXml(t, "//b <= //a", xml, Bool(true))
	execXml(t, "//b > //a", xml, Bool(false))
	execXml(t, "//b >= //a", xml, Bool(false))
	execXml(t, "count(//a[. < //b])", xml, Number(0))
	execXml(t, "count(//a[. > //b])", xml, Number(1))

	// non-numeric strings are NaN: every relational comparison is false
	execXml(t, "//c < //d", xml, Bool(false))
	execXml(t, "//c <= //d", xml, Bool(false))
	execXml(t, "//d > //c", xml, Bool(false))
	execXml(t, "//d >= //c", xml, Bool(false))
	execXml(t, "//c <= //c", xml, Bool(false))
	execXml(t, "//c >= //c", xml, Bool(false))

	// node-set vs string
	execXml(t, "//a < '9'", xml, Bool(false))
	execXml(t, "//a <= '9'", xml, Bool(false))
	execXml(t, "//a > '9'", xml, Bool(true))
	execXml(t, "//a >= '9'", xml, Bool(true))
	execXml(t, "'9' < //a", xml, Bool(true))
	execXml(t, "'9' <= //a", xml, Bool(true))
	execXml(t, "'9' > //a", xml, Bool(false))
	execXml(t, "'9' >= //a", xml, Bool(false))
	execXml(t, "//c < 'abd'", xml, Bool(false))
	execXml(t, "'abd' > //c", xml, Bool(false))
	execXml(t, "//c <= 'abc'", xml, Bool(false))
	execXml(t, "'abc' >= //c", xml, Bool(false))

	// node-set vs boolean: the node-set is converted with boolean()
	execXml(t, "//a > true()", xml, Bool(false))
	execXml(t, "//a >= true()", xml, Bool(true))
	execXml(t, "//a < true()", xml, Bool(false))
	execXml(t, "//a <= true()", xml, Bool(true))
	execXml(t, "true() < //a", xml, Bool(false))
	execXml(t, "true() <= //a", xml, Bool(true))
	execXml(t, "true() > //a", xml, Bool(false))
	execXml(t, "true() >= //a", xml, Bool(true))
	execXml(t, "//c >= true()", xml, Bool(true))
	execXml(t, "//nothing < true()", xml, Bool(true))
	execXml(t, "false() >= //nothing", xml, Bool(true))
	execXml(t, "true() > //nothing", xml, Bool(true))

	// unchanged behaviour
	execXml(t, "'10' < '9'", xml, Bool(false))
	execXml(t, "//a > 9", xml, Bool(true))
	execXml(t, "9 < //a", xml, Bool(true))
	execXml(t, "2 > 1", xml, Bool(true))
}
