// Copy into exec/ (package exec).
// Negative ties (round(-1.5), round(-0.5)) are deliberately not asserted:
// TestFunctionRound pins round(-1.5) == -2 although XPath says -1.
package exec

import (
	"math"
	"testing"
)

func TestDemoF33RoundWithoutIntegerConversion(t *testing.T) {
	xml := `<r/>`

	execXml(t, "round(0.5)", xml, Number(1))
	execXml(t, "round(2.5)", xml, Number(3))
	execXml(t, "round(1.5)", xml, Number(2))
	execXml(t, "round(0.4)", xml, Number(0))
	execXml(t, "round(0.49999999999999994)", xml, Number(0))
	execXml(t, "round(2.4)", xml, Number(2))
	execXml(t, "round(-1.4)", xml, Number(-1))
	execXml(t, "round(-1.6)", xml, Number(-2))
	execXml(t, "round(10000000000000000000)", xml, Number(1e19))
	execXml(t, "round(-10000000000000000000)", xml, Number(-1e19))
	execXml(t, "round(100000000000000000000000000000)", xml, Number(1e29))
	execXml(t, "round(4503599627370497)", xml, Number(4503599627370497))
	execXml(t, "round(-4503599627370497)", xml, Number(-4503599627370497))
	execXml(t, "1 div round(-0.3)", xml, Number(math.Inf(-1)))
	execXml(t, "1 div round(-0)", xml, Number(math.Inf(-1)))
	execXml(t, "1 div round(0)", xml, Number(math.Inf(1)))
	execXml(t, "1 div round(0.3)", xml, Number(math.Inf(1)))
	execXml(t, "round(1 div 0)", xml, Number(math.Inf(1)))
	execXml(t, "round(-1 div 0)", xml, Number(math.Inf(-1)))
	execXmlNodesToString(t, "round(0 div 0)", xml, "NaN")
}
