// Copy into exec/ (package exec).
package exec

import "testing"

func TestDemoF40WhiteSpaceAroundTheDocumentElementIsNotText(t *testing.T) {
	xml := "<?xml version='1.0'?>\n<!--c-->\n <r> <a/>\n</r>\n<?p i?>\n"

	execXml(t, "count(/node())", xml, Number(3))
	execXml(t, "count(/text())", xml, Number(0))
	execXml(t, "count(/r/text())", xml, Number(2))
	execXml(t, "count(/r/node())", xml, Number(3))
	execXml(t, "count(/r/text())", "<r> </r>", Number(1))
}
