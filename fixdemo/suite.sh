#!/bin/bash
export GOFLAGS=-mod=mod GOPROXY=off GOSUMDB=off GOTOOLCHAIN=local; unset GOWORK
cd /tmp/fixwt && go test -vet=off -count=1 ./... 2>&1 | grep -v "no test files\|conda"; git status --short
