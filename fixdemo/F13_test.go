// Copy into exec/ (package exec).
package exec

import (
	"math"
	"testing"
)

func TestDemoF13NegativeZeroPrintsAsZero(t *testing.T) {
	if s := Number(math.Copysign(0, -1)).String(); s != "0" {
		t.Errorf("Number(-0).String(): expected 0, received %s", s)
	}

	if s := Number(0).String(); s != "0" {
		t.Errorf("Number(0).String(): expected 0, received %s", s)
	}

	if s := Number(math.NaN()).String(); s != "NaN" {
		t.Errorf("Number(NaN).String(): expected NaN, received %s", s)
	}

	if s := Number(-0.5).String(); s != "-0.5" {
		t.Errorf("Number(-0.5).String(): expected -0.5, received %s", s)
	}

	xml := `<r/>`

	execXml(t, "string(-0)", xml, String("0"))
	execXml(t, "string(0 * -1)", xml, String("0"))
	execXml(t, "concat('', ceiling(-0.5))", xml, String("0"))
	execXml(t, "string(0 div 0)", xml, String("NaN"))
}
