// Copy into exec/ (package exec).
package exec

import "testing"

func TestDemoF35FilterExpressionPredicateCountsInDocumentOrder(t *testing.T) {
	xml := `<r><a><b><c/></b></a></r>`

	execXmlNodesToString(t, "name((//c/ancestor::*)[1])", xml, "r")
	execXmlNodesToString(t, "name((//c/ancestor::*)[last()])", xml, "b")
	execXmlNodesToString(t, "name((//c/ancestor::*)[2])", xml, "a")
	execXmlNodesToString(t, "name((//c/ancestor-or-self::*)[position() = 1])", xml, "r")
	// a step predicate still counts along the reverse axis
	execXmlNodesToString(t, "name(//c/ancestor::*[1])", xml, "b")
}
