// Copy into exec/ (package exec).
package exec

import "testing"

func TestDemoF39EmptyNamespaceNameRemovesTheDefaultNamespace(t *testing.T) {
	xml := `<r xmlns="d" xmlns:p="u"><a/><b xmlns=""><c/></b><e xmlns="f"/></r>`

	execXml(t, "count(/*/namespace::*)", xml, Number(3))
	execXml(t, "count(/*/*[1]/namespace::*)", xml, Number(3))
	execXml(t, "count(/*/*[2]/namespace::*)", xml, Number(2))
	execXml(t, "count(/*/*[2]/*/namespace::*)", xml, Number(2))
	execXml(t, "count(/*/*[3]/namespace::*)", xml, Number(3))
	execXml(t, "count(//namespace::*[. = ''])", xml, Number(0))
	execXml(t, "count(/r/b/namespace::*)", `<r><b xmlns=""/></r>`, Number(1))
}
