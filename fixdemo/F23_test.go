// Copy into exec/ (package exec).
package exec

import (
	"bytes"
	"testing"

	"github.com/ChrisTrenkamp/xsel/node"
	"github.com/ChrisTrenkamp/xsel/parser"
)

func TestDemoF23PrefixedNamespaceDeclarations(t *testing.T) {
	p := parser.ReadXml(bytes.NewBufferString(`<r xmlns:p="u" xmlns="d" q:xmlns="legacy" a="1"/>`))
	got := ""

	for {
		n, isEnd, err := p.Pull()

		if err != nil || isEnd {
			break
		}

		if ns, ok := n.(node.Namespace); ok {
			got += "[" + ns.Prefix() + "=" + ns.NamespaceValue() + "]"
		}
	}

	expected := "[xml=http://www.w3.org/XML/1998/namespace][p=u][=d][q=legacy]"

	if got != expected {
		t.Errorf("namespace nodes emitted by the XML parser: expected %s, received %s", expected, got)
	}

	xml := `<r xmlns:p="u"><p:a xmlns:q="v"/></r>`
	namespaces := func(c *ContextSettings) {
		c.NamespaceDecls["p"] = "u"
		c.NamespaceDecls["q"] = "v"
	}

	execXml(t, "count(/r/namespace::*)", xml, Number(2), namespaces)
	execXml(t, "string(/r/namespace::p)", xml, String("u"), namespaces)
	execXml(t, "count(/r/p:a/namespace::*)", xml, Number(3), namespaces)
	execXml(t, "string(/r/p:a/namespace::q)", xml, String("v"), namespaces)
	execXml(t, "count(/r/@*)", xml, Number(0), namespaces)
}
