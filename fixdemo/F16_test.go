// Copy into exec/ (package exec).
package exec

import "testing"

func TestDemoF16ModIsFloatingPointRemainder(t *testing.T) {
	xml := `<r/>`

	execXml(t, "5.5 mod 2", xml, Number(1.5))
	execXml(t, "5 mod 0.5", xml, Number(0))
	execXml(t, "5 mod 0.75", xml, Number(0.5))
	execXml(t, "-5.5 mod 2", xml, Number(-1.5))
	execXml(t, "5 mod 2", xml, Number(1))
	execXml(t, "5 mod -2", xml, Number(1))
	execXml(t, "-5 mod 2", xml, Number(-1))
	execXml(t, "-5 mod -2", xml, Number(-1))
	execXml(t, "5 mod (1 div 0)", xml, Number(5))
	execXmlNodesToString(t, "4 mod 0", xml, "NaN")
	execXmlNodesToString(t, "(1 div 0) mod 2", xml, "NaN")
	execXmlNodesToString(t, "(0 div 0) mod 2", xml, "NaN")
}
