// Copy into exec/ (package exec).
package exec

import "testing"

func TestDemoF20StringLengthCountsCharacters(t *testing.T) {
	xml := `<r>héllo 世界</r>`

	execXml(t, "string-length('é')", xml, Number(1))
	execXml(t, "string-length('世界')", xml, Number(2))
	execXml(t, "string-length(/r)", xml, Number(8))
	execXml(t, "/r/string-length()", xml, Number(8))
	execXml(t, "string-length('abc')", xml, Number(3))
	execXml(t, "string-length('')", xml, Number(0))
}
