// Copy into exec/ (package exec).
package exec

import "testing"

func TestDemoF22NormalizeSpaceCollapsesXmlWhitespaceOnly(t *testing.T) {
	xml := "<r>  a \t\n  b&#13;&#13;c  </r>"

	execXml(t, "normalize-space('a   b')", xml, String("a b"))
	execXml(t, "normalize-space('  a   b  ')", xml, String("a b"))
	execXml(t, "normalize-space(/r)", xml, String("a b c"))
	execXml(t, "/r/normalize-space()", xml, String("a b c"))
	execXml(t, "normalize-space('')", xml, String(""))
	execXml(t, "normalize-space('   ')", xml, String(""))
	execXml(t, "normalize-space('abc')", xml, String("abc"))
	execXml(t, "normalize-space('\u00a0a\u00a0\u00a0b\u00a0')", xml, String("\u00a0a\u00a0\u00a0b\u00a0"))
	execXml(t, "normalize-space(' \u2003x\u2003 ')", xml, String("\u2003x\u2003"))
	execXml(t, "normalize-space(' hé  世 ')", xml, String("hé 世"))
}
