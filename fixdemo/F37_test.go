// Copy into exec/ (package exec).
package exec

import "testing"

func TestDemoF37AdjacentCharacterDataIsOneTextNode(t *testing.T) {
	xml := `<r>t<![CDATA[<c>]]>u<!--x-->v<a/>w<![CDATA[z]]></r>`

	execXml(t, "count(/r/text())", xml, Number(3))
	execXmlNodesToString(t, "/r/text()[1]", xml, "t<c>u")
	execXmlNodesToString(t, "/r/text()[2]", xml, "v")
	execXmlNodesToString(t, "/r/text()[3]", xml, "wz")
	execXml(t, "count(/r/node())", xml, Number(5))
	execXmlNodesToString(t, "string(/r)", xml, "t<c>uvwz")
}
