// Copy into exec/ (package exec).
package exec

import (
	"bytes"
	"testing"

	"github.com/ChrisTrenkamp/xsel/parser"
	"github.com/ChrisTrenkamp/xsel/store"
)

func demoF25Collect(c store.Cursor, seen map[int]int) {
	seen[c.Pos()]++

	for _, i := range c.Attributes() {
		seen[i.Pos()]++
	}

	for _, i := range c.Children() {
		demoF25Collect(i, seen)
	}
}

func TestDemoF25NamespaceNodePositionsAreUnique(t *testing.T) {
	xml := `<r a="1">text<!--c--></r>`
	root, err := store.CreateInMemory(parser.ReadXml(bytes.NewBufferString(xml)))

	if err != nil {
		t.Fatal(err)
	}

	r := root.Children()[0]
	ns := r.Namespaces()

	if len(ns) != 1 {
		t.Fatalf("expected 1 namespace node on r, received %d", len(ns))
	}

	if ns[0].Pos() <= r.Pos() {
		t.Errorf("namespace node position %d must be greater than its element's position %d", ns[0].Pos(), r.Pos())
	}

	if ns[0].Pos() >= r.Attributes()[0].Pos() {
		t.Errorf("namespace node position %d must be less than the attribute position %d", ns[0].Pos(), r.Attributes()[0].Pos())
	}

	seen := make(map[int]int)
	demoF25Collect(root, seen)
	seen[ns[0].Pos()]++

	for pos, n := range seen {
		if n != 1 {
			t.Errorf("position %d is used by %d nodes", pos, n)
		}
	}

	execXml(t, "count(//r | //r/namespace::*)", `<r/>`, Number(2))
	execXml(t, "count(/r/namespace::* | /r)", `<r/>`, Number(2))
	execXml(t, "count(//b | //b/namespace::* | //b/@*)", `<r><b a="1"/></r>`, Number(3))
}
