// Copy into exec/ (package exec).
package exec

import (
	"bytes"
	"testing"

	"github.com/ChrisTrenkamp/xsel/grammar"
	"github.com/ChrisTrenkamp/xsel/parser"
	"github.com/ChrisTrenkamp/xsel/store"
)

func TestDemoF28UnionDoesNotModifyItsOperands(t *testing.T) {
	xml := `<r><a/><a/><b/><b/></r>`
	cursor, err := store.CreateInMemory(parser.ReadXml(bytes.NewBufferString(xml)))

	if err != nil {
		t.Fatal(err)
	}

	r := cursor.Children()[0]
	b1, b2 := r.Children()[2], r.Children()[3]

	// The caller's node-set: two nodes in reverse document order, with spare capacity.
	backing := make(NodeSet, 6)
	backing[0], backing[1] = b2, b1
	v := backing[:2]

	variables := func(c *ContextSettings) {
		c.Variables[XmlName{"", "v"}] = v
	}

	xpath := grammar.MustBuild("$v | //a")
	result, err := Exec(cursor, &xpath, variables)

	if err != nil {
		t.Fatal(err)
	}

	if nodes, ok := result.(NodeSet); !ok || len(nodes) != 4 {
		t.Fatalf("$v | //a: expected 4 nodes, received %v", result)
	}

	if v[0].Pos() != b2.Pos() || v[1].Pos() != b1.Pos() {
		t.Errorf("the caller's $v was reordered: positions %d, %d; expected %d, %d", v[0].Pos(), v[1].Pos(), b2.Pos(), b1.Pos())
	}

	for i := 2; i < len(backing); i++ {
		if backing[i] != nil {
			t.Errorf("the caller's backing array was overwritten at index %d", i)
		}
	}

	result, err = Exec(cursor, &xpath, variables)

	if err != nil {
		t.Fatal(err)
	}

	if nodes, ok := result.(NodeSet); !ok || len(nodes) != 4 {
		t.Errorf("second evaluation of $v | //a: expected 4 nodes, received %v", result)
	}
}
