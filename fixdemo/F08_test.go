// Copy into exec/ (package exec).
package exec

import "testing"

func TestDemoF08NumericPredicateIsNotTruncated(t *testing.T) {
	xml := `<r><a>1</a><a>2</a><a>3</a></r>`

	execXml(t, "count(/r/a[1.5])", xml, Number(0))
	execXml(t, "count(/r/a[2.999])", xml, Number(0))
	execXml(t, "count(/r/a[0.5])", xml, Number(0))
	execXml(t, "count(/r/a[0 div 0])", xml, Number(0))
	execXml(t, "count(/r/a[1 div 0])", xml, Number(0))
	execXml(t, "count(/r/a[2.0])", xml, Number(1))
	execXmlNodesToString(t, "/r/a[1 + 1]", xml, "2")
}
