// Copy into exec/ (package exec).
package exec

import "testing"

func TestDemoF19SubstringWorksOnCharactersWithClampedBounds(t *testing.T) {
	xml := `<r/>`

	execXml(t, `substring("12345", -5, 3)`, xml, String(""))
	execXml(t, `substring("12345", -5, 7)`, xml, String("1"))
	execXml(t, `substring("12345", 4, 100000000000000000000)`, xml, String("45"))
	execXml(t, `substring("12345", -100000000000000000000, 100000000000000000002)`, xml, String(""))
	execXml(t, `substring("12345", 3, -1)`, xml, String(""))
	execXml(t, `substring("12345", 6)`, xml, String(""))
	execXml(t, `substring("12345", 5)`, xml, String("5"))
	execXml(t, `substring("12345", 100000000000000000000)`, xml, String(""))
	execXml(t, `substring("12345", 1 div 0)`, xml, String(""))
	execXml(t, `substring("12345", -1 div 0)`, xml, String("12345"))
	execXml(t, `substring("12345", -1 div 0, 5)`, xml, String(""))
	execXml(t, `substring("12345", 0 div 0)`, xml, String(""))
	execXml(t, `substring("12345", 0, 3)`, xml, String("12"))
	execXml(t, `substring("12345", 0.5, 1)`, xml, String("1"))
	execXml(t, `substring("", 1, 1)`, xml, String(""))
	execXml(t, "substring('é1', 2)", xml, String("1"))
	execXml(t, "substring('é1', 1, 1)", xml, String("é"))
	execXml(t, "substring('héllo 世界', 2, 3)", xml, String("éll"))
	execXml(t, "substring('héllo 世界', 7)", xml, String("世界"))
	execXml(t, "substring('héllo 世界', 8, 5)", xml, String("界"))
}
