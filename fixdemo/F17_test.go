// Copy into exec/ (package exec).
package exec

import "testing"

func TestDemoF17SumAddsFloatingPointNumbers(t *testing.T) {
	execXml(t, "sum(//a)", `<r><a>0.5</a><a>0.5</a></r>`, Number(1))
	execXml(t, "sum(//a)", `<r><a>1.25</a><a>2.5</a><a>-0.25</a></r>`, Number(3.5))
	execXml(t, "sum(//a)", `<r><a>1</a><a>2</a></r>`, Number(3))
	execXml(t, "sum(//b)", `<r><a>1</a></r>`, Number(0))
	execXmlNodesToString(t, "sum(//a)", `<r><a>1</a><a>x</a></r>`, "NaN")
}
