// Copy into exec/ (package exec).
package exec

import "testing"

func TestDemoF01AbsolutePathInsidePredicate(t *testing.T) {
	xml := `<r><a><b/></a><b/></r>`

	if n := execXmlNodes(t, "//b[/r]", xml); len(n) != 2 {
		t.Errorf("//b[/r]: expected 2 nodes, received %d", len(n))
	}

	if n := execXmlNodes(t, "//b[/b]", xml); len(n) != 0 {
		t.Errorf("//b[/b]: expected 0 nodes, received %d", len(n))
	}

	execXml(t, "count(//a/b[count(/r/b) = 1])", xml, Number(1))
}
