// Copy into exec/ (package exec).
package exec

import "testing"

func TestDemoF26NameOfProcessingInstructionsAndNamespaceNodes(t *testing.T) {
	xml := `<?target data?><r xmlns:p="u"><!--c-->text</r>`

	execXml(t, "name(/processing-instruction())", xml, String("target"))
	execXml(t, "local-name(/processing-instruction())", xml, String("target"))
	execXml(t, "namespace-uri(/processing-instruction())", xml, String(""))
	execXml(t, "/processing-instruction()/name()", xml, String("target"))
	execXml(t, "/processing-instruction()/local-name()", xml, String("target"))

	execXml(t, "name(/r/namespace::*[. = 'u'])", xml, String("p"))
	execXml(t, "local-name(/r/namespace::*[. = 'u'])", xml, String("p"))
	execXml(t, "namespace-uri(/r/namespace::*[. = 'u'])", xml, String(""))
	execXml(t, "name(/r/namespace::*[1])", xml, String("xml"))

	execXml(t, "name(/r/comment())", xml, String(""))
	execXml(t, "name(/r/text())", xml, String(""))
	execXml(t, "name(/)", xml, String(""))
	execXml(t, "name(/r)", xml, String("r"))
}
