// Copy into exec/ (package exec).
package exec

import "testing"

func TestDemoF09LastIsTheContextSize(t *testing.T) {
	xml := `<r><a><b>1</b><b>2</b><b>3</b></a></r>`

	execXmlNodesToString(t, "//a/b[last()]", xml, "3")
	execXml(t, "count(//a/b[last()])", xml, Number(1))
	execXml(t, "count(//a/b[position() = last()])", xml, Number(1))
	execXmlNodesToString(t, "//a/b[last() - 1]", xml, "2")
	execXml(t, "count(//a/b[last() = 3])", xml, Number(3))
	execXmlNodesToString(t, "//b[. > 1][last()]", xml, "3")
	execXml(t, "count(//b[. > 1][last() = 2])", xml, Number(2))
	execXml(t, "last()", xml, Number(1))
	execXml(t, "count(//a[last() = 1]/b[last() = 3])", xml, Number(3))
}
