// Copy into exec/ (package exec).
package exec

import (
	"math"
	"testing"
)

func TestDemoF12NaNIsFalse(t *testing.T) {
	if Number(math.NaN()).Bool() {
		t.Error("Number(NaN).Bool() must be false")
	}

	if Number(0).Bool() || Number(math.Copysign(0, -1)).Bool() {
		t.Error("Number(0).Bool() must be false")
	}

	if !Number(0.5).Bool() || !Number(math.Inf(-1)).Bool() {
		t.Error("non-zero numbers must be true")
	}

	xml := `<r/>`

	execXml(t, "not(0 div 0)", xml, Bool(true))
	execXml(t, "(0 div 0) or false()", xml, Bool(false))
	execXml(t, "number('x') and true()", xml, Bool(false))
	execXml(t, "true() = (0 div 0)", xml, Bool(false))
}
