// Copy into store/ (package store).
package store

import (
	"bytes"
	"errors"
	"io"
	"testing"

	"github.com/ChrisTrenkamp/xsel/parser"
)

func TestDemoF30TruncatedJsonIsAnError(t *testing.T) {
	truncated := []string{
		`{"a": [1, 2`,
		`{"a": [1, 2]`,
		`{"a": 1`,
		`{"a":`,
		`{"a"`,
		`{`,
		`[`,
		`[1,`,
		`[[1]`,
		`{"a": {"b": [`,
	}

	for _, in := range truncated {
		_, err := CreateInMemory(parser.ReadJson(bytes.NewBufferString(in)))

		if err == nil {
			t.Errorf("%s: accepted as a complete document", in)
		} else if !errors.Is(err, io.ErrUnexpectedEOF) {
			t.Logf("%s: rejected with %v", in, err)
		}
	}

	p := parser.ReadJson(bytes.NewBufferString(`{"a": [1, 2`))

	for i := 0; i < 20; i++ {
		_, _, err := p.Pull()

		if err == nil {
			continue
		}

		if err != io.ErrUnexpectedEOF {
			t.Errorf("Pull: expected io.ErrUnexpectedEOF, received %v", err)
		}

		break
	}

	complete := []string{`{"a": [1, 2]}`, `[]`, `{}`, `1`, `"x"`, `[1, {"b": null}]`, ``, ` `}

	for _, in := range complete {
		if _, err := CreateInMemory(parser.ReadJson(bytes.NewBufferString(in))); err != nil {
			t.Errorf("%s: %v", in, err)
		}
	}
}
