// Copy into exec/ (package exec).
package exec

import (
	"testing"

	"github.com/ChrisTrenkamp/xsel/node"
)

func TestDemoF02FilterExprFollowedByPath(t *testing.T) {
	xml := `<r><a><b>1</b></a><a><c><b>2</b></c></a></r>`

	nodes := execXmlNodes(t, "(//a)/b", xml)

	if len(nodes) != 1 {
		t.Fatalf("(//a)/b: expected 1 node, received %d", len(nodes))
	}

	if nodes[0].Node().(node.Element).Local() != "b" {
		t.Errorf("(//a)/b: expected element b, received %s", nodes[0].Node().(node.Element).Local())
	}

	nodes = execXmlNodes(t, "(//a)//b", xml)

	if len(nodes) != 2 {
		t.Fatalf("(//a)//b: expected 2 nodes, received %d", len(nodes))
	}

	for _, i := range nodes {
		if i.Node().(node.Element).Local() != "b" {
			t.Errorf("(//a)//b: expected element b, received %s", i.Node().(node.Element).Local())
		}
	}

	execXmlNodesToString(t, "(//a)[2]/c/b", xml, "2")
}
