#!/bin/bash
# usage: run.sh Fnn pkgdir TestName
export GOFLAGS=-mod=mod GOPROXY=off GOSUMDB=off GOTOOLCHAIN=local; unset GOWORK
cd /tmp/fixwt || exit 2
cp /tmp/fixdemo/$1_test.go ./$2/zz_demo_test.go
go test -vet=off -count=1 -run "$3" ./$2/ 2>&1 | grep -v conda | head -${4:-25}
rc=${PIPESTATUS[0]}
rm -f ./$2/zz_demo_test.go
echo "DEMO $1 rc=$rc"
