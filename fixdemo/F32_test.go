// Copy into exec/ (package exec).
package exec

import "testing"

func TestDemoF32FollowingOfAttributeIncludesChildrenOfItsElement(t *testing.T) {
	xml := `<r><p/><x a="1"><c><d/></c></x><y/></r>`

	execXml(t, "count(//x/@a/following::*)", xml, Number(3))
	execXml(t, "count(//x/@a/following::c)", xml, Number(1))
	execXml(t, "count(//x/@a/following::d)", xml, Number(1))
	execXml(t, "count(//x/@a/following::y)", xml, Number(1))
	execXml(t, "count(//x/@a/following::p)", xml, Number(0))
	execXml(t, "count(//x/namespace::*/following::*)", xml, Number(3))
	execXml(t, "count(//x/@a/preceding::*)", xml, Number(1))
	execXml(t, "count(//x/following::*)", xml, Number(1))
}
