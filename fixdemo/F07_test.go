// Copy into exec/ (package exec).
package exec

import "testing"

func TestDemoF07AttributeAxisIsInDocumentOrder(t *testing.T) {
	xml := `<r id="1"><a id="2"><b id="3"/></a></r>`

	nodes := execXmlNodes(t, "//b/ancestor-or-self::*/@id", xml)

	if len(nodes) != 3 {
		t.Fatalf("expected 3 attributes, received %d", len(nodes))
	}

	got := ""

	for _, i := range nodes {
		got += GetCursorString(i)
	}

	if got != "123" {
		t.Errorf("//b/ancestor-or-self::*/@id: expected document order 123, received %s", got)
	}

	execXmlNodesToString(t, "//b/ancestor::*/@id", xml, "1")
	execXmlNodesToString(t, "(//b/ancestor::*/@id)[1]", xml, "1")
}
