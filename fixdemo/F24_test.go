// Copy into store/ (package store).
package store

import (
	"bytes"
	"io"
	"runtime"
	"testing"

	"github.com/ChrisTrenkamp/xsel/node"
	"github.com/ChrisTrenkamp/xsel/parser"
)

type demoF24Text struct{}

func (demoF24Text) CharDataValue() string { return "x" }

type demoF24Elem struct{}

func (demoF24Elem) Space() string { return "" }
func (demoF24Elem) Local() string { return "e" }

// Emits <e/> "x" <e/> "x" ... and records the deepest call stack seen in Pull.
type demoF24Parser struct {
	events   int
	emitted  int
	maxDepth int
}

func (p *demoF24Parser) Pull() (node.Node, bool, error) {
	pcs := make([]uintptr, 256)

	if depth := runtime.Callers(0, pcs); depth > p.maxDepth {
		p.maxDepth = depth
	}

	if p.emitted == p.events {
		return nil, false, io.EOF
	}

	p.emitted++

	switch p.emitted % 3 {
	case 1:
		return demoF24Elem{}, false, nil
	case 2:
		return nil, true, nil
	}

	return demoF24Text{}, false, nil
}

func TestDemoF24StackDepthIsIndependentOfNodeCount(t *testing.T) {
	small := &demoF24Parser{events: 3}

	if _, err := CreateInMemory(small); err != nil {
		t.Fatal(err)
	}

	large := &demoF24Parser{events: 600}
	root, err := CreateInMemory(large)

	if err != nil {
		t.Fatal(err)
	}

	if len(root.Children()) != 400 {
		t.Errorf("expected 400 children, received %d", len(root.Children()))
	}

	if large.maxDepth != small.maxDepth {
		t.Errorf("stack depth grows with the number of nodes: %d frames for 3 events, %d (capped at 256) for 600 events", small.maxDepth, large.maxDepth)
	}
}

func TestDemoF24TreeIsUnchanged(t *testing.T) {
	xml := `<?pi x?><r a="1" b="2"><c><d>t</d><!--k--></c>u<e/></r><!--z-->`
	root, err := CreateInMemory(parser.ReadXml(bytes.NewBufferString(xml)))

	if err != nil {
		t.Fatal(err)
	}

	if len(root.Children()) != 3 {
		t.Fatalf("expected 3 children of the root, received %d", len(root.Children()))
	}

	r := root.Children()[1]

	if len(r.Attributes()) != 2 || len(r.Children()) != 3 {
		t.Fatalf("r: expected 2 attributes and 3 children, received %d and %d", len(r.Attributes()), len(r.Children()))
	}

	c := r.Children()[0]

	if len(c.Children()) != 2 || c.Parent().Pos() != r.Pos() {
		t.Errorf("c: expected 2 children and parent r")
	}

	d := c.Children()[0]

	if len(d.Children()) != 1 || d.Parent().Pos() != c.Pos() {
		t.Errorf("d: expected 1 child and parent c")
	}

	if _, ok := d.Children()[0].Node().(node.CharData); !ok {
		t.Errorf("d: child is not character data")
	}

	e := r.Children()[2]

	if e.Parent().Pos() != r.Pos() || len(e.Children()) != 0 {
		t.Errorf("e: expected parent r and no children")
	}

	if root.Children()[2].Parent().Pos() != 0 {
		t.Errorf("trailing comment: expected the root as parent")
	}

	last := -1

	for _, i := range []Cursor{root, root.Children()[0], r, r.Attributes()[0], r.Attributes()[1], c, d, d.Children()[0], c.Children()[1], r.Children()[1], e, root.Children()[2]} {
		if i.Pos() <= last {
			t.Errorf("positions are not ascending in document order: %d after %d", i.Pos(), last)
		}

		last = i.Pos()
	}

	_, err = CreateInMemory(parser.ReadXml(bytes.NewBufferString(`<r><a></b></r>`)))

	if err == nil {
		t.Errorf("expected a parse error to be reported")
	}
}
