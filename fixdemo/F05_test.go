// Copy into exec/ (package exec).
package exec

import "testing"

func TestDemoF05ChildrenOfRootHaveSiblings(t *testing.T) {
	xml := `<!--c1--><?pi x?><r><a/></r><!--c2-->`

	execXml(t, "count(/comment()[1]/following::*)", xml, Number(2))
	execXml(t, "count(/comment()[1]/following::node())", xml, Number(4))
	execXml(t, "count(/comment()[1]/following-sibling::node())", xml, Number(3))
	execXml(t, "count(/r/following-sibling::comment())", xml, Number(1))
	execXml(t, "count(/r/preceding-sibling::node())", xml, Number(2))
	execXml(t, "count(/comment()[2]/preceding::*)", xml, Number(2))
	execXml(t, "count(/comment()[2]/preceding::node())", xml, Number(4))
	execXml(t, "count(//a/following::comment())", xml, Number(1))
	execXml(t, "count(//a/preceding::node())", xml, Number(2))
	execXml(t, "count(/following::node() | /preceding::node() | /following-sibling::node() | /preceding-sibling::node())", xml, Number(0))
}
