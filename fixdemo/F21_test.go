// Copy into exec/ (package exec).
package exec

import "testing"

func TestDemoF21TranslateMapsCharactersInOnePass(t *testing.T) {
	xml := `<r/>`

	execXml(t, `translate("abc", "ab", "ba")`, xml, String("bac"))
	execXml(t, `translate("aabbcc", "abc", "bca")`, xml, String("bbccaa"))
	execXml(t, `translate("abc", "aa", "xy")`, xml, String("xbc"))
	execXml(t, `translate("abcabc", "ab", "b")`, xml, String("bcbc"))
	execXml(t, `translate("héllo", "é", "e")`, xml, String("hello"))
	execXml(t, `translate("hello", "e", "é")`, xml, String("héllo"))
	execXml(t, `translate("aéb", "éa", "xy")`, xml, String("yxb"))
	execXml(t, `translate("世界", "界", "")`, xml, String("世"))
	execXml(t, `translate("bar", "abc", "ABC")`, xml, String("BAr"))
	execXml(t, `translate("--aaa--", "abc-", "ABC")`, xml, String("AAA"))
	execXml(t, `translate("abc", "", "xyz")`, xml, String("abc"))
}
