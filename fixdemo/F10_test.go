// Copy into exec/ (package exec).
package exec

import (
	"testing"

	"bytes"
	"github.com/ChrisTrenkamp/xsel/grammar"
	"github.com/ChrisTrenkamp/xsel/parser"
	"github.com/ChrisTrenkamp/xsel/store"
)

func TestDemoF10BooleanFunctionExists(t *testing.T) {
	xml := `<r><a/></r>`

	execXml(t, "boolean(1)", xml, Bool(true))
	execXml(t, "boolean(0)", xml, Bool(false))
	execXml(t, "boolean('')", xml, Bool(false))
	execXml(t, "boolean('x')", xml, Bool(true))
	execXml(t, "boolean(//a)", xml, Bool(true))
	execXml(t, "boolean(//b)", xml, Bool(false))
	execXml(t, "count(//a[boolean(..)])", xml, Number(1))

	cursor, err := store.CreateInMemory(parser.ReadXml(bytes.NewBufferString(xml)))

	if err != nil {
		t.Fatal(err)
	}

	for _, q := range []string{"boolean()", "boolean(1, 2)"} {
		xpath := grammar.MustBuild(q)

		if _, err := Exec(cursor, &xpath); err == nil {
			t.Errorf("%s: expected an error", q)
		}
	}
}
