// Copy into exec/ (package exec).
package exec

import "testing"

func TestDemoF14FirstNodeIsFirstInDocumentOrder(t *testing.T) {
	xml := `<r>1<a>2<b>3</b></a></r>`

	execXml(t, "string(//b/ancestor::*)", xml, String("123"))
	execXmlNodesToString(t, "//b/ancestor::*", xml, "123")
	execXml(t, "name(//b/ancestor::*)", xml, String("r"))
	execXml(t, "local-name(//b/ancestor-or-self::*)", xml, String("r"))
	execXml(t, "number(//b/ancestor::*)", xml, Number(123))
	execXml(t, "concat(//b/ancestor::*, '')", xml, String("123"))

	xml = `<r><x>1</x><y>2</y><z>3</z></r>`

	execXml(t, "string(//z/preceding-sibling::*)", xml, String("1"))
	execXml(t, "name(//z/preceding::*)", xml, String("x"))
	execXml(t, "string(//x/following-sibling::*)", xml, String("2"))
}
