// Copy into exec/ (package exec).
package exec

import "testing"

func TestDemoF27LangIsCaseInsensitivePrefixMatch(t *testing.T) {
	xml := `<r>
<p xml:lang="zh-TW" x="1">a</p>
<p xml:lang="EN-us">b</p>
<p xml:lang="eng">c</p>
<p xml:lang="sr-Latn-RS">d</p>
<p xml:lang="en-GB-oed">e</p>
<p xml:lang="de"><q xml:lang="fr"><s/></q><q xml:lang=""><s/></q></p>
</r>`

	execXml(t, "count(//p[lang('zh')])", xml, Number(1))
	execXml(t, "count(//p[lang('ZH-tw')])", xml, Number(1))
	execXml(t, "count(//p[lang('zh-CN')])", xml, Number(0))
	execXml(t, "count(//p[lang('zh-Hant')])", xml, Number(0))
	execXml(t, "count(//p[lang('en')])", xml, Number(2))
	execXml(t, "count(//p[lang('en-US')])", xml, Number(1))
	execXml(t, "count(//p[lang('en-gb')])", xml, Number(1))
	execXml(t, "count(//p[lang('en-GB-oed')])", xml, Number(1))
	execXml(t, "count(//p[lang('eng')])", xml, Number(1))
	execXml(t, "count(//p[lang('sr')])", xml, Number(1))
	execXml(t, "count(//p[lang('sr-Latn')])", xml, Number(1))
	execXml(t, "count(//p[lang('sr-RS')])", xml, Number(0))
	execXml(t, "count(//p[lang('sr-Cyrl')])", xml, Number(0))
	execXml(t, "count(//p[lang('e')])", xml, Number(0))
	execXml(t, "count(//p/@x[lang('zh')])", xml, Number(1))
	execXml(t, "count(//s[lang('fr')])", xml, Number(1))
	execXml(t, "count(//s[lang('de')])", xml, Number(0))
	execXml(t, "count(//r[lang('en')])", xml, Number(0))
}
