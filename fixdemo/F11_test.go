// Copy into exec/ (package exec).
package exec

import (
	"math"
	"strings"
	"testing"
)

func TestDemoF11StringToNumberFollowsXPathNumberSyntax(t *testing.T) {
	valid := map[string]float64{
		"1":                            1,
		" 1 ":                          1,
		"\t\r\n 12.5\n":                12.5,
		"-1":                           -1,
		"  -1.5":                       -1.5,
		"1.":                           1,
		".5":                           0.5,
		"-.5":                          -0.5,
		"007":                          7,
		"0.0":                          0,
		"1" + strings.Repeat("0", 400): math.Inf(1),
	}

	for in, expected := range valid {
		if got := String(in).Number(); got != expected {
			t.Errorf("String(%q).Number(): expected %v, received %v", in, expected, got)
		}

		if got := getStringNumber(in); got != expected {
			t.Errorf("getStringNumber(%q): expected %v, received %v", in, expected, got)
		}
	}

	invalid := []string{
		"", " ", ".", "-", "- 1", "+1", "1e3", "1E3", "0x10", "Inf", "+Inf", "-Inf", "Infinity", "NaN", "nan",
		"1_0", "1 2", "1..2", "1.2.3", "--1", "1-", "\u00a01", "1\u00a0", "\v1", "\f1", "0b1", "0o7", "1,5", "\u0661",
	}

	for _, in := range invalid {
		if got := String(in).Number(); !math.IsNaN(got) {
			t.Errorf("String(%q).Number(): expected NaN, received %v", in, got)
		}

		if got := getStringNumber(in); !math.IsNaN(got) {
			t.Errorf("getStringNumber(%q): expected NaN, received %v", in, got)
		}
	}

	xml := `<r><a> 1 </a><b>1e3</b><c>0x10</c></r>`

	execXml(t, "number(' 1 ')", xml, Number(1))
	execXml(t, "number(//a) + 1", xml, Number(2))
	execXml(t, "//a = 1", xml, Bool(true))
	execXmlNodesToString(t, "number('1e3')", xml, "NaN")
	execXmlNodesToString(t, "number(//b)", xml, "NaN")
	execXmlNodesToString(t, "number(//c)", xml, "NaN")
	execXmlNodesToString(t, "number('Inf')", xml, "NaN")
	execXml(t, "//b = 1000", xml, Bool(false))
}
