package main

import (
	"fmt"
	"go/ast"
	"go/constant"
	"go/token"
	"go/types"
	"os"
	"path/filepath"
	"sort"
	"strings"

	"golang.org/x/tools/go/callgraph"
	"golang.org/x/tools/go/callgraph/cha"
	"golang.org/x/tools/go/callgraph/vta"
	"golang.org/x/tools/go/packages"
	"golang.org/x/tools/go/ssa"
	"golang.org/x/tools/go/ssa/ssautil"
)

const modPath = "github.com/ChrisTrenkamp/xsel"

// World is the loaded, type-checked, SSA-converted program under analysis plus
// the obligations produced so far.
type World struct {
	RepoDir   string
	Tier      string
	Fset      *token.FileSet
	Pkgs      map[string]*packages.Package // keyed by path relative to the module ("" = root package, "exec", "xsel", ...)
	Prog      *ssa.Program
	SSA       map[string]*ssa.Package
	paramBind map[*ssa.Parameter]*ssa.Function

	NumFuncs  int
	NumInstrs int

	cg *callgraph.Graph

	Obs    []*Obligation
	floors map[string]int
	facts  *Facts
}

func relKey(pkgPath string) (string, bool) {
	if pkgPath == modPath {
		return "", true
	}
	if strings.HasPrefix(pkgPath, modPath+"/") {
		return strings.TrimPrefix(pkgPath, modPath+"/"), true
	}
	return "", false
}

func loadWorld(repo, tier string, tags string) (*World, error) {
	env := []string{}
	for _, e := range os.Environ() {
		if strings.HasPrefix(e, "GOWORK=") || strings.HasPrefix(e, "GOFLAGS=") {
			continue
		}
		env = append(env, e)
	}
	env = append(env, "GOFLAGS=-mod=mod", "GOPROXY=off", "GOSUMDB=off", "GOTOOLCHAIN=local", "GOWORK=off")
	cfg := &packages.Config{
		Mode:  packages.LoadAllSyntax,
		Dir:   repo,
		Env:   env,
		Tests: false,
	}
	if tags != "" {
		cfg.BuildFlags = []string{"-tags", tags}
	}
	pkgs, err := packages.Load(cfg, "./...")
	if err != nil {
		return nil, err
	}
	w := &World{RepoDir: repo, Tier: tier, Pkgs: map[string]*packages.Package{}, SSA: map[string]*ssa.Package{}, floors: map[string]int{}}
	var errs []string
	for _, p := range pkgs {
		for _, e := range p.Errors {
			errs = append(errs, e.Error())
		}
		if k, ok := relKey(p.PkgPath); ok {
			w.Pkgs[k] = p
		}
		w.Fset = p.Fset
	}
	if len(errs) > 0 {
		return nil, fmt.Errorf("load/type errors: %s", strings.Join(errs, "; "))
	}
	if len(w.Pkgs) < 14 {
		return nil, fmt.Errorf("expected at least 14 repository packages, loaded %d", len(w.Pkgs))
	}
	prog, spkgs := ssautil.AllPackages(pkgs, ssa.InstantiateGenerics)
	prog.Build()
	w.Prog = prog
	for i, p := range pkgs {
		if k, ok := relKey(p.PkgPath); ok {
			if spkgs[i] == nil {
				return nil, fmt.Errorf("no SSA for %s", p.PkgPath)
			}
			w.SSA[k] = spkgs[i]
		}
	}
	for fn := range ssautil.AllFunctions(prog) {
		if fn.Pkg != nil {
			if _, ok := relKey(fn.Pkg.Pkg.Path()); ok {
				w.NumFuncs++
				for _, b := range fn.Blocks {
					w.NumInstrs += len(b.Instrs)
				}
			}
		}
	}
	theWorld = w
	return w, nil
}

// CallGraph returns the VTA call graph seeded with CHA (built lazily).
func (w *World) CallGraph() *callgraph.Graph {
	if w.cg == nil {
		w.cg = vta.CallGraph(ssautil.AllFunctions(w.Prog), cha.CallGraph(w.Prog))
	}
	return w.cg
}

// pos renders a position relative to the repository root.
func (w *World) pos(p token.Pos) string {
	if !p.IsValid() {
		return "-"
	}
	pp := w.Fset.Position(p)
	rel, err := filepath.Rel(w.RepoDir, pp.Filename)
	if err != nil {
		rel = pp.Filename
	}
	return fmt.Sprintf("%s:%d", rel, pp.Line)
}

func (w *World) fnPos(fn *ssa.Function) token.Pos {
	if fn == nil {
		return token.NoPos
	}
	if fn.Pos().IsValid() {
		return fn.Pos()
	}
	if fn.Parent() != nil {
		return w.fnPos(fn.Parent())
	}
	return token.NoPos
}

// inRepo reports whether fn belongs to the analysed module.
func inRepo(fn *ssa.Function) bool {
	if fn == nil {
		return false
	}
	if fn.Pkg == nil {
		if fn.Parent() != nil {
			return inRepo(fn.Parent())
		}
		// synthetic wrappers, bound methods: look at the object
		if o := fn.Object(); o != nil && o.Pkg() != nil {
			_, ok := relKey(o.Pkg().Path())
			return ok
		}
		return false
	}
	_, ok := relKey(fn.Pkg.Pkg.Path())
	return ok
}

func fnPkgKey(fn *ssa.Function) string {
	for fn != nil && fn.Pkg == nil && fn.Parent() != nil {
		fn = fn.Parent()
	}
	if fn == nil {
		return "?"
	}
	if fn.Pkg == nil {
		if o := fn.Object(); o != nil && o.Pkg() != nil {
			k, _ := relKey(o.Pkg().Path())
			return k
		}
		return "?"
	}
	k, _ := relKey(fn.Pkg.Pkg.Path())
	return k
}

// member looks up a package-level function by name (used only for public API
// names and documented entry points).
func (w *World) member(pkg, name string) *ssa.Function {
	p := w.SSA[pkg]
	if p == nil {
		return nil
	}
	return p.Func(name)
}

func (w *World) global(pkg, name string) *ssa.Global {
	p := w.SSA[pkg]
	if p == nil {
		return nil
	}
	g, _ := p.Members[name].(*ssa.Global)
	return g
}

// method finds the method name on named type typ (value or pointer receiver) of package pkg.
func (w *World) method(pkg, typ, name string) *ssa.Function {
	p := w.Pkgs[pkg]
	if p == nil {
		return nil
	}
	obj := p.Types.Scope().Lookup(typ)
	if obj == nil {
		return nil
	}
	for _, t := range []types.Type{obj.Type(), types.NewPointer(obj.Type())} {
		ms := w.Prog.MethodSets.MethodSet(t)
		for i := 0; i < ms.Len(); i++ {
			if ms.At(i).Obj().Name() == name {
				return w.Prog.MethodValue(ms.At(i))
			}
		}
	}
	return nil
}

// pullOf: the Pull method of the concrete parser type that the exported constructor parser.<ctor> (or a helper it
// returns through) hands out as a parser.Parser: found through the MakeInterface in its returns, never by type name.
func (w *World) pullOf(ctor string) *ssa.Function {
	fn := w.member("parser", ctor)
	if fn == nil {
		return nil
	}
	var out *ssa.Function
	seen := map[*ssa.Function]bool{}
	var visit func(g *ssa.Function)
	visit = func(g *ssa.Function) {
		if g == nil || seen[g] || out != nil {
			return
		}
		seen[g] = true
		allInstrs(g, func(in ssa.Instruction) {
			ret, ok := in.(*ssa.Return)
			if !ok || len(ret.Results) == 0 {
				return
			}
			switch v := ret.Results[0].(type) {
			case *ssa.MakeInterface:
				ms := w.Prog.MethodSets.MethodSet(v.X.Type())
				for i := 0; i < ms.Len(); i++ {
					if ms.At(i).Obj().Name() == "Pull" {
						out = w.Prog.MethodValue(ms.At(i))
					}
				}
			case *ssa.Call:
				if sc := staticCallee(v); sc != nil && fnPkgKey(sc) == "parser" {
					visit(sc)
				}
			}
		})
	}
	visit(fn)
	return out
}

// ---------- generic SSA helpers ----------

func allInstrs(fn *ssa.Function, f func(ssa.Instruction)) {
	if fn == nil {
		return
	}
	for _, b := range fn.Blocks {
		for _, in := range b.Instrs {
			f(in)
		}
	}
}

// staticCallee resolves the callee of a call instruction when it is static
// (function value, closure or bound method of known function).
// staticCallee: the function a call runs when that is known statically: a direct call, or the call of a function-valued
// parameter of a repository function that has exactly one call site, is never used as a value, and is handed a function
// or a function literal there (a driver such as `forEachNode(ctx, set, func(next) error {...})`: the call of the
// parameter inside the driver runs that literal, with the driver's arguments as its parameters).
func staticCallee(c ssa.CallInstruction) *ssa.Function {
	if sc := c.Common().StaticCallee(); sc != nil {
		return sc
	}
	cc := c.Common()
	if cc.IsInvoke() {
		return nil
	}
	if p, ok := cc.Value.(*ssa.Parameter); ok && theWorld != nil {
		return theWorld.paramCallBinding()[p]
	}
	return nil
}

func (w *World) paramCallBinding() map[*ssa.Parameter]*ssa.Function {
	if w.paramBind != nil {
		return w.paramBind
	}
	w.paramBind = map[*ssa.Parameter]*ssa.Function{}
	sites := map[*ssa.Function][]ssa.CallInstruction{}
	asValue := map[*ssa.Function]bool{}
	var keys []string
	for k := range w.SSA {
		keys = append(keys, k)
	}
	sort.Strings(keys)
	for _, k := range keys {
		w.forAllFuncs(k, func(fn *ssa.Function) {
			allInstrs(fn, func(in ssa.Instruction) {
				var callee *ssa.Function
				if ci, ok := in.(ssa.CallInstruction); ok {
					callee = ci.Common().StaticCallee()
					if callee != nil && inRepo(callee) {
						sites[callee] = append(sites[callee], ci)
					}
				}
				for _, op := range in.Operands(nil) {
					if f, ok := (*op).(*ssa.Function); ok && f != callee {
						asValue[f] = true
					}
				}
			})
		})
	}
	for f, ss := range sites {
		if len(ss) != 1 || asValue[f] || len(f.Blocks) == 0 {
			continue
		}
		args := ss[0].Common().Args
		for i, p := range f.Params {
			if i >= len(args) {
				break
			}
			if _, isSig := p.Type().Underlying().(*types.Signature); !isSig {
				continue
			}
			switch x := args[i].(type) {
			case *ssa.Function:
				w.paramBind[p] = x
			case *ssa.MakeClosure:
				if g, ok := x.Fn.(*ssa.Function); ok {
					w.paramBind[p] = g
				}
			}
		}
	}
	return w.paramBind
}

// calleeName returns pkgpath.Name or (recv).Name for a static callee, "" otherwise.
func calleeName(c ssa.CallInstruction) string {
	if f := staticCallee(c); f != nil {
		return funcFullName(f)
	}
	cc := c.Common()
	if cc.IsInvoke() {
		return "invoke " + cc.Method.FullName()
	}
	return ""
}

func funcFullName(f *ssa.Function) string {
	if f == nil {
		return ""
	}
	if o := f.Object(); o != nil {
		if fo, ok := o.(*types.Func); ok {
			return fo.FullName()
		}
	}
	return f.String()
}

// stripConv peels value-preserving wrappers.
func stripConv(v ssa.Value) ssa.Value {
	for {
		switch x := v.(type) {
		case *ssa.ChangeType:
			v = x.X
		case *ssa.MakeInterface:
			v = x.X
		case *ssa.ChangeInterface:
			v = x.X
		default:
			return v
		}
	}
}

// stripConvAll additionally peels numeric/string conversions.
func stripConvAll(v ssa.Value) ssa.Value {
	for {
		switch x := v.(type) {
		case *ssa.ChangeType:
			v = x.X
		case *ssa.MakeInterface:
			v = x.X
		case *ssa.ChangeInterface:
			v = x.X
		case *ssa.Convert:
			v = x.X
		default:
			return v
		}
	}
}

func constString(v ssa.Value) (string, bool) {
	c, ok := stripConvAll(v).(*ssa.Const)
	if !ok || c.Value == nil || c.Value.Kind() != constant.String {
		return "", false
	}
	return constant.StringVal(c.Value), true
}

func constInt(v ssa.Value) (int64, bool) {
	c, ok := stripConvAll(v).(*ssa.Const)
	if !ok || c.Value == nil {
		return 0, false
	}
	if c.Value.Kind() == constant.Int {
		i, ok := constant.Int64Val(c.Value)
		return i, ok
	}
	if c.Value.Kind() == constant.Float {
		f, _ := constant.Float64Val(c.Value)
		if f == float64(int64(f)) {
			return int64(f), true
		}
	}
	return 0, false
}

func constFloat(v ssa.Value) (float64, bool) {
	c, ok := stripConvAll(v).(*ssa.Const)
	if !ok || c.Value == nil {
		return 0, false
	}
	switch c.Value.Kind() {
	case constant.Int, constant.Float:
		f, _ := constant.Float64Val(c.Value)
		return f, true
	}
	return 0, false
}

func isNilConst(v ssa.Value) bool {
	c, ok := v.(*ssa.Const)
	return ok && c.Value == nil
}

// edgeGuard describes "block b executes only if cond had polarity pol".
type edgeGuard struct {
	Cond ssa.Value
	Pol  bool
	If   *ssa.If
}

// guardsOf returns every (condition, polarity) whose branch edge dominates block b.
// An edge (p -> s) dominates b when s dominates b and p is the only predecessor of s
// that is not itself dominated by s (loop back-edges do not count).
func guardsOf(b *ssa.BasicBlock) []edgeGuard {
	var out []edgeGuard
	fn := b.Parent()
	for _, p := range fn.Blocks {
		if len(p.Instrs) == 0 {
			continue
		}
		ifi, ok := p.Instrs[len(p.Instrs)-1].(*ssa.If)
		if !ok {
			continue
		}
		for si, s := range p.Succs {
			if !s.Dominates(b) {
				continue
			}
			if p.Succs[0] == p.Succs[1] {
				continue
			}
			okEdge := true
			for _, q := range s.Preds {
				if q == p {
					continue
				}
				if !s.Dominates(q) {
					okEdge = false
					break
				}
			}
			if !okEdge {
				continue
			}
			out = append(out, edgeGuard{Cond: ifi.Cond, Pol: si == 0, If: ifi})
		}
	}
	return out
}

// atom is a normalised leaf condition: cond must evaluate to pol.
type atom struct {
	V   ssa.Value
	Pol bool
	// Bind: when the atom was read out of a one-line predicate helper (`isRoot(c)` for `c.Pos() == 0`), the helper's
	// parameters and the arguments the guarded call passed for them; resolve() maps a value of the helper back to
	// the caller's frame.
	Bind *map[ssa.Value]ssa.Value
}

// resolve reads v, a value that occurs in the atom, in the frame of the function the atom guards.
func (a atom) resolve(v ssa.Value) ssa.Value {
	for i := 0; i < 3 && a.Bind != nil; i++ {
		w, ok := (*a.Bind)[v]
		if !ok {
			break
		}
		v = w
	}
	return v
}

// guardAtoms expands the guards of b through boolean negation: a guard
// "!(x) is true" becomes "x is false". Short-circuit && and || are already
// separate blocks in SSA, except when materialised into phis; for those we expand
// conservatively: phi of (false-const on some edges, value on the other) under
// polarity true implies the value.
func guardAtoms(b *ssa.BasicBlock) []atom {
	ex := &atomExpander{seen: map[ssa.Value]bool{}}
	for _, g := range guardsOf(b) {
		ex.add(g.Cond, g.Pol)
	}
	return ex.out
}

// valueAtoms: what follows from the boolean value v having the value pol (same expansion as for branch conditions).
func valueAtoms(v ssa.Value, pol bool) []atom {
	ex := &atomExpander{seen: map[ssa.Value]bool{}}
	ex.add(v, pol)
	return ex.out
}

type atomExpander struct {
	out   []atom
	seen  map[ssa.Value]bool
	depth int
}

func (ex *atomExpander) add(v ssa.Value, pol bool) {
	if u, ok := v.(*ssa.UnOp); ok && u.Op == token.NOT {
		ex.add(u.X, !pol)
		return
	}
	if ex.seen[v] {
		return
	}
	ex.seen[v] = true
	ex.out = append(ex.out, atom{V: v, Pol: pol})
	// a boolean handed back by a helper of the repository: what is known on every path of the helper that returns
	// this value (`if n, ok := x.pending(); ok` - the caller's else-branch knows what made pending say no)
	if ex.depth < 2 {
		var call *ssa.Call
		idx := 0
		switch x := v.(type) {
		case *ssa.Extract:
			call, _ = x.Tuple.(*ssa.Call)
			idx = x.Index
		case *ssa.Call:
			call = x
		}
		if call != nil {
			if g := staticCallee(call); g != nil && inRepo(g) && len(g.Blocks) > 0 && idx < g.Signature.Results().Len() {
				if b, ok := g.Signature.Results().At(idx).Type().Underlying().(*types.Basic); ok && b.Kind() == types.Bool {
					var sets [][]atom
					open := false
					allInstrs(g, func(in ssa.Instruction) {
						ret, ok := in.(*ssa.Return)
						if !ok || idx >= len(ret.Results) {
							return
						}
						c, isC := ret.Results[idx].(*ssa.Const)
						if !isC || c.Value == nil {
							open = true // a computed value: nothing can be said
							return
						}
						if (c.Value.String() == "true") == pol {
							sub := &atomExpander{seen: map[ssa.Value]bool{}, depth: ex.depth + 1}
							for _, gd := range guardsOf(ret.Block()) {
								sub.add(gd.Cond, gd.Pol)
							}
							sets = append(sets, sub.out)
						}
					})
					if open {
						// a one-line predicate: the helper's only return hands back an expression over its
						// parameters - the caller knows that expression, read with the arguments it passed
						var only *ssa.Return
						nRet := 0
						allInstrs(g, func(in ssa.Instruction) {
							if ret, ok := in.(*ssa.Return); ok {
								nRet++
								only = ret
							}
						})
						if nRet == 1 && len(g.Blocks) <= 4 && idx < len(only.Results) && len(call.Call.Args) == len(g.Params) {
							sub := &atomExpander{seen: map[ssa.Value]bool{}, depth: ex.depth + 1}
							sub.add(only.Results[idx], pol)
							bind := map[ssa.Value]ssa.Value{}
							for i, p := range g.Params {
								bind[p] = call.Call.Args[i]
							}
							for _, a := range sub.out {
								if ex.seen[a.V] {
									continue
								}
								ex.seen[a.V] = true
								nb := bind
								if a.Bind != nil {
									nb = map[ssa.Value]ssa.Value{}
									for k, v := range *a.Bind {
										nb[k] = v
									}
									for k, v := range bind {
										nb[k] = v
									}
								}
								nbp := nb
								ex.out = append(ex.out, atom{V: a.V, Pol: a.Pol, Bind: &nbp})
							}
						}
					}
					if !open && len(sets) > 0 {
						// what all those paths agree on
						for _, a := range sets[0] {
							all := true
							for _, other := range sets[1:] {
								found := false
								for _, b := range other {
									if b.V == a.V && b.Pol == a.Pol {
										found = true
									}
								}
								if !found {
									all = false
								}
							}
							if all && !ex.seen[a.V] {
								ex.seen[a.V] = true
								ex.out = append(ex.out, a)
							}
						}
					}
				}
			}
		}
	}
	if phi, ok := v.(*ssa.Phi); ok {
		// a && b  ==> phi [false, b] ; a || b ==> phi [true, b]
		var nonConst []ssa.Value
		constVal := -1
		mixed := false
		for _, e := range phi.Edges {
			if c, ok := e.(*ssa.Const); ok && c.Value != nil && c.Value.Kind() == constant.Bool {
				cv := 0
				if constant.BoolVal(c.Value) {
					cv = 1
				}
				if constVal >= 0 && constVal != cv {
					mixed = true
				}
				constVal = cv
			} else {
				nonConst = append(nonConst, e)
			}
		}
		if !mixed && constVal >= 0 && len(nonConst) >= 1 {
			// and-chain: const false; phi true => all nonConst true and the guards of their blocks hold
			if (constVal == 0 && pol) || (constVal == 1 && !pol) {
				if len(nonConst) == 1 {
					ex.add(nonConst[0], pol)
					// the block computing nonConst[0] is reached only under the earlier conjuncts
					for i, e := range phi.Edges {
						if e == nonConst[0] {
							pb := phi.Block().Preds[i]
							for _, g := range guardsOf(pb) {
								ex.add(g.Cond, g.Pol)
							}
							// the edge itself may be the true/false edge of an If in pb
							if len(pb.Instrs) > 0 {
								if ifi, ok := pb.Instrs[len(pb.Instrs)-1].(*ssa.If); ok && len(pb.Succs) == 2 && pb.Succs[0] != pb.Succs[1] {
									if pb.Succs[0] == phi.Block() {
										ex.add(ifi.Cond, true)
									} else if pb.Succs[1] == phi.Block() {
										ex.add(ifi.Cond, false)
									}
								}
							}
						}
					}
				}
			}
		}
	}
}

// reachableRepo computes the set of repository functions reachable from roots through
// static calls, closures, and (via the VTA call graph) dynamic calls.
func (w *World) reachableRepo(roots ...*ssa.Function) map[*ssa.Function]bool {
	cg := w.CallGraph()
	seen := map[*ssa.Function]bool{}
	var walk func(f *ssa.Function)
	walk = func(f *ssa.Function) {
		if f == nil || seen[f] {
			return
		}
		seen[f] = true
		if n := cg.Nodes[f]; n != nil {
			for _, e := range n.Out {
				if inRepo(e.Callee.Func) {
					walk(e.Callee.Func)
				}
			}
		}
		for _, af := range f.AnonFuncs {
			walk(af)
		}
	}
	for _, r := range roots {
		walk(r)
	}
	return seen
}

// staticReach: reachability through static calls and closures only (no dynamic dispatch),
// restricted to functions satisfying keep.
func staticReach(root *ssa.Function, keep func(*ssa.Function) bool) map[*ssa.Function]bool {
	seen := map[*ssa.Function]bool{}
	var walk func(f *ssa.Function)
	walk = func(f *ssa.Function) {
		if f == nil || seen[f] || !keep(f) {
			return
		}
		seen[f] = true
		allInstrs(f, func(in ssa.Instruction) {
			if c, ok := in.(ssa.CallInstruction); ok {
				if sc := staticCallee(c); sc != nil {
					walk(sc)
				}
			}
			if mc, ok := in.(*ssa.MakeClosure); ok {
				if f2, ok := mc.Fn.(*ssa.Function); ok {
					walk(f2)
				}
			}
			// functions handed on as values (the per-node step of a loop driver, a predicate of a filter helper)
			// are called by whoever receives them: they belong to the closure too
			for _, op := range in.Operands(nil) {
				if f2, ok := (*op).(*ssa.Function); ok {
					walk(f2)
				}
			}
		})
	}
	walk(root)
	return seen
}

func sortedFuncNames(m map[*ssa.Function]bool) []string {
	var s []string
	for f := range m {
		s = append(s, funcFullName(f))
	}
	sort.Strings(s)
	return s
}

// astFuncDecl finds the syntax of an SSA function.
func astFuncDecl(fn *ssa.Function) *ast.FuncDecl {
	if fn == nil {
		return nil
	}
	if d, ok := fn.Syntax().(*ast.FuncDecl); ok {
		return d
	}
	return nil
}

// referrers returns the referrers of v (nil-safe).
func referrers(v ssa.Value) []ssa.Instruction {
	r := v.Referrers()
	if r == nil {
		return nil
	}
	return *r
}

// isInvokeOf reports whether call is an interface method invocation (or a static call to a
// concrete method) with the given method name, returning the receiver.
func isMethodCall(v ssa.Value, name string) (recv ssa.Value, ok bool) {
	c, isCall := v.(*ssa.Call)
	if !isCall {
		return nil, false
	}
	cc := c.Common()
	if cc.IsInvoke() {
		if cc.Method.Name() == name {
			return cc.Value, true
		}
		return nil, false
	}
	if f := cc.StaticCallee(); f != nil && f.Signature.Recv() != nil && f.Name() == name && len(cc.Args) > 0 {
		return cc.Args[0], true
	}
	return nil, false
}

// typeSwitchArms: for every block of fn, the set of type assertions one of which must have succeeded on every path
// from the entry to the block ("the block belongs to the arm(s) of these assertions"). Unlike dominance this also
// covers the body of a multi-type case (`case A, B:`), which is entered from the ok-edge of either assertion.
// Forward must-analysis: the ok-edge of an assertion yields {that assertion}; other edges pass the set of their
// source block on; a block's set is empty as soon as one incoming edge carries the empty set, else the union.
func typeSwitchArms(fn *ssa.Function) map[*ssa.BasicBlock]map[*ssa.TypeAssert]bool {
	type set = map[*ssa.TypeAssert]bool
	const unknown = 0
	state := map[*ssa.BasicBlock]int{} // 0 unknown (top), 1 known
	val := map[*ssa.BasicBlock]set{}
	okEdge := func(from *ssa.BasicBlock, succIdx int) *ssa.TypeAssert {
		if len(from.Instrs) == 0 || succIdx != 0 {
			return nil
		}
		ifi, ok := from.Instrs[len(from.Instrs)-1].(*ssa.If)
		if !ok {
			return nil
		}
		ex, ok := ifi.Cond.(*ssa.Extract)
		if !ok || ex.Index != 1 {
			return nil
		}
		ta, _ := ex.Tuple.(*ssa.TypeAssert)
		return ta
	}
	if len(fn.Blocks) == 0 {
		return val
	}
	state[fn.Blocks[0]] = 1
	val[fn.Blocks[0]] = set{}
	for changed := true; changed; {
		changed = false
		for _, b := range fn.Blocks[1:] {
			empty := false
			u := set{}
			any := false
			for _, p := range b.Preds {
				for si, sc := range p.Succs {
					if sc != b {
						continue
					}
					if ta := okEdge(p, si); ta != nil {
						u[ta] = true
						any = true
						continue
					}
					if state[p] == unknown {
						continue
					}
					any = true
					if len(val[p]) == 0 {
						empty = true
					}
					for k := range val[p] {
						u[k] = true
					}
				}
			}
			if !any {
				continue
			}
			if empty {
				u = set{}
			}
			if state[b] == unknown || len(u) != len(val[b]) {
				state[b] = 1
				val[b] = u
				changed = true
			}
		}
	}
	return val
}

// withCallees visits the instructions of the given blocks and, transitively, of the functions of package pkgKey that
// are called statically from them (not the enclosing function itself, not the expression dispatcher): a region of
// code together with the helpers it was split into.
func withCallees(blocks []*ssa.BasicBlock, pkgKey string, self *ssa.Function, visit func(ssa.Instruction)) {
	seen := map[*ssa.Function]bool{self: true}
	var visitFn func(g *ssa.Function, depth int)
	enter := func(sc *ssa.Function, depth int) {
		if sc == nil || fnPkgKey(sc) != pkgKey || seen[sc] || depth >= 6 {
			return
		}
		if theWorld != nil && sc == theWorld.Roles().ExecContext {
			return
		}
		seen[sc] = true
		visitFn(sc, depth+1)
	}
	handle := func(in ssa.Instruction, depth int) {
		visit(in)
		if c, ok := in.(ssa.CallInstruction); ok {
			enter(staticCallee(c), depth)
		}
		// function literals created here and functions handed on as values run on behalf of this region
		if mc, ok := in.(*ssa.MakeClosure); ok {
			if f2, ok := mc.Fn.(*ssa.Function); ok {
				enter(f2, depth)
			}
		}
		for _, op := range in.Operands(nil) {
			if f2, ok := (*op).(*ssa.Function); ok {
				enter(f2, depth)
			}
		}
	}
	visitFn = func(g *ssa.Function, depth int) {
		for _, b := range g.Blocks {
			for _, in := range b.Instrs {
				handle(in, depth)
			}
		}
	}
	for _, b := range blocks {
		for _, in := range b.Instrs {
			handle(in, 0)
		}
	}
}

// throughCells follows a value that was read from a variable cell back to the value assigned to it: go/ssa keeps
// every variable captured by a function literal in a heap cell, so `x := f(); g(func() { use(x) })` reads x through
// a FreeVar in the literal and through the cell in the enclosing function. Only cells with a single assignment that
// the literals merely read are followed.
func throughCells(v ssa.Value) ssa.Value {
	for i := 0; i < 6; i++ {
		ld, ok := v.(*ssa.UnOp)
		if !ok || ld.Op != token.MUL {
			return v
		}
		var cell ssa.Value = ld.X
		if fv, ok := cell.(*ssa.FreeVar); ok {
			b := freeVarBinding(fv)
			if b == nil {
				return v
			}
			cell = b
		}
		vals, ok := scalarCell(cell)
		if !ok || len(vals) != 1 {
			return v
		}
		v = vals[0]
	}
	return v
}

// freeVarBinding: the value bound to fv where its function literal is created (nil when it is created in more than
// one place).
func freeVarBinding(fv *ssa.FreeVar) ssa.Value {
	fn := fv.Parent()
	parent := fn.Parent()
	if parent == nil {
		return nil
	}
	idx := -1
	for i, x := range fn.FreeVars {
		if x == fv {
			idx = i
		}
	}
	var out ssa.Value
	n := 0
	allInstrs(parent, func(in ssa.Instruction) {
		if mc, ok := in.(*ssa.MakeClosure); ok && mc.Fn == ssa.Value(fn) && idx >= 0 && idx < len(mc.Bindings) {
			out = mc.Bindings[idx]
			n++
		}
	})
	if n != 1 {
		return nil
	}
	return out
}

// succRet is a success return of a function (last result nil) seen through tail calls: `return helper(a, b)` is
// followed into the helper of the package, with the helper's parameters standing for the arguments of the call.
type succRet struct {
	Ret   *ssa.Return
	Val   ssa.Value
	Fn    *ssa.Function
	Subst map[*ssa.Parameter]ssa.Value
}

// resolve replaces parameters of followed helpers by what the callers passed for them (repeatedly).
func (s succRet) resolve(v ssa.Value) ssa.Value {
	for i := 0; i < 8; i++ {
		p, ok := v.(*ssa.Parameter)
		if !ok {
			return v
		}
		a, ok := s.Subst[p]
		if !ok {
			return v
		}
		v = a
	}
	return v
}

// contains reports whether pred holds for a value in the backward slice of v, looking through substituted
// parameters.
func (s succRet) contains(v ssa.Value, pred func(ssa.Value) bool) bool {
	found := false
	seen := map[ssa.Value]bool{}
	var walk func(x ssa.Value, d int)
	walk = func(x ssa.Value, d int) {
		if x == nil || seen[x] || found || d > 12 {
			return
		}
		seen[x] = true
		if pred(x) {
			found = true
			return
		}
		if p, ok := x.(*ssa.Parameter); ok {
			if a, ok := s.Subst[p]; ok {
				walk(a, d+1)
			}
			return
		}
		if in, ok := x.(ssa.Instruction); ok {
			for _, op := range in.Operands(nil) {
				if *op != nil {
					walk(*op, d+1)
				}
			}
		}
	}
	walk(v, 0)
	return found
}

func successReturns(fn *ssa.Function, pkgKey string) []succRet {
	return successReturnsBound(fn, pkgKey, nil)
}

// successReturnsBound: as successReturns, for a closure built by a factory: bind holds what its free variables were
// given (`func(ctx, args) { return fn(args[0]), nil }` with fn bound to a literal: the success value is what the bound
// function returns, read with its parameter standing for the argument).
func successReturnsBound(fn *ssa.Function, pkgKey string, bind map[*ssa.FreeVar]ssa.Value) []succRet {
	var out []succRet
	var visit func(g *ssa.Function, subst map[*ssa.Parameter]ssa.Value, depth int)
	visit = func(g *ssa.Function, subst map[*ssa.Parameter]ssa.Value, depth int) {
		allInstrs(g, func(in ssa.Instruction) {
			ret, ok := in.(*ssa.Return)
			if !ok || len(ret.Results) < 1 {
				return
			}
			// tail call: every result is the matching element of one call's tuple
			if ex0, ok := ret.Results[0].(*ssa.Extract); ok && depth < 4 {
				if c, ok := ex0.Tuple.(*ssa.Call); ok {
					all := true
					for i, r := range ret.Results {
						ex, ok := r.(*ssa.Extract)
						if !ok || ex.Tuple != ssa.Value(c) || ex.Index != i {
							all = false
						}
					}
					h := staticCallee(c)
					if h == nil && bind != nil {
						// the tail call goes to a function held in a free variable that the factory bound
						cv := c.Call.Value
						if ld, isLd := cv.(*ssa.UnOp); isLd && ld.Op == token.MUL {
							cv = ld.X
						}
						if fv, isFV := cv.(*ssa.FreeVar); isFV {
							switch b := stripConv(bind[fv]).(type) {
							case *ssa.Function:
								h = b
							case *ssa.MakeClosure:
								h, _ = b.Fn.(*ssa.Function)
							}
						}
					}
					if all && h != nil && fnPkgKey(h) == pkgKey && len(h.Blocks) > 0 && h != g {
						s2 := map[*ssa.Parameter]ssa.Value{}
						for k, v := range subst {
							s2[k] = v
						}
						for i, a := range c.Call.Args {
							if i < len(h.Params) {
								s2[h.Params[i]] = a
							}
						}
						visit(h, s2, depth+1)
						return
					}
				}
			}
			if len(ret.Results) >= 2 && !isNilConst(ret.Results[len(ret.Results)-1]) {
				return
			}
			// the value is handed back by a function held in a free variable that the factory bound
			if c, ok := ret.Results[0].(*ssa.Call); ok && bind != nil && depth < 4 {
				fv, isFV := c.Call.Value.(*ssa.FreeVar)
				if ld, isLd := c.Call.Value.(*ssa.UnOp); isLd && ld.Op == token.MUL {
					// captured by reference: the call goes through a load of the cell
					fv, isFV = ld.X.(*ssa.FreeVar)
				}
				if isFV {
					var h *ssa.Function
					switch b := stripConv(bind[fv]).(type) {
					case *ssa.Function:
						h = b
					case *ssa.MakeClosure:
						h, _ = b.Fn.(*ssa.Function)
					}
					if h != nil && len(h.Blocks) > 0 && h.Signature.Results().Len() == 1 && h != g {
						s2 := map[*ssa.Parameter]ssa.Value{}
						for k, v := range subst {
							s2[k] = v
						}
						for i, a := range c.Call.Args {
							if i < len(h.Params) {
								s2[h.Params[i]] = a
							}
						}
						visit(h, s2, depth+1)
						return
					}
				}
			}
			out = append(out, succRet{Ret: ret, Val: ret.Results[0], Fn: g, Subst: subst})
		})
	}
	visit(fn, map[*ssa.Parameter]ssa.Value{}, 0)
	return out
}

// ifPos: a position for a branch (switch arms lower to Ifs without a position of their own: the condition's, or the
// first positioned instruction of the block).
func ifPos(ifi *ssa.If) token.Pos {
	if ifi.Pos().IsValid() {
		return ifi.Pos()
	}
	if ifi.Cond != nil && ifi.Cond.Pos().IsValid() {
		return ifi.Cond.Pos()
	}
	for _, in := range ifi.Block().Instrs {
		if in.Pos().IsValid() {
			return in.Pos()
		}
	}
	if len(ifi.Block().Succs) > 0 {
		for _, in := range ifi.Block().Succs[0].Instrs {
			if in.Pos().IsValid() {
				return in.Pos()
			}
		}
	}
	return token.NoPos
}
