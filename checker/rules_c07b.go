package main

import (
	"fmt"
	"go/types"
	"sort"
	"strings"

	"golang.org/x/tools/go/ssa"
)

// argOrContext (R07.7): string(), number(), string-length(), normalize-space(), local-name(), namespace-uri() and
// name() default to the context node only when called without an argument. The form that is given an argument works
// on the argument whatever its value (an empty node-set gives "" / NaN, not the context node's name). For every
// implementation that can run with n >= 1 arguments, each read of the context result reachable from it (in the
// implementation and in the helpers it hands the context to) must be infeasible for that argument count: it sits under
// tests of len(args) that n does not satisfy, or the call that leads to it does.
func (w *World) argOrContext(P string, f *Facts) {
	docRule(P, "R07.7", "D", "argument or context: a builtin that exists with and without an argument (string, number, string-length, normalize-space, local-name, namespace-uri, name) consults the context result only in its zero-argument form: in an implementation that can run with one argument every call of Context.Result(), directly or through helpers that receive the context, is excluded by the tests of len(args) on the way to it.")
	n := 0
	var names []string
	for bn, b := range f.Builtins {
		if b.Fns[0] != nil && b.Fns[1] != nil {
			names = append(names, bn)
			continue
		}
		if impl := b.Fns[-1]; impl != nil {
			ks := arityTests(impl)
			has0, has1 := false, false
			for _, k := range ks {
				if k == 0 {
					has0 = true
				}
				if k == 1 {
					has1 = true
				}
			}
			if has0 && has1 {
				names = append(names, bn)
			}
		}
	}
	sort.Strings(names)
	for _, bn := range names {
		b := f.Builtins[bn]
		for ar, impl := range b.Fns {
			if ar == 0 || len(impl.Params) < 2 {
				continue
			}
			count := int64(1)
			if ar > 0 {
				count = int64(ar)
			}
			var reads []string
			seen := map[*ssa.Function]bool{}
			// argsOf: the parameter of g that holds the argument list (nil when g does not receive it)
			var visit func(g *ssa.Function, ctx map[ssa.Value]bool, args ssa.Value, depth int)
			visit = func(g *ssa.Function, ctx map[ssa.Value]bool, args ssa.Value, depth int) {
				if seen[g] || depth > 4 {
					return
				}
				seen[g] = true
				feasible := func(b *ssa.BasicBlock) bool {
					if args == nil {
						return true
					}
					cons, _ := intConstraints(guardAtoms(b), func(v ssa.Value) bool {
						c, ok := stripConv(v).(*ssa.Call)
						if !ok {
							return false
						}
						bi, ok := c.Call.Value.(*ssa.Builtin)
						return ok && bi.Name() == "len" && c.Call.Args[0] == args
					})
					return satisfies(cons, count)
				}
				allInstrs(g, func(in ssa.Instruction) {
					c, ok := in.(*ssa.Call)
					if !ok || !feasible(c.Block()) {
						return
					}
					if recv, isR := isMethodCall(c, "Result"); isR && ctx[recv] {
						reads = append(reads, w.pos(c.Pos())+" in "+g.Name())
						return
					}
					sc := staticCallee(c)
					if sc == nil || fnPkgKey(sc) != "exec" || len(sc.Blocks) == 0 {
						return
					}
					ctx2 := map[ssa.Value]bool{}
					var args2 ssa.Value
					for i, a := range c.Call.Args {
						if i >= len(sc.Params) {
							break
						}
						if ctx[a] {
							ctx2[sc.Params[i]] = true
						}
						if args != nil && a == args {
							args2 = sc.Params[i]
						}
					}
					if len(ctx2) > 0 {
						visit(sc, ctx2, args2, depth+1)
					}
				})
			}
			ctx := map[ssa.Value]bool{}
			for _, p := range impl.Params[:len(impl.Params)-1] {
				if _, isI := p.Type().Underlying().(*types.Interface); isI {
					ctx[p] = true
				}
			}
			visit(impl, ctx, impl.Params[len(impl.Params)-1], 0)
			sort.Strings(reads)
			n++
			w.check(P, "R07.7", fmt.Sprintf("builtin %s/%d works on its argument", bn, ar), impl.Pos(), len(reads) == 0, fmt.Sprintf("reads of the context result that can happen with %d argument(s): %s", count, orElse(strings.Join(reads, "; "), "none")))
		}
	}
	w.floor(P, "R07.7", 7)
}
