package main

import (
	"fmt"
	"go/constant"
	"go/token"
	"go/types"
	"sort"
	"strings"

	"golang.org/x/tools/go/ssa"
)

func init() {
	register("C11", checkC11)
	notDecided["C11"] = "invariance under consistent prefix renaming as an input/output statement (it follows from R11.3 + R11.4 but is not itself checked); name tests on the namespace axis (excluded by the property); behaviour of user-supplied functions."
}

// settingsField: v is (a load of) the field named name of a ContextSettings struct.
func settingsFieldName(v ssa.Value) string {
	ld, ok := v.(*ssa.UnOp)
	if !ok {
		return ""
	}
	fa, ok := ld.X.(*ssa.FieldAddr)
	if !ok {
		return ""
	}
	pt, ok := fa.X.Type().Underlying().(*types.Pointer)
	if !ok {
		return ""
	}
	st, ok := pt.Elem().Underlying().(*types.Struct)
	if !ok {
		return ""
	}
	f := st.Field(fa.Field)
	if !f.Exported() {
		// the context's private copy of the builtin library is known by its role, not its name: the unexported
		// map from expanded names to functions (the exported one, FunctionLibrary, is the user's)
		if mt, ok := f.Type().Underlying().(*types.Map); ok {
			if _, isSig := mt.Elem().Underlying().(*types.Signature); isSig {
				if kn, ok := types.Unalias(mt.Key()).(*types.Named); ok && kn.Obj().Name() == "XmlName" {
					return "builtinFunctions"
				}
			}
		}
	}
	return f.Name()
}

// valueSubst: while textOrigin looks into a text helper, the arguments its parameters stand for.
var valueSubst = map[*ssa.Parameter]ssa.Value{}

// textOrigin describes where a string used in a name comparison comes from.
func textOrigin(v ssa.Value, params map[*ssa.Parameter]string, depth int) string {
	if depth > 8 {
		return "?"
	}
	v = throughCells(v)
	switch x := v.(type) {
	case *ssa.Parameter:
		if o, ok := params[x]; ok {
			return o
		}
		return "param:" + x.Name()
	case *ssa.Const:
		if s, ok := constString(x); ok {
			return "const:" + s
		}
	case *ssa.Extract:
		if lk, ok := x.Tuple.(*ssa.Lookup); ok && x.Index == 0 {
			return "lookup(" + settingsFieldName(lk.X) + "," + textOrigin(lk.Index, params, depth+1) + ")"
		}
		// first result of a helper of the package that returns (string, error): what it returns on success
		if c, ok := x.Tuple.(*ssa.Call); ok && x.Index == 0 {
			if sc := staticCallee(c); sc != nil && fnPkgKey(sc) == "exec" && sc.Signature.Results().Len() == 2 && len(sc.Blocks) > 0 {
				var rets []ssa.Value
				allInstrs(sc, func(in ssa.Instruction) {
					if r, ok := in.(*ssa.Return); ok && len(r.Results) == 2 && isNilConst(r.Results[1]) {
						rets = append(rets, r.Results[0])
					}
				})
				if len(rets) == 1 {
					saved := map[*ssa.Parameter]ssa.Value{}
					for i, a := range c.Call.Args {
						if i < len(sc.Params) {
							saved[sc.Params[i]] = valueSubst[sc.Params[i]]
							valueSubst[sc.Params[i]] = a
						}
					}
					// string parameters of the helper are described by the caller's argument
					p2 := map[*ssa.Parameter]string{}
					for k, v := range params {
						p2[k] = v
					}
					for i, a := range c.Call.Args {
						if i < len(sc.Params) && isStringType(a.Type()) {
							p2[sc.Params[i]] = textOrigin(a, params, depth+1)
						}
					}
					o := textOrigin(rets[0], p2, depth+1)
					for p, v := range saved {
						if v == nil {
							delete(valueSubst, p)
						} else {
							valueSubst[p] = v
						}
					}
					return o
				}
			}
		}
	case *ssa.Lookup:
		return "lookup(" + settingsFieldName(x.X) + "," + textOrigin(x.Index, params, depth+1) + ")"
	case *ssa.Call:
		sc := staticCallee(x)
		if sc == nil {
			return "?"
		}
		switch sc.Name() {
		case "LiteralString":
			return textOrigin(x.Call.Args[0], params, depth+1)
		case "GetTChildI":
			idx := x.Call.Args[1]
			if p, isParam := idx.(*ssa.Parameter); isParam && valueSubst[p] != nil {
				idx = valueSubst[p]
			}
			if k, ok := constInt(idx); ok {
				return fmt.Sprintf("T#%d", k)
			}
		case "GetString":
			return "whole"
		case "GetStringExtents":
			// left extent of children[j]
			if le, ok := x.Call.Args[1].(*ssa.Call); ok && len(le.Call.Args) >= 1 {
				rcv := le.Call.Args[0]
				// the receiver is children[j] (a pointer element, possibly dereferenced for a value receiver), also when
				// it reaches a text helper as a parameter
				for i := 0; i < 4; i++ {
					if p, isParam := rcv.(*ssa.Parameter); isParam && valueSubst[p] != nil {
						rcv = valueSubst[p]
						continue
					}
					if ld, ok := rcv.(*ssa.UnOp); ok && ld.Op == token.MUL {
						rcv = ld.X
						continue
					}
					break
				}
				if ia, ok := rcv.(*ssa.IndexAddr); ok {
					if k, ok := constInt(ia.Index); ok {
						return fmt.Sprintf("NT#%d", k)
					}
				}
			}
			return "extents?"
		case "TrimSpace", "TrimPrefix":
			return textOrigin(x.Call.Args[0], params, depth+1)
		}
		// a text helper of the package: the origin of what it returns, with its parameters read through the call
		if fnPkgKey(sc) == "exec" && sc.Signature.Results().Len() == 1 && isStringType(sc.Signature.Results().At(0).Type()) && len(sc.Blocks) > 0 {
			var rets []ssa.Value
			allInstrs(sc, func(in ssa.Instruction) {
				if r, ok := in.(*ssa.Return); ok {
					rets = append(rets, r.Results[0])
				}
			})
			if len(rets) == 1 {
				saved := map[*ssa.Parameter]ssa.Value{}
				for i, a := range x.Call.Args {
					if i < len(sc.Params) {
						saved[sc.Params[i]] = valueSubst[sc.Params[i]]
						valueSubst[sc.Params[i]] = a
					}
				}
				p2 := map[*ssa.Parameter]string{}
				for k, v := range params {
					p2[k] = v
				}
				for i, a := range x.Call.Args {
					if i < len(sc.Params) && isStringType(a.Type()) {
						p2[sc.Params[i]] = textOrigin(a, params, depth+1)
					}
				}
				o := textOrigin(rets[0], p2, depth+1)
				for p, v := range saved {
					if v == nil {
						delete(valueSubst, p)
					} else {
						valueSubst[p] = v
					}
				}
				return o
			}
		}
	}
	return "?"
}

func checkC11(w *World) {
	const P = "C11"
	f := w.Facts()
	r := w.Roles()
	for _, e := range r.err {
		w.undecided(P, "R00.roles", "role resolution: "+e, 0, e)
	}
	docRule(P, "R11.1", "D", "function lookup order: in the function-call handler the builtin table is consulted only on the path where the lookup in the query's FunctionLibrary gave nil; both lookups use the expanded name produced by GetQName from the call's QName text and the query's NamespaceDecls; the value called is the one looked up.")
	docRule(P, "R11.2", "D", "unbound => error: every map lookup keyed by a prefix, variable or function name taken from the expression is followed, before any use of the value, by a comma-ok or nil test whose failing branch returns a non-nil error (the lookup in the namespace-axis arm of the unprefixed name test is allow-listed: the property excludes name tests on the namespace axis).")
	docRule(P, "R11.3", "D+F G<->H", "name-test guards derived from the production shape: for each NameTest production `A : B` / `B`, a named node is kept only under Space() == (URI looked up in NamespaceDecls for the text of A) iff A is a name, Space() == \"\" iff there is no prefix part and B is a name, Local() == (text of B) iff B is a name — each with the text taken from the right symbol position, equality polarity, and no other guard.")
	docRule(P, "R11.4", "T CG", "document prefixes are never consulted for resolution: no function reachable from a name-test, variable or function-call handler calls Namespace.Prefix() or Cursor.Namespaces().")
	docRule(P, "R11.5", "F", "a user function receives the handler's own context (current node-set and position) and the argument slice built by appending, in ascending order, the results of evaluating each argument in a copy of the context; a variable reference stores the looked-up value itself.")
	docRule(P, "R11.6", "F", "Exec applies every ContextApply to a ContextSettings whose three maps were allocated in that call; the With* options write exactly the map and key their name says (WithNS: NamespaceDecls[name]=url; WithVariableName: Variables[name]=value; WithFunctionName: FunctionLibrary[name]=fn; the *NS forms build XmlName{Space: space, Local: local}; the short forms pass \"\" as the namespace).")

	h := f.Handlers["FunctionCall"]
	if h == nil {
		w.check(P, "R11.1", "function-call handler", 0, false, "no handler")
	} else {
		// the two lookups: in the handler, or in a helper of the package the handler calls for the resolution
		var userL, builtinL *ssa.Lookup
		var lookupFn *ssa.Function
		lcands := []*ssa.Function{h.Fn}
		for g := range staticReach(h.Fn, func(x *ssa.Function) bool { return fnPkgKey(x) == "exec" && x != r.ExecContext }) {
			if g != h.Fn && fnPkgKey(g) == "exec" {
				lcands = append(lcands, g)
			}
		}
		sortFuncs(lcands[1:])
		for _, g := range lcands {
			var u, b *ssa.Lookup
			allInstrs(g, func(in ssa.Instruction) {
				lk, ok := in.(*ssa.Lookup)
				if !ok {
					return
				}
				switch settingsFieldName(lk.X) {
				case "FunctionLibrary":
					u = lk
				case "builtinFunctions":
					b = lk
				}
			})
			if u != nil && b != nil && lookupFn == nil {
				userL, builtinL, lookupFn = u, b, g
			}
		}
		merged := false
		if userL == nil {
			// one table per query: the only lookup reads a private map of the context; how that map is filled decides
			// who wins
			var only *ssa.Lookup
			for _, g := range lcands {
				allInstrs(g, func(in ssa.Instruction) {
					if lk, ok := in.(*ssa.Lookup); ok && settingsFieldName(lk.X) == "builtinFunctions" {
						only = lk
					}
				})
			}
			if only != nil {
				if ok, why, decided := w.mergedFunctionTable(only); decided {
					merged = true
					w.check(P, "R11.1", "user library before builtins", only.Pos(), ok, why)
					userL, builtinL, lookupFn = only, only, only.Parent()
				}
			}
		}
		if userL == nil || builtinL == nil {
			w.undecided(P, "R11.1", "function lookup", h.Fn.Pos(), fmt.Sprintf("lookups found: user library %v, builtin table %v", userL != nil, builtinL != nil))
		} else {
			guarded := false
			for _, a := range guardAtoms(builtinL.Block()) {
				if bo, ok := a.V.(*ssa.BinOp); ok && bo.X == ssa.Value(userL) && isNilConst(bo.Y) && ((bo.Op == token.EQL && a.Pol) || (bo.Op == token.NEQ && !a.Pol)) {
					guarded = true
				}
			}
			if !merged {
				w.check(P, "R11.1", "user library before builtins", builtinL.Pos(), guarded, fmt.Sprintf("the builtin table is consulted only when the user library has no function of that name: %v", guarded))
			}
			sameKey := userL.Index == builtinL.Index
			keyOrigin := ""
			keyV := userL.Index
			var lookupCall *ssa.Call
			if lookupFn != h.Fn {
				allInstrs(h.Fn, func(in ssa.Instruction) {
					if c, ok := in.(*ssa.Call); ok && staticCallee(c) == lookupFn {
						lookupCall = c
					}
				})
				if p, ok := keyV.(*ssa.Parameter); ok && lookupCall != nil {
					for i, x := range lookupFn.Params {
						if x == p && i < len(lookupCall.Call.Args) {
							keyV = lookupCall.Call.Args[i]
						}
					}
				}
			}
			if ex, ok := keyV.(*ssa.Extract); ok {
				if c, ok := ex.Tuple.(*ssa.Call); ok && staticCallee(c) != nil && staticCallee(c).Name() == "GetQName" && len(c.Call.Args) == 2 {
					text := c.Call.Args[0]
					// the helper resolves the name itself: the text it is given at its call in the handler
					if p, isP := text.(*ssa.Parameter); isP && lookupCall != nil && p.Parent() == lookupFn {
						for i, x := range lookupFn.Params {
							if x == p && i < len(lookupCall.Call.Args) {
								text = lookupCall.Call.Args[i]
							}
						}
					}
					keyOrigin = "GetQName(" + qnameTextOrigin(text) + "," + settingsFieldName(c.Call.Args[1]) + ")"
				}
			}
			w.check(P, "R11.1", "function name resolution", userL.Pos(), sameKey && keyOrigin == "GetQName(child#0,NamespaceDecls)", fmt.Sprintf("both tables are keyed by the same expanded name: %v; key = %s (must be GetQName(text of NT child 0, NamespaceDecls))", sameKey, keyOrigin))
			// the called value is the phi of the two lookups
			called := false
			allInstrs(h.Fn, func(in ssa.Instruction) {
				c, ok := in.(*ssa.Call)
				if !ok || c.Call.IsInvoke() || staticCallee(c) != nil {
					return
				}
				fromUser := sliceContains(c.Call.Value, func(v ssa.Value) bool { return v == ssa.Value(userL) })
				fromBuiltin := sliceContains(c.Call.Value, func(v ssa.Value) bool { return v == ssa.Value(builtinL) })
				if fromUser && fromBuiltin {
					called = true
				}
				// resolution in a helper: what is called is what the helper returned, and the helper returns nothing
				// but the two looked-up values
				if lookupCall != nil && sliceContains(c.Call.Value, func(v ssa.Value) bool { return v == ssa.Value(lookupCall) }) {
					onlyLookups := true
					nret := 0
					allInstrs(lookupFn, func(in2 ssa.Instruction) {
						ret, ok := in2.(*ssa.Return)
						if !ok || len(ret.Results) == 0 {
							return
						}
						// the result that is a function value (the helper may hand back the name and an error too);
						// error returns hand back no function
						if len(ret.Results) > 1 && !isNilConst(ret.Results[len(ret.Results)-1]) {
							return
						}
						fi := 0
						for i, rv := range ret.Results {
							if _, isSig := rv.Type().Underlying().(*types.Signature); isSig {
								fi = i
							}
						}
						nret++
						if !sliceContains(ret.Results[fi], func(v ssa.Value) bool { return v == ssa.Value(userL) || v == ssa.Value(builtinL) }) {
							onlyLookups = false
						}
					})
					if onlyLookups && nret > 0 {
						called = true
					}
				}
			})
			w.check(P, "R11.1", "the looked-up function is the one called", h.Fn.Pos(), called, fmt.Sprintf("%v", called))
		}
	}
	w.floor(P, "R11.1", 3)

	// R11.2
	n2 := 0
	w.forAllFuncs("exec", func(fn *ssa.Function) {
		allInstrs(fn, func(in ssa.Instruction) {
			lk, ok := in.(*ssa.Lookup)
			if !ok {
				return
			}
			field := settingsFieldName(lk.X)
			isNSParam := false
			if field == "" {
				// GetQName receives the namespace map as a parameter
				if p, ok := lk.X.(*ssa.Parameter); ok {
					if mt, ok := p.Type().Underlying().(*types.Map); ok && isStringType(mt.Key()) && isStringType(mt.Elem()) {
						isNSParam = true
						field = "namespaces parameter"
					}
				}
			}
			if field != "NamespaceDecls" && field != "Variables" && field != "FunctionLibrary" && field != "builtinFunctions" && !isNSParam {
				return
			}
			n2++
			// allow-list: namespace-axis arm
			for _, a := range guardAtoms(lk.Block()) {
				if ex, ok := a.V.(*ssa.Extract); ok && ex.Index == 1 && a.Pol {
					if ta, ok := ex.Tuple.(*ssa.TypeAssert); ok {
						if n, _ := nodeIface(ta.AssertedType); n != nil && n.Obj().Name() == "Namespace" {
							w.check(P, "R11.2", fmt.Sprintf("lookup in %s in %s (namespace-axis name test)", field, fn.Name()), lk.Pos(), true, "allow-listed: name tests on the namespace axis follow the library's own URI rule and are outside the property")
							return
						}
					}
				}
			}
			// the same allow-list when the lookup was hoisted out of the loop: the value is used only where the node is
			// known to be a namespace node
			if !lk.CommaOk {
				nsGuarded := func(b *ssa.BasicBlock) bool {
					for _, a := range guardAtoms(b) {
						if ex, ok := a.V.(*ssa.Extract); ok && ex.Index == 1 && a.Pol {
							if ta, ok := ex.Tuple.(*ssa.TypeAssert); ok {
								if n, _ := nodeIface(ta.AssertedType); n != nil && n.Obj().Name() == "Namespace" {
									return true
								}
							}
						}
					}
					return false
				}
				uses, nsOnly := 0, true
				for _, rr := range referrers(lk) {
					if _, isDbg := rr.(*ssa.DebugRef); isDbg {
						continue
					}
					uses++
					if !nsGuarded(rr.Block()) {
						nsOnly = false
					}
				}
				if uses > 0 && nsOnly {
					w.check(P, "R11.2", fmt.Sprintf("lookup in %s in %s (namespace-axis name test)", field, fn.Name()), lk.Pos(), true, "allow-listed: the value is used only for nodes on the namespace axis, which follow the library's own URI rule and are outside the property")
					return
				}
			}
			ok2, why := lookupFailsWithError(fn, lk)
			w.check(P, "R11.2", fmt.Sprintf("lookup in %s in %s", field, fn.Name()), lk.Pos(), ok2, why)
		})
	})
	// GetQName: the only error is the unbound prefix; no package-level state
	if gq := w.member("exec", "GetQName"); gq != nil {
		nErr, nOK := 0, 0
		allInstrs(gq, func(in ssa.Instruction) {
			ret, ok := in.(*ssa.Return)
			if !ok || len(ret.Results) != 2 || isNilConst(ret.Results[1]) {
				return
			}
			nErr++
			for _, a := range guardAtoms(ret.Block()) {
				if ex, ok := a.V.(*ssa.Extract); ok && ex.Index == 1 && !a.Pol {
					if _, isLk := ex.Tuple.(*ssa.Lookup); isLk {
						nOK++
					}
				}
			}
		})
		w.check(P, "R11.2", "GetQName fails only for an unbound prefix", gq.Pos(), nErr >= 1 && nErr == nOK, fmt.Sprintf("%d error returns, %d of them on a failed prefix lookup (any other rejection makes a bound name unusable: the lexer has already accepted the name)", nErr, nOK))
		globals := ""
		for g := range staticReach(gq, func(x *ssa.Function) bool { return inRepo(x) }) {
			allInstrs(g, func(in ssa.Instruction) {
				for _, op := range in.Operands(nil) {
					if gl, ok := (*op).(*ssa.Global); ok && inRepoGlobal(gl) {
						globals = gl.Name()
					}
				}
			})
		}
		w.check(P, "R11.2", "GetQName depends only on its arguments", gq.Pos(), globals == "", "package-level variable used: "+orNone(globals)+" (a cache keyed by the lexical name survives rebinding of the prefix)")
		// the parts of the name are cut at the colon, never trimmed by a set of characters taken from the name
		cut := ""
		for g := range staticReach(gq, func(x *ssa.Function) bool { return inRepo(x) }) {
			allInstrs(g, func(in ssa.Instruction) {
				c, ok := in.(*ssa.Call)
				if !ok || staticCallee(c) == nil {
					return
				}
				switch funcFullName(staticCallee(c)) {
				case "strings.Trim", "strings.TrimLeft", "strings.TrimRight":
					if set, isC := constString(c.Call.Args[1]); !isC || strings.Trim(set, " \t\r\n") != "" {
						cut = calleeName(c) + " at " + w.pos(c.Pos())
					}
				case "strings.TrimFunc", "strings.TrimLeftFunc", "strings.TrimRightFunc", "strings.Map", "strings.Replace", "strings.ReplaceAll", "strings.NewReplacer":
					cut = calleeName(c) + " at " + w.pos(c.Pos())
				}
			})
		}
		w.check(P, "R11.2", "GetQName cuts the name at the colon", gq.Pos(), cut == "", "the prefix and the local part are separated by position (Split, Cut, Index); a character-set operation on the name: "+orNone(cut)+" (strings.TrimLeft(name, prefix+\":\") removes every leading character that occurs in the prefix, so `inv:number` becomes `umber`)")
		// the name arrives as written (`p : x`, `$ v`): both parts lose their surrounding white space before they are
		// used - the prefix before it is looked up, the local part before it is returned
		trimmedKey, nLookup := true, 0
		isTrim := func(v ssa.Value) bool {
			found := false
			backSlice(v, func(x ssa.Value) bool {
				if c, ok := x.(*ssa.Call); ok {
					if sc := staticCallee(c); sc != nil {
						switch funcFullName(sc) {
						case "strings.TrimSpace", "strings.Fields":
							found = true
						case "strings.Trim":
							if cs, ok := constString(c.Call.Args[1]); ok && strings.Contains(cs, " ") && strings.Contains(cs, "\t") && strings.Contains(cs, "\r") && strings.Contains(cs, "\n") {
								found = true
							}
						}
					}
				}
				return !found
			})
			return found
		}
		allInstrs(gq, func(in ssa.Instruction) {
			lk, ok := in.(*ssa.Lookup)
			if !ok || lk.X != ssa.Value(gq.Params[1]) {
				return
			}
			nLookup++
			if !isTrim(lk.Index) {
				trimmedKey = false
			}
		})
		w.check(P, "R11.2", "GetQName trims the prefix before it is looked up", gq.Pos(), nLookup > 0 && trimmedKey, fmt.Sprintf("lookups in the namespace bindings: %d; each key has passed through strings.TrimSpace: %v (`p :x` and `p : x` are the QName p:x)", nLookup, trimmedKey))
	} else {
		w.undecided(P, "R11.2", "exec.GetQName", 0, "not found")
	}
	w.floorSites(P, "R11.2", 8)

	// R11.3
	w.nameTestGuards(P, f, r)

	// R11.4
	var roots []string
	for nt := range f.Handlers {
		if strings.HasPrefix(nt, "NameTest") || nt == "VariableReference" || nt == "FunctionCall" {
			roots = append(roots, nt)
		}
	}
	sort.Strings(roots)
	for _, nt := range roots {
		bad := ""
		for _, fn := range w.handlerClosureH(f.Handlers[nt]) {
			for g := range staticReach(fn, func(x *ssa.Function) bool { return fnPkgKey(x) == "exec" && x != r.ExecContext }) {
				allInstrs(g, func(in ssa.Instruction) {
					if c, ok := in.(ssa.CallInstruction); ok && c.Common().IsInvoke() {
						m := c.Common().Method.Name()
						if m == "Prefix" || m == "Namespaces" {
							bad = m + "() in " + g.Name()
						}
					}
				})
			}
		}
		w.check(P, "R11.4", "handler of "+nt, f.Handlers[nt].Pos, bad == "", "document prefixes consulted: "+orNone(bad))
	}
	w.floor(P, "R11.4", 12)

	// R11.5
	if h != nil {
		okArgs, detail := w.functionArgsInOrder(h.Fn, r)
		w.check(P, "R11.5", "function arguments", h.Fn.Pos(), okArgs, detail)
		ownCtx := false
		allInstrs(h.Fn, func(in ssa.Instruction) {
			c, isCall := in.(*ssa.Call)
			if !isCall || c.Call.IsInvoke() || staticCallee(c) != nil || len(c.Call.Args) < 1 {
				return
			}
			if mi, isMI := c.Call.Args[0].(*ssa.MakeInterface); isMI && mi.X == ssa.Value(ctxParam(h.Fn)) {
				ownCtx = true
			}
		})
		w.check(P, "R11.5", "function receives the current context", h.Fn.Pos(), ownCtx, fmt.Sprintf("%v", ownCtx))
	}
	if hv := f.Handlers["VariableReference"]; hv != nil {
		okVar := false
		for _, st := range resultStores(hv.Fn, r) {
			if lk, ok := st.Val.(*ssa.Lookup); ok && settingsFieldName(lk.X) == "Variables" {
				if ex, ok := lk.Index.(*ssa.Extract); ok {
					if c, ok := ex.Tuple.(*ssa.Call); ok && staticCallee(c) != nil && staticCallee(c).Name() == "GetQName" && settingsFieldName(c.Call.Args[1]) == "NamespaceDecls" {
						okVar = true
					}
				}
			}
		}
		w.check(P, "R11.5", "variable reference stores the bound value", hv.Fn.Pos(), okVar, fmt.Sprintf("result = Variables[GetQName(text, NamespaceDecls)]: %v", okVar))
	} else {
		w.check(P, "R11.5", "variable reference", 0, false, "no handler")
	}
	w.floor(P, "R11.5", 3)

	// R11.6
	w.settingsOptions(P, r)
	// the bindings, the context node and the position reach every sub-expression: contexts are complete copies
	w.include(P, "C01", "R01.13")
	// a variable keeps evaluating to the bound value: evaluation never writes into the caller's bindings
	w.include(P, "C13", "R13.1")
}

func inRepoGlobal(g *ssa.Global) bool {
	if g.Pkg == nil {
		return false
	}
	_, ok := relKey(g.Pkg.Pkg.Path())
	return ok
}

func orNone(s string) string {
	if s == "" {
		return "none"
	}
	return s
}

// qnameTextOrigin: the text passed to GetQName: "child#k" when it is GetString() of expr.Next(children[k]).
func qnameTextOrigin(v ssa.Value) string {
	c, ok := v.(*ssa.Call)
	if !ok || staticCallee(c) == nil {
		return "?"
	}
	switch staticCallee(c).Name() {
	case "TrimSpace", "TrimPrefix":
		return qnameTextOrigin(c.Call.Args[0])
	case "GetString":
		if nx, ok := c.Call.Args[0].(*ssa.Call); ok && staticCallee(nx) != nil && staticCallee(nx).Name() == "Next" {
			d := nx.Call.Args[1]
			if ld, ok := d.(*ssa.UnOp); ok {
				if ia, ok := ld.X.(*ssa.IndexAddr); ok {
					if k, ok := constInt(ia.Index); ok {
						return fmt.Sprintf("child#%d", k)
					}
				}
				if fa, ok := ld.X.(*ssa.FieldAddr); ok {
					_ = fa
					return "self"
				}
			}
			return "next?"
		}
		return "self"
	}
	return "?"
}

// lookupFailsWithError: the lookup result is tested (comma-ok or nil) and the failing branch returns a non-nil error.
func lookupFailsWithError(fn *ssa.Function, lk *ssa.Lookup) (bool, string) {
	errReturnUnder := func(pred func(a atom) bool) bool {
		found := false
		allInstrs(fn, func(in ssa.Instruction) {
			ret, ok := in.(*ssa.Return)
			if !ok || len(ret.Results) == 0 {
				return
			}
			last := ret.Results[len(ret.Results)-1]
			if isNilConst(last) {
				return
			}
			if _, isErr := last.Type().Underlying().(*types.Interface); !isErr {
				return
			}
			for _, a := range guardAtoms(ret.Block()) {
				if pred(a) {
					found = true
				}
			}
		})
		return found
	}
	if lk.CommaOk {
		var okV ssa.Value
		for _, rr := range referrers(lk) {
			if ex, ok := rr.(*ssa.Extract); ok && ex.Index == 1 {
				okV = ex
			}
		}
		if okV == nil {
			return false, "the ok result of the lookup is ignored: an unbound name silently resolves to the zero value"
		}
		if errReturnUnder(func(a atom) bool { return a.V == okV && !a.Pol }) {
			return true, "comma-ok tested; the failing branch returns an error"
		}
		return false, "the failing branch of the ok test does not return an error"
	}
	// nil test on the value or on a phi containing it
	cands := map[ssa.Value]bool{lk: true}
	for _, rr := range referrers(lk) {
		if phi, ok := rr.(*ssa.Phi); ok {
			cands[phi] = true
		}
	}
	if errReturnUnder(func(a atom) bool {
		bo, ok := a.V.(*ssa.BinOp)
		if !ok || !cands[bo.X] || !isNilConst(bo.Y) {
			return false
		}
		return (bo.Op == token.EQL && a.Pol) || (bo.Op == token.NEQ && !a.Pol)
	}) {
		return true, "nil-tested; the failing branch returns an error"
	}
	// the helper hands the looked-up value back and every caller tests it
	returned := false
	allInstrs(fn, func(in ssa.Instruction) {
		if ret, ok := in.(*ssa.Return); ok && len(ret.Results) >= 1 && sliceContains(ret.Results[0], func(v ssa.Value) bool { return cands[v] }) {
			returned = true
		}
	})
	if returned && theWorld != nil {
		callers, tested := 0, 0
		theWorld.forAllFuncs(fnPkgKey(fn), func(g *ssa.Function) {
			allInstrs(g, func(in ssa.Instruction) {
				c, ok := in.(*ssa.Call)
				if !ok || staticCallee(c) != fn {
					return
				}
				callers++
				cc := map[ssa.Value]bool{c: true}
				for _, rr := range referrers(c) {
					if phi, ok := rr.(*ssa.Phi); ok {
						cc[phi] = true
					}
					if ex, ok := rr.(*ssa.Extract); ok && ex.Index == 0 {
						cc[ex] = true
					}
				}
				found := false
				allInstrs(g, func(in2 ssa.Instruction) {
					ret, ok := in2.(*ssa.Return)
					if !ok || len(ret.Results) == 0 {
						return
					}
					last := ret.Results[len(ret.Results)-1]
					if isNilConst(last) || !isErrorType(last.Type()) {
						return
					}
					for _, a := range guardAtoms(ret.Block()) {
						bo, ok := a.V.(*ssa.BinOp)
						if ok && cc[bo.X] && isNilConst(bo.Y) && ((bo.Op == token.EQL && a.Pol) || (bo.Op == token.NEQ && !a.Pol)) {
							found = true
						}
					}
				})
				if found {
					tested++
				}
			})
		})
		if callers > 0 && callers == tested {
			return true, "returned to the caller, which nil-tests it; the failing branch returns an error"
		}
	}
	return false, "the looked-up value is used without a test whose failing branch returns an error"
}

func (w *World) nameTestGuards(P string, f *Facts, r *Roles) {
	var nts []string
	for nt := range f.Alts {
		if strings.HasPrefix(nt, "NameTest") {
			nts = append(nts, nt)
		}
	}
	sort.Strings(nts)
	for _, nt := range nts {
		a := f.Alts[nt][0]
		h := f.Handlers[nt]
		if h == nil {
			w.check(P, "R11.3", "name test "+nt, 0, false, "no handler")
			continue
		}
		// symbol descriptors
		desc := func(i int) string {
			s := a.Syms[i]
			if !s.IsNT {
				if s.Name == "*" {
					return "*"
				}
				return fmt.Sprintf("T#%d", i)
			}
			j := 0
			for k := 0; k < i; k++ {
				if a.Syms[k].IsNT {
					j++
				}
			}
			return fmt.Sprintf("NT#%d", j)
		}
		wantSpace, wantLocal := "", ""
		switch len(a.Syms) {
		case 3:
			if d := desc(0); d != "*" {
				wantSpace = "lookup(NamespaceDecls," + d + ")"
			}
			if d := desc(2); d != "*" {
				wantLocal = d
			}
		case 1:
			if d := desc(0); d != "*" {
				wantSpace = "const:"
				wantLocal = d
			}
		default:
			w.undecided(P, "R11.3", "name test "+nt, h.Pos, "unexpected production shape "+a.String())
			continue
		}
		// the ways the filter keeps a node, with the conditions collected across helpers and predicate literals
		sites := w.keepSites(h.Fn, r)
		// where the strings that reach parameters of the functions involved come from (callers first)
		params := map[*ssa.Parameter]string{}
		boolParams := map[*ssa.Parameter]bool{}
		scopeFns := map[*ssa.Function]bool{h.Fn: true}
		for _, ks := range sites {
			for _, g := range ks.Fns {
				scopeFns[g] = true
			}
		}
		for g := range staticReach(h.Fn, func(x *ssa.Function) bool { return fnPkgKey(x) == "exec" && x != r.ExecContext }) {
			scopeFns[g] = true
		}
		for round := 0; round < 3; round++ {
			for g := range scopeFns {
				allInstrs(g, func(in ssa.Instruction) {
					c, ok := in.(*ssa.Call)
					if !ok {
						return
					}
					callee := staticCallee(c)
					if callee == nil || !scopeFns[callee] || callee == h.Fn {
						return
					}
					for i, arg := range c.Call.Args {
						if i < len(callee.Params) && isStringType(arg.Type()) {
							if o := textOrigin(arg, params, 0); o != "?" && !strings.HasPrefix(o, "param:") {
								params[callee.Params[i]] = o
							}
						}
						// a flag that selects a variant of a shared helper (`anyLocal`), bound to a constant here
						if i < len(callee.Params) {
							if k, isK := arg.(*ssa.Const); isK && k.Value != nil && k.Value.Kind() == constant.Bool {
								boolParams[callee.Params[i]] = constant.BoolVal(k.Value)
							}
						}
					}
				})
			}
		}
		n := 0
		for _, ks := range sites {
			if ks.Err != "" {
				w.undecided(P, "R11.3", "name test "+nt, ks.Append.Pos(), ks.Err)
				n++
				continue
			}
			gotSpace, gotLocal := "", ""
			nsArm := false
			bad := ""
			atoms := ks.Atoms
			if len(boolParams) > 0 {
				// conditions that guard the append once the branches on constant-bound flags are decided
				atoms = append(append([]atom{}, atoms...), prunedGuards(ks.Append.Block(), boolParams)...)
			}
			for _, at := range atoms {
				if ex, ok := at.V.(*ssa.Extract); ok && ex.Index == 1 && at.Pol {
					if ta, ok := ex.Tuple.(*ssa.TypeAssert); ok {
						if n, _ := nodeIface(ta.AssertedType); n != nil && n.Obj().Name() == "Namespace" {
							nsArm = true
						}
					}
				}
				bo, ok := at.V.(*ssa.BinOp)
				if phi, isPhi := at.V.(*ssa.Phi); isPhi && at.Pol && len(phi.Edges) == 2 {
					// `flag || cmp`: with the flag bound to false for this production the condition is cmp
					for i, e := range phi.Edges {
						k, isK := e.(*ssa.Const)
						if !isK || k.Value == nil || k.Value.Kind() != constant.Bool || !constant.BoolVal(k.Value) {
							continue
						}
						pb := phi.Block().Preds[i]
						if len(pb.Instrs) == 0 {
							continue
						}
						iff, isIf := pb.Instrs[len(pb.Instrs)-1].(*ssa.If)
						if !isIf {
							continue
						}
						if prm, isP := iff.Cond.(*ssa.Parameter); isP {
							if val, known := boolParams[prm]; known && !val {
								if b2, isB := phi.Edges[1-i].(*ssa.BinOp); isB {
									bo, ok = b2, true
								}
							}
						}
					}
				}
				if !ok {
					continue
				}
				side := func(x, y ssa.Value) bool {
					if _, ok := isMethodCall(x, "Space"); ok {
						gotSpace = textOrigin(y, params, 0)
						return true
					}
					if _, ok := isMethodCall(x, "Local"); ok {
						gotLocal = textOrigin(y, params, 0)
						return true
					}
					return false
				}
				if side(bo.X, bo.Y) || side(bo.Y, bo.X) {
					if !((bo.Op == token.EQL && at.Pol) || (bo.Op == token.NEQ && !at.Pol)) {
						bad = "a name part is compared with the wrong polarity"
					}
				}
			}
			if nsArm {
				continue
			}
			n++
			norm := func(s string) string {
				if len(a.Syms) == 1 && (s == "whole") {
					return desc(0)
				}
				return s
			}
			ok := bad == "" && norm(gotSpace) == wantSpace && norm(gotLocal) == wantLocal
			w.check(P, "R11.3", "name test "+nt, ks.Append.Pos(), ok, fmt.Sprintf("`%s`: node kept under Space()==[%s] Local()==[%s]; required Space()==[%s] Local()==[%s] %s", a.String(), gotSpace, gotLocal, wantSpace, wantLocal, bad))
		}
		if n == 0 {
			w.undecided(P, "R11.3", "name test "+nt, h.Pos, "no filtering append found")
		}
	}
	// the parts of a name are distinct parse nodes: a list of node pointers that is filled inside a loop takes the address
	// of a variable that lives inside that loop; the address of one variable declared outside of it, appended on every
	// iteration, makes all entries the same node (prefix and local name of `p:x` then read the same text)
	seenFn := map[*ssa.Function]bool{}
	for _, nt := range nts {
		h := f.Handlers[nt]
		if h == nil {
			continue
		}
		for _, fn := range w.handlerClosureH(h) {
			if seenFn[fn] {
				continue
			}
			seenFn[fn] = true
			loops := loopBlocks(fn)
			allInstrs(fn, func(in ssa.Instruction) {
				c, ok := in.(*ssa.Call)
				if !ok || !loops[c.Block()] {
					return
				}
				b, ok := c.Call.Value.(*ssa.Builtin)
				if !ok || b.Name() != "append" || len(c.Call.Args) != 2 || !isBSRPtrSlice(c.Type()) {
					return
				}
				sl, ok := c.Call.Args[1].(*ssa.Slice)
				if !ok {
					return
				}
				arr, ok := sl.X.(*ssa.Alloc)
				if !ok {
					return
				}
				for _, st := range storesInto(arr) {
					al, isAl := st.Val.(*ssa.Alloc)
					if !isAl {
						continue
					}
					w.check(P, "R11.3", "parse nodes collected in "+fn.Name()+" are distinct", c.Pos(), loops[al.Block()], fmt.Sprintf("the variable whose address is appended in the loop is declared inside it: %v", loops[al.Block()]))
				}
			})
		}
	}
	w.floor(P, "R11.3", 11)
}

// functionArgsInOrder: the variadic argument of the dynamic call is a slice built by appending, in an
// ascending loop over the gathered argument list, the result field of a context copy evaluated by the dispatcher.
// functionArgsInOrder looks for the argument loop in the handler or in a helper of the package it was moved to.
func (w *World) functionArgsInOrder(h *ssa.Function, r *Roles) (bool, string) {
	cands := []*ssa.Function{h}
	for g := range staticReach(h, func(x *ssa.Function) bool { return fnPkgKey(x) == "exec" && x != r.ExecContext }) {
		if g != h && fnPkgKey(g) == "exec" {
			cands = append(cands, g)
		}
	}
	sortFuncs(cands[1:])
	firstWhy := ""
	for _, g := range cands {
		ok, why := w.functionArgsInOrderIn(g, r)
		if ok {
			return true, why + " (in " + g.Name() + ")"
		}
		if firstWhy == "" || (g != h && !strings.HasPrefix(why, "arguments are not evaluated")) {
			if firstWhy == "" || strings.HasPrefix(firstWhy, "arguments are not evaluated") {
				firstWhy = why
			}
		}
	}
	return false, firstWhy
}

// independentEvaluator: e evaluates the expression designated by one of its parameters in a copy of its context
// parameter and returns that copy's result: (index of the designating parameter, true).
func (w *World) independentEvaluator(e *ssa.Function, r *Roles) (int, bool) {
	evals := w.childEvals(e)
	if len(evals) != 1 || evals[0].CopyCtx == nil {
		return 0, false
	}
	ev := evals[0]
	nx, ok := ev.Call.Call.Args[1].(*ssa.Call)
	if !ok || len(nx.Call.Args) != 2 {
		return 0, false
	}
	idx := -1
	for i, p := range e.Params {
		if nx.Call.Args[1] == ssa.Value(p) {
			idx = i
		}
	}
	if idx < 0 {
		return 0, false
	}
	returnsCopy := false
	allInstrs(e, func(in ssa.Instruction) {
		ret, ok := in.(*ssa.Return)
		if !ok || len(ret.Results) != 2 || !isNilConst(ret.Results[1]) {
			return
		}
		if ld, ok := ret.Results[0].(*ssa.UnOp); ok {
			if fa, ok := ld.X.(*ssa.FieldAddr); ok && fa.Field == r.CtxResultField && fa.X == ssa.Value(ev.CopyCtx) {
				returnsCopy = true
			}
		}
	})
	return idx, returnsCopy
}

func (w *World) functionArgsInOrderIn(h *ssa.Function, r *Roles) (bool, string) {
	loops := loopBlocks(h)
	// helper form: the loop calls an independent evaluator on the loop element and appends what it returns
	var helperOK, helperSeen bool
	allInstrs(h, func(in ssa.Instruction) {
		c, ok := in.(*ssa.Call)
		if !ok || !loops[c.Block()] {
			return
		}
		e := staticCallee(c)
		if e == nil || fnPkgKey(e) != "exec" {
			return
		}
		idx, ok := w.independentEvaluator(e, r)
		if !ok || idx >= len(c.Call.Args) {
			return
		}
		helperSeen = true
		asc := false
		if ld, ok := c.Call.Args[idx].(*ssa.UnOp); ok {
			if ia, ok := ld.X.(*ssa.IndexAddr); ok && ascendingCounter(ia.Index) {
				asc = true
			}
		}
		appended := false
		for _, rr := range referrers(c) {
			ex, ok := rr.(*ssa.Extract)
			if !ok || ex.Index != 0 {
				continue
			}
			for _, r2 := range referrers(ex) {
				if st, ok := r2.(*ssa.Store); ok && st.Val == ssa.Value(ex) {
					if ia, ok := st.Addr.(*ssa.IndexAddr); ok {
						if arr, ok := ia.X.(*ssa.Alloc); ok {
							for _, r3 := range referrers(arr) {
								if sl, ok := r3.(*ssa.Slice); ok {
									for _, r4 := range referrers(sl) {
										if ac, ok := r4.(*ssa.Call); ok {
											if b, ok := ac.Call.Value.(*ssa.Builtin); ok && b.Name() == "append" && loops[ac.Block()] {
												appended = true
											}
										}
									}
								}
							}
						}
					}
				}
			}
		}
		if asc && appended {
			helperOK = true
		}
	})
	if helperOK {
		return true, "every argument is evaluated by an independent evaluator (own copy of the context) in ascending order and its result appended"
	}
	_ = helperSeen
	evals := w.childEvals(h)
	var argEval *childEval
	for i := range evals {
		if evals[i].CopyCtx != nil && loops[evals[i].Call.Block()] {
			argEval = &evals[i]
		}
	}
	if argEval == nil {
		return false, "arguments are not evaluated in copies of the context inside a loop"
	}
	// a fresh copy per argument: the copy is made inside the same loop
	freshPerArg := false
	for _, st := range storesInto(argEval.CopyCtx) {
		if st.Addr == ssa.Value(argEval.CopyCtx) && loops[st.Block()] {
			freshPerArg = true
		}
	}
	if !freshPerArg {
		return false, "the context copy used for the arguments is made once outside the loop: every argument after the first is evaluated with the previous argument's result as its context"
	}
	// the evaluated expression is the loop element of the gathered list (ascending)
	nx, ok := argEval.Call.Call.Args[1].(*ssa.Call)
	if !ok {
		return false, "argument expression not recognised"
	}
	asc := false
	if ld, ok := nx.Call.Args[1].(*ssa.UnOp); ok {
		if ia, ok := ld.X.(*ssa.IndexAddr); ok && ascendingCounter(ia.Index) {
			asc = true
		}
	}
	// appended value is that copy's result
	appended := false
	allInstrs(h, func(in ssa.Instruction) {
		c, ok := in.(*ssa.Call)
		if !ok {
			return
		}
		b, ok := c.Call.Value.(*ssa.Builtin)
		if !ok || b.Name() != "append" {
			return
		}
		if sl, ok := c.Call.Args[1].(*ssa.Slice); ok {
			if arr, ok := sl.X.(*ssa.Alloc); ok {
				for _, st := range storesInto(arr) {
					if ld, ok := st.Val.(*ssa.UnOp); ok {
						if fa, ok := ld.X.(*ssa.FieldAddr); ok && fa.Field == r.CtxResultField && fa.X == ssa.Value(argEval.CopyCtx) {
							appended = true
						}
					}
				}
			}
		}
	})
	// or stored at the loop index into a slice made with the length of the argument list
	if !appended {
		allInstrs(h, func(in ssa.Instruction) {
			st, ok := in.(*ssa.Store)
			if !ok {
				return
			}
			ia, ok := st.Addr.(*ssa.IndexAddr)
			if !ok || !ascendingCounter(ia.Index) {
				return
			}
			if _, isMake := ia.X.(*ssa.MakeSlice); !isMake {
				return
			}
			if ld, ok := st.Val.(*ssa.UnOp); ok {
				if fa, ok := ld.X.(*ssa.FieldAddr); ok && fa.Field == r.CtxResultField && fa.X == ssa.Value(argEval.CopyCtx) {
					// the same index designates the evaluated argument
					if nld, ok := nx.Call.Args[1].(*ssa.UnOp); ok {
						if nia, ok := nld.X.(*ssa.IndexAddr); ok && nia.Index == ia.Index {
							appended = true
						}
					}
				}
			}
		})
	}
	return asc && appended, fmt.Sprintf("arguments evaluated in ascending order of the argument list: %v; each result appended to the argument slice (or stored at the argument's own index): %v", asc, appended)
}

func (w *World) settingsOptions(P string, r *Roles) {
	exec := w.member("exec", "Exec")
	if exec == nil {
		w.undecided(P, "R11.6", "exec.Exec", 0, "not found")
		return
	}
	// three MakeMap stored into the settings alloc; each ContextApply called with the address of it
	// (in Exec itself or in a constructor helper it calls before the evaluation starts)
	var settings, settingsVar *ssa.Alloc
	nSettings := 0
	var setupFns []*ssa.Function
	for g := range staticReach(exec, func(x *ssa.Function) bool { return fnPkgKey(x) == "exec" && x != r.ExecContext }) {
		if g == r.ExecContext {
			continue
		}
		setupFns = append(setupFns, g)
	}
	sort.Slice(setupFns, func(i, j int) bool { return setupFns[i].String() < setupFns[j].String() })
	for _, g := range setupFns {
		allInstrs(g, func(in ssa.Instruction) {
			if al, ok := in.(*ssa.Alloc); ok {
				if n, ok := al.Type().(*types.Pointer).Elem().(*types.Named); ok && n.Obj().Name() == "ContextSettings" && len(storesInto(al)) >= 3 {
					hasMake := false
					for _, st := range storesInto(al) {
						if _, isMM := st.Val.(*ssa.MakeMap); isMM {
							hasMake = true
						}
					}
					if hasMake {
						settings = al
						nSettings++
					}
				}
			}
		})
	}
	// the settings may also be built by a constructor that returns them by value: then the variable that receives them
	// (and to which the options are applied) is what counts, provided the constructor's value has the fresh maps
	if settings != nil {
		ctor := settings.Parent()
		for _, g := range setupFns {
			allInstrs(g, func(in ssa.Instruction) {
				st, ok := in.(*ssa.Store)
				if !ok {
					return
				}
				al, ok := st.Addr.(*ssa.Alloc)
				if !ok {
					return
				}
				c, ok := st.Val.(*ssa.Call)
				if !ok || staticCallee(c) != ctor {
					return
				}
				// every return of the constructor is a load of the allocation with the maps
				all, n := true, 0
				allInstrs(ctor, func(in2 ssa.Instruction) {
					if ret, ok := in2.(*ssa.Return); ok {
						n++
						ld, ok := ret.Results[0].(*ssa.UnOp)
						if !ok || ld.X != ssa.Value(settings) {
							all = false
						}
					}
				})
				if all && n > 0 {
					settingsVar = al
				}
			})
		}
	}
	if nSettings > 1 {
		w.undecided(P, "R11.6", "Exec settings", exec.Pos(), "more than one ContextSettings is built on the way into the evaluation")
		settings = nil
	}
	if settings == nil {
		w.undecided(P, "R11.6", "Exec settings", exec.Pos(), "no local ContextSettings")
	} else {
		fresh := map[string]bool{}
		for _, st := range storesInto(settings) {
			if fa, ok := st.Addr.(*ssa.FieldAddr); ok {
				if _, isMM := st.Val.(*ssa.MakeMap); isMM {
					name := settings.Type().(*types.Pointer).Elem().Underlying().(*types.Struct).Field(fa.Field).Name()
					fresh[name] = true
				}
			}
		}
		applied := false
		target := settings
		if settingsVar != nil {
			target = settingsVar
		}
		sfn := target.Parent()
		allInstrs(sfn, func(in ssa.Instruction) {
			c, ok := in.(*ssa.Call)
			if !ok || staticCallee(c) != nil || c.Call.IsInvoke() {
				return
			}
			if len(c.Call.Args) == 1 && c.Call.Args[0] == ssa.Value(target) && loopBlocks(sfn)[c.Block()] {
				applied = true
			}
		})
		w.check(P, "R11.6", "Exec: fresh settings maps", settings.Pos(), fresh["Variables"] && fresh["FunctionLibrary"] && fresh["NamespaceDecls"] && applied, fmt.Sprintf("maps allocated in the call: %v; every option applied to them in a loop over the settings: %v", keys(fresh), applied))
	}
	// options in the root package
	type opt struct {
		name, field string
	}
	for _, o := range []opt{{"WithNS", "NamespaceDecls"}, {"WithVariableName", "Variables"}, {"WithFunctionName", "FunctionLibrary"}} {
		fn := w.member("", o.name)
		if fn == nil {
			w.check(P, "R11.6", "option "+o.name, 0, false, "public option missing")
			continue
		}
		ok := false
		detail := "no map update in the returned closure"
		for _, cl := range fn.AnonFuncs {
			allInstrs(cl, func(in ssa.Instruction) {
				mu, isMU := in.(*ssa.MapUpdate)
				if !isMU {
					return
				}
				field := settingsFieldName(mu.Map)
				// key and value are free variables bound to parameters 0 and 1 of the option
				bound := func(v ssa.Value) int {
					if ld, isLd := v.(*ssa.UnOp); isLd {
						v = ld.X
					}
					fv, isFV := v.(*ssa.FreeVar)
					if !isFV {
						return -1
					}
					for i, x := range cl.FreeVars {
						if x == fv {
							// binding i of the MakeClosure
							var mc *ssa.MakeClosure
							allInstrs(fn, func(in2 ssa.Instruction) {
								if m, isMC := in2.(*ssa.MakeClosure); isMC && m.Fn == ssa.Value(cl) {
									mc = m
								}
							})
							if mc == nil {
								return -1
							}
							b := mc.Bindings[i]
							if al, isAl := b.(*ssa.Alloc); isAl {
								for _, st := range storesInto(al) {
									b = st.Val
								}
							}
							for pi, p := range fn.Params {
								if ssa.Value(p) == b {
									return pi
								}
							}
						}
					}
					return -1
				}
				k, v := bound(mu.Key), bound(mu.Value)
				ok = field == o.field && k == 0 && v == 1
				detail = fmt.Sprintf("writes %s[param %d] = param %d", field, k, v)
			})
		}
		w.check(P, "R11.6", "option "+o.name, fn.Pos(), ok, detail+"; required "+o.field+"[param 0] = param 1")
	}
	for _, name := range []string{"WithVariableNS", "WithFunctionNS"} {
		fn := w.member("", name)
		if fn == nil {
			w.check(P, "R11.6", "option "+name, 0, false, "public option missing")
			continue
		}
		ok := false
		detail := "no XmlName built from the parameters"
		allInstrs(fn, func(in ssa.Instruction) {
			c, isCall := in.(*ssa.Call)
			if !isCall || staticCallee(c) == nil || !strings.HasSuffix(staticCallee(c).Name(), "Name") || len(c.Call.Args) != 2 {
				return
			}
			// arg0: XmlName value from an alloc with field stores
			src := c.Call.Args[0]
			if ld, isLd := src.(*ssa.UnOp); isLd {
				if al, isAl := ld.X.(*ssa.Alloc); isAl {
					got := map[int]int{}
					for _, st := range storesInto(al) {
						if fa, isFA := st.Addr.(*ssa.FieldAddr); isFA {
							for pi, p := range fn.Params {
								if st.Val == ssa.Value(p) {
									got[fa.Field] = pi + 1
								}
							}
						}
					}
					st := al.Type().(*types.Pointer).Elem().Underlying().(*types.Struct)
					spaceIdx, localIdx := -1, -1
					for i := 0; i < st.NumFields(); i++ {
						if st.Field(i).Name() == "Space" {
							spaceIdx = i
						}
						if st.Field(i).Name() == "Local" {
							localIdx = i
						}
					}
					ok = got[spaceIdx] == 1 && got[localIdx] == 2 && c.Call.Args[1] == ssa.Value(fn.Params[2])
					detail = fmt.Sprintf("XmlName{Space: param %d, Local: param %d}", got[spaceIdx]-1, got[localIdx]-1)
				}
			}
		})
		w.check(P, "R11.6", "option "+name, fn.Pos(), ok, detail+"; required XmlName{Space: param 0, Local: param 1} and the value as third parameter")
	}
	for _, name := range []string{"WithVariable", "WithFunction"} {
		fn := w.member("", name)
		if fn == nil {
			w.check(P, "R11.6", "option "+name, 0, false, "public option missing")
			continue
		}
		ok := false
		allInstrs(fn, func(in ssa.Instruction) {
			c, isCall := in.(*ssa.Call)
			if !isCall || staticCallee(c) == nil || len(c.Call.Args) != 3 {
				return
			}
			if s, isS := constString(c.Call.Args[0]); isS && s == "" && c.Call.Args[1] == ssa.Value(fn.Params[0]) && c.Call.Args[2] == ssa.Value(fn.Params[1]) && staticCallee(c).Name() == name+"NS" {
				ok = true
			}
		})
		// or directly: <name>Name(XmlName{Local: local}, value) - the name in no namespace
		allInstrs(fn, func(in ssa.Instruction) {
			c, isCall := in.(*ssa.Call)
			if !isCall || staticCallee(c) == nil || len(c.Call.Args) != 2 || staticCallee(c).Name() != name+"Name" {
				return
			}
			if c.Call.Args[1] != ssa.Value(fn.Params[1]) {
				return
			}
			if ld, isLd := c.Call.Args[0].(*ssa.UnOp); isLd {
				if al, isAl := ld.X.(*ssa.Alloc); isAl {
					st := al.Type().(*types.Pointer).Elem().Underlying().(*types.Struct)
					spaceOK, localOK := true, false
					for _, s2 := range storesInto(al) {
						fa, isFA := s2.Addr.(*ssa.FieldAddr)
						if !isFA {
							spaceOK = false
							continue
						}
						switch st.Field(fa.Field).Name() {
						case "Space":
							if k, isK := constString(s2.Val); !isK || k != "" {
								spaceOK = false
							}
						case "Local":
							localOK = s2.Val == ssa.Value(fn.Params[0])
						}
					}
					if spaceOK && localOK {
						ok = true
					}
				}
			}
		})
		w.check(P, "R11.6", "option "+name, fn.Pos(), ok, fmt.Sprintf("binds the name in no namespace (%sNS(\"\", local, value) or %sName(XmlName{Local: local}, value)): %v", name, name, ok))
	}
	w.floor(P, "R11.6", 8)
}

// mergedFunctionTable: the function-call handler resolves names in one private map of the context. The values stored
// into that field are examined: the package-level builtin table itself (the user's library is never consulted), or the
// result of a builder that fills a fresh map from the user's library and from the builtin table - then the entries
// written last win, so the library must be copied after the builtins (or the builtins only into free slots).
func (w *World) mergedFunctionTable(lk *ssa.Lookup) (ok bool, why string, decided bool) {
	ld, isLd := lk.X.(*ssa.UnOp)
	if !isLd {
		return false, "", false
	}
	fa, isFA := ld.X.(*ssa.FieldAddr)
	if !isFA {
		return false, "", false
	}
	ctxT := fa.X.Type()
	isBuiltinGlobal := func(v ssa.Value) bool {
		l, ok := v.(*ssa.UnOp)
		if !ok {
			return false
		}
		g, ok := l.X.(*ssa.Global)
		if !ok {
			return false
		}
		mt, ok := g.Type().(*types.Pointer).Elem().Underlying().(*types.Map)
		if !ok {
			return false
		}
		_, isSig := mt.Elem().Underlying().(*types.Signature)
		return isSig
	}
	var builders []*ssa.Call
	direct := false
	w.forAllFuncs("exec", func(fn *ssa.Function) {
		allInstrs(fn, func(in ssa.Instruction) {
			st, ok := in.(*ssa.Store)
			if !ok {
				return
			}
			f2, ok := st.Addr.(*ssa.FieldAddr)
			if !ok || f2.Field != fa.Field || !types.Identical(f2.X.Type(), ctxT) {
				return
			}
			switch v := st.Val.(type) {
			case *ssa.Call:
				if sc := staticCallee(v); sc != nil && fnPkgKey(sc) == "exec" && len(sc.Blocks) > 0 {
					builders = append(builders, v)
				}
			default:
				if isBuiltinGlobal(st.Val) {
					direct = true
				}
			}
		})
	})
	if direct && len(builders) == 0 {
		return false, "the only table consulted is the builtin table: a function of the query's FunctionLibrary is never found", true
	}
	if len(builders) == 0 {
		return false, "", false
	}
	for _, call := range builders {
		g := staticCallee(call)
		// the parameter that receives the user's library
		var lib *ssa.Parameter
		for i, a := range call.Call.Args {
			if i < len(g.Params) && settingsFieldName(a) == "FunctionLibrary" {
				lib = g.Params[i]
			}
		}
		if lib == nil {
			return false, "", false
		}
		// range loops: block of the Next instruction -> what is ranged over
		var libHdr, builtinHdr *ssa.BasicBlock
		var builtinUpd *ssa.MapUpdate
		allInstrs(g, func(in ssa.Instruction) {
			switch x := in.(type) {
			case *ssa.Next:
				rg, ok := x.Iter.(*ssa.Range)
				if !ok {
					return
				}
				if rg.X == ssa.Value(lib) {
					libHdr = x.Block()
				} else if isBuiltinGlobal(rg.X) {
					builtinHdr = x.Block()
				}
			}
		})
		if libHdr == nil || builtinHdr == nil {
			return false, "", false
		}
		allInstrs(g, func(in ssa.Instruction) {
			if mu, ok := in.(*ssa.MapUpdate); ok && builtinHdr.Dominates(mu.Block()) && !libHdr.Dominates(mu.Block()) {
				builtinUpd = mu
			} else if ok && builtinHdr.Dominates(mu.Block()) && libHdr.Dominates(builtinHdr) && builtinUpd == nil {
				// both headers dominate it: the later loop's update
				if sliceContains(mu.Value, func(v ssa.Value) bool {
					ex, ok := v.(*ssa.Extract)
					if !ok {
						return false
					}
					nx, ok := ex.Tuple.(*ssa.Next)
					return ok && nx.Block() == builtinHdr
				}) {
					builtinUpd = mu
				}
			}
		})
		switch {
		case builtinHdr.Dominates(libHdr):
			// builtins first, the library's entries overwrite them
		case libHdr.Dominates(builtinHdr):
			guarded := false
			if builtinUpd != nil {
				for _, a := range guardAtoms(builtinUpd.Block()) {
					// `if _, taken := table[name]; !taken` / `if table[name] == nil`
					if ex, ok := a.V.(*ssa.Extract); ok && !a.Pol {
						if l2, ok := ex.Tuple.(*ssa.Lookup); ok && l2.X == builtinUpd.Map {
							guarded = true
						}
					}
					if bo, ok := a.V.(*ssa.BinOp); ok && isNilConst(bo.Y) {
						if l2, ok := bo.X.(*ssa.Lookup); ok && l2.X == builtinUpd.Map && ((bo.Op == token.EQL && a.Pol) || (bo.Op == token.NEQ && !a.Pol)) {
							guarded = true
						}
					}
				}
			}
			if !guarded {
				return false, fmt.Sprintf("%s copies the builtin table into the merged table after the query's FunctionLibrary: a builtin overwrites the user's function of the same name", g.Name()), true
			}
		default:
			return false, "", false
		}
	}
	return true, "the merged table is filled with the builtins first and the query's FunctionLibrary second (or builtins only into free slots): the user's function wins", true
}

// prunedGuards: the branch conditions every path from the function's entry to b passes with one polarity, when the
// branches on the given boolean parameters are taken as the constants say (edges that cannot be taken are removed).
func prunedGuards(b *ssa.BasicBlock, consts map[*ssa.Parameter]bool) []atom {
	fn := b.Parent()
	type edge struct{ from, to *ssa.BasicBlock }
	dead := map[edge]bool{}
	for _, blk := range fn.Blocks {
		if len(blk.Instrs) == 0 {
			continue
		}
		iff, ok := blk.Instrs[len(blk.Instrs)-1].(*ssa.If)
		if !ok {
			continue
		}
		cond, pol := iff.Cond, true
		if u, isU := cond.(*ssa.UnOp); isU && u.Op == token.NOT {
			cond, pol = u.X, false
		}
		p, isP := cond.(*ssa.Parameter)
		if !isP {
			continue
		}
		val, known := consts[p]
		if !known {
			continue
		}
		if val == pol {
			dead[edge{blk, blk.Succs[1]}] = true
		} else {
			dead[edge{blk, blk.Succs[0]}] = true
		}
	}
	if len(dead) == 0 {
		return nil
	}
	reach := func(extra edge) bool {
		seen := map[*ssa.BasicBlock]bool{}
		stack := []*ssa.BasicBlock{fn.Blocks[0]}
		for len(stack) > 0 {
			x := stack[len(stack)-1]
			stack = stack[:len(stack)-1]
			if x == b {
				return true
			}
			if seen[x] {
				continue
			}
			seen[x] = true
			for _, s := range x.Succs {
				e := edge{x, s}
				if dead[e] || e == extra {
					continue
				}
				stack = append(stack, s)
			}
		}
		return false
	}
	if !reach(edge{}) {
		return nil
	}
	var out []atom
	for _, blk := range fn.Blocks {
		if len(blk.Instrs) == 0 || len(blk.Succs) != 2 || blk.Succs[0] == blk.Succs[1] {
			continue
		}
		iff, ok := blk.Instrs[len(blk.Instrs)-1].(*ssa.If)
		if !ok {
			continue
		}
		if _, isP := iff.Cond.(*ssa.Parameter); isP {
			continue
		}
		// without the true edge b cannot be reached: every path takes the true edge (and likewise for the false edge)
		if !reach(edge{blk, blk.Succs[0]}) {
			out = append(out, atom{V: iff.Cond, Pol: true})
		} else if !reach(edge{blk, blk.Succs[1]}) {
			out = append(out, atom{V: iff.Cond, Pol: false})
		}
	}
	return out
}
