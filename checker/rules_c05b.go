package main

import (
	"fmt"
	"go/token"
	"go/types"

	"golang.org/x/tools/go/ssa"
)

// nodeValueFault: why the value v, which is computed from a node of an operand node-set, is not that node's
// string-value (or its number). "" when it is, or when the chain ends in something this reading does not judge (a
// parameter, a captured variable).
//
// Accepted links: exec.GetCursorString(node); the package's string-to-number conversion of an accepted value; type
// conversions; X.String() / X.Number() of a Result; a function of package exec every return of which is accepted.
// Rejected links: a value read from a map or from a field, and methods of the cursor or of its node other than through
// GetCursorString (the text of the first child, a cached value keyed by position, ...).
func (w *World) nodeValueFault(v ssa.Value, depth int) string {
	if depth > 4 {
		return ""
	}
	v = stripConvAll(v)
	switch x := v.(type) {
	case *ssa.Phi:
		for _, e := range x.Edges {
			if f := w.nodeValueFault(e, depth+1); f != "" {
				return f
			}
		}
		return ""
	case *ssa.Extract:
		switch t := x.Tuple.(type) {
		case *ssa.Lookup:
			return "read from a map at " + w.pos(t.Pos())
		case *ssa.Call:
			return w.callValueFault(t, x.Index, depth)
		}
		return ""
	case *ssa.Lookup:
		if _, isMap := x.X.Type().Underlying().(*types.Map); isMap {
			return "read from a map at " + w.pos(x.Pos())
		}
		return ""
	case *ssa.UnOp:
		if x.Op == token.MUL {
			if _, isFA := x.X.(*ssa.FieldAddr); isFA {
				return "read from a field at " + w.pos(x.Pos())
			}
		}
		return ""
	case *ssa.Call:
		return w.callValueFault(x, 0, depth)
	}
	return ""
}

func (w *World) callValueFault(c *ssa.Call, idx int, depth int) string {
	if c.Call.IsInvoke() {
		m := c.Call.Method
		if m.Name() == "String" || m.Name() == "Number" || m.Name() == "Bool" {
			return ""
		}
		// a method of the cursor or of its node
		if pk := m.Pkg(); pk != nil && (pk.Name() == "store" || pk.Name() == "node") {
			return fmt.Sprintf("%s() of the node at %s", m.Name(), w.pos(c.Pos()))
		}
		return ""
	}
	sc := staticCallee(c)
	if sc == nil {
		return ""
	}
	if sc == w.member("exec", "GetCursorString") {
		return ""
	}
	if w.isStringToNumber(sc) && len(c.Call.Args) == 1 {
		return w.nodeValueFault(c.Call.Args[0], depth+1)
	}
	if _, isNum := isMethodCall(c, "Number"); isNum {
		return ""
	}
	if _, isStr := isMethodCall(c, "String"); isStr {
		return ""
	}
	if fnPkgKey(sc) != "exec" || len(sc.Blocks) == 0 {
		return ""
	}
	fault := ""
	allInstrs(sc, func(in ssa.Instruction) {
		if ret, ok := in.(*ssa.Return); ok && idx < len(ret.Results) && fault == "" {
			if f := w.nodeValueFault(ret.Results[idx], depth+1); f != "" {
				fault = f + " (returned by " + sc.Name() + ")"
			}
		}
	})
	return fault
}
