package main

import (
	"go/constant"
	"go/token"
	"golang.org/x/tools/go/ssa"
)

// literalCallSites: the calls that run the function literal lit when it is handed, as an argument, to a helper of the
// package that calls that parameter (`helper(args, func(...) {...})` with `pick(...)` inside helper). Nil when the
// literal is used in any other way.
func literalCallSites(lit *ssa.Function) []*ssa.Call {
	use := closureUseSite(lit)
	if use == nil {
		return nil
	}
	h := staticCallee(use)
	if h == nil || len(h.Blocks) == 0 {
		return nil
	}
	idx := -1
	for i, a := range use.Call.Args {
		switch x := a.(type) {
		case *ssa.MakeClosure:
			if x.Fn == ssa.Value(lit) {
				idx = i
			}
		case *ssa.Function:
			if x == lit {
				idx = i
			}
		}
	}
	if idx < 0 || idx >= len(h.Params) {
		return nil
	}
	var out []*ssa.Call
	escapes := false
	for _, rr := range referrers(h.Params[idx]) {
		c, ok := rr.(*ssa.Call)
		if ok && c.Call.Value == ssa.Value(h.Params[idx]) {
			out = append(out, c)
			continue
		}
		escapes = true // stored or passed on: other call sites may exist
	}
	if escapes {
		return nil
	}
	return out
}

// flatView: a builtin implementation together with the helpers of the package it hands its argument list or a function
// literal to, and those literals - with the bindings of their parameters, so that a rule can read the computation as if
// it were written in one function.
type flatView struct {
	Fns  []*ssa.Function
	bind map[*ssa.Parameter]ssa.Value
	via  map[*ssa.Function]*ssa.Call // the call through which the function is entered
}

func (w *World) flatten(impl *ssa.Function) *flatView {
	v := &flatView{Fns: []*ssa.Function{impl}, bind: map[*ssa.Parameter]ssa.Value{}, via: map[*ssa.Function]*ssa.Call{}}
	if len(impl.Params) == 0 {
		return v
	}
	args := ssa.Value(impl.Params[len(impl.Params)-1])
	seen := map[*ssa.Function]bool{impl: true}
	for i := 0; i < len(v.Fns) && i < 8; i++ {
		fn := v.Fns[i]
		allInstrs(fn, func(in ssa.Instruction) {
			c, ok := in.(*ssa.Call)
			if !ok {
				return
			}
			h := staticCallee(c)
			if h == nil || fnPkgKey(h) != "exec" || len(h.Blocks) == 0 || seen[h] {
				return
			}
			takes := false
			for _, a := range c.Call.Args {
				if v.res(a) == args {
					takes = true
				}
				switch x := a.(type) {
				case *ssa.MakeClosure:
					if f, ok := x.Fn.(*ssa.Function); ok && f.Parent() == fn {
						takes = true
					}
				case *ssa.Function:
					if x.Parent() == fn {
						takes = true
					}
				}
			}
			if !takes {
				return
			}
			seen[h] = true
			v.Fns = append(v.Fns, h)
			v.via[h] = c
			for k, a := range c.Call.Args {
				if k < len(h.Params) {
					v.bind[h.Params[k]] = a
				}
			}
			// literals handed to the helper: entered at the helper's call of that parameter
			for _, a := range c.Call.Args {
				var lit *ssa.Function
				switch x := a.(type) {
				case *ssa.MakeClosure:
					lit, _ = x.Fn.(*ssa.Function)
				case *ssa.Function:
					if x.Parent() != nil {
						lit = x
					}
				}
				if lit == nil || seen[lit] {
					continue
				}
				sites := literalCallSites(lit)
				if len(sites) != 1 {
					continue
				}
				seen[lit] = true
				v.Fns = append(v.Fns, lit)
				v.via[lit] = sites[0]
				for k, a2 := range sites[0].Call.Args {
					if k < len(lit.Params) {
						v.bind[lit.Params[k]] = a2
					}
				}
			}
		})
	}
	return v
}

// res follows parameter bindings (and captured variables) to the value computed in the enclosing view.
func (v *flatView) res(x ssa.Value) ssa.Value {
	for i := 0; i < 8; i++ {
		switch y := x.(type) {
		case *ssa.Parameter:
			b, ok := v.bind[y]
			if !ok {
				return x
			}
			x = b
		case *ssa.FreeVar:
			b := freeVarBinding(y)
			if b == nil {
				return x
			}
			x = b
		default:
			return x
		}
	}
	return x
}

// guards: the control-dependence atoms of block b together with those of the calls through which b's function is
// entered.
func (v *flatView) guards(b *ssa.BasicBlock) []atom {
	out := guardAtoms(b)
	fn := b.Parent()
	for i := 0; i < 6; i++ {
		c, ok := v.via[fn]
		if !ok {
			break
		}
		out = append(out, guardAtoms(c.Block())...)
		fn = c.Parent()
	}
	return out
}

func (v *flatView) all(visit func(ssa.Instruction)) {
	for _, fn := range v.Fns {
		allInstrs(fn, visit)
	}
}

// feasible: no guard of b (or of the calls that lead to it) is a parameter bound to the opposite boolean constant
// in this view (`helper(args, true)`: the blocks under `!after` do not belong to this builtin).
func (v *flatView) feasible(b *ssa.BasicBlock) bool {
	for _, a := range v.guards(b) {
		x := a.V
		pol := a.Pol
		if u, ok := x.(*ssa.UnOp); ok && u.Op == token.NOT {
			x, pol = u.X, !pol
		}
		k, ok := v.res(x).(*ssa.Const)
		if !ok || k.Value == nil || k.Value.Kind() != constant.Bool {
			continue
		}
		if constant.BoolVal(k.Value) != pol {
			return false
		}
	}
	return true
}
