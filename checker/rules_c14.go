package main

import (
	"fmt"
	"go/token"
	"sort"
	"strings"

	"golang.org/x/tools/go/ssa"
)

func init() {
	register("C14", checkC14)
	notDecided["C14"] = "schedules as such: equality of `-c N` and `-c 1` output as sets of blocks (follows from one-write-per-file plus C13 but is an input/output statement); scheduler fairness; atomicity of a single write(2) is assumed from Go's per-FD write lock; data races inside user-supplied functions and Cursor implementations."
}

// cliFacts: worker entry points (targets of go statements and their synchronous twins), spawn sites.
type spawnSite struct {
	In     ssa.Instruction
	Callee *ssa.Function
	Fn     *ssa.Function
	IsGo   bool
}

func (w *World) cliSpawns() ([]spawnSite, map[*ssa.Function]bool) {
	var sites []spawnSite
	workers := map[*ssa.Function]bool{}
	w.forAllFuncs("xsel", func(fn *ssa.Function) {
		allInstrs(fn, func(in ssa.Instruction) {
			if g, ok := in.(*ssa.Go); ok {
				if sc := g.Call.StaticCallee(); sc != nil {
					workers[sc] = true
					sites = append(sites, spawnSite{in, sc, fn, true})
				} else if !g.Call.IsInvoke() {
					// `go job()` in a helper that is handed the job: the functions bound to that parameter at the
					// calls of the helper (a literal that only calls a function of the command stands for it)
					for _, wf := range w.boundWorkers(g.Call.Value, 0) {
						workers[wf] = true
						sites = append(sites, spawnSite{in, wf, fn, true})
					}
				}
			}
		})
	})
	// the synchronous run of a job parameter in the same helper
	w.forAllFuncs("xsel", func(fn *ssa.Function) {
		allInstrs(fn, func(in ssa.Instruction) {
			c, ok := in.(*ssa.Call)
			if !ok || staticCallee(c) != nil || c.Call.IsInvoke() {
				return
			}
			if _, isParam := c.Call.Value.(*ssa.Parameter); !isParam {
				return
			}
			for _, wf := range w.boundWorkers(c.Call.Value, 0) {
				if workers[wf] {
					sites = append(sites, spawnSite{in, wf, fn, false})
				}
			}
		})
	})
	// synchronous twins: plain calls of a worker entry
	w.forAllFuncs("xsel", func(fn *ssa.Function) {
		allInstrs(fn, func(in ssa.Instruction) {
			if c, ok := in.(*ssa.Call); ok {
				if sc := staticCallee(c); sc != nil && workers[sc] && !thinWorkerWrappers[fn] {
					sites = append(sites, spawnSite{in, sc, fn, false})
				}
			}
		})
	})
	return sites, workers
}

func checkC14(w *World) {
	const P = "C14"
	docRule(P, "R14.1", "E", "library: thread-locality. Every write executed on behalf of exec.Exec goes to memory allocated by that call (C13 R13.1 evaluated for Exec, GetCursorString and the Result methods); everything shared between concurrent Execs — cursor tree, compiled Grammar, lexer, BSR set, generated tables, builtin table, the caller's binding maps — is therefore only read, so concurrent Execs have no write/write or read/write pair on shared memory.")
	docRule(P, "R14.2", "E+D", "CLI: functions reachable from the worker entry points (targets of go statements and their synchronous twins) write no package-level variable of the command (WaitGroup and channel operations excepted); every write to a package-level variable in main — including the maps filled by flag.Parse through flag.Value.Set — precedes (dominates) the first spawn site.")
	docRule(P, "R14.3", "D", "CLI: one write per file. In the code reachable from a worker entry there is exactly one call that writes to standard output (fmt.Print*), it is not inside a loop, and every formatted write of record text goes to a buffer local to the activation (never to os.Stdout); diagnostics go to os.Stderr.")
	docRule(P, "R14.4", "P", "CLI pairing: each worker entry defers WaitGroup.Done and the semaphore release (so they run on every exit, panics included); each spawn site performs the semaphore acquire and WaitGroup.Add(1) before starting the worker; main calls Wait after the last spawn.")

	e := w.Effects()
	for _, ep := range w.purityEntries() {
		if ep.Fn != nil {
			e.summary(ep.Fn)
		}
	}
	for _, f := range []string{"main", "runXpathOnFile", "runXpathOnStdin"} {
		if fn := w.member("xsel", f); fn != nil {
			e.summary(fn)
		}
	}
	e.settle()
	// R14.1
	for _, ep := range w.purityEntries() {
		if ep.Fn == nil {
			continue
		}
		s := e.summary(ep.Fn)
		bad := tagset{}
		for t := range s.W {
			if _, ok := ep.Allowed[t]; !ok {
				bad[t] = true
			}
		}
		nf, nm := e.reachStats(ep.Fn)
		if len(bad) == 0 {
			w.check(P, "R14.1", "entry point "+ep.Name, ep.Fn.Pos(), true, fmt.Sprintf("%d reachable functions, %d mutating instructions, none on shared memory", nf, nm))
			continue
		}
		var leaves []write
		e.explain(ep.Fn, bad, 0, map[string]bool{}, &leaves)
		seen := map[string]bool{}
		for _, lw := range leaves {
			key := lw.Fn.Name() + ": " + lw.What
			if seen[key] {
				continue
			}
			seen[key] = true
			w.check(P, "R14.1", fmt.Sprintf("%s reaches %s in %s", ep.Name, lw.What, lw.Fn.Name()), lw.Pos, false, fmt.Sprintf("a write to memory shared between concurrent calls: %v; two goroutines executing this on the same document, expression or bindings race", lw.Tags.list()))
		}
		if len(leaves) == 0 {
			w.check(P, "R14.1", "entry point "+ep.Name, ep.Fn.Pos(), false, fmt.Sprintf("may write shared memory %v", bad.list()))
		}
	}
	w.floorSites(P, "R14.1", 16)

	mainPkg := w.SSA["xsel"]
	if mainPkg == nil {
		w.undecided(P, "R14.2", "CLI", 0, "package xsel (command) not loaded")
		return
	}
	sites, workers := w.cliSpawns()
	if len(workers) == 0 {
		w.undecided(P, "R14.2", "CLI workers", 0, "no go statement found in the command")
		return
	}
	var wl []*ssa.Function
	for f := range workers {
		wl = append(wl, f)
	}
	sort.Slice(wl, func(i, j int) bool { return wl[i].Name() < wl[j].Name() })

	// R14.2 (a) workers write no globals
	for _, wf := range wl {
		s := e.summary(wf)
		var globals []string
		for t := range s.W {
			if strings.HasPrefix(t, "G:main.") {
				globals = append(globals, t)
			}
		}
		sort.Strings(globals)
		if len(globals) == 0 {
			nf, nm := e.reachStats(wf)
			w.check(P, "R14.2", "worker "+wf.Name()+" writes no package-level variable", wf.Pos(), true, fmt.Sprintf("%d reachable functions, %d mutating instructions", nf, nm))
			continue
		}
		bad := tagset{}
		for _, g := range globals {
			bad[g] = true
		}
		var leaves []write
		e.explain(wf, bad, 0, map[string]bool{}, &leaves)
		for _, lw := range leaves {
			w.check(P, "R14.2", fmt.Sprintf("worker %s reaches %s in %s", wf.Name(), lw.What, lw.Fn.Name()), lw.Pos, false, fmt.Sprintf("writes %v while other workers may run", lw.Tags.list()))
		}
		if len(leaves) == 0 {
			w.check(P, "R14.2", "worker "+wf.Name()+" writes no package-level variable", wf.Pos(), false, fmt.Sprintf("may write %v", globals))
		}
	}
	// R14.2 (b) main's global writes dominate the spawn loop
	mainFn := mainPkg.Func("main")
	if mainFn == nil {
		w.undecided(P, "R14.2", "main", 0, "main not found")
	} else {
		// first instruction in main from which a spawn site is reachable: calls of functions that contain/reach a spawn, or go statements
		reachSpawn := func(fn *ssa.Function) bool {
			for g := range staticReach(fn, func(x *ssa.Function) bool { return fnPkgKey(x) == "xsel" }) {
				for _, s := range sites {
					if s.Fn == g {
						return true
					}
				}
			}
			return false
		}
		var spawnInstrs []ssa.Instruction
		allInstrs(mainFn, func(in ssa.Instruction) {
			switch x := in.(type) {
			case *ssa.Go:
				spawnInstrs = append(spawnInstrs, in)
			case *ssa.Call:
				if sc := staticCallee(x); sc != nil {
					if inRepo(sc) && reachSpawn(sc) {
						spawnInstrs = append(spawnInstrs, in)
					}
					// callbacks passed to library walkers (filepath.WalkDir(file, walker))
					for _, a := range x.Call.Args {
						if f, ok := a.(*ssa.Function); ok && reachSpawn(f) {
							spawnInstrs = append(spawnInstrs, in)
						}
						if mc, ok := a.(*ssa.MakeClosure); ok {
							if f, ok := mc.Fn.(*ssa.Function); ok && reachSpawn(f) {
								spawnInstrs = append(spawnInstrs, in)
							}
						}
					}
				}
			}
		})
		if len(spawnInstrs) == 0 {
			w.undecided(P, "R14.2", "main: spawn sites", mainFn.Pos(), "main reaches no spawn site")
		}
		s := e.summary(mainFn)
		nw := 0
		for _, wr := range s.Writes {
			isG := false
			for t := range wr.Tags {
				if strings.HasPrefix(t, "G:main.") {
					isG = true
				}
			}
			if !isG {
				continue
			}
			// the instruction at wr.Pos: find it
			var instr ssa.Instruction
			allInstrs(mainFn, func(in ssa.Instruction) {
				if in.Pos() == wr.Pos && instr == nil {
					switch in.(type) {
					case *ssa.Store, *ssa.MapUpdate, ssa.CallInstruction:
						instr = in
					}
				}
			})
			if instr == nil {
				continue
			}
			isSpawn := false
			for _, sp := range spawnInstrs {
				if sp == instr {
					isSpawn = true
				}
			}
			if isSpawn {
				continue
			}
			nw++
			before := true
			for _, sp := range spawnInstrs {
				ok := false
				if instr.Block() == sp.Block() {
					ok = instrIndex(instr) < instrIndex(sp)
				} else {
					ok = !reaches(sp.Block(), instr.Block())
				}
				if !ok {
					before = false
				}
			}
			w.check(P, "R14.2", fmt.Sprintf("main: %s (%s)", wr.What, strings.Join(wr.Tags.list(), ",")), wr.Pos, before, fmt.Sprintf("the write happens before any worker can be started: %v", before))
		}
		if nw == 0 {
			w.undecided(P, "R14.2", "main: initialisation of shared state", mainFn.Pos(), "no write to package-level state found in main")
		}
	}
	w.floorSites(P, "R14.2", 5)

	// R14.3 single stdout write
	for _, wf := range wl {
		closure := staticReach(wf, func(x *ssa.Function) bool { return fnPkgKey(x) == "xsel" })
		var stdoutCalls []ssa.CallInstruction
		badFprint := ""
		for g := range closure {
			loops := loopBlocks(g)
			allInstrs(g, func(in ssa.Instruction) {
				c, ok := in.(ssa.CallInstruction)
				if !ok {
					return
				}
				sc := staticCallee(c)
				if sc == nil {
					return
				}
				name := funcFullName(sc)
				switch {
				case name == "fmt.Print" || name == "fmt.Println" || name == "fmt.Printf":
					stdoutCalls = append(stdoutCalls, c)
					if loops[in.Block()] {
						badFprint = name + " inside a loop in " + g.Name()
					}
				case strings.HasPrefix(name, "fmt.Fprint"):
					dst := c.Common().Args[0]
					if isGlobalLoad(dst, "os", "Stdout") {
						badFprint = name + " to os.Stdout in " + g.Name()
					}
				case name == "(*os.File).Write" || name == "(*os.File).WriteString":
					if isGlobalLoad(c.Common().Args[0], "os", "Stdout") {
						stdoutCalls = append(stdoutCalls, c)
					}
				}
			})
		}
		// callers in a loop: the single print must not be reached through a call inside a loop of the worker closure
		inLoopChain := false
		if len(stdoutCalls) == 1 {
			target := stdoutCalls[0].Parent()
			for g := range closure {
				loops := loopBlocks(g)
				allInstrs(g, func(in ssa.Instruction) {
					if c, ok := in.(*ssa.Call); ok && loops[c.Block()] {
						if sc := staticCallee(c); sc != nil {
							for h := range staticReach(sc, func(x *ssa.Function) bool { return fnPkgKey(x) == "xsel" }) {
								if h == target {
									inLoopChain = true
								}
							}
						}
					}
				})
			}
		}
		// several print sites are fine when no execution reaches two of them (one per mutually exclusive branch)
		exclusive := len(stdoutCalls) >= 1
		if len(stdoutCalls) > 1 {
			same := true
			for _, c := range stdoutCalls {
				if c.Parent() != stdoutCalls[0].Parent() {
					same = false
				}
			}
			if !same {
				exclusive = false
			} else {
				target := stdoutCalls[0].Parent()
				for i, a := range stdoutCalls {
					for j, b := range stdoutCalls {
						if i == j {
							continue
						}
						ab, bb := a.Block(), b.Block()
						// b can run after a
						if ab == bb || blockReachesStrict(ab, bb) {
							exclusive = false
						}
					}
				}
				// and the function that prints is not called from a loop of the worker
				for g := range closure {
					loops := loopBlocks(g)
					allInstrs(g, func(in ssa.Instruction) {
						if c, ok := in.(*ssa.Call); ok && loops[c.Block()] {
							if sc := staticCallee(c); sc != nil {
								for h := range staticReach(sc, func(x *ssa.Function) bool { return fnPkgKey(x) == "xsel" }) {
									if h == target {
										inLoopChain = true
									}
								}
							}
						}
					})
				}
			}
		}
		ok := exclusive && badFprint == "" && !inLoopChain
		w.check(P, "R14.3", "worker "+wf.Name()+": one write to standard output per file", wf.Pos(), ok, fmt.Sprintf("%d stdout writes reachable; problems: %s; reached from a loop: %v", len(stdoutCalls), orNone(badFprint), inLoopChain))
	}
	w.floor(P, "R14.3", 2)

	// R14.4 pairing. The four primitive effects may sit in small helpers of the command (acquireWorker /
	// releaseWorker ...): a call counts as the effects its callee performs on every path from its entry (must-summary
	// over static calls inside package main).
	type fx struct{ send, recv, add, done bool }
	var must func(fn *ssa.Function, depth int) fx
	mustCache := map[*ssa.Function]fx{}
	instrFx := func(in ssa.Instruction, depth int) fx {
		var r fx
		switch x := in.(type) {
		case *ssa.Send:
			r.send = true
		case *ssa.UnOp:
			if x.Op == token.ARROW {
				r.recv = true
			}
		case ssa.CallInstruction:
			if _, isGo := in.(*ssa.Go); isGo {
				return r
			}
			if sc := x.Common().StaticCallee(); sc != nil {
				switch funcFullName(sc) {
				case "(*sync.WaitGroup).Add":
					if k, ok := constInt(x.Common().Args[1]); ok && k == 1 {
						r.add = true
					}
				case "(*sync.WaitGroup).Done":
					r.done = true
				default:
					if inRepo(sc) && depth < 4 {
						if _, isDefer := in.(*ssa.Defer); isDefer {
							r = must(sc, depth+1)
						} else if sc.Pkg != nil && sc.Pkg.Pkg.Name() == "main" {
							r = must(sc, depth+1)
						}
					}
				}
			}
		}
		return r
	}
	must = func(fn *ssa.Function, depth int) fx {
		if r, ok := mustCache[fn]; ok {
			return r
		}
		mustCache[fn] = fx{}
		var r fx
		if len(fn.Blocks) > 0 {
			// effects of the blocks that dominate every return
			var rets []*ssa.BasicBlock
			for _, b := range fn.Blocks {
				if len(b.Instrs) > 0 {
					if _, ok := b.Instrs[len(b.Instrs)-1].(*ssa.Return); ok {
						rets = append(rets, b)
					}
				}
			}
			for _, b := range fn.Blocks {
				all := len(rets) > 0
				for _, rb := range rets {
					if !b.Dominates(rb) {
						all = false
					}
				}
				if !all {
					continue
				}
				for _, in := range b.Instrs {
					e := instrFx(in, depth)
					r.send = r.send || e.send
					r.recv = r.recv || e.recv
					r.add = r.add || e.add
					r.done = r.done || e.done
				}
			}
		}
		mustCache[fn] = r
		return r
	}
	for _, wf := range wl {
		doneDeferred, releaseDeferred := false, false
		allInstrs(wf, func(in ssa.Instruction) {
			d, ok := in.(*ssa.Defer)
			if !ok {
				return
			}
			if in.Block() != wf.Blocks[0] {
				return
			}
			e := instrFx(d, 0)
			doneDeferred = doneDeferred || e.done
			releaseDeferred = releaseDeferred || e.recv
		})
		w.check(P, "R14.4", "worker "+wf.Name()+" releases on every exit", wf.Pos(), doneDeferred && releaseDeferred, fmt.Sprintf("defers WaitGroup.Done in its entry block: %v; defers the semaphore release: %v", doneDeferred, releaseDeferred))
	}
	for _, s := range sites {
		acquired, added := false, false
		b := s.In.Block()
		idx := instrIndex(s.In)
		chk := func(in ssa.Instruction) {
			if _, isDefer := in.(*ssa.Defer); isDefer {
				return
			}
			e := instrFx(in, 0)
			acquired = acquired || e.send
			added = added || e.add
		}
		for i := 0; i < idx; i++ {
			chk(b.Instrs[i])
		}
		for _, ob := range s.Fn.Blocks {
			if ob != b && ob.Dominates(b) {
				for _, in := range ob.Instrs {
					chk(in)
				}
			}
		}
		kind := "synchronous call"
		if s.IsGo {
			kind = "go statement"
		}
		w.check(P, "R14.4", fmt.Sprintf("spawn of %s in %s (%s)", s.Callee.Name(), s.Fn.Name(), kind), s.In.Pos(), acquired && added, fmt.Sprintf("semaphore acquired before: %v; WaitGroup.Add(1) before: %v", acquired, added))
	}
	if mainFn != nil {
		waits := false
		allInstrs(mainFn, func(in ssa.Instruction) {
			if c, ok := in.(*ssa.Call); ok {
				if sc := staticCallee(c); sc != nil && funcFullName(sc) == "(*sync.WaitGroup).Wait" {
					waits = true
				} else if sc != nil && fnPkgKey(sc) == "xsel" && len(sc.Blocks) == 1 {
					// a one-block helper of the command that does the waiting (a method of a pool object)
					allInstrs(sc, func(in2 ssa.Instruction) {
						if c2, ok := in2.(*ssa.Call); ok {
							if s2 := staticCallee(c2); s2 != nil && funcFullName(s2) == "(*sync.WaitGroup).Wait" {
								waits = true
							}
						}
					})
				}
			}
		})
		w.check(P, "R14.4", "main waits for the workers", mainFn.Pos(), waits, fmt.Sprintf("%v", waits))
	}
	w.floor(P, "R14.4", 6)
}

func isGlobalLoad(v ssa.Value, pkg, name string) bool {
	v = stripConv(v)
	ld, ok := v.(*ssa.UnOp)
	if !ok {
		return false
	}
	g, ok := ld.X.(*ssa.Global)
	return ok && g.Pkg.Pkg.Name() == pkg && g.Name() == name
}

func reaches(a, b *ssa.BasicBlock) bool {
	seen := map[*ssa.BasicBlock]bool{}
	stack := []*ssa.BasicBlock{a}
	for len(stack) > 0 {
		x := stack[len(stack)-1]
		stack = stack[:len(stack)-1]
		if x == b {
			return true
		}
		if seen[x] {
			continue
		}
		seen[x] = true
		stack = append(stack, x.Succs...)
	}
	return false
}

// blockReachesStrict: there is a path of at least one edge from a to b.
func blockReachesStrict(a, b *ssa.BasicBlock) bool {
	seen := map[*ssa.BasicBlock]bool{}
	stack := append([]*ssa.BasicBlock{}, a.Succs...)
	for len(stack) > 0 {
		x := stack[len(stack)-1]
		stack = stack[:len(stack)-1]
		if x == b {
			return true
		}
		if seen[x] {
			continue
		}
		seen[x] = true
		stack = append(stack, x.Succs...)
	}
	return false
}

// literals that only forward to a worker entry (the call inside them is not a spawn site of its own)
var thinWorkerWrappers = map[*ssa.Function]bool{}

// boundWorkers: the functions of the command a function value stands for - itself, the function of a closure, or,
// for a parameter, whatever the callers of the enclosing function pass. A function literal whose whole body is one
// call of a function of the command stands for that function.
func (w *World) boundWorkers(v ssa.Value, depth int) []*ssa.Function {
	if depth > 3 {
		return nil
	}
	thin := func(f *ssa.Function) *ssa.Function {
		if f.Parent() == nil || len(f.Blocks) != 1 {
			return f
		}
		var inner *ssa.Function
		n := 0
		for _, in := range f.Blocks[0].Instrs {
			if c, ok := in.(ssa.CallInstruction); ok {
				n++
				if sc := staticCallee(c); sc != nil && fnPkgKey(sc) == "xsel" {
					inner = sc
				}
			}
		}
		if n == 1 && inner != nil {
			thinWorkerWrappers[f] = true
			return inner
		}
		return f
	}
	switch x := v.(type) {
	case *ssa.Function:
		return []*ssa.Function{thin(x)}
	case *ssa.MakeClosure:
		if f, ok := x.Fn.(*ssa.Function); ok {
			return []*ssa.Function{thin(f)}
		}
	case *ssa.Parameter:
		fn := x.Parent()
		idx := -1
		for i, p := range fn.Params {
			if p == x {
				idx = i
			}
		}
		var out []*ssa.Function
		seen := map[*ssa.Function]bool{}
		w.forAllFuncs("xsel", func(g *ssa.Function) {
			allInstrs(g, func(in ssa.Instruction) {
				c, ok := in.(ssa.CallInstruction)
				if !ok || staticCallee(c) != fn || idx >= len(c.Common().Args) {
					return
				}
				for _, f := range w.boundWorkers(c.Common().Args[idx], depth+1) {
					if !seen[f] {
						seen[f] = true
						out = append(out, f)
					}
				}
			})
		})
		sort.Slice(out, func(i, j int) bool { return out[i].Name() < out[j].Name() })
		return out
	}
	return nil
}
