package main

import (
	"fmt"
	"go/constant"
	"go/token"
	"go/types"

	"golang.org/x/tools/go/ssa"
)

// builderOutcome mirrors the outcome of the plain simulation of one event-loop iteration.
type builderOutcome struct {
	h        int
	hTwice   bool
	hArgOK   bool
	first    int
	nextFlag string
	und      string
}

// builderType: the struct type (of package store, not the cursor type) through which fn keeps the construction state:
// the receiver of fn, or a local of fn; with the indices of its cursor field and of its only boolean field.
func builderType(fn *ssa.Function, sf *storeFacts) (bt *types.Named, cf, ff int, ok bool) {
	try := func(t types.Type) bool {
		if p, isP := t.(*types.Pointer); isP {
			t = p.Elem()
		}
		n, isN := types.Unalias(t).(*types.Named)
		if !isN || types.Identical(n, sf.T) || n.Obj().Pkg() == nil || n.Obj().Pkg().Path() != modPath+"/store" {
			return false
		}
		st, isS := n.Underlying().(*types.Struct)
		if !isS {
			return false
		}
		c, f, nb := -1, -1, 0
		for i := 0; i < st.NumFields(); i++ {
			if fp, isP := st.Field(i).Type().(*types.Pointer); isP && types.Identical(fp.Elem(), sf.T) {
				c = i
			}
			if b, isB := st.Field(i).Type().Underlying().(*types.Basic); isB && b.Kind() == types.Bool {
				f = i
				nb++
			}
		}
		if c < 0 || f < 0 || nb != 1 {
			return false
		}
		bt, cf, ff = n, c, f
		return true
	}
	if len(fn.Params) > 0 && try(fn.Params[0].Type()) {
		return bt, cf, ff, true
	}
	found := false
	allInstrs(fn, func(in ssa.Instruction) {
		if al, isA := in.(*ssa.Alloc); isA && !found && try(al.Type()) {
			found = true
		}
	})
	return bt, cf, ff, found
}

// simulateBuilderIteration walks one iteration of the event loop of fn (from the instruction after the Pull call back to
// the loop header) for one kind of event and one value of the builder's flag field. Reads and writes of the builder's
// flag field are followed; methods of the builder that are neither the inheriting function H nor constructing helpers
// are walked in place, with their parameters bound to the caller's values.
func (w *World) simulateBuilderIteration(fn *ssa.Function, es *eventSrc, H *ssa.Function, sf *storeFacts, bt *types.Named, cf, ff int, kind string, flagVal bool) builderOutcome {
	o := builderOutcome{h: -1, first: -1, hArgOK: true}
	isEndV, errV, nodeV := es.isEnd, es.err, es.node
	isBuilderPtr := func(v ssa.Value) bool {
		p, ok := v.Type().(*types.Pointer)
		return ok && types.Identical(p.Elem(), bt)
	}
	builderField := func(v ssa.Value) (int, bool) {
		fa, ok := v.(*ssa.FieldAddr)
		if !ok || !isBuilderPtr(fa.X) {
			return 0, false
		}
		return fa.Field, true
	}
	flagCur := flagVal
	alias := map[ssa.Value]ssa.Value{}
	res := func(v ssa.Value) ssa.Value {
		for i := 0; i < 8; i++ {
			a, ok := alias[v]
			if !ok {
				return v
			}
			v = a
		}
		return v
	}
	phiVal := map[*ssa.Phi]ssa.Value{}
	var eval func(v ssa.Value, depth int) (bool, bool)
	eval = func(v ssa.Value, depth int) (bool, bool) {
		if depth > 24 {
			return false, false
		}
		v = res(v)
		if v == isEndV {
			return kind == "end", true
		}
		switch x := v.(type) {
		case *ssa.Const:
			if x.Value != nil && x.Value.Kind() == constant.Bool {
				return constant.BoolVal(x.Value), true
			}
		case *ssa.UnOp:
			if x.Op == token.NOT {
				val, ok := eval(x.X, depth+1)
				return !val, ok
			}
			if x.Op == token.MUL {
				if f, ok := builderField(x.X); ok && f == ff {
					return flagCur, true
				}
			}
		case *ssa.Phi:
			if e, ok := phiVal[x]; ok {
				return eval(e, depth+1)
			}
		case *ssa.Extract:
			if ta, ok := x.Tuple.(*ssa.TypeAssert); ok && x.Index == 1 && res(ta.X) == nodeV {
				if n, _ := nodeIface(ta.AssertedType); n != nil {
					switch n.Obj().Name() {
					case "Namespace":
						return kind == "namespace", true
					case "Attribute":
						return kind == "attribute", true
					case "Element", "NamedNode":
						return kind == "element" || kind == "attribute", true
					default:
						return false, true
					}
				}
			}
		case *ssa.BinOp:
			if (res(x.X) == errV && isNilConst(x.Y)) || (res(x.Y) == errV && isNilConst(x.X)) {
				return x.Op == token.EQL, true
			}
		case *ssa.Call:
			if sc := staticCallee(x); sc != nil {
				if funcFullName(sc) == "errors.Is" {
					return false, true
				}
				// a predicate of the package over the pulled node
				if fnPkgKey(sc) == "store" && len(sc.Blocks) > 0 && sc.Signature.Results().Len() == 1 {
					resolved := *x
					_ = resolved
					return evalCallee(x, sc, 0, func(a ssa.Value, d int) (bool, bool) { return eval(a, d) }, nodeVOf(x, nodeV, res), kind, depth+1)
				}
			}
		}
		return false, false
	}
	idx := 0
	// flagEffect: the constant a function stores into the builder's flag field (0 none, 1 true, 2 false, 3 mixed)
	flagEffect := func(g *ssa.Function) int {
		eff := 0
		allInstrs(g, func(in ssa.Instruction) {
			st, ok := in.(*ssa.Store)
			if !ok {
				return
			}
			if f, ok := builderField(st.Addr); !ok || f != ff {
				return
			}
			k, isK := st.Val.(*ssa.Const)
			c := 3
			if isK && k.Value != nil && k.Value.Kind() == constant.Bool {
				c = 2
				if constant.BoolVal(k.Value) {
					c = 1
				}
			}
			if eff == 0 || eff == c {
				eff = c
			} else {
				eff = 3
			}
		})
		return eff
	}
	depthFrames := 0
	var exec func(g *ssa.Function, b *ssa.BasicBlock, from int, top bool) bool
	exec = func(g *ssa.Function, b *ssa.BasicBlock, from int, top bool) bool {
		header := es.header
		var prev *ssa.BasicBlock
		visits := map[*ssa.BasicBlock]int{}
		for steps := 0; steps < 400; steps++ {
			visits[b]++
			if visits[b] > 1 && !(top && b == header) {
				o.und = "a loop inside the iteration (" + g.Name() + ")"
				return false
			}
			if prev != nil {
				for _, in := range b.Instrs {
					if ph, ok := in.(*ssa.Phi); ok {
						for i, p := range b.Preds {
							if p == prev {
								phiVal[ph] = ph.Edges[i]
							}
						}
					}
				}
			}
			if top && b == header && prev != nil {
				return true // back at the Pull: the iteration is over
			}
			moved := false
			for i := from; i < len(b.Instrs) && !moved; i++ {
				switch x := b.Instrs[i].(type) {
				case *ssa.Store:
					if f, ok := builderField(x.Addr); ok {
						switch f {
						case ff:
							val, known := eval(x.Val, 0)
							if !known {
								o.und = "the builder's flag is set to a value that is not a constant"
								return false
							}
							flagCur = val
						case cf:
							// the move to the parent on an end event
							if ld, ok := x.Val.(*ssa.UnOp); ok && ld.Op == token.MUL {
								if pfa, ok := ld.X.(*ssa.FieldAddr); ok && sf.roleOf(pfa.Field) == "parent" {
									if o.first < 0 {
										o.first = idx
									}
									idx++
								}
							}
						}
					}
				case *ssa.Call:
					sc := staticCallee(x)
					if sc == nil {
						break
					}
					if sc == H {
						if o.h >= 0 {
							o.hTwice = true
						}
						o.h = idx
						if len(x.Call.Args) > 0 {
							a0 := res(x.Call.Args[0])
							okArg := isBuilderPtr(a0)
							if ld, isLd := a0.(*ssa.UnOp); isLd && ld.Op == token.MUL {
								if f, isF := builderField(ld.X); isF && f == cf {
									okArg = true
								}
							}
							if !okArg {
								o.hArgOK = false
							}
						}
						idx++
						switch flagEffect(sc) {
						case 1:
							flagCur = true
						case 2:
							flagCur = false
						case 3:
							o.und = "the inheriting function sets the builder's flag to different values"
							return false
						}
						break
					}
					takesBuilder := false
					for _, a := range x.Call.Args {
						if isBuilderPtr(res(a)) || isBuilderPtr(a) {
							takesBuilder = true
						}
					}
					// a constructor, or a helper that constructs on every path and leaves the flag alone
					if _, isCtor := sf.Ctors[sc]; isCtor || (fnPkgKey(sc) == "store" && (!takesBuilder || flagEffect(sc) == 0) && mustConstruct(sc, sf, map[*ssa.Function]bool{}, 0)) {
						if o.first < 0 {
							o.first = idx
						}
						idx++
						break
					}
					// a function of the package that is handed the builder: walked in place
					if takesBuilder && fnPkgKey(sc) == "store" && len(sc.Blocks) > 0 {
						if depthFrames > 3 {
							o.und = "builder methods nested too deeply"
							return false
						}
						for k, a := range x.Call.Args {
							if k < len(sc.Params) {
								alias[sc.Params[k]] = res(a)
							}
						}
						depthFrames++
						ok := exec(sc, sc.Blocks[0], 0, false)
						depthFrames--
						if !ok {
							return false
						}
					}
				case *ssa.Return:
					if top {
						o.und = "the simulated iteration returns"
						return false
					}
					return true
				case *ssa.If:
					val, ok := eval(x.Cond, 0)
					if !ok {
						o.und = "a branch of the event loop depends on something other than the kind of event, the error and the builder's flag (" + w.pos(ifPos(x)) + ")"
						return false
					}
					prev = b
					if val {
						b = b.Succs[0]
					} else {
						b = b.Succs[1]
					}
					moved = true
				case *ssa.Jump:
					prev = b
					b = b.Succs[0]
					moved = true
				}
			}
			if !moved {
				o.und = "block without a terminator the simulation knows"
				return false
			}
			from = 0
		}
		o.und = "the iteration does not end"
		return false
	}
	if exec(fn, es.header, es.start, true) {
		o.nextFlag = fmt.Sprint(flagCur)
	}
	return o
}

// nodeVOf: the value a predicate call is given for the pulled node (resolved through the bindings of walked-in methods):
// evalCallee compares the callee's parameter bindings with it.
func nodeVOf(call *ssa.Call, nodeV ssa.Value, res func(ssa.Value) ssa.Value) ssa.Value {
	for _, a := range call.Call.Args {
		if res(a) == nodeV {
			return a
		}
	}
	return nodeV
}

// eventSrc: where the store's loop gets its events. One Pull call whose three results are read directly, or several
// Pull calls (`for n, end, err := p.Pull(); ...; n, end, err = p.Pull()`) merged by three phis at the loop header.
type eventSrc struct {
	node, isEnd, err ssa.Value
	header           *ssa.BasicBlock
	start            int // index in header of the first instruction of an iteration
	pulls            []*ssa.Call
}

func storeEventSource(fn *ssa.Function) *eventSrc {
	es := &eventSrc{}
	allInstrs(fn, func(in ssa.Instruction) {
		if c, ok := in.(*ssa.Call); ok && c.Call.IsInvoke() && c.Call.Method.Name() == "Pull" {
			es.pulls = append(es.pulls, c)
		}
	})
	if len(es.pulls) == 0 {
		return nil
	}
	extractOf := func(c *ssa.Call, idx int) ssa.Value {
		for _, rr := range referrers(c) {
			if ex, ok := rr.(*ssa.Extract); ok && ex.Index == idx {
				return ex
			}
		}
		return nil
	}
	if len(es.pulls) == 1 {
		p := es.pulls[0]
		es.node, es.isEnd, es.err = extractOf(p, 0), extractOf(p, 1), extractOf(p, 2)
		es.header, es.start = p.Block(), instrIndex(p)+1
		return es
	}
	// phis that merge the same result of every Pull call
	for _, b := range fn.Blocks {
		var got [3]ssa.Value
		nphi := 0
		for _, in := range b.Instrs {
			ph, ok := in.(*ssa.Phi)
			if !ok {
				break
			}
			nphi++
			idx := -1
			all := true
			for _, e := range ph.Edges {
				ex, ok := e.(*ssa.Extract)
				if !ok {
					all = false
					break
				}
				c, ok := ex.Tuple.(*ssa.Call)
				if !ok || !c.Call.IsInvoke() || c.Call.Method.Name() != "Pull" {
					all = false
					break
				}
				if idx >= 0 && idx != ex.Index {
					all = false
					break
				}
				idx = ex.Index
			}
			if all && idx >= 0 && idx < 3 {
				got[idx] = ph
			}
		}
		if got[1] != nil && got[2] != nil {
			es.node, es.isEnd, es.err = got[0], got[1], got[2]
			es.header, es.start = b, nphi
			return es
		}
	}
	return nil
}
