package main

import (
	"fmt"
	"go/token"
	"go/types"
	"sort"

	"golang.org/x/tools/go/ssa"
)

func init() {
	register("C10", checkC10)
	notDecided["C10"] = "that the tree mirrors arbitrary conforming event streams; actual stack high-water marks; uniqueness and order of positions as a whole-program arithmetic fact (the rules decide freshness of each constructor's position argument and ownership of cursor objects, not the sums)."
}

// storeFacts identifies the store's tree type, its fields by role, constructors and getters.
type storeFacts struct {
	T       *types.Named // InMemory
	St      *types.Struct
	Fields  map[string]int // role -> field index: pos, node, parent, namespaces, attributes, children
	Ctors   map[*ssa.Function]ctorInfo
	Wrapped map[*ssa.Call]bool // constructor calls inside wrapper constructors that pass the wrapper's own parameters on
	err     []string
}

type ctorInfo struct {
	NodeParam, ParentParam, PosParam int
}

var storeCache *storeFacts

func (w *World) StoreFacts() *storeFacts {
	if storeCache != nil {
		return storeCache
	}
	sf := &storeFacts{Fields: map[string]int{}, Ctors: map[*ssa.Function]ctorInfo{}}
	storeCache = sf
	entry := w.member("store", "CreateInMemory")
	if entry == nil {
		sf.err = append(sf.err, "store.CreateInMemory not found")
		return sf
	}
	res := entry.Signature.Results()
	if res.Len() < 1 {
		sf.err = append(sf.err, "CreateInMemory has no result")
		return sf
	}
	pt, ok := res.At(0).Type().(*types.Pointer)
	if !ok {
		sf.err = append(sf.err, "CreateInMemory does not return a pointer")
		return sf
	}
	sf.T, _ = pt.Elem().(*types.Named)
	if sf.T == nil {
		sf.err = append(sf.err, "tree type not named")
		return sf
	}
	sf.St, _ = sf.T.Underlying().(*types.Struct)
	// getters of the Cursor interface give the roles
	for getter, role := range map[string]string{"Pos": "pos", "Node": "node", "Parent": "parent", "Namespaces": "namespaces", "Attributes": "attributes", "Children": "children"} {
		m := w.method("store", sf.T.Obj().Name(), getter)
		if m == nil {
			sf.err = append(sf.err, "getter "+getter+" not found")
			continue
		}
		f := singleFieldReturned(m)
		if f < 0 {
			// Parent returns a *InMemory converted to the interface
			allInstrs(m, func(in ssa.Instruction) {
				if ret, ok := in.(*ssa.Return); ok && len(ret.Results) == 1 {
					v := stripConv(ret.Results[0])
					if u, ok := v.(*ssa.UnOp); ok {
						if fa, ok := u.X.(*ssa.FieldAddr); ok {
							f = fa.Field
						}
					}
				}
			})
		}
		if f < 0 {
			sf.err = append(sf.err, "getter "+getter+" does not return a single field")
			continue
		}
		sf.Fields[role] = f
	}
	// constructors: store functions returning *T (possibly with more results) that store parameters into pos/parent/node of a local
	w.forAllFuncs("store", func(fn *ssa.Function) {
		r := fn.Signature.Results()
		if r.Len() < 1 || !types.Identical(r.At(0).Type(), types.NewPointer(sf.T)) || fn == entry {
			return
		}
		ci := ctorInfo{-1, -1, -1}
		allInstrs(fn, func(in ssa.Instruction) {
			st, ok := in.(*ssa.Store)
			if !ok {
				return
			}
			fa, ok := st.Addr.(*ssa.FieldAddr)
			if !ok {
				return
			}
			if _, isAlloc := fa.X.(*ssa.Alloc); !isAlloc {
				return
			}
			p, ok := st.Val.(*ssa.Parameter)
			if !ok {
				return
			}
			idx := -1
			for i, pp := range fn.Params {
				if pp == p {
					idx = i
				}
			}
			switch fa.Field {
			case sf.Fields["pos"]:
				ci.PosParam = idx
			case sf.Fields["parent"]:
				ci.ParentParam = idx
			case sf.Fields["node"]:
				ci.NodeParam = idx
			}
		})
		if ci.PosParam >= 0 && ci.ParentParam >= 0 && ci.NodeParam >= 0 {
			sf.Ctors[fn] = ci
		}
	})
	// wrappers: a function returning *T that hands its own parameters on to a constructor for position, parent and
	// node is a constructor itself (the position discipline is then checked where the wrapper is called)
	sf.Wrapped = map[*ssa.Call]bool{}
	for changed := true; changed; {
		changed = false
		w.forAllFuncs("store", func(fn *ssa.Function) {
			if _, done := sf.Ctors[fn]; done || fn == entry {
				return
			}
			r := fn.Signature.Results()
			if r.Len() < 1 || !types.Identical(r.At(0).Type(), types.NewPointer(sf.T)) {
				return
			}
			allInstrs(fn, func(in ssa.Instruction) {
				c, ok := in.(*ssa.Call)
				if !ok {
					return
				}
				inner, isCtor := sf.Ctors[staticCallee(c)]
				if !isCtor {
					return
				}
				idxOf := func(v ssa.Value) int {
					for i, pp := range fn.Params {
						if ssa.Value(pp) == v {
							return i
						}
					}
					return -1
				}
				ci := ctorInfo{PosParam: idxOf(c.Call.Args[inner.PosParam]), ParentParam: idxOf(c.Call.Args[inner.ParentParam]), NodeParam: idxOf(c.Call.Args[inner.NodeParam])}
				if ci.PosParam >= 0 && ci.ParentParam >= 0 && ci.NodeParam >= 0 {
					sf.Ctors[fn] = ci
					sf.Wrapped[c] = true
					changed = true
				}
			})
		})
	}
	if len(sf.Ctors) == 0 {
		sf.err = append(sf.err, "no cursor constructors found")
	}
	return sf
}

// endEventReturns: in fn every block reached only when the Pull's end flag is true leads straight to a return.
func endEventReturns(fn *ssa.Function) bool {
	ok := false
	allInstrs(fn, func(in ssa.Instruction) {
		c, isCall := in.(*ssa.Call)
		if !isCall || !c.Call.IsInvoke() || c.Call.Method.Name() != "Pull" {
			return
		}
		var isEnd ssa.Value
		for _, rr := range referrers(c) {
			if ex, isEx := rr.(*ssa.Extract); isEx && ex.Index == 1 {
				isEnd = ex
			}
		}
		for _, b := range fn.Blocks {
			for _, a := range guardAtoms(b) {
				if a.V == isEnd && a.Pol {
					for _, in2 := range b.Instrs {
						if _, isRet := in2.(*ssa.Return); isRet {
							ok = true
						}
					}
				}
			}
		}
	})
	return ok
}

func (sf *storeFacts) roleOf(field int) string {
	for r, f := range sf.Fields {
		if f == field {
			return r
		}
	}
	return fmt.Sprintf("field#%d", field)
}

func checkC10(w *World) {
	const P = "C10"
	sf := w.StoreFacts()
	for _, e := range sf.err {
		w.undecided(P, "R00.roles", "store roles: "+e, 0, e)
	}
	if sf.T == nil || len(sf.Fields) < 6 {
		return
	}
	docRule(P, "R10.1", "R", "stack bound: a function of package store that reaches Parser.Pull is not recursive, or every recursive call descends into an element freshly returned by the element constructor (depth = nesting) — never once per event.")
	docRule(P, "R10.2", "E immutability", "the identity fields of a cursor (position, parent, node) are stored only through an object allocated in the same function (constructors and the root): an existing cursor is never renumbered or re-parented.")
	docRule(P, "R10.3", "E ownership", "the namespace list of a new element is filled only with cursors constructed for that element; cursor objects are never copied from another element's list (an inherited namespace node must be the new element's own node, with the new element as Parent()).")
	docRule(P, "R10.4", "C typestate", "position freshness: every cursor constructor call receives as position either the constant 0 (the root), the result of an increment of the running counter (never the un-incremented counter), or the position of the cursor it replaces; the same counter value is not passed to two constructor calls on one path.")
	docRule(P, "R10.5", "F", "parent link = list owner: a constructor result appended to X.list was constructed with parent X; attributes go to the list Attributes() returns under a node.Attribute test, namespaces under node.Namespace, everything else to the list Children() returns; the kind switch is unshadowed (C04 R04.4).")
	docRule(P, "R10.6", "T", "the six Cursor getters return six distinct fields.")
	docRule(P, "R10.7", "D", "an end event moves to the current cursor's parent field; the root is allocated with position 0 and is its own parent (the invariant the evaluator's root tests rely on), so surplus end events stay at the root.")

	// R10.1 recursion
	var pullers []*ssa.Function
	w.forAllFuncs("store", func(fn *ssa.Function) {
		reaches := false
		for g := range staticReach(fn, func(x *ssa.Function) bool { return fnPkgKey(x) == "store" }) {
			allInstrs(g, func(in ssa.Instruction) {
				if c, ok := in.(ssa.CallInstruction); ok && c.Common().IsInvoke() && c.Common().Method.Name() == "Pull" {
					reaches = true
				}
			})
		}
		if reaches {
			pullers = append(pullers, fn)
		}
	})
	for _, fn := range pullers {
		recursiveCalls := 0
		bad := ""
		allInstrs(fn, func(in ssa.Instruction) {
			c, ok := in.(*ssa.Call)
			if !ok {
				return
			}
			sc := staticCallee(c)
			if sc == nil || fnPkgKey(sc) != "store" {
				return
			}
			back := sc == fn
			if !back {
				for g := range staticReach(sc, func(x *ssa.Function) bool { return fnPkgKey(x) == "store" }) {
					if g == fn {
						back = true
					}
				}
			}
			if !back {
				return
			}
			recursiveCalls++
			// cursor argument must be a fresh element
			fresh := false
			for _, a := range c.Call.Args {
				v := a
				if ex, ok := v.(*ssa.Extract); ok {
					v = ex.Tuple
				}
				if cc, ok := v.(*ssa.Call); ok {
					if _, isCtor := sf.Ctors[staticCallee(cc)]; isCtor {
						fresh = true
					}
				}
			}
			if !fresh {
				bad = "recursive call at " + w.pos(c.Pos()) + " does not descend into a freshly constructed element: one stack frame per event"
			} else if !endEventReturns(fn) {
				bad = "recursive call at " + w.pos(c.Pos()) + " descends per element but end events do not return from the activation: the frames of closed elements are never released (stack grows with the number of elements)"
			}
		})
		w.check(P, "R10.1", "event consumer "+fn.Name(), fn.Pos(), bad == "", fmt.Sprintf("%d recursive calls; %s", recursiveCalls, bad))
	}
	w.floor(P, "R10.1", 2)

	// R10.2 identity fields
	n2 := 0
	w.forAllFuncs("store", func(fn *ssa.Function) {
		allInstrs(fn, func(in ssa.Instruction) {
			st, ok := in.(*ssa.Store)
			if !ok {
				return
			}
			fa, ok := st.Addr.(*ssa.FieldAddr)
			if !ok {
				return
			}
			pt, ok := fa.X.Type().Underlying().(*types.Pointer)
			if !ok || !types.Identical(pt.Elem(), sf.T) {
				return
			}
			role := sf.roleOf(fa.Field)
			if role != "pos" && role != "parent" && role != "node" {
				return
			}
			n2++
			_, local := fa.X.(*ssa.Alloc)
			// the root is made its own parent: the object a constructor just returned, in the same function, linked to
			// itself (nothing else has seen it yet)
			if c, isCall := fa.X.(*ssa.Call); isCall && role == "parent" && st.Val == fa.X {
				if _, isCtor := sf.Ctors[staticCallee(c)]; isCtor {
					local = true
				}
			}
			construct := fmt.Sprintf("store to the %s field of the object under construction in %s", role, fn.Name())
			if !local {
				// identified by what is written through, not by the name of the enclosing function
				from := "of unknown origin"
				var visit func(v ssa.Value) bool
				// elements copied into a local slice come from the source of the copy
				throughCopy := func(v ssa.Value) {
					if _, isMake := v.(*ssa.MakeSlice); !isMake {
						return
					}
					for _, rr := range referrers(v) {
						if cc, ok := rr.(*ssa.Call); ok {
							if b, ok := cc.Call.Value.(*ssa.Builtin); ok && b.Name() == "copy" && cc.Call.Args[0] == v {
								backSlice(cc.Call.Args[1], visit)
							}
						}
					}
				}
				visit = func(v ssa.Value) bool {
					throughCopy(v)
					if u, ok := v.(*ssa.UnOp); ok {
						if fa2, ok := u.X.(*ssa.FieldAddr); ok {
							if pt, ok := fa2.X.Type().Underlying().(*types.Pointer); ok && types.Identical(pt.Elem(), sf.T) {
								if r := sf.roleOf(fa2.Field); r == "namespaces" || r == "attributes" || r == "children" {
									from = "taken from a " + r + " list"
									return false
								}
							}
						}
					}
					if _, isParam := v.(*ssa.Parameter); isParam && from == "of unknown origin" {
						from = "received as a parameter"
					}
					return true
				}
				backSlice(fa.X, visit)
				construct = fmt.Sprintf("store to the %s field of an existing cursor %s", role, from)
			}
			w.check(P, "R10.2", construct, st.Pos(), local, map[bool]string{true: "written through the object under construction", false: "written through an existing cursor (" + describe(fa.X) + "): a node that is already part of the tree changes its identity — positions stop being stable and unique"}[local])
		})
	})
	w.floorSites(P, "R10.2", 7)

	// R10.3 ownership of namespace cursors
	n3 := 0
	w.forAllFuncs("store", func(fn *ssa.Function) {
		allInstrs(fn, func(in ssa.Instruction) {
			c, ok := in.(*ssa.Call)
			if !ok {
				return
			}
			b, ok := c.Call.Value.(*ssa.Builtin)
			if !ok || (b.Name() != "copy" && b.Name() != "append") {
				return
			}
			// source slice is (a load of) some cursor's list field
			src := c.Call.Args[1]
			fromList := ""
			var srcOwner ssa.Value
			srcField := -1
			backSlice(src, func(v ssa.Value) bool {
				if u, ok := v.(*ssa.UnOp); ok {
					if fa, ok := u.X.(*ssa.FieldAddr); ok {
						if pt, ok := fa.X.Type().Underlying().(*types.Pointer); ok && types.Identical(pt.Elem(), sf.T) {
							r := sf.roleOf(fa.Field)
							if r == "namespaces" || r == "attributes" || r == "children" {
								fromList = r
								srcOwner, srcField = fa.X, fa.Field
								return false
							}
						}
					}
				}
				_, isCall := v.(*ssa.Call)
				return !isCall || v == ssa.Value(c)
			})
			if fromList == "" {
				return
			}
			// re-arranging one owner's own list (removing an entry: X.list = append(X.list[:i], X.list[i+1:]...)) moves
			// no cursor to another element: the result goes back into the same field of the same object
			if b.Name() == "append" {
				same := false
				for _, rr := range referrers(c) {
					if st, ok := rr.(*ssa.Store); ok && st.Val == ssa.Value(c) {
						if fa, ok := st.Addr.(*ssa.FieldAddr); ok && fa.X == srcOwner && fa.Field == srcField {
							same = true
						}
					}
				}
				if same {
					return
				}
			}
			n3++
			w.check(P, "R10.3", fmt.Sprintf("elements of an existing %s list put into another list", fromList), c.Pos(), false, "cursor objects of another element's "+fromList+" list are copied into a new list: the same node object then sits in two elements' lists, its Parent() is the old owner and any later write to it affects both")
		})
	})
	// ... nor is one element's list (the slice itself, or a re-slice of it) stored into another element's list field
	w.forAllFuncs("store", func(fn *ssa.Function) {
		allInstrs(fn, func(in ssa.Instruction) {
			st, ok := in.(*ssa.Store)
			if !ok {
				return
			}
			fa, ok := st.Addr.(*ssa.FieldAddr)
			if !ok {
				return
			}
			if pt, ok := fa.X.Type().Underlying().(*types.Pointer); !ok || !types.Identical(pt.Elem(), sf.T) {
				return
			}
			if r := sf.roleOf(fa.Field); r != "namespaces" && r != "attributes" && r != "children" {
				return
			}
			seen := map[ssa.Value]bool{}
			var shared func(v ssa.Value, d int) (string, bool)
			shared = func(v ssa.Value, d int) (string, bool) {
				if d > 6 || seen[v] {
					return "", false
				}
				seen[v] = true
				switch x := v.(type) {
				case *ssa.Slice:
					return shared(x.X, d+1)
				case *ssa.ChangeType:
					return shared(x.X, d+1)
				case *ssa.Phi:
					for _, e := range x.Edges {
						if r, is := shared(e, d+1); is {
							return r, true
						}
					}
				case *ssa.UnOp:
					if f2, ok := x.X.(*ssa.FieldAddr); ok && x.Op == token.MUL {
						if pt, ok := f2.X.Type().Underlying().(*types.Pointer); ok && types.Identical(pt.Elem(), sf.T) {
							r := sf.roleOf(f2.Field)
							if (r == "namespaces" || r == "attributes" || r == "children") && !(f2.Field == fa.Field && (f2.X == fa.X || sameObj(f2.X, fa.X))) {
								return r, true
							}
						}
					}
				}
				return "", false
			}
			if r, is := shared(st.Val, 0); is {
				n3++
				w.check(P, "R10.3", fmt.Sprintf("another cursor's %s list stored as a list of this cursor in %s", r, fn.Name()), st.Pos(), false, "the slice of another element's "+r+" list becomes this element's list: the two elements then share the node objects (whose Parent() and position belong to the other element) and the backing array")
			}
		})
	})
	// ... nor are two lists carved out of one allocation in a way that lets one grow into the other (`lists[:0]` and
	// `lists[4:4]` of one make: the first list's spare capacity is the second list's storage)
	type carve struct {
		st   *ssa.Store
		sl   *ssa.Slice
		role string
	}
	w.forAllFuncs("store", func(fn *ssa.Function) {
		byRoot := map[ssa.Value][]carve{}
		var roots []ssa.Value
		allInstrs(fn, func(in ssa.Instruction) {
			st, ok := in.(*ssa.Store)
			if !ok {
				return
			}
			fa, ok := st.Addr.(*ssa.FieldAddr)
			if !ok {
				return
			}
			if pt, ok := fa.X.Type().Underlying().(*types.Pointer); !ok || !types.Identical(pt.Elem(), sf.T) {
				return
			}
			r := sf.roleOf(fa.Field)
			if r != "namespaces" && r != "attributes" && r != "children" {
				return
			}
			sl, ok := stripConv(st.Val).(*ssa.Slice)
			if !ok {
				return
			}
			root := ssa.Value(sl)
			for d := 0; d < 6; d++ {
				s2, isSl := stripConv(root).(*ssa.Slice)
				if !isSl {
					break
				}
				root = s2.X
			}
			root = stripConv(root)
			switch root.(type) {
			case *ssa.Alloc, *ssa.MakeSlice:
			default:
				return
			}
			if sl.X != root {
				if inner, isSl := stripConv(sl.X).(*ssa.Slice); !isSl || stripConv(inner.X) != root || inner.Low != nil || inner.Max != nil {
					return // a slice of a slice with bounds of its own: not read here
				}
			}
			if _, seen := byRoot[root]; !seen {
				roots = append(roots, root)
			}
			byRoot[root] = append(byRoot[root], carve{st, sl, r})
		})
		for _, root := range roots {
			cs := byRoot[root]
			if len(cs) < 2 {
				continue
			}
			// disjoint when every piece has a constant [low, max) and the intervals do not overlap
			type iv struct{ lo, hi int64 }
			var ivs []iv
			okAll := true
			for _, c := range cs {
				lo := int64(0)
				if c.sl.Low != nil {
					k, isK := constInt(c.sl.Low)
					if !isK {
						okAll = false
					}
					lo = k
				}
				if c.sl.Max == nil {
					okAll = false
					continue
				}
				hi, isK := constInt(c.sl.Max)
				if !isK {
					okAll = false
				}
				ivs = append(ivs, iv{lo, hi})
			}
			if okAll {
				for i := range ivs {
					for j := i + 1; j < len(ivs); j++ {
						if ivs[i].lo < ivs[j].hi && ivs[j].lo < ivs[i].hi {
							okAll = false
						}
					}
				}
			}
			if !okAll {
				n3++
				w.check(P, "R10.3", fmt.Sprintf("the %s and %s lists of one cursor share one allocation in %s", cs[0].role, cs[1].role, fn.Name()), cs[0].st.Pos(), false, "two lists are slices of one backing array and the capacity of one reaches into the storage of the other (no three-index slice with disjoint constant ranges): appending to the first list overwrites the entries of the next one")
			}
		}
	})
	if n3 == 0 {
		w.check(P, "R10.3", "package store: no list sharing", 0, true, "no copy/append takes its elements from an existing cursor list")
	}
	w.floor(P, "R10.3", 1)

	// R10.4 position freshness
	type ctorCall struct {
		call *ssa.Call
		pos  ssa.Value
		fn   *ssa.Function
	}
	var calls []ctorCall
	for _, pk := range []string{"store"} {
		w.forAllFuncs(pk, func(fn *ssa.Function) {
			allInstrs(fn, func(in ssa.Instruction) {
				c, ok := in.(*ssa.Call)
				if !ok {
					return
				}
				ci, isCtor := sf.Ctors[staticCallee(c)]
				if !isCtor || sf.Wrapped[c] {
					return
				}
				calls = append(calls, ctorCall{c, c.Call.Args[ci.PosParam], fn})
			})
		})
	}
	for _, cc := range calls {
		ok, why := false, ""
		v := cc.pos
		switch x := v.(type) {
		case *ssa.BinOp:
			if k, isK := constInt(x.Y); x.Op == token.ADD && isK && k >= 1 {
				ok, why = true, "an incremented counter value"
			} else if ok2, _ := addsAtLeastOne(x, 0); x.Op == token.ADD && ok2 {
				ok, why = true, "the counter plus one plus the number of nodes already created in this loop"
			} else {
				why = "a " + x.Op.String() + " expression"
			}
		case *ssa.Const:
			if k, isK := constInt(x); isK && k == 0 {
				ok, why = true, "the constant 0 (root)"
			}
		case *ssa.UnOp:
			if fa, isFA := x.X.(*ssa.FieldAddr); isFA {
				if pt, isP := fa.X.Type().(*types.Pointer); isP && types.Identical(pt.Elem(), sf.T) {
					if sf.roleOf(fa.Field) == "pos" {
						ok, why = true, "the position of the cursor being replaced"
					}
				} else if builderCounterAdvanced(x) {
					ok, why = true, "the builder's counter field, read right after it was advanced by at least one"
				} else {
					why = "a field of another object, read without advancing it first"
				}
			}
		case *ssa.Call:
			if _, isPos := isMethodCall(x, "Pos"); isPos {
				ok, why = true, "the position of the cursor being replaced (read through Pos())"
			} else if g := staticCallee(x); g != nil && fnPkgKey(g) == "store" && advancesAndReturnsCounter(g) {
				ok, why = true, "the result of "+g.Name()+", which advances the builder's counter field by at least one and returns the new value"
			}
		case *ssa.Parameter:
			why = "the caller's counter value, un-incremented: it is also the position of the node created just before (the element itself)"
		case *ssa.Phi:
			why = "a counter value merged from several paths without an increment"
		}
		if why == "" {
			why = describe(v)
		}
		w.check(P, "R10.4", fmt.Sprintf("position passed to %s in %s", staticCallee(cc.call).Name(), cc.fn.Name()), cc.call.Pos(), ok, "position argument is "+why)
	}
	for i, a := range calls {
		for j, b := range calls {
			if i >= j || a.pos != b.pos || a.fn != b.fn {
				continue
			}
			if _, isConst := a.pos.(*ssa.Const); isConst {
				continue
			}
			if a.call.Block() == b.call.Block() || a.call.Block().Dominates(b.call.Block()) || b.call.Block().Dominates(a.call.Block()) {
				w.check(P, "R10.4", "same counter value for two constructors in "+a.fn.Name(), b.call.Pos(), false, "two cursors created on one path receive the same position")
			}
		}
	}
	// positions written outside the constructors (the renumbering of inherited namespace nodes is a known finding of
	// R10.2; whatever it writes must at least be a fresh position)
	w.forAllFuncs("store", func(fn *ssa.Function) {
		if _, isCtor := sf.Ctors[fn]; isCtor && len(sf.Wrapped) >= 0 {
			// constructor bodies store their position parameter; other stores in them are examined below too
		}
		allInstrs(fn, func(in ssa.Instruction) {
			st, ok := in.(*ssa.Store)
			if !ok {
				return
			}
			fa, ok := st.Addr.(*ssa.FieldAddr)
			if !ok || sf.roleOf(fa.Field) != "pos" {
				return
			}
			if pt, ok := fa.X.Type().Underlying().(*types.Pointer); !ok || !types.Identical(pt.Elem(), sf.T) {
				return
			}
			if _, local := fa.X.(*ssa.Alloc); local {
				return // the object under construction: its position is the constructor's argument (checked at the calls)
			}
			fresh, why := addsAtLeastOne(st.Val, 0)
			w.check(P, "R10.4", "position written to an existing cursor in "+fn.Name(), st.Pos(), fresh, "the value is "+why+" (it must be the running counter advanced by at least one: the counter's current value is the position of the node created last, here the element itself)")
		})
	})
	// the counter never goes back: no subtraction from (and no negative constant added to) a value that flows into a
	// position argument or into the advanced position a helper returns
	w.forAllFuncs("store", func(fn *ssa.Function) {
		var sinks []ssa.Value
		allInstrs(fn, func(in ssa.Instruction) {
			switch x := in.(type) {
			case *ssa.Call:
				if ci, isCtor := sf.Ctors[staticCallee(x)]; isCtor && ci.PosParam < len(x.Call.Args) {
					sinks = append(sinks, x.Call.Args[ci.PosParam])
				}
			case *ssa.Return:
				for _, rv := range x.Results {
					if b, ok := rv.Type().Underlying().(*types.Basic); ok && b.Kind() == types.Int {
						sinks = append(sinks, rv)
					}
				}
			}
		})
		bad := ""
		for _, sk := range sinks {
			backSlice(sk, func(v ssa.Value) bool {
				if _, isCall := v.(*ssa.Call); isCall {
					return false
				}
				if ld, isLd := v.(*ssa.UnOp); isLd && ld.Op == token.MUL {
					return false // a field: the position of an existing cursor, not the counter
				}
				bo, ok := v.(*ssa.BinOp)
				if !ok {
					return true
				}
				if bo.Op == token.SUB && !(isLenOf(bo.X, nil) && isLenOf(bo.Y, nil) && onlyGrowsBetween(bo.Y.(*ssa.Call), bo.X.(*ssa.Call))) && !lenGrowthDifference(bo) {
					bad = "a subtraction at " + w.pos(bo.Pos())
				}
				if k, isK := constInt(bo.Y); bo.Op == token.ADD && isK && k < 0 {
					bad = "a negative constant added at " + w.pos(bo.Pos())
				}
				return true
			})
		}
		if len(sinks) > 0 {
			w.check(P, "R10.4", "the position counter never goes back in "+fn.Name(), fn.Pos(), bad == "", "arithmetic on the way to a position: "+orElse(bad, "only increments"))
		}
	})
	// the counter is threaded: a helper that takes the running position and returns the advanced one must have its
	// result used (dropping it re-issues the positions the helper handed out)
	w.forAllFuncs("store", func(fn *ssa.Function) {
		allInstrs(fn, func(in ssa.Instruction) {
			c, ok := in.(*ssa.Call)
			if !ok {
				return
			}
			sc := staticCallee(c)
			if sc == nil || fnPkgKey(sc) != "store" || sc.Signature.Results().Len() == 0 {
				return
			}
			res := sc.Signature.Results()
			last := res.At(res.Len() - 1).Type()
			if b, isB := last.Underlying().(*types.Basic); !isB || b.Kind() != types.Int {
				return
			}
			takesInt := false
			for _, p := range sc.Params {
				if b, isB := p.Type().Underlying().(*types.Basic); isB && b.Kind() == types.Int {
					takesInt = true
				}
			}
			if !takesInt {
				return
			}
			if _, isCtor := sf.Ctors[sc]; isCtor {
				return
			}
			// does the helper hand out positions at all?
			hands := false
			for g := range staticReach(sc, func(x *ssa.Function) bool { return fnPkgKey(x) == "store" }) {
				if _, isCtor := sf.Ctors[g]; isCtor {
					hands = true
				}
			}
			if !hands {
				return
			}
			used := false
			for _, rr := range referrers(c) {
				switch x := rr.(type) {
				case *ssa.Extract:
					if x.Index == res.Len()-1 && len(referrers(x)) > 0 {
						used = true
					}
				case *ssa.DebugRef:
				default:
					used = true
				}
			}
			w.check(P, "R10.4", fmt.Sprintf("advanced position returned by %s to %s", sc.Name(), fn.Name()), c.Pos(), used, fmt.Sprintf("the caller continues with the position the helper returns: %v (a dropped result makes the next node reuse positions the helper already gave to the nodes it created)", used))
		})
	})
	w.floorSites(P, "R10.4", 5)

	// R10.5 parent = owner, kind -> list
	n5 := 0
	w.forAllFuncs("store", func(fn *ssa.Function) {
		allInstrs(fn, func(in ssa.Instruction) {
			st, ok := in.(*ssa.Store)
			if !ok {
				return
			}
			fa, ok := st.Addr.(*ssa.FieldAddr)
			if !ok {
				return
			}
			role := sf.roleOf(fa.Field)
			if role != "namespaces" && role != "attributes" && role != "children" {
				return
			}
			// appended / assigned constructor results
			var ctorCalls []*ssa.Call
			backSlice(st.Val, func(v ssa.Value) bool {
				if c, ok := v.(*ssa.Call); ok {
					if _, isCtor := sf.Ctors[staticCallee(c)]; isCtor {
						ctorCalls = append(ctorCalls, c)
						return false
					}
					if _, isB := c.Call.Value.(*ssa.Builtin); !isB {
						// a cursor that some other function of the package made: it has to be a constructor's own
						// result (a copy of an existing cursor keeps that cursor's parent and lists)
						if sc := staticCallee(c); sc != nil && fnPkgKey(sc) == "store" {
							if _, isCur := nodeOrCursor(c.Type(), sf); isCur && !returnsConstructed(sc, sf, 0) {
								n5++
								w.check(P, "R10.5", fmt.Sprintf("value put into the %s list in %s", role, fn.Name()), c.Pos(), false, "the cursor comes from "+sc.Name()+", which does not return the result of a cursor constructor: an object assembled from an existing cursor (a struct copy) keeps that cursor's Parent(), position or lists")
							}
						}
						return false
					}
				}
				return true
			})
			for _, c := range ctorCalls {
				n5++
				ci := sf.Ctors[staticCallee(c)]
				parent := c.Call.Args[ci.ParentParam]
				okParent := parent == fa.X || sameObj(parent, fa.X)
				// kind guard
				kindOK, kindWhy := true, ""
				g := map[string]bool{}
				for _, a := range guardAtoms(st.Block()) {
					if ex, ok := a.V.(*ssa.Extract); ok && ex.Index == 1 {
						if ta, ok := ex.Tuple.(*ssa.TypeAssert); ok {
							if n, _ := nodeIface(ta.AssertedType); n != nil {
								g[map[bool]string{true: "", false: "!"}[a.Pol]+n.Obj().Name()] = true
							}
						}
					}
				}
				nodeArgType := c.Call.Args[ci.NodeParam].Type().String()
				switch role {
				case "attributes":
					kindOK = g["Attribute"]
					kindWhy = "attributes list filled under a node.Attribute test"
				case "namespaces":
					kindOK = g["Namespace"] || sliceContains(c.Call.Args[ci.NodeParam], func(v ssa.Value) bool {
						n, _ := nodeIface(v.Type())
						return n != nil && n.Obj().Name() == "Namespace"
					})
					kindWhy = "namespaces list filled with node.Namespace values"
				case "children":
					kindOK = g["!Namespace"] && g["!Attribute"]
					kindWhy = "children list filled only when the node is neither a namespace nor an attribute"
				}
				w.check(P, "R10.5", fmt.Sprintf("append to the %s list in %s", role, fn.Name()), c.Pos(), okParent && kindOK, fmt.Sprintf("constructed with the list owner as parent: %v; %s: %v (guards %v, node argument %s)", okParent, kindWhy, kindOK, keys(g), nodeArgType))
			}
		})
	})
	// constructor results stored into an existing slot of a list (replacement by prefix)
	w.forAllFuncs("store", func(fn *ssa.Function) {
		allInstrs(fn, func(in ssa.Instruction) {
			st, ok := in.(*ssa.Store)
			if !ok {
				return
			}
			ia, ok := st.Addr.(*ssa.IndexAddr)
			if !ok {
				return
			}
			ld, ok := ia.X.(*ssa.UnOp)
			if !ok {
				return
			}
			fa, ok := ld.X.(*ssa.FieldAddr)
			if !ok {
				return
			}
			role := sf.roleOf(fa.Field)
			if role != "namespaces" && role != "attributes" && role != "children" {
				return
			}
			// only cursor-typed slots (not the arrays behind append)
			if _, isCur := nodeOrCursor(st.Val.Type(), sf); !isCur {
				return
			}
			c, ok := stripConv(st.Val).(*ssa.Call)
			var ci ctorInfo
			isCtor := false
			if ok {
				ci, isCtor = sf.Ctors[staticCallee(c)]
				// a helper of the package that returns what a constructor built for the owner counts when it is one
				if !isCtor && staticCallee(c) != nil && fnPkgKey(staticCallee(c)) == "store" {
					ok = false
				}
			}
			if !ok || !isCtor {
				n5++
				w.check(P, "R10.5", fmt.Sprintf("replacement of a slot of the %s list in %s", role, fn.Name()), st.Pos(), false, "the value put into the slot is not the result of a cursor constructor called with the list owner as parent ("+describe(stripConv(st.Val))+"): a cursor copied or derived from the one it replaces keeps that cursor's Parent(), which for an inherited namespace node is an ancestor")
				return
			}
			n5++
			okParent := c.Call.Args[ci.ParentParam] == fa.X || sameObj(c.Call.Args[ci.ParentParam], fa.X)
			// position: that of the cursor in the same slot
			okPos := false
			posArg := c.Call.Args[ci.PosParam]
			if recv, isPos := isMethodCall(posArg, "Pos"); isPos {
				// Pos() of the element at the same index of the same list
				if sliceContains(recv, func(v ssa.Value) bool {
					if ia2, ok := v.(*ssa.IndexAddr); ok && ia2.Index == ia.Index {
						return true
					}
					return false
				}) {
					okPos = true
				}
			}
			if pl, ok := posArg.(*ssa.UnOp); ok {
				if pfa, ok := pl.X.(*ssa.FieldAddr); ok && sf.roleOf(pfa.Field) == "pos" {
					// the object whose pos is read is the element at the same index of the same list
					if sliceContains(pfa.X, func(v ssa.Value) bool {
						if ia2, ok := v.(*ssa.IndexAddr); ok && ia2.Index == ia.Index {
							return true
						}
						return false
					}) {
						okPos = true
					}
				}
			}
			w.check(P, "R10.5", fmt.Sprintf("replacement of a slot of the %s list in %s", role, fn.Name()), c.Pos(), okParent && okPos, fmt.Sprintf("the replacing cursor is constructed with the list owner as parent: %v; with the position of the cursor it replaces (so the list stays in ascending Pos() order): %v", okParent, okPos))
		})
	})
	// a declaration is appended only after the search for its prefix came up empty: in a function that replaces an
	// entry of a namespaces list by prefix, the append of a new entry is dominated by the head of that search loop
	w.forAllFuncs("store", func(fn *ssa.Function) {
		var searchHead *ssa.BasicBlock
		allInstrs(fn, func(in ssa.Instruction) {
			st, ok := in.(*ssa.Store)
			if !ok {
				return
			}
			ia, ok := st.Addr.(*ssa.IndexAddr)
			if !ok || !(ascendingCounter(ia.Index) || isCounterPhi2(ia.Index)) {
				return
			}
			if ld, ok := ia.X.(*ssa.UnOp); ok {
				if fa, ok := ld.X.(*ssa.FieldAddr); ok && sf.roleOf(fa.Field) == "namespaces" {
					// the loop header: the block where the counter phi lives
					if ph, ok := ia.Index.(*ssa.Phi); ok {
						searchHead = ph.Block()
					} else if bo, ok := ia.Index.(*ssa.BinOp); ok {
						if ph, ok := bo.X.(*ssa.Phi); ok {
							searchHead = ph.Block()
						}
					}
				}
			}
		})
		if searchHead == nil {
			return
		}
		allInstrs(fn, func(in ssa.Instruction) {
			c, ok := in.(*ssa.Call)
			if !ok {
				return
			}
			b, ok := c.Call.Value.(*ssa.Builtin)
			if !ok || b.Name() != "append" {
				return
			}
			toNS := false
			for _, rr := range referrers(c) {
				if st, ok := rr.(*ssa.Store); ok {
					if fa, ok := st.Addr.(*ssa.FieldAddr); ok && sf.roleOf(fa.Field) == "namespaces" {
						toNS = true
					}
				}
			}
			if !toNS {
				return
			}
			n5++
			dom := searchHead.Dominates(c.Block())
			w.check(P, "R10.5", "a new namespace entry is appended only after the search by prefix in "+fn.Name(), c.Pos(), dom, fmt.Sprintf("the append is reached only through the loop that looks for an entry with the same prefix: %v (a path round the search adds a second node for a prefix the element already declares)", dom))
		})
	})
	// the by-prefix search covers the element's whole namespace list
	w.forAllFuncs("store", func(fn *ssa.Function) {
		replaces := false
		allInstrs(fn, func(in ssa.Instruction) {
			if st, ok := in.(*ssa.Store); ok {
				if ia, ok := st.Addr.(*ssa.IndexAddr); ok {
					if ld, ok := ia.X.(*ssa.UnOp); ok {
						if fa, ok := ld.X.(*ssa.FieldAddr); ok && sf.roleOf(fa.Field) == "namespaces" {
							replaces = true
						}
					}
				}
			}
		})
		if !replaces {
			return
		}
		allInstrs(fn, func(in ssa.Instruction) {
			ta, ok := in.(*ssa.TypeAssert)
			if !ok {
				return
			}
			// the cursor whose prefix is compared: element of which slice?
			ld, ok := ta.X.(*ssa.UnOp)
			if !ok {
				return
			}
			ia, ok := ld.X.(*ssa.IndexAddr)
			if !ok || !ascendingCounter(ia.Index) {
				return
			}
			full := false
			if l2, ok := ia.X.(*ssa.UnOp); ok {
				if fa, ok := l2.X.(*ssa.FieldAddr); ok && sf.roleOf(fa.Field) == "namespaces" {
					full = true
				}
			}
			n5++
			w.check(P, "R10.5", "prefix search range in "+fn.Name(), ta.Pos(), full, fmt.Sprintf("the search for an existing binding of the prefix ranges over the element's whole namespace list: %v (a partial range lets one element own two nodes for the same prefix)", full))
		})
	})
	w.floorSites(P, "R10.5", 6)

	// R10.6 distinct fields
	seen := map[int]string{}
	var roles []string
	for r := range sf.Fields {
		roles = append(roles, r)
	}
	sort.Strings(roles)
	for _, r := range roles {
		f := sf.Fields[r]
		_, dup := seen[f]
		w.check(P, "R10.6", "getter for "+r, 0, !dup, fmt.Sprintf("returns field %s; also returned by the getter for %q: %v", sf.St.Field(f).Name(), seen[f], dup))
		seen[f] = r
	}
	w.floorSites(P, "R10.6", 6)

	// R10.7 end event, root
	entry := w.member("store", "CreateInMemory")
	rootOK, selfParent, pos0 := false, false, false
	posStores := 0
	var rootAlloc *ssa.Alloc
	defer func() { _ = rootAlloc }()
	allInstrs(entry, func(in ssa.Instruction) {
		st, ok := in.(*ssa.Store)
		if !ok {
			return
		}
		fa, ok := st.Addr.(*ssa.FieldAddr)
		if !ok {
			return
		}
		al, ok := fa.X.(*ssa.Alloc)
		if !ok {
			return
		}
		rootOK = true
		if sf.roleOf(fa.Field) == "parent" && st.Val == ssa.Value(al) {
			selfParent = true
		}
		if sf.roleOf(fa.Field) == "pos" {
			posStores++
			if k, ok := constInt(st.Val); ok && k == 0 {
				pos0 = true
			}
		}
		if sf.roleOf(fa.Field) == "parent" && st.Val == ssa.Value(al) {
			rootAlloc = al
		}
	})
	// a root built by a composite literal that does not mention the position has the zero value, which is 0
	if rootAlloc != nil && posStores == 0 && rootAlloc.Heap {
		fresh := true
		for _, st := range storesInto(rootAlloc) {
			if st.Addr == ssa.Value(rootAlloc) {
				fresh = false // initialised from another value (a helper's result): its position is whatever that has
			}
		}
		if fresh {
			pos0 = true
		}
	}
	// a root made by a cursor constructor called with the constant position 0, then made its own parent
	if !(rootOK && selfParent && pos0) {
		allInstrs(entry, func(in ssa.Instruction) {
			st, ok := in.(*ssa.Store)
			if !ok {
				return
			}
			fa, ok := st.Addr.(*ssa.FieldAddr)
			if !ok || sf.roleOf(fa.Field) != "parent" || st.Val != fa.X {
				return
			}
			c, ok := fa.X.(*ssa.Call)
			if !ok {
				return
			}
			ci, isCtor := sf.Ctors[staticCallee(c)]
			if !isCtor {
				return
			}
			if k, isK := constInt(c.Call.Args[ci.PosParam]); isK && k == 0 {
				rootOK, selfParent, pos0 = true, true, true
			}
		})
	}
	w.check(P, "R10.7", "root: position 0 and its own parent", entry.Pos(), rootOK && selfParent && pos0, fmt.Sprintf("root.parent = root: %v; root.pos = 0: %v", selfParent, pos0))
	nEnd := 0
	for _, fn := range pullers {
		allInstrs(fn, func(in ssa.Instruction) {
			c, ok := in.(ssa.CallInstruction)
			if !ok || !c.Common().IsInvoke() || c.Common().Method.Name() != "Pull" {
				return
			}
			pull, isVal := in.(*ssa.Call)
			if !isVal {
				return
			}
			var isEnd ssa.Value
			for _, rr := range referrers(pull) {
				if ex, ok := rr.(*ssa.Extract); ok && ex.Index == 1 {
					isEnd = ex
				}
			}
			if es := storeEventSource(fn); es != nil && len(es.pulls) > 1 {
				if pull != es.pulls[0] {
					return // several Pull sites feed one loop: judged once, with the merged end flag
				}
				isEnd = es.isEnd
			}
			if isEnd == nil {
				return
			}
			nEnd++
			// blocks under isEnd==true: the cursor for the next event is the parent field of the current cursor
			moves := false
			for _, b := range fn.Blocks {
				under := false
				for _, a := range guardAtoms(b) {
					if a.V == isEnd && a.Pol {
						under = true
					}
				}
				if !under {
					continue
				}
				for _, in2 := range b.Instrs {
					if u, ok := in2.(*ssa.UnOp); ok {
						if fa, ok := u.X.(*ssa.FieldAddr); ok && sf.roleOf(fa.Field) == "parent" {
							// used as next cursor: flows into a phi of the cursor or a recursive call, or is stored
							// into the cursor field of the builder object it was read from
							for _, rr := range referrers(u) {
								switch y := rr.(type) {
								case *ssa.Phi, *ssa.Call:
									moves = true
								case *ssa.Store:
									if bf, ok := y.Addr.(*ssa.FieldAddr); ok && y.Val == ssa.Value(u) {
										if cl, ok := fa.X.(*ssa.UnOp); ok && cl.Op == token.MUL {
											if cfa, ok := cl.X.(*ssa.FieldAddr); ok && cfa.X == bf.X && cfa.Field == bf.Field {
												moves = true
											}
										}
									}
								}
							}
						}
					}
				}
			}
			if !moves {
				// ... or in a helper of the package that is handed the end flag (a method of a builder object): under
				// that parameter it stores the parent of its cursor field into that field
				allInstrs(fn, func(in3 ssa.Instruction) {
					c3, ok := in3.(*ssa.Call)
					if !ok {
						return
					}
					g := staticCallee(c3)
					if g == nil || fnPkgKey(g) != "store" || len(g.Blocks) == 0 {
						return
					}
					var endParam ssa.Value
					for k, a := range c3.Call.Args {
						if a == isEnd && k < len(g.Params) {
							endParam = g.Params[k]
						}
					}
					underEnd := false
					for _, a := range guardAtoms(c3.Block()) {
						if a.V == isEnd && a.Pol {
							underEnd = true
						}
					}
					if endParam == nil && !underEnd {
						return
					}
					allInstrs(g, func(in4 ssa.Instruction) {
						st, ok := in4.(*ssa.Store)
						if !ok {
							return
						}
						bf, ok := st.Addr.(*ssa.FieldAddr)
						if !ok {
							return
						}
						u, ok := st.Val.(*ssa.UnOp)
						if !ok || u.Op != token.MUL {
							return
						}
						pfa, ok := u.X.(*ssa.FieldAddr)
						if !ok || sf.roleOf(pfa.Field) != "parent" {
							return
						}
						cl, ok := pfa.X.(*ssa.UnOp)
						if !ok || cl.Op != token.MUL {
							return
						}
						cfa, ok := cl.X.(*ssa.FieldAddr)
						if !ok || cfa.X != bf.X || cfa.Field != bf.Field {
							return
						}
						if underEnd {
							moves = true
						}
						for _, a := range guardAtoms(st.Block()) {
							if endParam != nil && a.V == endParam && a.Pol {
								moves = true
							}
						}
					})
				})
			}
			w.check(P, "R10.7", "end event moves to the parent in "+fn.Name(), pull.Pos(), moves, fmt.Sprintf("on an end event the next cursor is cursor.parent: %v", moves))
		})
	}
	if nEnd == 0 {
		w.undecided(P, "R10.7", "end event", entry.Pos(), "no Pull call with an end flag found")
	}
	w.floor(P, "R10.7", 2)

	// R10.8 no event is dropped
	docRule(P, "R10.8", "D", "every non-end, non-error event of the stream becomes a node: on every path from the Pull call to the next Pull (or recursive call) a cursor constructor is called (directly or through a helper that calls one on every path); nothing is filtered by value, with the one exception the data model makes: a namespace event whose NamespaceValue() is empty is an un-declaration (xmlns=\"\") and creates no node (C09 R09.10).")
	for _, fn := range pullers {
		var pull *ssa.Call
		allInstrs(fn, func(in ssa.Instruction) {
			if c, ok := in.(*ssa.Call); ok && c.Call.IsInvoke() && c.Call.Method.Name() == "Pull" {
				pull = c
			}
		})
		if pull == nil {
			continue
		}
		var isEnd, errV ssa.Value
		for _, rr := range referrers(pull) {
			if ex, ok := rr.(*ssa.Extract); ok {
				if ex.Index == 1 {
					isEnd = ex
				}
				if ex.Index == 2 {
					errV = ex
				}
			}
		}
		startB, startI := pull.Block(), instrIndex(pull)+1
		isPull := func(c *ssa.Call) bool { return c == pull }
		if es := storeEventSource(fn); es != nil && len(es.pulls) > 1 {
			isEnd, errV = es.isEnd, es.err
			startB, startI = es.header, es.start
			isPull = func(c *ssa.Call) bool {
				for _, p := range es.pulls {
					if p == c {
						return true
					}
				}
				return false
			}
		}
		creates := func(c *ssa.Call) bool {
			sc := staticCallee(c)
			if sc == nil {
				return false
			}
			if _, ok := sf.Ctors[sc]; ok {
				return true
			}
			if fnPkgKey(sc) == "store" && sc != fn {
				// a helper that is handed the end flag deals with end events itself
				var exempt ssa.Value
				for k, a := range c.Call.Args {
					if a == isEnd && k < len(sc.Params) {
						exempt = sc.Params[k]
					}
				}
				return mustConstructEx(sc, sf, map[*ssa.Function]bool{}, 0, exempt)
			}
			return false
		}
		dropped := ""
		seen := map[*ssa.BasicBlock]bool{}
		var walk func(b *ssa.BasicBlock, start int)
		walk = func(b *ssa.BasicBlock, start int) {
			for i := start; i < len(b.Instrs); i++ {
				switch x := b.Instrs[i].(type) {
				case *ssa.Call:
					if creates(x) {
						return
					}
					if isPull(x) || staticCallee(x) == fn {
						dropped = w.pos(x.Pos())
						return
					}
				case *ssa.Return:
					return
				case *ssa.If:
					// do not follow the error and end branches
					for si, s := range b.Succs {
						skip := false
						if bo, ok := x.Cond.(*ssa.BinOp); ok && bo.X == errV && si == 0 {
							skip = true
						}
						if c, ok := x.Cond.(*ssa.Call); ok && staticCallee(c) != nil && funcFullName(staticCallee(c)) == "errors.Is" && si == 0 {
							skip = true
						}
						if x.Cond == isEnd && si == 0 {
							skip = true
						}
						if !skip && !seen[s] {
							seen[s] = true
							walk(s, 0)
						}
					}
					return
				}
			}
			for _, s := range b.Succs {
				if !seen[s] {
					seen[s] = true
					walk(s, 0)
				}
			}
		}
		walk(startB, startI)
		w.check(P, "R10.8", "every event becomes a node in "+fn.Name(), pull.Pos(), dropped == "", "a path reaches the next event at "+orNone(dropped)+" without constructing a cursor for the current one")
	}
	w.floor(P, "R10.8", 1)
	w.checkNamespaceInheritance(P, sf, pullers)
	// "inherited ones, overridden by prefix": an un-declaration (empty namespace name) overrides too
	w.include(P, "C09", "R09.10")
}

// nodeOrCursor: t is the store's cursor interface or a pointer to its cursor struct.
func nodeOrCursor(t types.Type, sf *storeFacts) (string, bool) {
	if pt, ok := t.(*types.Pointer); ok && types.Identical(pt.Elem(), sf.T) {
		return "ptr", true
	}
	if n, ok := types.Unalias(t).(*types.Named); ok && n.Obj().Name() == "Cursor" {
		return "iface", true
	}
	return "", false
}

// addsAtLeastOne: v is a sum that contains a constant >= 1 and otherwise only terms that cannot be negative (running
// counters, loop indexes, lengths, parameters): strictly above the counter it starts from.
func addsAtLeastOne(v ssa.Value, depth int) (bool, string) {
	if depth > 6 {
		return false, "too deep a sum"
	}
	var terms []ssa.Value
	var flat func(x ssa.Value)
	flat = func(x ssa.Value) {
		if ascendingCounter(x) {
			// a loop index (starts at 0): contributes nothing to the first element
			terms = append(terms, ssa.Value(nil))
			return
		}
		if bo, ok := x.(*ssa.BinOp); ok && bo.Op == token.ADD {
			flat(bo.X)
			flat(bo.Y)
			return
		}
		terms = append(terms, x)
	}
	flat(v)
	hasOne := false
	for _, t := range terms {
		if t == nil {
			continue
		}
		if k, ok := constInt(t); ok {
			if k >= 1 {
				hasOne = true
			}
			if k < 0 {
				return false, "a sum with a negative constant"
			}
			continue
		}
		switch x := t.(type) {
		case *ssa.Phi:
			// a running counter: every incoming value other than the start is the phi plus at least one
			adv := true
			for _, e := range x.Edges {
				if bo, ok := e.(*ssa.BinOp); ok && bo.Op == token.ADD {
					if ok2, _ := addsAtLeastOne(e, depth+1); ok2 {
						continue
					}
				}
				if _, isParam := e.(*ssa.Parameter); isParam {
					continue
				}
				if k, ok := constInt(e); ok && k >= -1 {
					continue
				}
				adv = false
			}
			_ = adv
		case *ssa.Parameter, *ssa.Call, *ssa.UnOp, *ssa.Extract:
		case *ssa.BinOp:
			// the number of entries added to a list since an earlier length of it was taken: len(L) - len0(L)
			if x.Op == token.SUB && isLenOf(x.X, nil) && isLenOf(x.Y, nil) {
				continue
			}
			return false, "a " + x.Op.String() + " expression"
		default:
			return false, describe(t)
		}
	}
	if !hasOne {
		return false, "a sum without an increment (" + describe(v) + "): for the first node it equals the counter's current value"
	}
	return true, "the counter plus at least one"
}

// emptyNamespaceTest: v compares NamespaceValue() of a node with the empty string; eq tells which edge is "empty".
func emptyNamespaceTest(v ssa.Value) (isTest bool, eqOnTrue bool) {
	bo, ok := v.(*ssa.BinOp)
	if !ok || (bo.Op != token.EQL && bo.Op != token.NEQ) {
		return false, false
	}
	x, y := bo.X, bo.Y
	if s, isC := constString(x); isC && s == "" {
		x, y = y, x
	}
	if s, isC := constString(y); !isC || s != "" {
		return false, false
	}
	if _, ok := isMethodCall(x, "NamespaceValue"); !ok {
		return false, false
	}
	return true, bo.Op == token.EQL
}

// mustConstruct: every path through fn from its entry to a return calls a cursor constructor (or a helper that
// must), except the paths on which a namespace value was tested to be empty.
func mustConstruct(fn *ssa.Function, sf *storeFacts, inProgress map[*ssa.Function]bool, depth int) bool {
	return mustConstructEx(fn, sf, inProgress, depth, nil)
}

// mustConstructEx: as mustConstruct, but the paths on which the boolean parameter exempt is true (the end flag of the
// event, handed to a helper that deals with end events itself) need not construct.
func mustConstructEx(fn *ssa.Function, sf *storeFacts, inProgress map[*ssa.Function]bool, depth int, exempt ssa.Value) bool {
	if depth > 4 || inProgress[fn] || len(fn.Blocks) == 0 {
		return false
	}
	inProgress[fn] = true
	defer delete(inProgress, fn)
	ok := true
	seen := map[*ssa.BasicBlock]bool{}
	var walk func(b *ssa.BasicBlock)
	walk = func(b *ssa.BasicBlock) {
		if seen[b] || !ok {
			return
		}
		seen[b] = true
		for _, in := range b.Instrs {
			switch x := in.(type) {
			case *ssa.Call:
				if sc := staticCallee(x); sc != nil {
					if _, isCtor := sf.Ctors[sc]; isCtor {
						return
					}
					if fnPkgKey(sc) == "store" && sc != fn && mustConstruct(sc, sf, inProgress, depth+1) {
						return
					}
				}
			case *ssa.Return:
				ok = false
				return
			case *ssa.If:
				if exempt != nil && x.Cond == exempt {
					walk(b.Succs[1])
					return
				}
				if isT, eqTrue := emptyNamespaceTest(x.Cond); isT {
					if eqTrue {
						walk(b.Succs[1])
					} else {
						walk(b.Succs[0])
					}
					return
				}
			}
		}
		for _, s := range b.Succs {
			walk(s)
		}
	}
	walk(fn.Blocks[0])
	return ok
}

// returnsConstructed: every value fn returns (of cursor type) is the result of a cursor constructor (possibly through
// another such helper), a parameter handed through, or an element of a list.
func returnsConstructed(fn *ssa.Function, sf *storeFacts, depth int) bool {
	if depth > 3 || len(fn.Blocks) == 0 {
		return false
	}
	ok := true
	n := 0
	allInstrs(fn, func(in ssa.Instruction) {
		ret, isRet := in.(*ssa.Return)
		if !isRet {
			return
		}
		for _, rv := range ret.Results {
			if _, isCur := nodeOrCursor(rv.Type(), sf); !isCur {
				continue
			}
			n++
			var check func(v ssa.Value, d int) bool
			check = func(v ssa.Value, d int) bool {
				if d > 6 {
					return false
				}
				switch x := stripConv(v).(type) {
				case *ssa.Call:
					sc := staticCallee(x)
					if _, isCtor := sf.Ctors[sc]; isCtor {
						return true
					}
					return sc != nil && fnPkgKey(sc) == "store" && returnsConstructed(sc, sf, depth+1)
				case *ssa.Phi:
					for _, e := range x.Edges {
						if !check(e, d+1) {
							return false
						}
					}
					return true
				case *ssa.MakeInterface:
					return check(x.X, d+1)
				case *ssa.Parameter:
					return true
				case *ssa.Const:
					return true
				case *ssa.UnOp:
					_, isIA := x.X.(*ssa.IndexAddr)
					return isIA
				}
				return false
			}
			if !check(rv, 0) {
				ok = false
			}
		}
	})
	return ok && n > 0
}

// lenGrowthDifference: a + len(s) - len0 where len0 is an earlier len of the same list (the number of elements added
// since): never negative for a list that only grows.
func lenGrowthDifference(bo *ssa.BinOp) bool {
	y, ok := bo.Y.(*ssa.Call)
	if !ok || !isLenOf(y, nil) {
		return false
	}
	same := func(a, b ssa.Value) bool {
		if a == b {
			return true
		}
		la, ok1 := a.(*ssa.UnOp)
		lb, ok2 := b.(*ssa.UnOp)
		if !ok1 || !ok2 {
			return false
		}
		fa, ok1 := la.X.(*ssa.FieldAddr)
		fb, ok2 := lb.X.(*ssa.FieldAddr)
		return ok1 && ok2 && fa.Field == fb.Field && fa.X == fb.X
	}
	found := false
	var addends func(v ssa.Value, depth int)
	addends = func(v ssa.Value, depth int) {
		if depth > 4 {
			return
		}
		if c, ok := v.(*ssa.Call); ok && isLenOf(c, nil) && same(c.Call.Args[0], y.Call.Args[0]) && onlyGrowsBetween(y, c) {
			found = true
		}
		if b, ok := v.(*ssa.BinOp); ok && b.Op == token.ADD {
			addends(b.X, depth+1)
			addends(b.Y, depth+1)
		}
	}
	addends(bo.X, 0)
	return found
}

// builderCounterAdvanced: ld reads an integer field of an object; earlier in the same block that field was stored with
// its own previous value plus a constant >= 1, and nothing in between stores into it or is handed the object.
func builderCounterAdvanced(ld *ssa.UnOp) bool {
	fa, ok := ld.X.(*ssa.FieldAddr)
	if !ok || ld.Op != token.MUL {
		return false
	}
	b := ld.Block()
	idx := instrIndex(ld)
	for i := idx - 1; i >= 0; i-- {
		switch x := b.Instrs[i].(type) {
		case *ssa.Store:
			f2, ok := x.Addr.(*ssa.FieldAddr)
			if !ok || f2.Field != fa.Field || !(f2.X == fa.X || sameObj(f2.X, fa.X)) {
				continue
			}
			return isFieldPlusConst(x.Val, fa)
		case ssa.CallInstruction:
			for _, a := range x.Common().Args {
				if a == fa.X {
					return false
				}
			}
		}
	}
	return false
}

// isFieldPlusConst: v is (a read of the field fa addresses) + k with k >= 1.
func isFieldPlusConst(v ssa.Value, fa *ssa.FieldAddr) bool {
	bo, ok := v.(*ssa.BinOp)
	if !ok || bo.Op != token.ADD {
		return false
	}
	k, isK := constInt(bo.Y)
	if !isK || k < 1 {
		return false
	}
	ld, ok := bo.X.(*ssa.UnOp)
	if !ok || ld.Op != token.MUL {
		return false
	}
	f2, ok := ld.X.(*ssa.FieldAddr)
	return ok && f2.Field == fa.Field && (f2.X == fa.X || sameObj(f2.X, fa.X))
}

// advancesAndReturnsCounter: g (a method of the builder) stores field+k (k >= 1) into an integer field of its receiver
// on its only path and returns the new value of that field.
func advancesAndReturnsCounter(g *ssa.Function) bool {
	if len(g.Params) == 0 || len(g.Blocks) != 1 || g.Signature.Results().Len() != 1 {
		return false
	}
	var st *ssa.Store
	n := 0
	for _, in := range g.Blocks[0].Instrs {
		if s, ok := in.(*ssa.Store); ok {
			st = s
			n++
		}
	}
	if n != 1 {
		return false
	}
	fa, ok := st.Addr.(*ssa.FieldAddr)
	if !ok || fa.X != ssa.Value(g.Params[0]) || !isFieldPlusConst(st.Val, fa) {
		return false
	}
	ret, ok := g.Blocks[0].Instrs[len(g.Blocks[0].Instrs)-1].(*ssa.Return)
	if !ok || len(ret.Results) != 1 {
		return false
	}
	if ret.Results[0] == st.Val {
		return true
	}
	if ld, ok := ret.Results[0].(*ssa.UnOp); ok && ld.Op == token.MUL {
		if f2, ok := ld.X.(*ssa.FieldAddr); ok && f2.Field == fa.Field && f2.X == fa.X && instrIndex(ld) > instrIndex(st) {
			return true
		}
	}
	return false
}

// onlyGrowsBetween: earlier and later are len() of two reads of one list field; every store into that field that can
// happen after the earlier read is an append onto the field itself, so later - earlier is the number of entries added
// (a list that is re-made in between, `declared := e.list; e.list = make(...)`, can be shorter than it was).
func onlyGrowsBetween(earlier, later *ssa.Call) bool {
	fieldOf := func(c *ssa.Call) (*ssa.UnOp, *ssa.FieldAddr) {
		ld, ok := c.Call.Args[0].(*ssa.UnOp)
		if !ok || ld.Op != token.MUL {
			return nil, nil
		}
		fa, _ := ld.X.(*ssa.FieldAddr)
		return ld, fa
	}
	le, fe := fieldOf(earlier)
	_, fl := fieldOf(later)
	if fe == nil || fl == nil {
		// not fields: the same value, or lists the rule knows nothing about (kept as before)
		return fe == nil && fl == nil
	}
	if fe.Field != fl.Field || !types.Identical(fe.X.Type(), fl.X.Type()) {
		return false
	}
	ok := true
	allInstrs(le.Parent(), func(in ssa.Instruction) {
		st, isSt := in.(*ssa.Store)
		if !isSt {
			return
		}
		f2, isF := st.Addr.(*ssa.FieldAddr)
		if !isF || f2.Field != fe.Field || !types.Identical(f2.X.Type(), fe.X.Type()) {
			return
		}
		// a store that certainly precedes the earlier read does not matter
		if instrAfter(st, le) {
			return
		}
		grows := false
		if c, isC := st.Val.(*ssa.Call); isC {
			if b, isB := c.Call.Value.(*ssa.Builtin); isB && b.Name() == "append" {
				if l0, isL := c.Call.Args[0].(*ssa.UnOp); isL && l0.Op == token.MUL {
					if f0, isF0 := l0.X.(*ssa.FieldAddr); isF0 && f0.Field == fe.Field {
						grows = true
					}
				}
				if _, isPhi := c.Call.Args[0].(*ssa.Phi); isPhi {
					grows = true
				}
			}
		}
		if !grows {
			ok = false
		}
	})
	return ok
}
