package main

import (
	"fmt"
	"go/token"
	"go/types"
	"sort"
	"strings"

	"golang.org/x/tools/go/ssa"
)

func init() {
	register("C02", checkC02)
	notDecided["C02"] = "the result node-sets of predicate-bearing paths; nested predicates over arbitrary trees; that position() counts along the axis direction (this is the direction of the axis normaliser, decided under C01 R01.2)."
	register("C18", checkC18)
	notDecided["C18"] = "the set equation P/R = union of R(n) on concrete documents (it failed for positional predicates until fix 575c3ed, see R02.6); results of sub-queries for concrete nodes."
}

// intOffset: v = base + c for a constant c (through integer conversions and additions).
func intOffset(v, base ssa.Value) (int64, bool) {
	if v == base {
		return 0, true
	}
	switch x := v.(type) {
	case *ssa.Convert:
		return intOffset(x.X, base)
	case *ssa.ChangeType:
		return intOffset(x.X, base)
	case *ssa.BinOp:
		if x.Op == token.ADD {
			if k, ok := constInt(x.Y); ok {
				if o, ok := intOffset(x.X, base); ok {
					return o + k, true
				}
			}
			if k, ok := constInt(x.X); ok {
				if o, ok := intOffset(x.Y, base); ok {
					return o + k, true
				}
			}
		}
		if x.Op == token.SUB {
			if k, ok := constInt(x.Y); ok {
				if o, ok := intOffset(x.X, base); ok {
					return o - k, true
				}
			}
		}
	}
	return 0, false
}

// predicateCtx describes the per-candidate context built by the predicate handler.
type predicateCtx struct {
	Alloc     *ssa.Alloc
	Idx       ssa.Value // index of the candidate in the node-set
	Set       ssa.Value // the node-set being filtered
	PosOffset int64     // stored position = Idx + PosOffset
	PosOK     bool
	SizeOK    bool
	SizeWhy   string
	OneNode   bool
	Eval      *ssa.Call
	ViaHelper *ssa.Call // the context is built and the predicate evaluated in a helper called here
	InnerEval bool      // ... and that helper returns what the evaluation in the per-candidate context gave
}

func (w *World) predicateContext(h *ssa.Function, r *Roles) (*predicateCtx, string) {
	return w.predicateContextX(h, r, true)
}

// predicateContextIn: the per-candidate context built in h itself (no helpers followed).
func (w *World) predicateContextIn(h *ssa.Function, r *Roles) (*predicateCtx, string) {
	return w.predicateContextX(h, r, false)
}

func (w *World) predicateContextX(h *ssa.Function, r *Roles, follow bool) (*predicateCtx, string) {
	var pc *predicateCtx
	why := "no per-candidate context (a local context initialised from the copy method) found"
	allInstrs(h, func(in ssa.Instruction) {
		al, ok := in.(*ssa.Alloc)
		if !ok || !types.Identical(al.Type().(*types.Pointer).Elem(), r.CtxType) {
			return
		}
		fromCopy := false
		for _, st := range storesInto(al) {
			if st.Addr == ssa.Value(al) {
				if c, ok := st.Val.(*ssa.Call); ok && staticCallee(c) == r.CopyCtx {
					fromCopy = true
				}
				// or from a constructor of the package that derives the per-node context: copy, then result = {node},
				// position and size from its parameters
				if c, ok := st.Val.(*ssa.Call); ok && staticCallee(c) != nil && staticCallee(c) != r.CopyCtx && fnPkgKey(staticCallee(c)) == "exec" {
					if p := w.derivedContext(c, al, r); p != nil {
						pc = p
					}
				}
			}
		}
		if !fromCopy {
			return
		}
		p := &predicateCtx{Alloc: al}
		for _, st := range storesInto(al) {
			fa, ok := st.Addr.(*ssa.FieldAddr)
			if !ok || fa.X != ssa.Value(al) {
				continue
			}
			switch fa.Field {
			case r.CtxResultField:
				// one-element node-set literal holding set[idx]
				v := stripConv(st.Val)
				if sl, ok := v.(*ssa.Slice); ok {
					if arr, ok := sl.X.(*ssa.Alloc); ok {
						elems := storesInto(arr)
						if at, ok := arr.Type().(*types.Pointer).Elem().(*types.Array); ok && at.Len() == 1 && len(elems) == 1 {
							if ld, ok := elems[0].Val.(*ssa.UnOp); ok {
								if ia, ok := ld.X.(*ssa.IndexAddr); ok {
									p.OneNode = true
									p.Idx = ia.Index
									p.Set = ia.X
								}
							}
						}
					}
				}
			}
		}
		if p.Idx == nil {
			return
		}
		for _, st := range storesInto(al) {
			fa, ok := st.Addr.(*ssa.FieldAddr)
			if !ok || fa.X != ssa.Value(al) {
				continue
			}
			switch fa.Field {
			case r.CtxPosField:
				if o, ok := intOffset(st.Val, p.Idx); ok {
					p.PosOffset, p.PosOK = o, true
				}
			case r.CtxSizeField:
				if c, ok := st.Val.(*ssa.Call); ok {
					if b, ok := c.Call.Value.(*ssa.Builtin); ok && b.Name() == "len" {
						if c.Call.Args[0] == p.Set {
							p.SizeOK = true
						} else {
							p.SizeWhy = "size is the length of a different value than the node-set being filtered"
						}
					}
				} else {
					p.SizeWhy = "size is " + describe(st.Val) + ", not the length of the node-set being filtered"
				}
			}
		}
		pc = p
	})
	if pc == nil && follow {
		// the per-candidate context may be built, and the predicate evaluated, in a helper that is given the node-set
		// and the candidate's index: E(ctx, expr, set, i) (Result, error)
		allInstrs(h, func(in ssa.Instruction) {
			c, ok := in.(*ssa.Call)
			if !ok || pc != nil {
				return
			}
			e := staticCallee(c)
			if e == nil || e == h || fnPkgKey(e) != "exec" || e == r.ExecContext || len(e.Blocks) == 0 || e.Signature.Results().Len() != 2 {
				return
			}
			inner, _ := w.predicateContextIn(e, r)
			if inner == nil || inner.Idx == nil {
				return
			}
			argOf := func(v ssa.Value) ssa.Value {
				for i, p := range e.Params {
					if ssa.Value(p) == v && i < len(c.Call.Args) {
						return c.Call.Args[i]
					}
				}
				return nil
			}
			set, idx := argOf(inner.Set), argOf(inner.Idx)
			if set == nil || idx == nil {
				return
			}
			p := *inner
			p.Set, p.Idx, p.ViaHelper = set, idx, c
			// the helper hands back the result of the evaluation in that context
			allInstrs(e, func(in2 ssa.Instruction) {
				c2, ok := in2.(*ssa.Call)
				if !ok || staticCallee(c2) == nil || fnPkgKey(staticCallee(c2)) != "exec" {
					return
				}
				uses := false
				for _, a := range c2.Call.Args {
					if a == ssa.Value(inner.Alloc) {
						uses = true
					}
				}
				if !uses {
					return
				}
				allInstrs(e, func(in3 ssa.Instruction) {
					if ret, ok := in3.(*ssa.Return); ok && len(ret.Results) == 2 {
						if ret.Results[0] == ssa.Value(c2) {
							p.InnerEval = true
						}
						if ex, ok := ret.Results[0].(*ssa.Extract); ok && ex.Tuple == ssa.Value(c2) && ex.Index == 0 {
							p.InnerEval = true
						}
					}
				})
			})
			pc = &p
		})
	}
	if pc == nil {
		return nil, why
	}
	return pc, ""
}

// derivedContext: call c = D(ctx, node, position, size ...) where D copies its context and stores one-node result,
// position and size from its parameters; the facts are translated to the call's arguments.
func (w *World) derivedContext(c *ssa.Call, al *ssa.Alloc, r *Roles) *predicateCtx {
	d := staticCallee(c)
	if d == nil || len(d.Blocks) == 0 {
		return nil
	}
	var inner *ssa.Alloc
	allInstrs(d, func(in ssa.Instruction) {
		a, ok := in.(*ssa.Alloc)
		if !ok || !types.Identical(a.Type().(*types.Pointer).Elem(), r.CtxType) {
			return
		}
		for _, st := range storesInto(a) {
			if st.Addr == ssa.Value(a) {
				if cc, ok := st.Val.(*ssa.Call); ok && staticCallee(cc) == r.CopyCtx {
					inner = a
				}
			}
		}
	})
	if inner == nil {
		return nil
	}
	// every return hands back the derived context
	okRet := true
	allInstrs(d, func(in ssa.Instruction) {
		if ret, ok := in.(*ssa.Return); ok {
			ld, ok := ret.Results[0].(*ssa.UnOp)
			if !ok || ld.X != ssa.Value(inner) {
				okRet = false
			}
		}
	})
	if !okRet {
		return nil
	}
	argOf := func(v ssa.Value) ssa.Value {
		for i, p := range d.Params {
			if ssa.Value(p) == v && i < len(c.Call.Args) {
				return c.Call.Args[i]
			}
		}
		return nil
	}
	p := &predicateCtx{Alloc: al}
	var posVal, sizeVal ssa.Value
	for _, st := range storesInto(inner) {
		fa, ok := st.Addr.(*ssa.FieldAddr)
		if !ok || fa.X != ssa.Value(inner) {
			continue
		}
		switch fa.Field {
		case r.CtxResultField:
			if sl, ok := stripConv(st.Val).(*ssa.Slice); ok {
				if arr, ok := sl.X.(*ssa.Alloc); ok {
					elems := storesInto(arr)
					if at, ok := arr.Type().(*types.Pointer).Elem().(*types.Array); ok && at.Len() == 1 && len(elems) == 1 {
						if a := argOf(elems[0].Val); a != nil {
							if ld, ok := a.(*ssa.UnOp); ok {
								if ia, ok := ld.X.(*ssa.IndexAddr); ok {
									p.OneNode = true
									p.Idx = ia.Index
									p.Set = ia.X
								}
							}
						}
					}
				}
			}
		case r.CtxPosField:
			posVal = st.Val
		case r.CtxSizeField:
			sizeVal = st.Val
		}
	}
	if p.Idx == nil {
		return nil
	}
	if posVal != nil {
		// position = (parameter + k) inside, parameter = i + m at the call
		inOff := int64(0)
		base := posVal
		if bo, ok := posVal.(*ssa.BinOp); ok && bo.Op == token.ADD {
			if k, ok := constInt(bo.Y); ok {
				inOff, base = k, bo.X
			}
		}
		if a := argOf(base); a != nil {
			if o, ok := intOffset(a, p.Idx); ok {
				p.PosOffset, p.PosOK = o+inOff, true
			}
		}
	}
	if sizeVal != nil {
		if a := argOf(sizeVal); a != nil {
			if cc, ok := a.(*ssa.Call); ok && isLenOf(cc, nil) && cc.Call.Args[0] == p.Set {
				p.SizeOK = true
			} else {
				p.SizeWhy = "size is " + describe(a) + ", not the length of the node-set being filtered"
			}
		}
	}
	return p
}

func checkC02(w *World) {
	const P = "C02"
	f := w.Facts()
	r := w.Roles()
	for _, e := range r.err {
		w.undecided(P, "R00.roles", "role resolution: "+e, 0, e)
	}
	docRule(P, "R02.1", "F", "in the predicate handler each candidate is evaluated in its own copy of the context whose result is the one-node set {set[i]} and whose position is computed from the same index i; the function registered as position() returns that field plus k with (offset stored) + k = 1.")
	docRule(P, "R02.2", "F", "a numeric predicate value is compared for equality with the 1-based index i+1 in the float64 domain: no float-to-integer conversion of the predicate value (so [1.5], [NaN], [1e300] select nothing).")
	docRule(P, "R02.3", "F", "last() returns the context-size field; the predicate handler sets it per candidate to len of the node-set it is filtering; the context copy preserves it (C01 R01.8); Exec seeds it with 1.")
	docRule(P, "R02.4", "T G<->HK", "threading kind by production shape: a production with two nonterminals separated by an operator terminal (or and = != < <= > >= + - * div mod |) has a handler that evaluates both in independent copies of the incoming context; one whose two nonterminals are juxtaposed or separated by '/' or '//' (step after path, predicate after step/filter) has a handler that evaluates child 0 and then child 1 in the same context, in that order.")
	docRule(P, "R02.5", "D", "predicate truth: a Number result is compared with the position; otherwise the result's Bool() decides (a Bool as is); the Bool() arm is reached only when the result is not a Number.")
	docRule(P, "R02.6", "structural", "per-context-node evaluation: some handler of the Step family evaluates the step in a loop over the incoming context node-set with a one-node context, so that predicates number the nodes selected from each context node separately.")

	h := f.Handlers["Predicate"]
	if h == nil {
		w.check(P, "R02.1", "predicate handler", 0, false, "no handler for Predicate")
		return
	}
	pc, why := w.predicateContext(h.Fn, r)
	var truthRes ssa.Value // the predicate value inside a truth helper, when the handler delegates the decision
	if pc == nil {
		w.undecided(P, "R02.1", "per-candidate context", h.Fn.Pos(), why)
	} else {
		w.check(P, "R02.1", "per-candidate context is a one-node set", pc.Alloc.Pos(), pc.OneNode, "result = NodeSet{set[i]}")
		w.check(P, "R02.1", "context position derives from the candidate's index", pc.Alloc.Pos(), pc.PosOK, fmt.Sprintf("position field = i + %d", pc.PosOffset))
		// position builtin
		if b := f.Builtins["position"]; b != nil && b.Fns[-1] != nil {
			k, ok := accessorPlusConst(b.Fns[-1], "ContextPosition")
			w.check(P, "R02.1", "position() is 1-based", b.Fns[-1].Pos(), ok && pc.PosOK && pc.PosOffset+k == 1, fmt.Sprintf("position() = ContextPosition() + %d (recognised: %v); stored offset %d; sum must be 1", k, ok, pc.PosOffset))
		} else {
			w.check(P, "R02.1", "position() is 1-based", 0, false, "builtin position not found")
		}
		// evaluation of the predicate expression happens in that context
		evalInCtx := false
		allInstrs(h.Fn, func(in ssa.Instruction) {
			if c, ok := in.(*ssa.Call); ok {
				for _, a := range c.Call.Args {
					if a == ssa.Value(pc.Alloc) && staticCallee(c) != nil && fnPkgKey(staticCallee(c)) == "exec" {
						evalInCtx = true
						pc.Eval = c
					}
				}
			}
		})
		if pc.ViaHelper != nil {
			evalInCtx, pc.Eval = pc.InnerEval, pc.ViaHelper
		}
		w.check(P, "R02.1", "predicate expression evaluated in the per-candidate context", pc.Alloc.Pos(), evalInCtx, fmt.Sprintf("%v", evalInCtx))

		// the decision may be delegated to a truth helper of the package that receives the predicate value and the
		// candidate's index: then the comparison and the conversions are looked for there
		truthFn, idxBase, idxOff0 := h.Fn, pc.Idx, int64(0)
		if pc.Eval != nil {
			for _, rr := range referrers(pc.Eval) {
				ex, ok := rr.(*ssa.Extract)
				if !ok || ex.Index != 0 {
					continue
				}
				for _, r2 := range referrers(ex) {
					c, ok := r2.(*ssa.Call)
					if !ok {
						continue
					}
					t := staticCallee(c)
					if t == nil || fnPkgKey(t) != "exec" || t == r.ExecContext || len(t.Blocks) == 0 {
						continue
					}
					for k, a := range c.Call.Args {
						if a != ssa.Value(ex) || k >= len(t.Params) {
							continue
						}
						for j, a2 := range c.Call.Args {
							if off, ok := intOffset(a2, pc.Idx); ok && j < len(t.Params) && j != k {
								truthFn, idxBase, idxOff0 = t, t.Params[j], off
								truthRes = t.Params[k]
							}
						}
					}
				}
			}
		}
		// R02.2
		n22 := 0
		allInstrs(truthFn, func(in ssa.Instruction) {
			bo, ok := in.(*ssa.BinOp)
			if !ok || !isCmpOp(bo.Op) {
				return
			}
			isNumSide := func(v ssa.Value) bool {
				return sliceContains(v, func(x ssa.Value) bool {
					if ex, ok := x.(*ssa.Extract); ok {
						if ta, ok := ex.Tuple.(*ssa.TypeAssert); ok && types.Identical(ta.AssertedType, r.Number) {
							return true
						}
					}
					return false
				})
			}
			var numSide, idxSide ssa.Value
			if isNumSide(bo.X) {
				numSide, idxSide = bo.X, bo.Y
			} else if isNumSide(bo.Y) {
				numSide, idxSide = bo.Y, bo.X
			} else {
				return
			}
			n22++
			fb, isF := bo.X.Type().Underlying().(*types.Basic)
			floatCmp := isF && fb.Info()&types.IsFloat != 0
			truncates := sliceContains(numSide, func(x ssa.Value) bool {
				c, ok := x.(*ssa.Convert)
				return ok && isFloatToInt(c)
			})
			off, offOK := intOffset(idxSide, idxBase)
			off += idxOff0
			good := floatCmp && !truncates && bo.Op == token.EQL && offOK && off == 1
			w.check(P, "R02.2", "numeric predicate comparison", bo.Pos(), good, fmt.Sprintf("compared as float64: %v; predicate value truncated to an integer: %v; operator %s; index side = i + %d (recognised %v, must be i + 1)", floatCmp, truncates, bo.Op, off, offOK))
		})
		if n22 == 0 {
			w.undecided(P, "R02.2", "numeric predicate comparison", h.Fn.Pos(), "no comparison between the Number-typed predicate value and the candidate index found")
		}

		// R02.3
		if r.CtxSizeField < 0 {
			w.check(P, "R02.3", "context size", h.Fn.Pos(), false, "the evaluation context has no context-size field: last() cannot know how many nodes reached the predicate")
		} else {
			w.check(P, "R02.3", "context size set per candidate", pc.Alloc.Pos(), pc.SizeOK, "size = len(node-set being filtered) "+pc.SizeWhy)
		}
	}
	if b := f.Builtins["last"]; b != nil && b.Fns[-1] != nil {
		k, ok := accessorPlusConst(b.Fns[-1], "ContextSize")
		detail := fmt.Sprintf("last() = ContextSize() + %d", k)
		if !ok {
			detail = "last() does not return the context size (it derives its value from something else, e.g. the length of the context result, which inside a predicate is always the one-node set)"
		}
		w.check(P, "R02.3", "last() returns the context size", b.Fns[-1].Pos(), ok && k == 0, detail)
	} else {
		w.check(P, "R02.3", "last() returns the context size", 0, false, "builtin last not found")
	}
	w.floor(P, "R02.1", 4)
	w.floor(P, "R02.2", 1)
	w.floor(P, "R02.3", 2)

	// R02.4
	w.threadingKinds(P, f, r)

	// R02.5
	if pc != nil && pc.Eval != nil {
		var res ssa.Value
		for _, rr := range referrers(pc.Eval) {
			if ex, ok := rr.(*ssa.Extract); ok && ex.Index == 0 {
				res = ex
			}
		}
		if truthRes != nil {
			res = truthRes
		}
		if res == nil {
			w.undecided(P, "R02.5", "predicate truth", h.Fn.Pos(), "result of the predicate expression not found")
		} else {
			var numAssert *ssa.TypeAssert
			for _, rr := range referrers(res) {
				if ta, ok := rr.(*ssa.TypeAssert); ok && ta.CommaOk && types.Identical(ta.AssertedType, r.Number) {
					numAssert = ta
				}
			}
			w.check(P, "R02.5", "numeric predicates are recognised", h.Fn.Pos(), numAssert != nil, "the predicate value is type-tested for Number")
			nb := 0
			for _, rr := range referrers(res) {
				c, ok := rr.(*ssa.Call)
				if !ok || !c.Call.IsInvoke() || c.Call.Method.Name() != "Bool" {
					continue
				}
				nb++
				guard := false
				if numAssert != nil {
					for _, a := range guardAtoms(c.Block()) {
						if ex, ok := a.V.(*ssa.Extract); ok && ex.Tuple == ssa.Value(numAssert) && ex.Index == 1 && !a.Pol {
							guard = true
						}
					}
				}
				w.check(P, "R02.5", "boolean conversion of the predicate value", c.Pos(), guard, fmt.Sprintf("Bool() is applied only when the value is not a Number: %v", guard))
			}
			if nb == 0 {
				w.check(P, "R02.5", "boolean conversion of the predicate value", h.Fn.Pos(), false, "non-numeric predicate values are not converted with Bool()")
			}
		}
	}
	w.floor(P, "R02.5", 2)

	// R02.7 every candidate is examined, result keeps the incoming order
	docRule(P, "R02.7", "D+F", "the predicate handler examines every candidate: the only exits of its loop over the node-set are the loop bound and error returns (no break after a hit: `[n]` with a node-dependent n may hold for several candidates); the node-set it stores is the accumulator it appended to, in the order of the incoming node-set (not re-sorted: the second predicate of a reverse-axis step still counts in proximity order).")
	{
		loops := loopBlocks(h.Fn)
		early := ""
		for _, b := range h.Fn.Blocks {
			if !loops[b] {
				continue
			}
			isHeader := false
			if len(b.Instrs) > 0 {
				if ifi, ok := b.Instrs[len(b.Instrs)-1].(*ssa.If); ok {
					if bo, ok := ifi.Cond.(*ssa.BinOp); ok && bo.Op == token.LSS && isLenOf(bo.Y, nil) {
						isHeader = true
					}
				}
			}
			if isHeader {
				continue
			}
			for _, s := range b.Succs {
				if loops[s] {
					continue
				}
				endsInReturn := false
				for _, in := range s.Instrs {
					if ret, ok := in.(*ssa.Return); ok && len(ret.Results) == 1 && !isNilConst(ret.Results[0]) {
						endsInReturn = true
					}
				}
				if !endsInReturn {
					early = w.pos(b.Instrs[len(b.Instrs)-1].Pos())
				}
			}
		}
		w.check(P, "R02.7", "predicate loop examines every candidate", h.Fn.Pos(), early == "", "early exit from the candidate loop: "+orNone(early))
		for _, st := range resultStores(h.Fn, r) {
			v := stripConv(st.Val)
			_, isPhi := v.(*ssa.Phi)
			isAppend := false
			if c, ok := v.(*ssa.Call); ok {
				if b, ok := c.Call.Value.(*ssa.Builtin); ok && b.Name() == "append" {
					isAppend = true
				}
			}
			w.check(P, "R02.7", "predicate result keeps the incoming order", st.Pos(), isPhi || isAppend, "the stored node-set is "+describe(v)+" (must be the accumulator itself)")
		}
	}
	w.floor(P, "R02.7", 2)

	// R02.8 no success return before a child was evaluated
	w.noBypass(P, f, r)
	// a predicate on a filter expression numbers the node-set in document order: unions are forward-normalised
	w.include(P, "C03", "R03.3", "R03.5", "R03.6")
	// a predicate on a step numbers the nodes of the axis in document order (reversed for the reverse axes): every axis
	// selector hands over a sorted node-set
	w.include(P, "C03", "R03.1")
	// position() and last() keep their meaning inside function arguments and operands of the predicate expression
	w.include(P, "C01", "R01.13")
	w.include(P, "C11", "R11.5")

	// R02.6
	w.perContextNode(P, f, r)
	// R02.9
	w.filterPredicateOrder(P, f, r)
}

// filterPredicateOrder (R02.9): a predicate applied to a filter expression (a parenthesised or primary expression,
// not a step) numbers the node-set in document order. The node-set of the filter expression may be in reverse
// document order (its last step was a reverse axis) or in any order (a variable bound by the caller), so between
// the evaluation of the filter expression and the evaluation of the predicate the handler has to put it into
// document order.
func (w *World) filterPredicateOrder(P string, f *Facts, r *Roles) {
	docRule(P, "R02.9", "P+D G<->H", "for every production `F Predicate` whose first nonterminal derives a parenthesised expression through unit productions (a filter expression, not a step), the handler stores, after evaluating child 0 and before evaluating child 1, a context result that passed through the forward normaliser (conditional only on the result being a node-set and on error tests): `(E)[n]` counts in document order even when E ends in a reverse axis.")
	isPredicateNT := func(nt string) bool {
		for _, a := range f.Alts[nt] {
			if len(a.Syms) > 0 && !a.Syms[0].IsNT && a.Syms[0].Name == "[" {
				return true
			}
		}
		return false
	}
	derivesParen := func(start string) bool {
		seen := map[string]bool{}
		todo := []string{start}
		for len(todo) > 0 {
			nt := todo[0]
			todo = todo[1:]
			if seen[nt] {
				continue
			}
			seen[nt] = true
			for _, a := range f.Alts[nt] {
				if len(a.Syms) == 3 && !a.Syms[0].IsNT && a.Syms[0].Name == "(" && a.Syms[1].IsNT && !a.Syms[2].IsNT && a.Syms[2].Name == ")" {
					return true
				}
				if len(a.Syms) == 1 && a.Syms[0].IsNT {
					todo = append(todo, a.Syms[0].Name)
				}
			}
		}
		return false
	}
	var nts []string
	for nt := range f.Alts {
		nts = append(nts, nt)
	}
	sort.Strings(nts)
	n := 0
	for _, nt := range nts {
		for _, a := range f.Alts[nt] {
			if len(a.Syms) != 2 || !a.Syms[0].IsNT || !a.Syms[1].IsNT || !isPredicateNT(a.Syms[1].Name) || !derivesParen(a.Syms[0].Name) {
				continue
			}
			n++
			h := f.Handlers[nt]
			if h == nil {
				w.check(P, "R02.9", "filter production "+nt, 0, false, "no handler: the dispatcher evaluates only the filter expression and drops the predicate")
				continue
			}
			ok, why := false, "no function of the handler evaluates child 0 and child 1 in its own context with a forward-normalising store between them"
			for _, g := range w.handlerClosureH(h) {
				var c0, c1 *ssa.Call
				for _, ev := range w.childEvals(g) {
					if !ev.OwnCtx {
						continue
					}
					if ev.ChildIdx == 0 {
						c0 = ev.Call
					}
					if ev.ChildIdx == 1 {
						c1 = ev.Call
					}
				}
				if c0 == nil || c1 == nil {
					continue
				}
				base := map[atom]bool{}
				for _, at := range guardAtoms(c0.Block()) {
					base[at] = true
				}
				for _, st := range resultStores(g, r) {
					sb := st.Block()
					if !(c0.Block() == sb && instrIndex(c0) < instrIndex(st) || c0.Block() != sb && c0.Block().Dominates(sb)) {
						continue
					}
					if !(sb == c1.Block() && instrIndex(st) < instrIndex(c1) || sb != c1.Block() && reaches(sb, c1.Block())) {
						continue
					}
					if okN, whyN := w.valueNormalised(st.Val, 1, 0); !okN {
						why = "the result stored between the two evaluations is not forward-normalised: " + whyN
						continue
					}
					// extra guards of the store: only error tests and the node-set test
					extra := ""
					for _, at := range guardAtoms(sb) {
						if base[at] {
							continue
						}
						if isErrTest(at.V) {
							continue
						}
						if ex, isEx := at.V.(*ssa.Extract); isEx && ex.Index == 1 && at.Pol {
							if ta, isTA := ex.Tuple.(*ssa.TypeAssert); isTA && types.Identical(ta.AssertedType, r.NodeSet) {
								continue
							}
						}
						extra = "the normalising store is conditional on something other than the result being a node-set"
					}
					if extra != "" {
						why = extra
						continue
					}
					ok, why = true, "child 0, forward normaliser, child 1 in "+g.Name()
				}
				// the normalising store may sit in a step function called between the two evaluations with the same
				// context (a function of the package, or one bound to a function-valued parameter of a driver)
				allInstrs(g, func(in ssa.Instruction) {
					cc, isCall := in.(*ssa.Call)
					if !isCall || cc == c0 || cc == c1 || len(g.Params) == 0 {
						return
					}
					sb := cc.Block()
					if !(c0.Block() == sb && instrIndex(c0) < instrIndex(cc) || c0.Block() != sb && c0.Block().Dominates(sb)) {
						return
					}
					if !(sb == c1.Block() && instrIndex(cc) < instrIndex(c1) || sb != c1.Block() && reaches(sb, c1.Block())) {
						return
					}
					callee := staticCallee(cc)
					if callee == nil && !cc.Call.IsInvoke() {
						callee = h.boundFunc(cc.Call.Value)
					}
					if callee == nil || fnPkgKey(callee) != "exec" || len(callee.Params) == 0 || len(cc.Call.Args) == 0 || cc.Call.Args[0] != ssa.Value(ctxParam(g)) {
						return
					}
					// the call itself: conditional only on error tests and on the step function being there
					for _, at := range guardAtoms(sb) {
						if base[at] || isErrTest(at.V) {
							continue
						}
						if bo, isBo := at.V.(*ssa.BinOp); isBo && isNilConst(bo.Y) && h.boundFunc(bo.X) != nil {
							continue
						}
						return
					}
					for _, st := range resultStores(callee, r) {
						if okN, _ := w.valueNormalised(st.Val, 1, 0); !okN {
							continue
						}
						clean := true
						for _, at := range guardAtoms(st.Block()) {
							if isErrTest(at.V) {
								continue
							}
							if ex, isEx := at.V.(*ssa.Extract); isEx && ex.Index == 1 && at.Pol {
								if ta, isTA := ex.Tuple.(*ssa.TypeAssert); isTA && types.Identical(ta.AssertedType, r.NodeSet) {
									continue
								}
							}
							clean = false
						}
						if clean {
							ok, why = true, "child 0, forward normaliser (in "+callee.Name()+"), child 1 in "+g.Name()
						}
					}
				})
			}
			w.check(P, "R02.9", "filter production "+nt+": document order before the predicate", h.Fn.Pos(), ok, why)
		}
	}
	if n == 0 {
		w.undecided(P, "R02.9", "filter productions", 0, "the grammar has no production `FilterExpr Predicate`")
	}
	w.floor(P, "R02.9", 1)
}

// isErrTest: v compares an error value with nil.
func isErrTest(v ssa.Value) bool {
	bo, ok := v.(*ssa.BinOp)
	if !ok || (bo.Op != token.EQL && bo.Op != token.NEQ) {
		return false
	}
	isErr := func(t types.Type) bool {
		n, ok := t.(*types.Named)
		return ok && n.Obj().Pkg() == nil && n.Obj().Name() == "error"
	}
	return (isErr(bo.X.Type()) && isNilConst(bo.Y)) || (isErr(bo.Y.Type()) && isNilConst(bo.X))
}

// accessorPlusConst: fn returns Number(ctx.<accessor>() + k).
func accessorPlusConst(fn *ssa.Function, accessor string) (int64, bool) {
	var k int64
	found := false
	allInstrs(fn, func(in ssa.Instruction) {
		ret, ok := in.(*ssa.Return)
		if !ok || len(ret.Results) != 2 || !isNilConst(ret.Results[1]) {
			return
		}
		v := stripConv(ret.Results[0])
		// Number(x) + 1 or Number(x + 1)
		var walk func(v ssa.Value) (int64, bool)
		walk = func(v ssa.Value) (int64, bool) {
			switch x := v.(type) {
			case *ssa.Convert:
				return walk(x.X)
			case *ssa.ChangeType:
				return walk(x.X)
			case *ssa.MakeInterface:
				return walk(x.X)
			case *ssa.BinOp:
				if x.Op == token.ADD {
					if c, ok := constInt(x.Y); ok {
						if o, ok := walk(x.X); ok {
							return o + c, true
						}
					}
					if c, ok := constInt(x.X); ok {
						if o, ok := walk(x.Y); ok {
							return o + c, true
						}
					}
				}
			case *ssa.Call:
				if _, ok := isMethodCall(x, accessor); ok {
					return 0, true
				}
			}
			return 0, false
		}
		if o, ok := walk(v); ok {
			k, found = o, true
		}
	})
	return k, found
}

var operatorTerminals = map[string]bool{"or": true, "and": true, "=": true, "!=": true, "<": true, "<=": true, ">": true, ">=": true, "+": true, "-": true, "*": true, "div": true, "mod": true, "|": true}

func (w *World) threadingKinds(P string, f *Facts, r *Roles) {
	var nts []string
	for nt := range f.Alts {
		nts = append(nts, nt)
	}
	sort.Strings(nts)
	reach := f.grammarReachable(startSymbol)
	for _, nt := range nts {
		if !reach[nt] {
			continue
		}
		alts := f.Alts[nt]
		if len(alts) != 1 || len(alts[0].NTs()) != 2 {
			continue
		}
		a := alts[0]
		if _, consumed := passThroughExceptions[nt]; consumed {
			continue
		}
		if nt == "FunctionCall" {
			continue // custom handler, C11
		}
		// terminal between the two NTs
		between := ""
		seenFirst := false
		for _, s := range a.Syms {
			if s.IsNT {
				if seenFirst {
					break
				}
				seenFirst = true
				continue
			}
			if seenFirst {
				between = s.Name
			}
		}
		want := "dependent"
		if between == ":" {
			continue // name tests: C11 R11.3
		}
		if operatorTerminals[between] {
			want = "independent"
		} else if between != "" && between != "/" && between != "//" {
			w.undecided(P, "R02.4", "production "+nt, 0, "unclassified separator "+between)
			continue
		}
		h := f.Handlers[nt]
		if h == nil {
			w.check(P, "R02.4", "production "+nt, 0, false, fmt.Sprintf("`%s` has no handler: only the first nonterminal is evaluated and the rest of the production is dropped", a.String()))
			continue
		}
		got, detail := w.handlerKind(h.Fn, r)
		w.check(P, "R02.4", "production "+nt, h.Pos, got == want, fmt.Sprintf("`%s` needs %s evaluation; handler %s is %s (%s)", a.String(), want, h.Fn.Name(), got, detail))
	}
	w.floor(P, "R02.4", 22)
}

// handlerKind classifies how a handler evaluates its two children.
func (w *World) handlerKind(h *ssa.Function, r *Roles) (string, string) {
	if _, _, ph, why := w.operandsOf(h); ph != nil {
		if why != "" {
			return "unknown", why
		}
		if ph.Independent {
			return "independent", "operands come from " + ph.Fn.Name()
		}
		return "unknown", ph.Fn.Name() + " does not evaluate in independent copies"
	}
	var evals []childEval
	for _, fn := range w.handlerClosure(h) {
		evals = append(evals, w.childEvals(fn)...)
	}
	var e0, e1 *childEval
	for i := range evals {
		e := &evals[i]
		if !e.OwnCtx {
			continue
		}
		if e.ChildIdx == 0 {
			e0 = e
		}
		if e.ChildIdx == 1 {
			e1 = e
		}
	}
	if e0 != nil && e1 != nil && e0.Fn == e1.Fn {
		before := (e0.Call.Block() == e1.Call.Block() && instrIndex(e0.Call) < instrIndex(e1.Call)) || (e0.Call.Block() != e1.Call.Block() && e0.Call.Block().Dominates(e1.Call.Block()))
		if before {
			// child 1 must be evaluated whenever child 0 succeeded: the only guard between them is the error test
			for _, a := range guardAtoms(e1.Call.Block()) {
				bo, ok := a.V.(*ssa.BinOp)
				if ok && isNilConst(bo.Y) && bo.X == ssa.Value(e0.Call) {
					continue
				}
				if ok && isNilConst(bo.Y) && isErrorType(bo.X.Type()) && ((bo.Op == token.NEQ && !a.Pol) || (bo.Op == token.EQL && a.Pol)) {
					continue // reached only when a helper in between reported no error (errors abort the evaluation)
				}
				if ex, isEx := a.V.(*ssa.Extract); isEx {
					if _, isTA := ex.Tuple.(*ssa.TypeAssert); isTA {
						continue // a type test of the intermediate result (failing branch is an error return)
					}
				}
				if _, dominatedByE0 := a.V.(ssa.Instruction); dominatedByE0 {
					if in := a.V.(ssa.Instruction); in.Block() != nil && (e0.Call.Block().Dominates(in.Block())) && in != ssa.Instruction(e0.Call) {
						// a condition computed after child 0 was evaluated other than its error
						if instrAfter(e0.Call, in) {
							return "unknown", "the evaluation of child 1 is conditional on " + describe(a.V) + " computed after child 0: the right-hand step is skipped for some left-hand results (e.g. a function used as a step is never called on an empty node-set)"
						}
					}
				}
			}
			// no path from child 0's evaluation to a nil-error return that bypasses child 1
			seen := map[*ssa.BasicBlock]bool{}
			bypass := false
			var walk func(b *ssa.BasicBlock, start int)
			walk = func(b *ssa.BasicBlock, start int) {
				for i := start; i < len(b.Instrs); i++ {
					in := b.Instrs[i]
					if in == ssa.Instruction(e1.Call) {
						return
					}
					if ret, ok := in.(*ssa.Return); ok && len(ret.Results) == 1 && isNilConst(ret.Results[0]) {
						bypass = true
						return
					}
				}
				for _, sc := range b.Succs {
					if !seen[sc] {
						seen[sc] = true
						walk(sc, 0)
					}
				}
			}
			walk(e0.Call.Block(), instrIndex(e0.Call)+1)
			if bypass {
				return "unknown", "after child 0 was evaluated the function can return success without evaluating child 1: the right-hand step is skipped for some left-hand results (a function used as a step must still be called, e.g. on an empty node-set)"
			}
			return "dependent", "child 0 then child 1 in the handler's own context"
		}
		return "unknown", "child 1 is not evaluated after child 0"
	}
	if len(evals) == 0 {
		return "leaf", "evaluates no child"
	}
	return "unknown", fmt.Sprintf("%d child evaluations, not the two-children patterns", len(evals))
}

// noBypass: in a handler that evaluates children, no path from the entry reaches a nil-error return without
// evaluating a child (calling the dispatcher or a helper that does) — except through the exit of a loop over
// the children list (the grammar guarantees the list is not empty), the exit of a loop over the node-set whose body does the
// evaluation, and the failed branch of the type assertion on the context result.
func (w *World) noBypass(P string, f *Facts, r *Roles) {
	docRule(P, "R02.8", "D", "a handler that evaluates children never returns success before evaluating one: no path from its entry to a nil-error return bypasses every child evaluation (an 'empty node-set: nothing to do' shortcut skips function steps, whose value does not depend on the node-set being non-empty, and predicates of filter expressions).")
	evaluates := func(c *ssa.Call) bool {
		sc := staticCallee(c)
		if sc == nil {
			return false
		}
		if sc == r.ExecContext {
			return true
		}
		if fnPkgKey(sc) != "exec" {
			return false
		}
		for g := range staticReach(sc, func(x *ssa.Function) bool { return fnPkgKey(x) == "exec" && x != r.ExecContext }) {
			found := false
			allInstrs(g, func(in ssa.Instruction) {
				if c2, ok := in.(*ssa.Call); ok && staticCallee(c2) == r.ExecContext {
					found = true
				}
			})
			if found {
				return true
			}
		}
		return false
	}
	byFn := f.handlersByFn()
	var fns []*ssa.Function
	for fn := range byFn {
		fns = append(fns, fn)
	}
	sort.Slice(fns, func(i, j int) bool { return fns[i].Name() < fns[j].Name() })
	n := 0
	for _, h := range fns {
		has := false
		allInstrs(h, func(in ssa.Instruction) {
			if c, ok := in.(*ssa.Call); ok && evaluates(c) {
				has = true
			}
		})
		if !has {
			continue
		}
		n++
		bypass := ""
		seen := map[*ssa.BasicBlock]bool{}
		var walk func(b *ssa.BasicBlock)
		walk = func(b *ssa.BasicBlock) {
			if seen[b] {
				return
			}
			seen[b] = true
			for _, in := range b.Instrs {
				switch x := in.(type) {
				case *ssa.Call:
					if evaluates(x) {
						return
					}
				case *ssa.Return:
					if len(x.Results) == 1 && isNilConst(x.Results[0]) {
						bypass = w.pos(x.Pos())
					}
					return
				case *ssa.If:
					// the exit edge of a counting loop whose body evaluates a child: zero iterations mean an empty
					// children list (excluded by the grammar) or an empty node-set (nothing to evaluate for)
					if bo, ok := x.Cond.(*ssa.BinOp); ok && bo.Op == token.LSS && isLenOf(bo.Y, nil) && len(b.Succs) == 2 {
						bodyEvaluates := false
						for _, lb := range h.Blocks {
							if b.Succs[0].Dominates(lb) {
								for _, lin := range lb.Instrs {
									if c, ok := lin.(*ssa.Call); ok && evaluates(c) {
										bodyEvaluates = true
									}
								}
							}
						}
						if bodyEvaluates {
							walk(b.Succs[0])
							return
						}
					}
					// the failed branch of the type assertion on the context result (never taken inside a path)
					if ex, ok := x.Cond.(*ssa.Extract); ok && ex.Index == 1 && len(b.Succs) == 2 {
						if ta, ok := ex.Tuple.(*ssa.TypeAssert); ok && ta.CommaOk {
							walk(b.Succs[0])
							return
						}
					}
				}
			}
			for _, s := range b.Succs {
				walk(s)
			}
		}
		walk(h.Blocks[0])
		nts := byFn[h]
		sort.Strings(nts)
		w.check(P, "R02.8", "handler "+h.Name()+" ("+strings.Join(nts, ",")+")", h.Pos(), bypass == "", "success return reachable without evaluating any child at "+orNone(bypass))
	}
	w.floorSites(P, "R02.8", 8)
}

// instrAfter: b is executed after a (same block later, or in a block dominated by a's block).
func instrAfter(a, b ssa.Instruction) bool {
	if a.Block() == b.Block() {
		return instrIndex(a) < instrIndex(b)
	}
	return a.Block().Dominates(b.Block())
}

func (w *World) perContextNode(P string, f *Facts, r *Roles) {
	stepFamily := []string{"Step", "NodeTestAndPredicate", "StepWithAxisAndNodeTestAndPredicate", "RelativeLocationPathWithStep", "AbbreviatedRelativeLocationPath"}
	found := false
	badGuard := ""
	var where token.Pos
	for _, nt := range stepFamily {
		h := f.Handlers[nt]
		if h == nil {
			continue
		}
		if where == 0 && nt == "Step" {
			where = h.Fn.Pos()
		}
		for _, fn := range w.handlerClosureH(h) {
			loops := loopBlocks(fn)
			allInstrs(fn, func(in ssa.Instruction) {
				al, ok := in.(*ssa.Alloc)
				if !ok || !types.Identical(al.Type().(*types.Pointer).Elem(), r.CtxType) {
					return
				}
				fromCopy, oneNode, usedInLoop := false, false, false
				for _, st := range storesInto(al) {
					if st.Addr == ssa.Value(al) {
						if c, ok := st.Val.(*ssa.Call); ok && staticCallee(c) == r.CopyCtx {
							fromCopy = true
						}
					}
					if fa, ok := st.Addr.(*ssa.FieldAddr); ok && fa.X == ssa.Value(al) && fa.Field == r.CtxResultField {
						if sl, ok := stripConv(st.Val).(*ssa.Slice); ok {
							if arr, ok := sl.X.(*ssa.Alloc); ok {
								if at, ok := arr.Type().(*types.Pointer).Elem().(*types.Array); ok && at.Len() == 1 {
									oneNode = true
								}
							}
						}
					}
				}
				var evalCalls []*ssa.Call // evaluations in the one-node context
				for _, rr := range referrers(al) {
					if c, ok := rr.(*ssa.Call); ok {
						if sc := staticCallee(c); sc != nil && fnPkgKey(sc) == "exec" {
							evalCalls = append(evalCalls, c)
							if loops[c.Block()] {
								usedInLoop = true
							}
						}
					}
				}
				// the loop may be in the caller: the per-node work was moved into a helper that is called once per
				// element of the node-set
				var outerSites []*ssa.Call
				if fromCopy && oneNode && !usedInLoop && len(evalCalls) > 0 {
					for _, g := range w.handlerClosureH(h) {
						gl := loopBlocks(g)
						allInstrs(g, func(in2 ssa.Instruction) {
							if c2, ok := in2.(*ssa.Call); ok && staticCallee(c2) == fn && gl[c2.Block()] {
								outerSites = append(outerSites, c2)
							}
						})
					}
					if len(outerSites) > 0 {
						usedInLoop = true
					}
				}
				if fromCopy && oneNode && usedInLoop {
					// the per-node pass must not be conditional on anything but the production shape,
					// the result being a node-set and its size
					okGuards := true
					var sites []*ssa.BasicBlock
					for _, c := range evalCalls {
						if loops[c.Block()] || len(outerSites) > 0 {
							sites = append(sites, c.Block())
						}
					}
					for _, c := range outerSites {
						sites = append(sites, c.Block())
					}
					for _, b := range sites {
						for _, a := range guardAtoms(b) {
							if !plainStepGuard(a.V) {
								okGuards = false
								badGuard = describe(a.V)
							}
						}
					}
					if okGuards {
						found = true
					}
				}
			})
		}
	}
	detail := "a handler of the Step family evaluates predicate-bearing steps once per context node (one-node context copies in a loop), conditional only on the production shape and the size of the incoming node-set"
	if !found {
		detail = "no handler of the Step family evaluates the step once per context node unconditionally: the axis is applied to the whole incoming node-set and predicates number the merged result (`//a/b[1]` selects one b in the whole document instead of the first b of every a)"
		if badGuard != "" {
			detail += "; the per-node pass exists but is conditional on " + badGuard
		}
	}
	w.check(P, "R02.6", "step handlers evaluate predicates per context node", where, found, detail)
	w.floor(P, "R02.6", 1)
}

// plainStepGuard: conditions under which the per-context-node pass may be skipped: tests of the child
// nonterminal, of the result being a node-set, of its length, loop bounds and error tests.
func plainStepGuard(v ssa.Value) bool {
	isNT := func(t types.Type) bool {
		n, ok := types.Unalias(t).(*types.Named)
		return ok && n.Obj().Name() == "NT"
	}
	switch x := v.(type) {
	case *ssa.Extract:
		_, isTA := x.Tuple.(*ssa.TypeAssert)
		return isTA
	case *ssa.Call:
		// a predicate of the package on the nonterminal of the step ("has predicates")
		if h := staticCallee(x); h != nil && inRepo(h) && len(h.Params) == 1 && isNT(h.Params[0].Type()) {
			return true
		}
		// ... or on the step's parse node, as long as everything it branches on is the nonterminal
		if h := staticCallee(x); h != nil && inRepo(h) && len(h.Params) == 1 && len(h.Blocks) > 0 {
			onlyNT, n := true, 0
			allInstrs(h, func(in ssa.Instruction) {
				ifi, ok := in.(*ssa.If)
				if !ok {
					return
				}
				n++
				if theWorld == nil {
					onlyNT = false
					return
				}
				if _, isNTCmp := ntLabel(theWorld.Facts())(ifi); !isNTCmp {
					onlyNT = false
				}
			})
			if onlyNT && n > 0 {
				return true
			}
		}
	case *ssa.Lookup:
		// membership of the nonterminal in a set literal
		if mt, ok := x.X.Type().Underlying().(*types.Map); ok && isNT(mt.Key()) {
			return true
		}
	case *ssa.Phi:
		// a boolean assembled from such tests (`hasPredicate := nt == A || nt == B`, `ok && len(s) > 1`)
		if b, ok := x.Type().Underlying().(*types.Basic); ok && b.Kind() == types.Bool {
			for _, e := range x.Edges {
				if _, isC := e.(*ssa.Const); isC {
					continue
				}
				if !plainStepGuard(e) {
					return false
				}
			}
			return true
		}
	case *ssa.BinOp:
		if n, ok := types.Unalias(x.X.Type()).(*types.Named); ok && n.Obj().Name() == "NT" {
			return true
		}
		// the size of the incoming node-set (a value of the NodeSet type); the length of anything else - the children
		// of the context node, say - makes the pass depend on the node
		for _, side := range []ssa.Value{x.X, x.Y} {
			if c, ok := side.(*ssa.Call); ok && isLenOf(c, nil) && theWorld != nil && types.Identical(c.Call.Args[0].Type(), theWorld.Roles().NodeSet) {
				return true
			}
		}
		if isNilConst(x.Y) || isNilConst(x.X) {
			return true
		}
		if _, ok := x.X.(*ssa.Phi); ok {
			return true
		}
		if bo, ok := x.X.(*ssa.BinOp); ok && bo.Op == token.ADD {
			return true
		}
	}
	return false
}

func checkC18(w *World) {
	const P = "C18"
	f := w.Facts()
	r := w.Roles()
	for _, e := range r.err {
		w.undecided(P, "R00.roles", "role resolution: "+e, 0, e)
	}
	docRule(P, "R18.1", "F", "Exec seeds the evaluation context from its cursor parameter: root = cursor, result = NodeSet{cursor}, position constant c with c + k = 1 (k = the offset position() adds), size 1.")
	docRule(P, "R18.2", "F", "every axis selector is a loop over the incoming node-set whose contribution depends on the loop element only: the accumulator is appended to, never read, before normalisation; steps thread the node-set left to right (C02 R02.4).")
	docRule(P, "R18.3", "F", "Unmarshal evaluates a field's tag with Exec(node of the struct, compiled tag, the caller's settings): the cursor passed is the single node of the node-set being unmarshalled, not the root.")
	docRule(P, "R18.4", "D", "a function call used as a step receives the handler's own context (current node-set and position), see C11 R11.5.")
	docRule(P, "R18.5", "structural", "composition law for positional predicates: see C02 R02.6 (the former finding K1, repaired by 575c3ed).")
	exec := w.member("exec", "Exec")
	if exec == nil {
		w.undecided(P, "R18.1", "exec.Exec", 0, "not found")
		return
	}
	// the context is allocated in Exec itself or in a constructor it calls (whose parameters are then read
	// through the call's arguments)
	var ctxAlloc *ssa.Alloc
	findAlloc := func(fn *ssa.Function) *ssa.Alloc {
		var out *ssa.Alloc
		allInstrs(fn, func(in ssa.Instruction) {
			if al, ok := in.(*ssa.Alloc); ok && types.Identical(al.Type().(*types.Pointer).Elem(), r.CtxType) {
				out = al
			}
		})
		return out
	}
	ctxAlloc = findAlloc(exec)
	cursor := ssa.Value(exec.Params[0])
	subst := map[ssa.Value]ssa.Value{} // constructor parameter -> argument in Exec
	if ctxAlloc == nil {
		allInstrs(exec, func(in ssa.Instruction) {
			c, ok := in.(*ssa.Call)
			if !ok || ctxAlloc != nil {
				return
			}
			g := staticCallee(c)
			if g == nil || fnPkgKey(g) != "exec" || g.Signature.Results().Len() != 1 {
				return
			}
			rt := g.Signature.Results().At(0).Type()
			if pt, ok := rt.(*types.Pointer); ok {
				rt = pt.Elem()
			}
			if !types.Identical(rt, r.CtxType) {
				return
			}
			if al := findAlloc(g); al != nil {
				ctxAlloc = al
				for i, p := range g.Params {
					if i < len(c.Call.Args) {
						subst[p] = c.Call.Args[i]
					}
				}
			}
		})
	}
	if ctxAlloc == nil {
		w.undecided(P, "R18.1", "exec.Exec", exec.Pos(), "no evaluation context allocated")
		return
	}
	resolve := func(v ssa.Value) ssa.Value {
		if a, ok := subst[v]; ok {
			return a
		}
		return v
	}
	fields := map[int]ssa.Value{}
	for _, st := range storesInto(ctxAlloc) {
		if fa, ok := st.Addr.(*ssa.FieldAddr); ok && fa.X == ssa.Value(ctxAlloc) {
			fields[fa.Field] = resolve(st.Val)
		}
	}
	w.check(P, "R18.1", "Exec: root is the given cursor", exec.Pos(), fields[r.CtxRootField] == cursor, "root field initialised from the cursor parameter")
	oneNode := false
	if v, ok := fields[r.CtxResultField]; ok {
		if sl, ok := stripConv(v).(*ssa.Slice); ok {
			if arr, ok := sl.X.(*ssa.Alloc); ok {
				el := storesInto(arr)
				if at, ok := arr.Type().(*types.Pointer).Elem().(*types.Array); ok && at.Len() == 1 && len(el) == 1 && resolve(el[0].Val) == cursor {
					oneNode = true
				}
			}
		}
	}
	w.check(P, "R18.1", "Exec: context node-set is {cursor}", exec.Pos(), oneNode, "result field initialised with NodeSet{cursor}")
	pos0, okp := int64(0), false
	if v, ok := fields[r.CtxPosField]; ok {
		pos0, okp = constInt(v)
	} else {
		okp = true // zero value
	}
	k, okk := int64(0), false
	if b := f.Builtins["position"]; b != nil && b.Fns[-1] != nil {
		k, okk = accessorPlusConst(b.Fns[-1], "ContextPosition")
	}
	w.check(P, "R18.1", "Exec: context position 1", exec.Pos(), okp && okk && pos0+k == 1, fmt.Sprintf("seeded position %d + position() offset %d must be 1", pos0, k))
	if r.CtxSizeField >= 0 {
		s, oks := int64(0), false
		if v, ok := fields[r.CtxSizeField]; ok {
			s, oks = constInt(v)
			if !oks {
				// len of a slice literal with a fixed number of elements
				if c, isCall := v.(*ssa.Call); isCall && isLenOf(c, nil) {
					if sl, isSl := stripConv(resolve(c.Call.Args[0])).(*ssa.Slice); isSl {
						if arr, isArr := sl.X.(*ssa.Alloc); isArr && sl.Low == nil && sl.High == nil {
							if at, isAT := arr.Type().(*types.Pointer).Elem().(*types.Array); isAT {
								s, oks = at.Len(), true
							}
						}
					}
				}
			}
		}
		w.check(P, "R18.1", "Exec: context size 1", exec.Pos(), oks && s == 1, fmt.Sprintf("seeded size %d", s))
	} else {
		w.check(P, "R18.1", "Exec: context size 1", exec.Pos(), false, "no context-size field")
	}
	w.floor(P, "R18.1", 4)

	// R18.2 selectors depend on the loop element only
	ef := w.ExecFacts()
	if ef.Axis != nil {
		var axes []string
		for n := range ef.Axis.Arms {
			axes = append(axes, n)
		}
		sort.Strings(axes)
		for _, n := range axes {
			arm := ef.Axis.Arms[n]
			if arm.Callee == nil {
				continue
			}
			ok, why := selectorLocal(arm.Callee)
			w.check(P, "R18.2", "selector of axis "+n, arm.Callee.Pos(), ok, why)
		}
	}
	w.floor(P, "R18.2", 12)

	// R18.3 Unmarshal sub-queries
	um := w.member("exec", "Unmarshal")
	if um == nil {
		w.undecided(P, "R18.3", "exec.Unmarshal", 0, "not found")
	} else {
		n := 0
		for g := range staticReach(um, func(x *ssa.Function) bool { return fnPkgKey(x) == "exec" && x != exec }) {
			allInstrs(g, func(in ssa.Instruction) {
				c, ok := in.(*ssa.Call)
				if !ok || staticCallee(c) != exec {
					return
				}
				n++
				// cursor argument: element 0 of the NodeSet asserted from the result parameter under len == 1
				arg := c.Call.Args[0]
				// the per-field work may live in a helper that receives the node as a parameter: then what its
				// (single) caller passes
				for hop := 0; hop < 3; hop++ {
					p, isParam := arg.(*ssa.Parameter)
					if !isParam {
						break
					}
					fn := p.Parent()
					pi := -1
					for i, x := range fn.Params {
						if x == p {
							pi = i
						}
					}
					var passed []ssa.Value
					for g2 := range staticReach(um, func(x *ssa.Function) bool { return fnPkgKey(x) == "exec" && x != exec }) {
						allInstrs(g2, func(in2 ssa.Instruction) {
							if c2, ok := in2.(*ssa.Call); ok && staticCallee(c2) == fn && pi >= 0 && pi < len(c2.Call.Args) {
								passed = append(passed, c2.Call.Args[pi])
							}
						})
					}
					if len(passed) != 1 {
						break
					}
					arg = passed[0]
				}
				okCur := false
				if ld, ok := arg.(*ssa.UnOp); ok {
					if ia, ok := ld.X.(*ssa.IndexAddr); ok {
						if ex, ok := ia.X.(*ssa.Extract); ok {
							if ta, ok := ex.Tuple.(*ssa.TypeAssert); ok && types.Identical(ta.AssertedType, r.NodeSet) {
								if _, isParam := ta.X.(*ssa.Parameter); isParam {
									okCur = true
								}
							}
						}
					}
				}
				// settings forwarded
				okSet := false
				if len(c.Call.Args) >= 3 {
					if p, ok := c.Call.Args[2].(*ssa.Parameter); ok && p == g.Params[len(g.Params)-1] {
						okSet = true
					}
				}
				// expression: built from the field's tag
				okTag := sliceContains(c.Call.Args[1], func(v ssa.Value) bool {
					if cc, ok := v.(*ssa.Call); ok && staticCallee(cc) != nil && funcFullName(staticCallee(cc)) == modPath+"/grammar.Build" {
						return true
					}
					return false
				})
				w.check(P, "R18.3", "Unmarshal sub-query in "+g.Name(), c.Pos(), okCur && okSet && okTag, fmt.Sprintf("context node = the struct's node (element of the unmarshalled node-set): %v; caller's settings forwarded: %v; expression compiled from the tag: %v", okCur, okSet, okTag))
			})
		}
		if n == 0 {
			w.undecided(P, "R18.3", "Unmarshal sub-query", um.Pos(), "no call of Exec reachable from Unmarshal")
		}
	}
	w.floor(P, "R18.3", 1)

	// R18.4 function call as step gets own context
	if h := f.Handlers["FunctionCall"]; h != nil {
		ok := false
		allInstrs(h.Fn, func(in ssa.Instruction) {
			c, isCall := in.(*ssa.Call)
			if !isCall || c.Call.IsInvoke() || staticCallee(c) != nil {
				return
			}
			// dynamic call of a Function value: first argument must be the handler's context
			if len(c.Call.Args) >= 1 {
				if mi, isMI := c.Call.Args[0].(*ssa.MakeInterface); isMI && mi.X == ssa.Value(ctxParam(h.Fn)) {
					ok = true
				}
			}
		})
		w.check(P, "R18.4", "function call receives the current context", h.Fn.Pos(), ok, fmt.Sprintf("the function value is called with the handler's own context: %v", ok))
	}
	w.floor(P, "R18.4", 1)
	w.include(P, "C02", "R02.4", "R02.8") // steps thread the node-set left to right, every step is evaluated
	w.perContextNode(P, f, r)
	// re-label the shared obligation for this property
	for _, o := range w.Obs {
		if o.Property == P && o.Rule == "R02.6" {
			o.Rule = "R18.5"
		}
	}
	delete(w.floors, P+"|R02.6")
	w.floor(P, "R18.5", 1)
	// P/f() = f(P): the zero-argument forms of the node functions read the same node of the context as the
	// one-argument forms read of their argument (the first in document order)
	w.include(P, "C12", "R12.3")
	w.include(P, "C04", "R04.5")
	w.include(P, "C01", "R01.13") // sub-expressions are evaluated from the same context node, position and root
	w.include(P, "C04", "R04.6")  // string()/number() as a step convert the context result like their one-argument forms
	w.include(P, "C07", "R07.5")  // the zero-argument string functions read the context result itself
	w.include(P, "C13", "R13.1")  // a sub-query leaves the document and the bindings as they were for the next one
	w.include(P, "C01", "R01.14") // the principal node type of a step does not depend on the steps evaluated before it
	w.include(P, "C01", "R01.11") // an attribute or namespace node as the starting node: following and preceding are taken from its place in document order
}

// selectorLocal: the selector treats every node of the incoming node-set independently: the parameter is only
// ranged over, and no branch inside the loop depends on loop-carried state other than the range counter
// (an accumulator may be appended to, but the decision what to collect from one context node must not
// depend on the nodes processed before it: the incoming set may be in either document order).
func selectorLocal(fn *ssa.Function) (bool, string) {
	if len(fn.Params) < 1 {
		return false, "unexpected signature"
	}
	// further parameters select a variant of the axis (`selectAncestors(set, orSelf)`): plain values, not state
	for _, p := range fn.Params[1:] {
		if _, isBasic := p.Type().Underlying().(*types.Basic); !isBasic {
			return false, "unexpected signature"
		}
	}
	ok := true
	why := "the result is built by appending, per element of the incoming node-set, values computed from that element only"
	for _, rr := range referrers(fn.Params[0]) {
		switch x := rr.(type) {
		case *ssa.IndexAddr:
		case *ssa.Call:
			if b, isB := x.Call.Value.(*ssa.Builtin); isB && b.Name() == "len" {
				continue
			}
			if d := staticCallee(x); d != nil && inRepo(d) {
				idx := -1
				for i, a := range x.Call.Args {
					if a == ssa.Value(fn.Params[0]) {
						idx = i
					}
				}
				if idx >= 0 && perNodeDriver(d, idx) {
					continue // a loop driver: calls the step function it is given once per element, in order
				}
			}
			ok, why = false, "the whole incoming node-set is passed to "+calleeName(x)+": the contribution of one context node may depend on the others"
		case *ssa.DebugRef:
		default:
			ok, why = false, fmt.Sprintf("the incoming node-set is used by %T", rr)
		}
	}
	// loop-carried state
	loops := loopBlocks(fn)
	allInstrs(fn, func(in ssa.Instruction) {
		ifi, isIf := in.(*ssa.If)
		if !isIf || !loops[ifi.Block()] {
			return
		}
		backSlice(ifi.Cond, func(v ssa.Value) bool {
			phi, isPhi := v.(*ssa.Phi)
			if !isPhi || !loops[phi.Block()] {
				return true
			}
			if ascendingCounter(phi) || isCounterPhi(phi) {
				return false
			}
			ok, why = false, "a branch inside the loop over the incoming node-set depends on state carried over from earlier context nodes (variable "+phi.Comment+"): which nodes are collected then depends on the order of the incoming set, which is descending after a reverse axis"
			return false
		})
	})
	return ok, why
}

// perNodeDriver: d only loops over its parameter idx in ascending order and hands each element to a function it
// received as a parameter (never to anything else), without branches that depend on loop-carried state.
func perNodeDriver(d *ssa.Function, idx int) bool {
	if idx >= len(d.Params) || len(d.Blocks) == 0 {
		return false
	}
	ns := ssa.Value(d.Params[idx])
	fnParam := func(v ssa.Value) bool {
		p, ok := v.(*ssa.Parameter)
		if !ok {
			return false
		}
		_, isSig := p.Type().Underlying().(*types.Signature)
		return isSig
	}
	calls := 0
	for _, rr := range referrers(ns) {
		switch x := rr.(type) {
		case *ssa.IndexAddr:
			if !ascendingCounter(x.Index) {
				return false
			}
			for _, r2 := range referrers(x) {
				ld, ok := r2.(*ssa.UnOp)
				if !ok {
					return false
				}
				for _, r3 := range referrers(ld) {
					switch y := r3.(type) {
					case *ssa.Call:
						if !fnParam(y.Call.Value) {
							return false
						}
						calls++
					case *ssa.DebugRef:
					default:
						return false
					}
				}
			}
		case *ssa.Call:
			if b, isB := x.Call.Value.(*ssa.Builtin); !isB || b.Name() != "len" {
				return false
			}
		case *ssa.DebugRef:
		default:
			return false
		}
	}
	if calls == 0 {
		return false
	}
	okState := true
	loops := loopBlocks(d)
	allInstrs(d, func(in ssa.Instruction) {
		ifi, isIf := in.(*ssa.If)
		if !isIf || !loops[ifi.Block()] {
			return
		}
		backSlice(ifi.Cond, func(v ssa.Value) bool {
			phi, isPhi := v.(*ssa.Phi)
			if !isPhi || !loops[phi.Block()] {
				return true
			}
			if ascendingCounter(phi) || isCounterPhi(phi) {
				return false
			}
			okState = false
			return false
		})
	})
	return okState
}

// isCounterPhi: phi(-1|0, phi+1), the raw counter of a range loop.
func isCounterPhi(phi *ssa.Phi) bool {
	okInit, okStep := false, false
	for _, e := range phi.Edges {
		if k, ok := constInt(e); ok && (k == -1 || k == 0) {
			okInit = true
			continue
		}
		if bo, ok := e.(*ssa.BinOp); ok && bo.Op == token.ADD && bo.X == ssa.Value(phi) {
			if k, ok := constInt(bo.Y); ok && k == 1 {
				okStep = true
				continue
			}
		}
		return false
	}
	return okInit && okStep
}

func isErrorType(t types.Type) bool {
	n, ok := t.(*types.Named)
	return ok && n.Obj().Pkg() == nil && n.Obj().Name() == "error"
}
