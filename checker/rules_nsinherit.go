package main

import (
	"fmt"
	"go/constant"
	"go/token"
	"go/types"
	"strings"

	"golang.org/x/tools/go/ssa"
)

// R10.9: namespace inheritance.
//
// XPath 1.0 5.4: every element has a namespace node of its own for every namespace that is in scope for it, the
// ones declared on an ancestor included, unless the element (or something in between) re-declares the prefix. The
// Parser contract delivers only an element's own declarations, so the store has to add the parent's. The rules:
//
//   (a) there is an inheriting function H(E, ...) in package store with a loop over E.parent's namespaces list in
//       which a cursor constructor is called with parent = E and the node of the loop element, the result appended
//       to E's own namespaces list (each element owns its nodes: R10.3), and the call is reached only under a
//       negative prefix test (a predicate that compares Prefix() values, or the comparison itself);
//   (b) the event loop calls H(current cursor) exactly once per element, after the element's own declarations and
//       before anything else of the element is processed or the element is left: simulated per kind of event and
//       per state of the loop's flag (finite: 5 kinds x 2).
func (w *World) checkNamespaceInheritance(P string, sf *storeFacts, pullers []*ssa.Function) {
	docRule(P, "R10.9", "D+F typestate", "namespace inheritance: a function of package store loops over the namespaces list of an element's parent and, for every prefix the element does not declare itself (negative result of a Prefix() comparison), constructs a node with the element as parent and appends it to the element's own list; the event loop calls it with the current cursor exactly once per element: never while the element's own namespace events are still arriving, and before the first attribute, child or end event of that element is processed (checked by simulating one loop iteration for each kind of event and each value of the loop's flag).")
	// (a) the inheriting function
	var H *ssa.Function
	var hDetail string
	w.forAllFuncs("store", func(fn *ssa.Function) {
		if len(fn.Params) == 0 {
			return
		}
		if pt, ok := fn.Params[0].Type().(*types.Pointer); !ok || !types.Identical(pt.Elem(), sf.T) {
			return
		}
		E := ssa.Value(fn.Params[0])
		allInstrs(fn, func(in ssa.Instruction) {
			c, ok := in.(*ssa.Call)
			if !ok {
				return
			}
			ci, isCtor := sf.Ctors[staticCallee(c)]
			if !isCtor || c.Call.Args[ci.ParentParam] != E {
				return
			}
			// node argument derives from an element of E.parent.namespaces
			fromParentList := sliceContains(c.Call.Args[ci.NodeParam], func(v ssa.Value) bool {
				ld, ok := v.(*ssa.UnOp)
				if !ok || ld.Op != token.MUL {
					return false
				}
				fa, ok := ld.X.(*ssa.FieldAddr)
				if !ok || sf.roleOf(fa.Field) != "namespaces" {
					return false
				}
				// owner is a load of E.parent
				ol, ok := fa.X.(*ssa.UnOp)
				if !ok {
					return false
				}
				pfa, ok := ol.X.(*ssa.FieldAddr)
				return ok && sf.roleOf(pfa.Field) == "parent" && pfa.X == E
			})
			if !fromParentList {
				return
			}
			// guard: negative prefix test
			guarded := false
			for _, a := range guardAtoms(c.Block()) {
				if a.Pol {
					continue
				}
				if call, ok := a.V.(*ssa.Call); ok {
					if sc := staticCallee(call); sc != nil && fnPkgKey(sc) == "store" && comparesPrefix(sc) {
						guarded = true
					}
				}
				if bo, ok := a.V.(*ssa.BinOp); ok && bo.Op == token.EQL {
					if _, okx := isMethodCall(bo.X, "Prefix"); okx {
						guarded = true
					}
				}
			}
			// appended to E.namespaces
			appended := false
			for _, s := range resultSinks(c) {
				_ = s
			}
			allInstrs(fn, func(in2 ssa.Instruction) {
				st, ok := in2.(*ssa.Store)
				if !ok {
					return
				}
				fa, ok := st.Addr.(*ssa.FieldAddr)
				if !ok || fa.X != E || sf.roleOf(fa.Field) != "namespaces" {
					return
				}
				if sliceContains(st.Val, func(v ssa.Value) bool { return v == ssa.Value(c) }) {
					appended = true
				}
			})
			if H == nil || (guarded && appended) {
				H = fn
				hDetail = fmt.Sprintf("constructs a node for a namespace of the parent with the element as parent; only for prefixes the element does not declare: %v; appended to the element's own list: %v", guarded, appended)
				if !(guarded && appended) {
					hDetail += " (unguarded inheritance duplicates overridden prefixes; a node not put into the element's list is lost)"
				}
			}
		})
	})
	if H == nil {
		w.check(P, "R10.9", "namespace inheritance", 0, false, "no function of package store constructs, for a given element, nodes from the namespaces of its parent with the element as their parent: inherited namespace nodes are either missing or are the ancestor's own cursor objects")
		w.floor(P, "R10.9", 1)
		return
	}
	w.check(P, "R10.9", "inheriting function "+H.Name(), H.Pos(), strings.Contains(hDetail, "declare: true") && strings.Contains(hDetail, "list: true"), hDetail)

	// (b) the event loop
	for _, fn := range pullers {
		var pull *ssa.Call
		allInstrs(fn, func(in ssa.Instruction) {
			if c, ok := in.(*ssa.Call); ok && c.Call.IsInvoke() && c.Call.Method.Name() == "Pull" {
				pull = c
			}
		})
		if pull == nil {
			continue
		}
		header := pull.Block()
		var flag *ssa.Phi
		var cur *ssa.Phi
		for _, in := range header.Instrs {
			ph, ok := in.(*ssa.Phi)
			if !ok {
				continue
			}
			if b, ok := ph.Type().Underlying().(*types.Basic); ok && b.Kind() == types.Bool {
				flag = ph
			}
			if pt, ok := ph.Type().(*types.Pointer); ok && types.Identical(pt.Elem(), sf.T) {
				cur = ph
			}
		}
		callsH := false
		allInstrs(fn, func(in ssa.Instruction) {
			if c, ok := in.(*ssa.Call); ok && staticCallee(c) == H {
				callsH = true
			}
		})
		if !callsH {
			continue
		}
		if flag == nil || cur == nil {
			w.undecided(P, "R10.9", "event loop of "+fn.Name(), pull.Pos(), "the loop that pulls events has no boolean loop variable recording whether the current element has inherited its namespaces: the once-per-element discipline cannot be followed")
			continue
		}
		var isEndV, errV, nodeV ssa.Value
		for _, rr := range referrers(pull) {
			if ex, ok := rr.(*ssa.Extract); ok {
				switch ex.Index {
				case 0:
					nodeV = ex
				case 1:
					isEndV = ex
				case 2:
					errV = ex
				}
			}
		}
		kinds := []string{"end", "namespace", "attribute", "element", "other"}
		type outcome struct {
			h        int // index of the call of H in the trace, -1 none
			hTwice   bool
			hArgOK   bool
			first    int // index of the first constructor call / parent move
			nextFlag string
			und      string
		}
		run := func(kind string, flagVal bool) outcome {
			o := outcome{h: -1, first: -1, hArgOK: true}
			atom := func(v ssa.Value) (bool, bool) {
				switch x := v.(type) {
				case *ssa.Phi:
					if x == flag {
						return flagVal, true
					}
				case *ssa.Extract:
					if ssa.Value(x) == isEndV {
						return kind == "end", true
					}
					if ta, ok := x.Tuple.(*ssa.TypeAssert); ok && x.Index == 1 && ta.X == nodeV {
						if n, _ := nodeIface(ta.AssertedType); n != nil {
							switch n.Obj().Name() {
							case "Namespace":
								return kind == "namespace", true
							case "Attribute":
								return kind == "attribute", true
							case "Element", "NamedNode":
								return kind == "element" || kind == "attribute", true
							default:
								return false, true
							}
						}
					}
				case *ssa.BinOp:
					if (x.X == errV && isNilConst(x.Y)) || (x.Y == errV && isNilConst(x.X)) {
						return x.Op == token.EQL, true // no error on the simulated path
					}
				case *ssa.Call:
					if sc := staticCallee(x); sc != nil && funcFullName(sc) == "errors.Is" {
						return false, true
					}
				}
				return false, false
			}
			phiVal := map[*ssa.Phi]ssa.Value{}
			var eval func(v ssa.Value, depth int) (bool, bool)
			eval = func(v ssa.Value, depth int) (bool, bool) {
				if depth > 20 {
					return false, false
				}
				if val, ok := atom(v); ok {
					return val, true
				}
				switch x := v.(type) {
				case *ssa.Const:
					if x.Value != nil && x.Value.Kind() == constant.Bool {
						return constant.BoolVal(x.Value), true
					}
				case *ssa.UnOp:
					if x.Op == token.NOT {
						val, ok := eval(x.X, depth+1)
						return !val, ok
					}
				case *ssa.Phi:
					if e, ok := phiVal[x]; ok {
						return eval(e, depth+1)
					}
				}
				return false, false
			}
			b := header
			var prev *ssa.BasicBlock
			idx := 0
			start := instrIndex(pull) + 1
			for steps := 0; steps < 300; steps++ {
				if prev != nil {
					for _, in := range b.Instrs {
						if ph, ok := in.(*ssa.Phi); ok {
							for i, p := range b.Preds {
								if p == prev {
									phiVal[ph] = ph.Edges[i]
								}
							}
						}
					}
				}
				if b == header && prev != nil {
					// back edge: the value the flag takes
					for i, p := range header.Preds {
						if p == prev {
							e := flag.Edges[i]
							if val, ok := eval(e, 0); ok {
								o.nextFlag = fmt.Sprint(val)
							} else if e == ssa.Value(flag) {
								o.nextFlag = fmt.Sprint(flagVal)
							} else {
								o.und = "the new value of the loop flag is not a constant"
							}
						}
					}
					return o
				}
				from := 0
				if b == header {
					from = start
				}
				moved := false
				for i := from; i < len(b.Instrs) && !moved; i++ {
					switch x := b.Instrs[i].(type) {
					case *ssa.Call:
						sc := staticCallee(x)
						if sc == H {
							if o.h >= 0 {
								o.hTwice = true
							}
							o.h = idx
							arg := x.Call.Args[0]
							if arg != ssa.Value(cur) {
								o.hArgOK = false
							}
							idx++
						} else if _, isCtor := sf.Ctors[sc]; isCtor || (sc != nil && fnPkgKey(sc) == "store" && mustConstruct(sc, sf, map[*ssa.Function]bool{}, 0)) {
							if o.first < 0 {
								o.first = idx
							}
							idx++
						}
					case *ssa.UnOp:
						// the move to the parent on an end event
						if fa, ok := x.X.(*ssa.FieldAddr); ok && x.Op == token.MUL && sf.roleOf(fa.Field) == "parent" && fa.X == ssa.Value(cur) {
							if o.first < 0 {
								o.first = idx
							}
							idx++
						}
					case *ssa.Return:
						o.und = "the simulated iteration returns"
						return o
					case *ssa.If:
						val, ok := eval(x.Cond, 0)
						if !ok {
							o.und = "a branch of the event loop depends on something other than the kind of event, the error and the loop flag (" + w.pos(x.Pos()) + ")"
							return o
						}
						prev = b
						if val {
							b = b.Succs[0]
						} else {
							b = b.Succs[1]
						}
						moved = true
					case *ssa.Jump:
						prev = b
						b = b.Succs[0]
						moved = true
					}
				}
				if !moved {
					o.und = "block without a terminator the simulation knows"
					return o
				}
			}
			o.und = "iteration too long"
			return o
		}
		for _, k := range kinds {
			for _, fv := range []bool{false, true} {
				o := run(k, fv)
				construct := fmt.Sprintf("event loop of %s: %s event, namespaces %s", fn.Name(), k, map[bool]string{true: "already inherited", false: "not yet inherited"}[fv])
				if o.und != "" {
					w.undecided(P, "R10.9", construct, pull.Pos(), o.und)
					continue
				}
				ok, why := true, ""
				wantFlag := "true"
				if k == "element" {
					wantFlag = "false"
				}
				switch {
				case !fv && k == "namespace":
					wantFlag = "false"
					if o.h >= 0 {
						ok, why = false, "the parent's namespaces are inherited while the element's own declarations are still arriving (a later declaration of the same prefix then duplicates it)"
					}
				case !fv:
					if o.h < 0 {
						ok, why = false, "the element's first "+k+" event is processed without inheriting the parent's namespaces: the element (for an end event: an element without attributes and children) has only its own declarations"
					} else if o.first >= 0 && o.first < o.h {
						ok, why = false, "something of the event is processed before the namespaces are inherited (positions: namespace nodes must precede attributes and children; after an end event the cursor is already the parent)"
					} else if !o.hArgOK {
						ok, why = false, "the inheriting function is not given the current cursor"
					} else if o.hTwice {
						ok, why = false, "namespaces are inherited twice"
					}
				default:
					if o.h >= 0 {
						ok, why = false, "namespaces are inherited again for an element that already has them (every inherited node is duplicated)"
					}
				}
				if ok && o.nextFlag != wantFlag {
					ok, why = false, fmt.Sprintf("after the iteration the flag is %s, required %s (a new element has not inherited yet; after anything else the current element has)", o.nextFlag, wantFlag)
				}
				w.check(P, "R10.9", construct, pull.Pos(), ok, orElse(why, "inherits exactly when required; flag afterwards "+o.nextFlag))
			}
		}
	}
	w.floor(P, "R10.9", 11)
}

// comparesPrefix: fn returns true under an equality of Prefix() values (a membership test by prefix).
func comparesPrefix(fn *ssa.Function) bool {
	if fn.Signature.Results().Len() != 1 {
		return false
	}
	if b, ok := fn.Signature.Results().At(0).Type().Underlying().(*types.Basic); !ok || b.Kind() != types.Bool {
		return false
	}
	found := false
	for _, path := range trueReturns(fn) {
		for _, a := range path {
			if bo, ok := a.V.(*ssa.BinOp); ok && bo.Op == token.EQL && a.Pol {
				if _, okx := isMethodCall(bo.X, "Prefix"); okx {
					found = true
				}
				if _, oky := isMethodCall(bo.Y, "Prefix"); oky {
					found = true
				}
			}
		}
	}
	return found
}
