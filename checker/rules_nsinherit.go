package main

import (
	"fmt"
	"go/constant"
	"go/token"
	"go/types"
	"strings"

	"golang.org/x/tools/go/ssa"
)

// R10.9: namespace inheritance.
//
// XPath 1.0 5.4: every element has a namespace node of its own for every namespace that is in scope for it, the
// ones declared on an ancestor included, unless the element (or something in between) re-declares the prefix. The
// Parser contract delivers only an element's own declarations, so the store has to add the parent's. The rules:
//
//	(a) there is an inheriting function H(E, ...) in package store with a loop over E.parent's namespaces list in
//	    which a cursor constructor is called with parent = E and the node of the loop element, the result appended
//	    to E's own namespaces list (each element owns its nodes: R10.3), and the call is reached only under a
//	    negative prefix test (a predicate that compares Prefix() values, or the comparison itself);
//	(b) the event loop calls H(current cursor) exactly once per element, after the element's own declarations and
//	    before anything else of the element is processed or the element is left: simulated per kind of event and
//	    per state of the loop's flag (finite: 5 kinds x 2).
func (w *World) checkNamespaceInheritance(P string, sf *storeFacts, pullers []*ssa.Function) {
	docRule(P, "R10.9", "D+F typestate", "namespace inheritance: a function of package store loops over the namespaces list of an element's parent and, for every prefix the element does not declare itself (negative result of a Prefix() comparison), constructs a node with the element as parent and appends it to the element's own list; the event loop calls it with the current cursor exactly once per element: never while the element's own namespace events are still arriving, and before the first attribute, child or end event of that element is processed (checked by simulating one loop iteration for each kind of event and each value of the loop's flag).")
	// (a) the inheriting function
	var H *ssa.Function
	var hDetail string
	w.forAllFuncs("store", func(fn *ssa.Function) {
		if len(fn.Params) == 0 {
			return
		}
		// the element: the function's first parameter, or - for a method of a builder object that keeps the current
		// cursor in a field - every read of that field (the method must not store into it)
		isE := func(v ssa.Value) bool { return false }
		if pt, ok := fn.Params[0].Type().(*types.Pointer); ok && types.Identical(pt.Elem(), sf.T) {
			E0 := ssa.Value(fn.Params[0])
			isE = func(v ssa.Value) bool { return v == E0 }
		} else if cf, okB := builderCursorField(fn, sf); okB {
			stored := false
			allInstrs(fn, func(in ssa.Instruction) {
				if st, ok := in.(*ssa.Store); ok {
					if fa, ok := st.Addr.(*ssa.FieldAddr); ok && fa.X == ssa.Value(fn.Params[0]) && fa.Field == cf {
						stored = true
					}
				}
			})
			if stored {
				return
			}
			isE = func(v ssa.Value) bool {
				ld, ok := v.(*ssa.UnOp)
				if !ok || ld.Op != token.MUL {
					return false
				}
				fa, ok := ld.X.(*ssa.FieldAddr)
				return ok && fa.X == ssa.Value(fn.Params[0]) && fa.Field == cf
			}
		} else {
			return
		}
		allInstrs(fn, func(in ssa.Instruction) {
			c, ok := in.(*ssa.Call)
			if !ok {
				return
			}
			ci, isCtor := sf.Ctors[staticCallee(c)]
			if !isCtor || !isE(c.Call.Args[ci.ParentParam]) {
				return
			}
			// node argument derives from an element of E.parent.namespaces
			fromParentList := sliceContains(c.Call.Args[ci.NodeParam], func(v ssa.Value) bool {
				ld, ok := v.(*ssa.UnOp)
				if !ok || ld.Op != token.MUL {
					return false
				}
				fa, ok := ld.X.(*ssa.FieldAddr)
				if !ok || sf.roleOf(fa.Field) != "namespaces" {
					return false
				}
				// owner is a load of E.parent
				ol, ok := fa.X.(*ssa.UnOp)
				if !ok {
					return false
				}
				pfa, ok := ol.X.(*ssa.FieldAddr)
				return ok && sf.roleOf(pfa.Field) == "parent" && isE(pfa.X)
			})
			if !fromParentList {
				return
			}
			// guard: negative prefix test
			guarded := false
			for _, a := range guardAtoms(c.Block()) {
				if a.Pol {
					continue
				}
				if call, ok := a.V.(*ssa.Call); ok {
					if sc := staticCallee(call); sc != nil && fnPkgKey(sc) == "store" && comparesPrefix(sc) {
						guarded = true
					}
				}
				if bo, ok := a.V.(*ssa.BinOp); ok && bo.Op == token.EQL {
					if _, okx := isMethodCall(bo.X, "Prefix"); okx {
						guarded = true
					}
				}
			}
			// inline form: an inner loop compares prefixes and skips the parent's entry on a match: from the edge on
			// which two Prefix() values are equal the constructor call cannot be reached within the same iteration of
			// the loop over the parent's list
			if !guarded {
				var outerHead *ssa.BasicBlock
				sliceContains(c.Call.Args[ci.NodeParam], func(v ssa.Value) bool {
					if ia, ok := v.(*ssa.IndexAddr); ok {
						if ph, ok := ia.Index.(*ssa.Phi); ok {
							outerHead = ph.Block()
						} else if bo, ok := ia.Index.(*ssa.BinOp); ok {
							if ph, ok := bo.X.(*ssa.Phi); ok {
								outerHead = ph.Block()
							}
						}
						return outerHead != nil
					}
					return false
				})
				if outerHead != nil {
					allInstrs(fn, func(in2 ssa.Instruction) {
						iff, ok := in2.(*ssa.If)
						if !ok {
							return
						}
						bo, ok := iff.Cond.(*ssa.BinOp)
						if !ok || (bo.Op != token.EQL && bo.Op != token.NEQ) {
							return
						}
						_, okx := isMethodCall(bo.X, "Prefix")
						_, oky := isMethodCall(bo.Y, "Prefix")
						if !okx || !oky {
							return
						}
						eq := iff.Block().Succs[0]
						if bo.Op == token.NEQ {
							eq = iff.Block().Succs[1]
						}
						seen := map[*ssa.BasicBlock]bool{outerHead: true}
						reach := false
						var walk func(b *ssa.BasicBlock)
						walk = func(b *ssa.BasicBlock) {
							if seen[b] {
								return
							}
							seen[b] = true
							if b == c.Block() {
								reach = true
								return
							}
							for _, s2 := range b.Succs {
								walk(s2)
							}
						}
						walk(eq)
						if !reach && iff.Block() != c.Block() && outerHead.Dominates(iff.Block()) {
							guarded = true
						}
					})
				}
			}
			// appended to E.namespaces
			appended := false
			for _, s := range resultSinks(c) {
				_ = s
			}
			allInstrs(fn, func(in2 ssa.Instruction) {
				st, ok := in2.(*ssa.Store)
				if !ok {
					return
				}
				fa, ok := st.Addr.(*ssa.FieldAddr)
				if !ok || !isE(fa.X) || sf.roleOf(fa.Field) != "namespaces" {
					return
				}
				if sliceContains(st.Val, func(v ssa.Value) bool { return v == ssa.Value(c) }) {
					appended = true
				}
			})
			if H == nil || (guarded && appended) {
				H = fn
				hDetail = fmt.Sprintf("constructs a node for a namespace of the parent with the element as parent; only for prefixes the element does not declare: %v; appended to the element's own list: %v", guarded, appended)
				if !(guarded && appended) {
					hDetail += " (unguarded inheritance duplicates overridden prefixes; a node not put into the element's list is lost)"
				}
			}
		})
	})
	if H == nil {
		w.check(P, "R10.9", "namespace inheritance", 0, false, "no function of package store constructs, for a given element, nodes from the namespaces of its parent with the element as their parent: inherited namespace nodes are either missing or are the ancestor's own cursor objects")
		w.floor(P, "R10.9", 1)
		return
	}
	w.check(P, "R10.9", "inheriting function "+H.Name(), H.Pos(), strings.Contains(hDetail, "declare: true") && strings.Contains(hDetail, "list: true"), hDetail)

	// the event loop may call it through a wrapper that does nothing else to the once-per-element discipline: a
	// function of the package, the only caller, that hands its own element on and calls it on every path
	for i := 0; i < 2; i++ {
		sites := w.callersOf(H)
		if len(sites) != 1 {
			break
		}
		site := sites[0]
		W := site.Parent()
		isPuller := false
		for _, pf := range pullers {
			if pf == W {
				isPuller = true
			}
		}
		if isPuller || fnPkgKey(W) != "store" || len(W.Params) == 0 || len(site.Call.Args) == 0 || site.Call.Args[0] != ssa.Value(W.Params[0]) || loopBlocks(W)[site.Block()] {
			break
		}
		every := true
		allInstrs(W, func(in ssa.Instruction) {
			if ret, isRet := in.(*ssa.Return); isRet && !(site.Block() == ret.Block() || site.Block().Dominates(ret.Block())) {
				every = false
			}
		})
		if !every {
			break
		}
		H = W
	}

	// (b) the event loop
	for _, fn := range pullers {
		var pull *ssa.Call
		allInstrs(fn, func(in ssa.Instruction) {
			if c, ok := in.(*ssa.Call); ok && c.Call.IsInvoke() && c.Call.Method.Name() == "Pull" {
				pull = c
			}
		})
		if pull == nil {
			continue
		}
		es := storeEventSource(fn)
		if es == nil {
			continue
		}
		header := es.header
		var flag *ssa.Phi
		var cur *ssa.Phi
		for _, in := range header.Instrs {
			ph, ok := in.(*ssa.Phi)
			if !ok {
				continue
			}
			if b, ok := ph.Type().Underlying().(*types.Basic); ok && b.Kind() == types.Bool && ssa.Value(ph) != es.isEnd {
				flag = ph
			}
			if pt, ok := ph.Type().(*types.Pointer); ok && types.Identical(pt.Elem(), sf.T) {
				cur = ph
			}
		}
		callsH := false
		for g := range staticReach(fn, func(x *ssa.Function) bool { return fnPkgKey(x) == "store" }) {
			allInstrs(g, func(in ssa.Instruction) {
				if c, ok := in.(*ssa.Call); ok && staticCallee(c) == H {
					callsH = true
				}
			})
		}
		if !callsH {
			continue
		}
		if flag == nil || cur == nil {
			// the state may live in a builder object (cursor, counter and flag as fields): simulated with the flag
			// field followed through its reads and writes
			if bt, cf, ff, okB := builderType(fn, sf); okB {
				for _, k := range []string{"end", "namespace", "attribute", "element", "other"} {
					for _, fv := range []bool{false, true} {
						bo := w.simulateBuilderIteration(fn, es, H, sf, bt, cf, ff, k, fv)
						construct := fmt.Sprintf("event loop of %s: %s event, namespaces %s", fn.Name(), k, map[bool]string{true: "already inherited", false: "not yet inherited"}[fv])
						if bo.und != "" {
							w.undecided(P, "R10.9", construct, pull.Pos(), bo.und)
							continue
						}
						ok, why := inheritanceVerdict(k, fv, bo.h, bo.first, bo.hArgOK, bo.hTwice, bo.nextFlag)
						w.check(P, "R10.9", construct, pull.Pos(), ok, orElse(why, "inherits exactly when required; flag afterwards "+bo.nextFlag))
					}
				}
				continue
			}
			w.undecided(P, "R10.9", "event loop of "+fn.Name(), pull.Pos(), "the loop that pulls events has no boolean loop variable recording whether the current element has inherited its namespaces: the once-per-element discipline cannot be followed")
			continue
		}
		isEndV, errV, nodeV := es.isEnd, es.err, es.node
		kinds := []string{"end", "namespace", "attribute", "element", "other"}
		type outcome struct {
			h        int // index of the call of H in the trace, -1 none
			hTwice   bool
			hArgOK   bool
			first    int // index of the first constructor call / parent move
			nextFlag string
			und      string
		}
		run := func(kind string, flagVal bool) outcome {
			o := outcome{h: -1, first: -1, hArgOK: true}
			atom := func(v ssa.Value) (bool, bool) {
				if v == isEndV {
					return kind == "end", true
				}
				switch x := v.(type) {
				case *ssa.Phi:
					if x == flag {
						return flagVal, true
					}
				case *ssa.Extract:
					if ssa.Value(x) == isEndV {
						return kind == "end", true
					}
					if ta, ok := x.Tuple.(*ssa.TypeAssert); ok && x.Index == 1 && ta.X == nodeV {
						if n, _ := nodeIface(ta.AssertedType); n != nil {
							switch n.Obj().Name() {
							case "Namespace":
								return kind == "namespace", true
							case "Attribute":
								return kind == "attribute", true
							case "Element", "NamedNode":
								return kind == "element" || kind == "attribute", true
							default:
								return false, true
							}
						}
					}
				case *ssa.BinOp:
					if (x.X == errV && isNilConst(x.Y)) || (x.Y == errV && isNilConst(x.X)) {
						return x.Op == token.EQL, true // no error on the simulated path
					}
				case *ssa.Call:
					if sc := staticCallee(x); sc != nil && funcFullName(sc) == "errors.Is" {
						return false, true
					}
				}
				return false, false
			}
			phiVal := map[*ssa.Phi]ssa.Value{}
			var eval func(v ssa.Value, depth int) (bool, bool)
			eval = func(v ssa.Value, depth int) (bool, bool) {
				if depth > 20 {
					return false, false
				}
				if val, ok := atom(v); ok {
					return val, true
				}
				switch x := v.(type) {
				case *ssa.Const:
					if x.Value != nil && x.Value.Kind() == constant.Bool {
						return constant.BoolVal(x.Value), true
					}
				case *ssa.UnOp:
					if x.Op == token.NOT {
						val, ok := eval(x.X, depth+1)
						return !val, ok
					}
				case *ssa.Phi:
					if e, ok := phiVal[x]; ok {
						return eval(e, depth+1)
					}
				case *ssa.BinOp:
					// the cursor a helper handed back compared with the current one: equal iff the helper returns
					// its cursor parameter for this kind of event
					if (x.Op == token.EQL || x.Op == token.NEQ) && (x.X == ssa.Value(cur) || x.Y == ssa.Value(cur)) {
						other := x.X
						if other == ssa.Value(cur) {
							other = x.Y
						}
						if ex, ok := other.(*ssa.Extract); ok {
							if call, ok := ex.Tuple.(*ssa.Call); ok {
								if sc := staticCallee(call); sc != nil && fnPkgKey(sc) == "store" && len(sc.Blocks) > 0 {
									var raw ssa.Value
									if _, ok := evalCalleeRaw(call, sc, ex.Index, eval, nodeV, kind, depth+1, &raw); ok && raw != nil {
										same := raw == ssa.Value(cur)
										return same == (x.Op == token.EQL), true
									}
								}
							}
						}
					}
				case *ssa.Extract:
					// a flag handed back by a helper of the package: evaluate the helper for this kind of event
					if call, ok := x.Tuple.(*ssa.Call); ok {
						if sc := staticCallee(call); sc != nil && fnPkgKey(sc) == "store" && len(sc.Blocks) > 0 {
							return evalCallee(call, sc, x.Index, eval, nodeV, kind, depth+1)
						}
					}
				case *ssa.Call:
					// a predicate of the package over the pulled node
					if sc := staticCallee(x); sc != nil && fnPkgKey(sc) == "store" && len(sc.Blocks) > 0 && sc.Signature.Results().Len() == 1 {
						return evalCallee(x, sc, 0, eval, nodeV, kind, depth+1)
					}
				}
				return false, false
			}
			b := header
			var prev *ssa.BasicBlock
			idx := 0
			start := es.start
			for steps := 0; steps < 300; steps++ {
				if prev != nil {
					for _, in := range b.Instrs {
						if ph, ok := in.(*ssa.Phi); ok {
							for i, p := range b.Preds {
								if p == prev {
									phiVal[ph] = ph.Edges[i]
								}
							}
						}
					}
				}
				if b == header && prev != nil {
					// back edge: the value the flag takes
					for i, p := range header.Preds {
						if p == prev {
							e := flag.Edges[i]
							if val, ok := eval(e, 0); ok {
								o.nextFlag = fmt.Sprint(val)
							} else if e == ssa.Value(flag) {
								o.nextFlag = fmt.Sprint(flagVal)
							} else {
								o.und = "the new value of the loop flag is not a constant"
							}
						}
					}
					return o
				}
				from := 0
				if b == header {
					from = start
				}
				moved := false
				for i := from; i < len(b.Instrs) && !moved; i++ {
					switch x := b.Instrs[i].(type) {
					case *ssa.Call:
						sc := staticCallee(x)
						if sc == H {
							if o.h >= 0 {
								o.hTwice = true
							}
							o.h = idx
							arg := x.Call.Args[0]
							if arg != ssa.Value(cur) {
								o.hArgOK = false
							}
							idx++
						} else if _, isCtor := sf.Ctors[sc]; isCtor || (sc != nil && fnPkgKey(sc) == "store" && mustConstruct(sc, sf, map[*ssa.Function]bool{}, 0)) {
							if o.first < 0 {
								o.first = idx
							}
							idx++
						}
					case *ssa.UnOp:
						// the move to the parent on an end event
						if fa, ok := x.X.(*ssa.FieldAddr); ok && x.Op == token.MUL && sf.roleOf(fa.Field) == "parent" && fa.X == ssa.Value(cur) {
							if o.first < 0 {
								o.first = idx
							}
							idx++
						}
					case *ssa.Return:
						o.und = "the simulated iteration returns"
						return o
					case *ssa.If:
						val, ok := eval(x.Cond, 0)
						if !ok {
							o.und = "a branch of the event loop depends on something other than the kind of event, the error and the loop flag (" + w.pos(x.Pos()) + ")"
							return o
						}
						prev = b
						if val {
							b = b.Succs[0]
						} else {
							b = b.Succs[1]
						}
						moved = true
					case *ssa.Jump:
						prev = b
						b = b.Succs[0]
						moved = true
					}
				}
				if !moved {
					o.und = "block without a terminator the simulation knows"
					return o
				}
			}
			o.und = "iteration too long"
			return o
		}
		for _, k := range kinds {
			for _, fv := range []bool{false, true} {
				o := run(k, fv)
				construct := fmt.Sprintf("event loop of %s: %s event, namespaces %s", fn.Name(), k, map[bool]string{true: "already inherited", false: "not yet inherited"}[fv])
				if o.und != "" {
					w.undecided(P, "R10.9", construct, pull.Pos(), o.und)
					continue
				}
				ok, why := inheritanceVerdict(k, fv, o.h, o.first, o.hArgOK, o.hTwice, o.nextFlag)
				w.check(P, "R10.9", construct, pull.Pos(), ok, orElse(why, "inherits exactly when required; flag afterwards "+o.nextFlag))
			}
		}
	}
	w.floor(P, "R10.9", 11)
	w.rebuiltListOrder(P, sf)
}

// rebuiltListOrder (R10.10): the Cursor contract wants Namespaces() in ascending position order. A function that
// rebuilds an element's namespaces list from the entries it already has (which carry the positions they were
// created with, ascending in list order) and freshly numbered nodes keeps that order only if it takes the old
// entries over in their own order, each as the element of one ascending loop over the old list, and appends the
// freshly numbered nodes after them.
func (w *World) rebuiltListOrder(P string, sf *storeFacts) {
	docRule(P, "R10.10", "F", "a function of package store that rebuilds an element's namespaces list (stores a freshly made slice into it) takes existing entries over only as the loop element of one ascending loop over the old list itself, and that loop precedes the construction of the freshly numbered nodes: the rebuilt list stays in ascending Pos() order.")
	n := 0
	w.forAllFuncs("store", func(fn *ssa.Function) {
		if len(fn.Params) == 0 {
			return
		}
		E := ssa.Value(fn.Params[0])
		if pt, ok := E.Type().(*types.Pointer); !ok || !types.Identical(pt.Elem(), sf.T) {
			return
		}
		fresh := false
		allInstrs(fn, func(in ssa.Instruction) {
			if st, ok := in.(*ssa.Store); ok {
				if fa, ok := st.Addr.(*ssa.FieldAddr); ok && fa.X == E && sf.roleOf(fa.Field) == "namespaces" {
					if _, isMake := st.Val.(*ssa.MakeSlice); isMake {
						fresh = true
					}
				}
			}
		})
		if !fresh {
			return
		}
		isD := func(v ssa.Value) bool {
			ld, ok := v.(*ssa.UnOp)
			if !ok || ld.Op != token.MUL {
				return false
			}
			fa, ok := ld.X.(*ssa.FieldAddr)
			return ok && fa.X == E && sf.roleOf(fa.Field) == "namespaces"
		}
		var keepHead *ssa.BasicBlock
		var ctorBlocks []*ssa.BasicBlock
		bad := ""
		allInstrs(fn, func(in ssa.Instruction) {
			c, ok := in.(*ssa.Call)
			if !ok {
				return
			}
			b, ok := c.Call.Value.(*ssa.Builtin)
			if !ok || b.Name() != "append" || len(c.Call.Args) != 2 {
				return
			}
			toNS := false
			for _, rr := range referrers(c) {
				if st, ok := rr.(*ssa.Store); ok {
					if fa, ok := st.Addr.(*ssa.FieldAddr); ok && fa.X == E && sf.roleOf(fa.Field) == "namespaces" {
						toNS = true
					}
				}
			}
			if !toNS {
				return
			}
			// the single appended value
			var elem ssa.Value
			if sl, ok := c.Call.Args[1].(*ssa.Slice); ok {
				if al, ok := sl.X.(*ssa.Alloc); ok {
					for _, st := range storesInto(al) {
						elem = st.Val
					}
				}
			}
			if elem == nil {
				bad = "several values appended at once at " + w.pos(c.Pos())
				return
			}
			v := stripConv(elem)
			if mi, ok := v.(*ssa.MakeInterface); ok {
				v = stripConv(mi.X)
			}
			if call, ok := v.(*ssa.Call); ok {
				if _, isCtor := sf.Ctors[staticCallee(call)]; isCtor {
					ctorBlocks = append(ctorBlocks, c.Block())
					return
				}
			}
			// an existing entry: must be D[i] with i the counter of an ascending loop
			ld, ok := v.(*ssa.UnOp)
			okKeep := false
			if ok {
				if ia, ok := ld.X.(*ssa.IndexAddr); ok && isD(ia.X) && (ascendingCounter(ia.Index) || isCounterPhi2(ia.Index)) {
					okKeep = true
					if ph, ok := ia.Index.(*ssa.Phi); ok {
						keepHead = ph.Block()
					} else if bo, ok := ia.Index.(*ssa.BinOp); ok {
						if ph, ok := bo.X.(*ssa.Phi); ok {
							keepHead = ph.Block()
						}
					}
				}
			}
			if !okKeep {
				bad = "an existing entry is appended at " + w.pos(c.Pos()) + " that is not the element of an ascending loop over the old list (" + describe(v) + ")"
			}
		})
		n++
		order := true
		if keepHead != nil {
			for _, cb := range ctorBlocks {
				if !keepHead.Dominates(cb) {
					order = false
				}
			}
		}
		w.check(P, "R10.10", "namespaces list rebuilt by "+fn.Name(), fn.Pos(), bad == "" && order, orElse(bad, fmt.Sprintf("existing entries are taken over in their own order; freshly numbered nodes are appended after them: %v", order)))
	})
	if n == 0 {
		// the store inherits at creation time and never rebuilds: nothing to decide
		w.check(P, "R10.10", "namespaces list rebuilt", 0, true, "no function rebuilds a namespaces list")
	}
	w.floor(P, "R10.10", 1)
}

// comparesPrefix: fn returns true under an equality of Prefix() values (a membership test by prefix).
func comparesPrefix(fn *ssa.Function) bool {
	if fn.Signature.Results().Len() != 1 {
		return false
	}
	if b, ok := fn.Signature.Results().At(0).Type().Underlying().(*types.Basic); !ok || b.Kind() != types.Bool {
		return false
	}
	found := false
	// the comparison may sit in a function literal handed to a search helper (indexNamespace(list, func(n) bool {...}))
	for g := range staticReach(fn, func(x *ssa.Function) bool { return fnPkgKey(x) == "store" }) {
		if g == fn || fnPkgKey(g) != "store" {
			continue
		}
		allInstrs(g, func(in ssa.Instruction) {
			if bo, ok := in.(*ssa.BinOp); ok && bo.Op == token.EQL {
				_, okx := isMethodCall(bo.X, "Prefix")
				_, oky := isMethodCall(bo.Y, "Prefix")
				if okx || oky {
					found = true
				}
			}
		})
	}
	for _, path := range trueReturns(fn) {
		for _, a := range path {
			if bo, ok := a.V.(*ssa.BinOp); ok && bo.Op == token.EQL && a.Pol {
				if _, okx := isMethodCall(bo.X, "Prefix"); okx {
					found = true
				}
				if _, oky := isMethodCall(bo.Y, "Prefix"); oky {
					found = true
				}
			}
		}
	}
	return found
}

// evalCallee evaluates the boolean result idx of a call of a small helper: branches on the kind of the node parameter
// (bound to the pulled node at the call) and on boolean parameters (evaluated in the caller) are decided, anything
// else gives up.
func evalCallee(call *ssa.Call, fn *ssa.Function, idx int, callerEval func(ssa.Value, int) (bool, bool), nodeV ssa.Value, kind string, depth int) (bool, bool) {
	return evalCalleeRaw(call, fn, idx, callerEval, nodeV, kind, depth, nil)
}

// evalCalleeRaw: with rawOut set, the value returned at position idx (a parameter replaced by the argument of the
// call) is stored there instead of being evaluated as a boolean.
func evalCalleeRaw(call *ssa.Call, fn *ssa.Function, idx int, callerEval func(ssa.Value, int) (bool, bool), nodeV ssa.Value, kind string, depth int, rawOut *ssa.Value) (bool, bool) {
	if depth > 12 {
		return false, false
	}
	arg := map[*ssa.Parameter]ssa.Value{}
	for i, p := range fn.Params {
		if i < len(call.Call.Args) {
			arg[p] = call.Call.Args[i]
		}
	}
	phiVal := map[*ssa.Phi]ssa.Value{}
	var eval func(v ssa.Value, d int) (bool, bool)
	eval = func(v ssa.Value, d int) (bool, bool) {
		if d > 20 {
			return false, false
		}
		switch x := v.(type) {
		case *ssa.Const:
			if x.Value != nil && x.Value.Kind() == constant.Bool {
				return constant.BoolVal(x.Value), true
			}
		case *ssa.Parameter:
			if a, ok := arg[x]; ok {
				return callerEval(a, depth+1)
			}
		case *ssa.UnOp:
			if x.Op == token.NOT {
				val, ok := eval(x.X, d+1)
				return !val, ok
			}
		case *ssa.Phi:
			if e, ok := phiVal[x]; ok {
				return eval(e, d+1)
			}
		case *ssa.Extract:
			if ta, ok := x.Tuple.(*ssa.TypeAssert); ok && x.Index == 1 {
				if p, ok := ta.X.(*ssa.Parameter); ok && arg[p] == nodeV {
					if n, _ := nodeIface(ta.AssertedType); n != nil {
						switch n.Obj().Name() {
						case "Namespace":
							return kind == "namespace", true
						case "Attribute":
							return kind == "attribute", true
						case "Element", "NamedNode":
							return kind == "element" || kind == "attribute", true
						default:
							return false, true
						}
					}
				}
			}
		}
		return false, false
	}
	b := fn.Blocks[0]
	var prev *ssa.BasicBlock
	for steps := 0; steps < 200; steps++ {
		if prev != nil {
			for _, in := range b.Instrs {
				if ph, ok := in.(*ssa.Phi); ok {
					for i, p := range b.Preds {
						if p == prev {
							phiVal[ph] = ph.Edges[i]
						}
					}
				}
			}
		}
		switch x := b.Instrs[len(b.Instrs)-1].(type) {
		case *ssa.Return:
			if idx >= len(x.Results) {
				return false, false
			}
			if rawOut != nil {
				rv := x.Results[idx]
				if p, isP := rv.(*ssa.Parameter); isP {
					if a, ok := arg[p]; ok {
						rv = a
					}
				}
				*rawOut = rv
				return false, true
			}
			return eval(x.Results[idx], 0)
		case *ssa.If:
			val, ok := eval(x.Cond, 0)
			if !ok {
				return false, false
			}
			prev = b
			if val {
				b = b.Succs[0]
			} else {
				b = b.Succs[1]
			}
		case *ssa.Jump:
			prev = b
			b = b.Succs[0]
		default:
			return false, false
		}
	}
	return false, false
}

// builderCursorField: fn is a method of a struct type of package store (not the cursor type itself) that has a field of
// type pointer-to-cursor: the builder object of the tree construction; returns the index of that field.
func builderCursorField(fn *ssa.Function, sf *storeFacts) (int, bool) {
	if fn == nil || len(fn.Params) == 0 {
		return 0, false
	}
	pt, ok := fn.Params[0].Type().(*types.Pointer)
	if !ok {
		return 0, false
	}
	n, ok := types.Unalias(pt.Elem()).(*types.Named)
	if !ok || types.Identical(n, sf.T) {
		return 0, false
	}
	st, ok := n.Underlying().(*types.Struct)
	if !ok {
		return 0, false
	}
	for i := 0; i < st.NumFields(); i++ {
		if fp, ok := st.Field(i).Type().(*types.Pointer); ok && types.Identical(fp.Elem(), sf.T) {
			return i, true
		}
	}
	return 0, false
}

// inheritanceVerdict judges the trace of one simulated iteration.
func inheritanceVerdict(k string, fv bool, h, first int, hArgOK, hTwice bool, nextFlag string) (bool, string) {
	ok, why := true, ""
	wantFlag := "true"
	if k == "element" {
		wantFlag = "false"
	}
	switch {
	case !fv && k == "namespace":
		wantFlag = "false"
		if h >= 0 {
			ok, why = false, "the parent's namespaces are inherited while the element's own declarations are still arriving (a later declaration of the same prefix then duplicates it)"
		}
	case !fv:
		if h < 0 {
			ok, why = false, "the element's first "+k+" event is processed without inheriting the parent's namespaces: the element (for an end event: an element without attributes and children) has only its own declarations"
		} else if first >= 0 && first < h {
			ok, why = false, "something of the event is processed before the namespaces are inherited (positions: namespace nodes must precede attributes and children; after an end event the cursor is already the parent)"
		} else if !hArgOK {
			ok, why = false, "the inheriting function is not given the current cursor"
		} else if hTwice {
			ok, why = false, "namespaces are inherited twice"
		}
	default:
		if h >= 0 {
			ok, why = false, "namespaces are inherited again for an element that already has them (every inherited node is duplicated)"
		}
	}
	if ok && nextFlag != wantFlag {
		ok, why = false, fmt.Sprintf("after the iteration the flag is %s, required %s (a new element has not inherited yet; after anything else the current element has)", nextFlag, wantFlag)
	}
	return ok, why
}
