package main

import (
	"go/types"

	"golang.org/x/tools/go/ssa"
)

// pullScope: a pull adapter's Pull method together with the methods of the same receiver it was split into (each with a
// single call site in the scope), read as one function: arms are looked for in every part, a return of a part is
// translated into the (node, end) pair Pull hands to its caller, and guards include those of the call chain.
type pullScope struct {
	pull *ssa.Function
	fns  []*ssa.Function
	via  map[*ssa.Function]*ssa.Call
}

func (w *World) pullScopeOf(pull *ssa.Function, isRole func(*ssa.Function) bool) *pullScope {
	sc := &pullScope{pull: pull, fns: []*ssa.Function{pull}, via: map[*ssa.Function]*ssa.Call{}}
	if len(pull.Params) == 0 {
		return sc
	}
	recvT := pull.Params[0].Type()
	seen := map[*ssa.Function]bool{pull: true}
	for i := 0; i < len(sc.fns) && i < 12; i++ {
		allInstrs(sc.fns[i], func(in ssa.Instruction) {
			c, ok := in.(*ssa.Call)
			if !ok {
				return
			}
			g := staticCallee(c)
			if g == nil || seen[g] || len(g.Blocks) == 0 || len(g.Params) == 0 || !types.Identical(g.Params[0].Type(), recvT) || isRole(g) {
				return
			}
			if len(c.Call.Args) == 0 || c.Call.Args[0] != ssa.Value(sc.fns[i].Params[0]) {
				return
			}
			// a part has one call site
			n := 0
			for _, f := range sc.fns {
				allInstrs(f, func(in2 ssa.Instruction) {
					if c2, ok := in2.(ssa.CallInstruction); ok && staticCallee(c2) == g {
						n++
					}
				})
			}
			if n != 1 {
				return
			}
			seen[g] = true
			sc.fns = append(sc.fns, g)
			sc.via[g] = c
		})
	}
	return sc
}

func (sc *pullScope) all(visit func(ssa.Instruction)) {
	for _, f := range sc.fns {
		allInstrs(f, visit)
	}
}

func (sc *pullScope) arms() map[string]*ssa.If {
	out := map[string]*ssa.If{}
	for _, f := range sc.fns {
		for k, v := range constStringArms(f) {
			if _, dup := out[k]; !dup {
				out[k] = v
			}
		}
	}
	return out
}

// guards: the control-dependence atoms of b and of the calls through which b's function is entered.
func (sc *pullScope) guards(b *ssa.BasicBlock) []atom {
	out := guardAtoms(b)
	fn := b.Parent()
	for i := 0; i < 6; i++ {
		c, ok := sc.via[fn]
		if !ok {
			break
		}
		out = append(out, guardAtoms(c.Block())...)
		fn = c.Parent()
	}
	return out
}

// effRet translates a return of a scope function into the node and the end flag that Pull returns when this return is
// taken (ok false: the return does not reach Pull's caller in a recognisable way).
func (sc *pullScope) effRet(ret *ssa.Return) (node, end ssa.Value, ok bool) {
	return sc.effRetD(ret, 0)
}

func (sc *pullScope) effRetD(ret *ssa.Return, depth int) (node, end ssa.Value, ok bool) {
	fn := ret.Parent()
	if fn == sc.pull {
		if len(ret.Results) != 3 {
			return nil, nil, false
		}
		return ret.Results[0], ret.Results[1], true
	}
	c := sc.via[fn]
	if c == nil || depth > 4 {
		return nil, nil, false
	}
	// which result of the part is v (in the caller's frame)
	partIdx := func(v ssa.Value) int {
		v = stripConv(v)
		if v == ssa.Value(c) {
			return 0
		}
		if ex, isEx := v.(*ssa.Extract); isEx && ex.Tuple == ssa.Value(c) {
			return ex.Index
		}
		return -1
	}
	var out *ssa.Return
	allInstrs(c.Parent(), func(in ssa.Instruction) {
		rc, isRet := in.(*ssa.Return)
		if !isRet || out != nil {
			return
		}
		for _, rv := range rc.Results {
			if partIdx(rv) >= 0 {
				out = rc
			}
		}
	})
	if out == nil {
		return nil, nil, false
	}
	n2, e2, ok2 := sc.effRetD(out, depth+1)
	if !ok2 {
		return nil, nil, false
	}
	sub := func(v ssa.Value) ssa.Value {
		if k := partIdx(v); k >= 0 && k < len(ret.Results) {
			return ret.Results[k]
		}
		return v
	}
	return sub(n2), sub(e2), true
}
