package main

import (
	"go/constant"
	"go/token"
	"go/types"

	"golang.org/x/tools/go/ssa"
)

// pullScope: a pull adapter's Pull method together with the methods of the same receiver it was split into (each with a
// single call site in the scope), read as one function: arms are looked for in every part, a return of a part is
// translated into the (node, end) pair Pull hands to its caller, and guards include those of the call chain.
type pullScope struct {
	pull   *ssa.Function
	fns    []*ssa.Function
	via    map[*ssa.Function]*ssa.Call
	isRole func(*ssa.Function) bool
	recvT  types.Type
}

func (w *World) pullScopeOf(pull *ssa.Function, isRole func(*ssa.Function) bool) *pullScope {
	sc := &pullScope{pull: pull, fns: []*ssa.Function{pull}, via: map[*ssa.Function]*ssa.Call{}, isRole: isRole}
	if len(pull.Params) == 0 {
		return sc
	}
	recvT := pull.Params[0].Type()
	sc.recvT = recvT
	seen := map[*ssa.Function]bool{pull: true}
	for i := 0; i < len(sc.fns) && i < 12; i++ {
		allInstrs(sc.fns[i], func(in ssa.Instruction) {
			c, ok := in.(*ssa.Call)
			if !ok {
				return
			}
			g := staticCallee(c)
			if g == nil || seen[g] || len(g.Blocks) == 0 || len(g.Params) == 0 || !types.Identical(g.Params[0].Type(), recvT) || isRole(g) {
				return
			}
			if len(c.Call.Args) == 0 || c.Call.Args[0] != ssa.Value(sc.fns[i].Params[0]) {
				return
			}
			// a part has one call site
			n := 0
			for _, f := range sc.fns {
				allInstrs(f, func(in2 ssa.Instruction) {
					if c2, ok := in2.(ssa.CallInstruction); ok && staticCallee(c2) == g {
						n++
					}
				})
			}
			if n != 1 {
				return
			}
			seen[g] = true
			sc.fns = append(sc.fns, g)
			sc.via[g] = c
		})
	}
	return sc
}

func (sc *pullScope) all(visit func(ssa.Instruction)) {
	for _, f := range sc.fns {
		allInstrs(f, visit)
	}
}

func (sc *pullScope) arms() map[string]*ssa.If {
	out := map[string]*ssa.If{}
	for _, f := range sc.fns {
		for k, v := range constStringArms(f) {
			if _, dup := out[k]; !dup {
				out[k] = v
			}
		}
	}
	return out
}

// guards: the control-dependence atoms of b and of the calls through which b's function is entered.
func (sc *pullScope) guards(b *ssa.BasicBlock) []atom {
	out := guardAtoms(b)
	fn := b.Parent()
	for i := 0; i < 6; i++ {
		c, ok := sc.via[fn]
		if !ok {
			break
		}
		out = append(out, guardAtoms(c.Block())...)
		fn = c.Parent()
	}
	return out
}

// effRet translates a return of a scope function into the node and the end flag that Pull returns when this return is
// taken (ok false: the return does not reach Pull's caller in a recognisable way).
func (sc *pullScope) effRet(ret *ssa.Return) (node, end ssa.Value, ok bool) {
	return sc.effRetD(ret, 0)
}

func (sc *pullScope) effRetD(ret *ssa.Return, depth int) (node, end ssa.Value, ok bool) {
	fn := ret.Parent()
	if fn == sc.pull {
		if len(ret.Results) != 3 {
			return nil, nil, false
		}
		return ret.Results[0], ret.Results[1], true
	}
	c := sc.via[fn]
	if c == nil || depth > 4 {
		return nil, nil, false
	}
	// which result of the part is v (in the caller's frame)
	partIdx := func(v ssa.Value) int {
		v = stripConv(v)
		if v == ssa.Value(c) {
			return 0
		}
		if ex, isEx := v.(*ssa.Extract); isEx && ex.Tuple == ssa.Value(c) {
			return ex.Index
		}
		return -1
	}
	var out *ssa.Return
	allInstrs(c.Parent(), func(in ssa.Instruction) {
		rc, isRet := in.(*ssa.Return)
		if !isRet || out != nil {
			return
		}
		for _, rv := range rc.Results {
			if partIdx(rv) >= 0 {
				out = rc
			}
		}
	})
	if out == nil {
		return nil, nil, false
	}
	n2, e2, ok2 := sc.effRetD(out, depth+1)
	if !ok2 {
		return nil, nil, false
	}
	sub := func(v ssa.Value) ssa.Value {
		if k := partIdx(v); k >= 0 && k < len(ret.Results) {
			return ret.Results[k]
		}
		return v
	}
	return sub(n2), sub(e2), true
}

// isPart: g is a method of the adapter (same receiver, called on the caller's receiver) that is not one of the small
// role methods.
func (sc *pullScope) isPart(c *ssa.Call) *ssa.Function {
	g := staticCallee(c)
	if g == nil || sc.recvT == nil || len(g.Blocks) == 0 || len(g.Params) == 0 || !types.Identical(g.Params[0].Type(), sc.recvT) || sc.isRole(g) || g == sc.pull {
		return nil
	}
	caller := c.Parent()
	if len(c.Call.Args) == 0 || len(caller.Params) == 0 || c.Call.Args[0] != ssa.Value(caller.Params[0]) {
		return nil
	}
	return g
}

// merged: the parts with several call sites in the scope (one body shared by several arms, told apart by constant
// arguments: openContainer(objectState, "#obj") / openContainer(arrayState, "#arr")), with their call sites.
func (sc *pullScope) merged() map[*ssa.Function][]*ssa.Call {
	out := map[*ssa.Function][]*ssa.Call{}
	inScope := map[*ssa.Function]bool{}
	for _, f := range sc.fns {
		inScope[f] = true
	}
	for _, f := range sc.fns {
		allInstrs(f, func(in ssa.Instruction) {
			if c, ok := in.(*ssa.Call); ok {
				if g := sc.isPart(c); g != nil && !inScope[g] {
					out[g] = append(out[g], c)
				}
			}
		})
	}
	return out
}

// armView: one arm read through the parts it calls: the arm's own blocks plus, for every call in them of a part, the
// blocks of the part that are feasible when its parameters are bound to the constants passed at that call.
type armView struct {
	sc     *pullScope
	ifi    *ssa.If
	own    []*ssa.BasicBlock
	blocks []*ssa.BasicBlock
	bind   map[ssa.Value]ssa.Value     // parameter of a part -> the constant passed by this arm
	via    map[*ssa.Function]*ssa.Call // part -> the call of this arm that enters it
}

func (sc *pullScope) armView(ifi *ssa.If) *armView {
	av := &armView{sc: sc, ifi: ifi, own: armBlocks(ifi), bind: map[ssa.Value]ssa.Value{}, via: map[*ssa.Function]*ssa.Call{}}
	av.blocks = append(av.blocks, av.own...)
	for i := 0; i < len(av.blocks) && len(av.via) < 8; i++ {
		for _, in := range av.blocks[i].Instrs {
			c, ok := in.(*ssa.Call)
			if !ok {
				continue
			}
			g := sc.isPart(c)
			if g == nil || av.via[g] != nil || g == ifi.Parent() {
				continue
			}
			av.via[g] = c
			for k, p := range g.Params {
				if k < len(c.Call.Args) {
					if a := av.resolve(c.Call.Args[k]); a != nil {
						if _, isC := a.(*ssa.Const); isC {
							av.bind[p] = a
						}
					}
				}
			}
			for _, b := range g.Blocks {
				if av.feasible(b) {
					av.blocks = append(av.blocks, b)
				}
			}
		}
	}
	return av
}

// resolve: a parameter of a part read as the constant this arm passes for it.
func (av *armView) resolve(v ssa.Value) ssa.Value {
	if v == nil {
		return nil
	}
	if b, ok := av.bind[v]; ok {
		return b
	}
	if b, ok := av.bind[stripConv(v)]; ok {
		return b
	}
	return v
}

// feasible: no guard of b compares a bound parameter with a constant in a way the arm's constant contradicts.
func (av *armView) feasible(b *ssa.BasicBlock) bool {
	for _, a := range guardAtoms(b) {
		bo, ok := a.V.(*ssa.BinOp)
		if !ok || (bo.Op != token.EQL && bo.Op != token.NEQ) {
			continue
		}
		x, y := av.resolve(bo.X), av.resolve(bo.Y)
		cx, okx := x.(*ssa.Const)
		cy, oky := y.(*ssa.Const)
		if !okx || !oky || cx.Value == nil || cy.Value == nil || cx.Value.Kind() != cy.Value.Kind() {
			continue
		}
		if x == bo.X && y == bo.Y {
			continue // a comparison of two literal constants is not a fact about the arm
		}
		eq := constant.Compare(cx.Value, token.EQL, cy.Value)
		holds := eq == (bo.Op == token.EQL)
		if holds != a.Pol {
			return false
		}
	}
	return true
}

// guards: the atoms under which b runs in this arm (its own, and those of the calls that enter its function).
func (av *armView) guards(b *ssa.BasicBlock) []atom {
	out := guardAtoms(b)
	fn := b.Parent()
	for i := 0; i < 6; i++ {
		c := av.via[fn]
		if c == nil {
			break
		}
		out = append(out, guardAtoms(c.Block())...)
		fn = c.Parent()
	}
	return out
}

// before: a runs before b in this arm (both lifted to a common function through the calls that enter the parts).
func (av *armView) before(a, b ssa.Instruction) bool {
	chain := func(x ssa.Instruction) []ssa.Instruction {
		out := []ssa.Instruction{x}
		for i := 0; i < 6; i++ {
			c := av.via[x.Parent()]
			if c == nil {
				break
			}
			out = append(out, c)
			x = c
		}
		return out
	}
	for _, x := range chain(a) {
		for _, y := range chain(b) {
			if x.Parent() == y.Parent() {
				if x == y {
					return false
				}
				return instrAfter(x, y)
			}
		}
	}
	return false
}

// returned: the values a call of a part hands back at result index idx in this arm (the results of the part's feasible
// returns); v itself when it is not such a call.
func (av *armView) returned(v ssa.Value) []ssa.Value {
	idx := 0
	var call *ssa.Call
	switch x := stripConv(v).(type) {
	case *ssa.Call:
		call = x
	case *ssa.Extract:
		call, _ = x.Tuple.(*ssa.Call)
		idx = x.Index
	}
	if call == nil {
		return []ssa.Value{v}
	}
	g := staticCallee(call)
	if g == nil || av.via[g] != call {
		return []ssa.Value{v}
	}
	var out []ssa.Value
	for _, b := range g.Blocks {
		if !av.feasible(b) {
			continue
		}
		for _, in := range b.Instrs {
			if r, ok := in.(*ssa.Return); ok && idx < len(r.Results) {
				out = append(out, r.Results[idx])
			}
		}
	}
	if len(out) == 0 {
		return []ssa.Value{v}
	}
	return out
}
