package main

import (
	"fmt"
	"go/constant"
	"go/token"
	"go/types"
	"sort"
	"strings"

	"golang.org/x/tools/go/ssa"
)

func init() {
	register("C09", checkC09)
	notDecided["C09"] = "the tree for concrete documents; that encoding/xml tokenises every well-formed document as the rules assume (entity expansion, CDATA, namespace translation of names are its contract); non-white-space character data outside the document element (only in documents that are not well-formed; the existing suite expects it to be kept); the order of an element's namespace nodes among themselves."
}

// implementsNode reports whether concrete type t implements the node interface named iface.
func (w *World) implementsNode(t types.Type, iface string) bool {
	n := w.namedType("node", iface)
	if n == nil {
		return false
	}
	it := n.Underlying().(*types.Interface)
	return types.Implements(t, it) || types.Implements(types.NewPointer(t), it)
}

// fieldAtom: v is `x.<...>.F == "c"`: returns F and c.
func fieldAtom(v ssa.Value) (field, c string, eq bool, ok bool) {
	bo, isBo := v.(*ssa.BinOp)
	if !isBo || (bo.Op != token.EQL && bo.Op != token.NEQ) {
		return "", "", false, false
	}
	x, y := bo.X, bo.Y
	s, isS := constString(y)
	if !isS {
		s, isS = constString(x)
		x = y
	}
	if !isS {
		return "", "", false, false
	}
	name := loadedFieldName(x)
	if name == "" {
		return "", "", false, false
	}
	return name, s, bo.Op == token.EQL, true
}

// loadedFieldName: v is a struct field read (x.F through a pointer, or the F of a struct value): the name of F.
func loadedFieldName(v ssa.Value) string {
	switch a := v.(type) {
	case *ssa.UnOp:
		if fa, ok := a.X.(*ssa.FieldAddr); ok {
			if pt, ok := fa.X.Type().Underlying().(*types.Pointer); ok {
				if st, ok := pt.Elem().Underlying().(*types.Struct); ok {
					return st.Field(fa.Field).Name()
				}
			}
		}
	case *ssa.Field:
		if st, ok := a.X.Type().Underlying().(*types.Struct); ok {
			return st.Field(a.Field).Name()
		}
	}
	return ""
}

// evalBoolUnder evaluates a boolean value under the assignment of attribute-name fields: comparisons of a name field
// with a constant, constants, negation, phis (resolved by the predecessor the walk came from) and calls of
// repository predicates on the attribute (evaluated by walking the callee the same way).
func evalBoolUnder(v ssa.Value, assign map[string]string, cameFrom *ssa.BasicBlock, depth int) (val, ok bool) {
	if depth > 6 {
		return false, false
	}
	switch x := v.(type) {
	case *ssa.Const:
		if x.Value != nil && x.Value.Kind() == constant.Bool {
			return constant.BoolVal(x.Value), true
		}
	case *ssa.UnOp:
		if x.Op == token.NOT {
			r, ok := evalBoolUnder(x.X, assign, cameFrom, depth+1)
			return !r, ok
		}
	case *ssa.BinOp:
		if f, c, eq, ok := fieldAtom(x); ok {
			return (assign[f] == c) == eq, true
		}
	case *ssa.Phi:
		for i, p := range x.Block().Preds {
			if p == cameFrom {
				return evalBoolUnder(x.Edges[i], assign, nil, depth+1)
			}
		}
	case *ssa.Extract:
		// the boolean a predicate of the repository hands back next to other results
		if c, isCall := x.Tuple.(*ssa.Call); isCall {
			if g := staticCallee(c); g != nil && inRepo(g) {
				if rv := calleeResultUnder(g, x.Index, assign, depth+1); rv != nil {
					if _, isP := rv.(*ssa.Phi); !isP {
						return evalBoolUnder(rv, assign, nil, depth+1)
					}
				}
			}
		}
	case *ssa.Call:
		g := staticCallee(x)
		if g == nil || !inRepo(g) || len(g.Blocks) == 0 || g.Signature.Results().Len() != 1 {
			return false, false
		}
		// walk g
		b := g.Blocks[0]
		var prev *ssa.BasicBlock
		for steps := 0; steps < 64; steps++ {
			last := b.Instrs[len(b.Instrs)-1]
			for _, in := range b.Instrs {
				if c, isCall := in.(*ssa.Call); isCall {
					if _, isB := c.Call.Value.(*ssa.Builtin); !isB && c != ssa.Instruction(x) {
						if sc := staticCallee(c); sc == nil || !inRepo(sc) {
							// calls without effect on the decision are tolerated only when their result is unused by the walk
							_ = sc
						}
					}
				}
			}
			switch t := last.(type) {
			case *ssa.If:
				r, ok := evalBoolUnder(t.Cond, assign, prev, depth+1)
				if !ok {
					return false, false
				}
				prev = b
				if r {
					b = b.Succs[0]
				} else {
					b = b.Succs[1]
				}
			case *ssa.Jump:
				prev = b
				b = b.Succs[0]
			case *ssa.Return:
				return evalBoolUnder(t.Results[0], assign, prev, depth+1)
			default:
				return false, false
			}
		}
	}
	return false, false
}

// loopPathResult is what one iteration of the attribute loop does under one assignment of field values.
type loopPathResult struct {
	Appends    int
	PrefixFrom []string // for each append: field the first string field of the appended struct was loaded from
	Undecided  string
	Foreign    string // the outcome differs between the arms of a branch that does not test the attribute's name
}

func (r loopPathResult) key() string {
	return fmt.Sprintf("%d %v %s", r.Appends, r.PrefixFrom, r.Undecided)
}

// calleeResultUnder walks a small helper of the repository under the assignment and returns the value it returns at
// position idx (nil when the walk cannot be decided).
func calleeResultUnder(g *ssa.Function, idx int, assign map[string]string, depth int) ssa.Value {
	if depth > 6 || len(g.Blocks) == 0 {
		return nil
	}
	b := g.Blocks[0]
	var prev *ssa.BasicBlock
	for steps := 0; steps < 64; steps++ {
		switch t := b.Instrs[len(b.Instrs)-1].(type) {
		case *ssa.If:
			r, ok := evalBoolUnder(t.Cond, assign, prev, depth+1)
			if !ok {
				return nil
			}
			prev = b
			if r {
				b = b.Succs[0]
			} else {
				b = b.Succs[1]
			}
		case *ssa.Jump:
			prev = b
			b = b.Succs[0]
		case *ssa.Return:
			if idx >= len(t.Results) {
				return nil
			}
			v := t.Results[idx]
			for k := 0; k < 4; k++ {
				phi, ok := v.(*ssa.Phi)
				if !ok || phi.Block() != b {
					break
				}
				found := false
				for e, p := range b.Preds {
					if p == prev {
						v, found = phi.Edges[e], true
					}
				}
				if !found {
					return nil
				}
			}
			return v
		default:
			return nil
		}
	}
	return nil
}

// simulateAttrLoop walks one iteration of the loop over the []xml.Attr parameter of fn under the assignment
// (field -> value; "\x00other" = none of the tested constants) and reports the appends to slices of type target. A
// branch that cannot be evaluated from the attribute's name is followed both ways: the arms must agree.
func simulateAttrLoop(fn *ssa.Function, assign map[string]string, target types.Type) loopPathResult {
	var res loopPathResult
	// body entry: block containing IndexAddr on the parameter
	var body *ssa.BasicBlock
	allInstrs(fn, func(in ssa.Instruction) {
		if ia, ok := in.(*ssa.IndexAddr); ok && len(fn.Params) > 0 && ia.X == ssa.Value(fn.Params[0]) && body == nil {
			body = ia.Block()
		}
	})
	if body == nil {
		res.Undecided = "no loop over the attribute list found"
		return res
	}
	header := body.Preds[0]
	elemKey := ""
	if sl, ok := target.Underlying().(*types.Slice); ok {
		elemKey = sl.Elem().String()
	}
	type state struct {
		b, prev   *ssa.BasicBlock
		lastStore map[string]string
		phiTaken  map[*ssa.Phi]ssa.Value
		res       loopPathResult
		steps     int
	}
	var run func(st state, forks int) loopPathResult
	run = func(st state, forks int) loopPathResult {
		b, prev := st.b, st.prev
		res := st.res
		resolve := func(v ssa.Value, at *ssa.BasicBlock) ssa.Value {
			for i := 0; i < 4; i++ {
				phi, ok := v.(*ssa.Phi)
				if !ok {
					return v
				}
				found := false
				for j, p := range phi.Block().Preds {
					if (phi.Block() == at && p == prev) || (phi.Block() != at && len(phi.Block().Preds) == 1) {
						v, found = phi.Edges[j], true
						break
					}
				}
				if !found {
					return v
				}
			}
			return v
		}
		for steps := st.steps; steps < 64; steps++ {
			moved := false
			for _, in := range b.Instrs {
				switch x := in.(type) {
				case *ssa.Phi:
					st.phiTaken[x] = resolve(x, b)
				case *ssa.Store:
					if fa, ok := x.Addr.(*ssa.FieldAddr); ok {
						val := x.Val
						if phi, isPhi := val.(*ssa.Phi); isPhi {
							if t, ok := st.phiTaken[phi]; ok {
								val = t
							}
						}
						// a string handed back by a predicate of the repository: what it returns under the assignment
						if ex, isEx := val.(*ssa.Extract); isEx {
							if c, isCall := ex.Tuple.(*ssa.Call); isCall {
								if g := staticCallee(c); g != nil && inRepo(g) {
									if rv := calleeResultUnder(g, ex.Index, assign, 0); rv != nil {
										val = rv
									}
								}
							}
						}
						key := ""
						if pt, ok := fa.X.Type().Underlying().(*types.Pointer); ok {
							key = pt.Elem().String()
						}
						if n := loadedFieldName(val); n != "" {
							st.lastStore[fmt.Sprintf("%s#%d", key, fa.Field)] = n
						} else if s, ok := constString(val); ok {
							st.lastStore[fmt.Sprintf("%s#%d", key, fa.Field)] = "const:" + s
						}
					}
				case *ssa.Call:
					if bi, ok := x.Call.Value.(*ssa.Builtin); ok && bi.Name() == "append" && types.Identical(x.Type(), target) {
						res.Appends++
						res.PrefixFrom = append(res.PrefixFrom, st.lastStore[elemKey+"#0"])
					}
				case *ssa.If:
					truth, ok := evalBoolUnder(x.Cond, assign, prev, 0)
					if !ok {
						if forks >= 3 {
							res.Undecided = "branch on a condition that cannot be evaluated from the attribute-name fields (comparisons with constants, also inside predicates of the repository)"
							return res
						}
						// neither arm may change what becomes of the attribute
						var outs [2]loopPathResult
						for k := 0; k < 2; k++ {
							ls := map[string]string{}
							for a, v := range st.lastStore {
								ls[a] = v
							}
							pt := map[*ssa.Phi]ssa.Value{}
							for a, v := range st.phiTaken {
								pt[a] = v
							}
							r2 := res
							r2.PrefixFrom = append([]string(nil), res.PrefixFrom...)
							if b.Succs[k] == header {
								outs[k] = r2
								continue
							}
							outs[k] = run(state{b: b.Succs[k], prev: b, lastStore: ls, phiTaken: pt, res: r2, steps: steps + 1}, forks+1)
						}
						if outs[0].Foreign != "" {
							return outs[0]
						}
						if outs[1].Foreign != "" {
							return outs[1]
						}
						if outs[0].key() != outs[1].key() {
							outs[0].Foreign = fmt.Sprintf("what becomes of the attribute depends on a test of something other than its name (line %d): %d vs %d nodes", fn.Prog.Fset.Position(x.Cond.Pos()).Line, outs[0].Appends, outs[1].Appends)
						}
						return outs[0]
					}
					prev = b
					if truth {
						b = b.Succs[0]
					} else {
						b = b.Succs[1]
					}
					moved = true
				case *ssa.Jump:
					prev = b
					b = b.Succs[0]
					moved = true
				case *ssa.Return:
					return res
				}
				if moved {
					break
				}
			}
			if !moved {
				return res
			}
			if b == header {
				return res
			}
		}
		res.Undecided = "iteration does not return to the loop header"
		return res
	}
	return run(state{b: body, prev: header, lastStore: map[string]string{}, phiTaken: map[*ssa.Phi]ssa.Value{}}, 0)
}

func checkC09(w *World) {
	const P = "C09"
	docRule(P, "R09.1", "T siblings", "attribute partition: over every combination of values of the attribute-name fields that the two functions test (each tested constant, or none of them), the attribute builder skips an xml.Attr exactly when the namespace builder emits exactly one namespace node for it; the emitted prefix is the name part that is not the literal 'xmlns' (Local for xmlns:p, Space for the default/legacy form); the implicit 'xml' binding is emitted first for every element.")
	docRule(P, "R09.2", "X+T K", "token switch of the XML pull adapter: StartElement, CharData, Comment, ProcInst each return a value whose type implements exactly the corresponding node interface, with the end flag false; the end flag is returned true only when no arm matched (EndElement; Directive is allow-listed: well-formed documents have directives only at depth 0 where the store absorbs a surplus end).")
	docRule(P, "R09.3", "D", "replay order required by the Parser contract: the next token is pulled only when the pending namespace list and the pending attribute list are drained; pending attributes are returned only when the pending namespaces are drained.")
	docRule(P, "R09.4", "F+D", "error discipline: the error of Decoder.Token() is returned unchanged with a nil node; in the store the only error mapped to a nil return is one for which errors.Is(err, io.EOF) holds, every other non-nil error is returned; CreateInMemory and xsel.ReadXml/ReadHtml/ReadJson return it to the caller.")
	docRule(P, "R09.5", "F", "declared encodings: the xml.Decoder gets a CharsetReader that resolves the declared label with charset.NewReaderLabel (unknown labels are errors) and never falls back to content sniffing (charset.NewReader / DetermineEncoding).")

	pull := w.pullOf("ReadXml")
	if pull == nil {
		w.undecided(P, "R09.2", "XML pull adapter", 0, "parser.xmlParser.Pull not found")
		return
	}
	// role: builders called from Pull with the element's attribute list
	var nsBuilder, attrBuilder *ssa.Function
	var nsT, attrT types.Type
	var earlyScope []*ssa.Function
	for g := range staticReach(pull, func(x *ssa.Function) bool { return fnPkgKey(x) == "parser" }) {
		if fnPkgKey(g) == "parser" {
			earlyScope = append(earlyScope, g)
		}
	}
	sortFuncs(earlyScope)
	computeEventFns(pull, earlyScope)
	forEarly := func(visit func(ssa.Instruction)) {
		for _, g := range earlyScope {
			allInstrs(g, visit)
		}
	}
	forEarly(func(in ssa.Instruction) {
		c, ok := in.(*ssa.Call)
		if !ok {
			return
		}
		sc := staticCallee(c)
		if sc == nil || fnPkgKey(sc) != "parser" || len(sc.Params) == 0 {
			return
		}
		// (one function may build both lists in a single pass)
		for k := 0; k < sc.Signature.Results().Len(); k++ {
			sl, ok := sc.Signature.Results().At(k).Type().Underlying().(*types.Slice)
			if !ok {
				continue
			}
			if w.implementsNode(sl.Elem(), "Namespace") {
				nsBuilder, nsT = sc, sc.Signature.Results().At(k).Type()
			} else if w.implementsNode(sl.Elem(), "Attribute") {
				attrBuilder, attrT = sc, sc.Signature.Results().At(k).Type()
			}
		}
	})
	if nsBuilder == nil || attrBuilder == nil {
		w.undecided(P, "R09.1", "attribute partition", pull.Pos(), "namespace/attribute builders not found in the start-element arm")
	} else {
		consts := map[string]map[string]bool{}
		var scan []*ssa.Function
		for _, root := range []*ssa.Function{nsBuilder, attrBuilder} {
			for g := range staticReach(root, func(x *ssa.Function) bool { return fnPkgKey(x) == "parser" }) {
				if fnPkgKey(g) == "parser" {
					scan = append(scan, g)
				}
			}
		}
		for _, fn := range scan {
			allInstrs(fn, func(in ssa.Instruction) {
				if bo, ok := in.(*ssa.BinOp); ok {
					if f, c, _, ok := fieldAtom(bo); ok {
						if consts[f] == nil {
							consts[f] = map[string]bool{}
						}
						consts[f][c] = true
					}
				}
			})
		}
		var fields []string
		for f := range consts {
			fields = append(fields, f)
		}
		sort.Strings(fields)
		var combos []map[string]string
		var gen func(i int, cur map[string]string)
		gen = func(i int, cur map[string]string) {
			if i == len(fields) {
				m := map[string]string{}
				for k, v := range cur {
					m[k] = v
				}
				combos = append(combos, m)
				return
			}
			var vals []string
			for c := range consts[fields[i]] {
				vals = append(vals, c)
			}
			sort.Strings(vals)
			vals = append(vals, "\x00other")
			for _, v := range vals {
				cur[fields[i]] = v
				gen(i+1, cur)
			}
		}
		gen(0, map[string]string{})
		for _, as := range combos {
			var parts []string
			for _, f := range fields {
				v := as[f]
				if v == "\x00other" {
					v = "<other>"
				}
				parts = append(parts, fmt.Sprintf("%s=%q", f, v))
			}
			name := strings.Join(parts, " ")
			ra := simulateAttrLoop(attrBuilder, as, attrT)
			rn := simulateAttrLoop(nsBuilder, as, nsT)
			if ra.Foreign != "" || rn.Foreign != "" {
				w.check(P, "R09.1", "attribute with "+name, nsBuilder.Pos(), false, orElse(ra.Foreign, rn.Foreign)+": an xml.Attr is a namespace declaration or an attribute by its name alone")
				continue
			}
			if ra.Undecided != "" || rn.Undecided != "" {
				w.undecided(P, "R09.1", "attribute with "+name, nsBuilder.Pos(), ra.Undecided+" "+rn.Undecided)
				continue
			}
			kept := ra.Appends > 0
			ok := (kept && rn.Appends == 0) || (!kept && rn.Appends == 1)
			detail := fmt.Sprintf("kept as attribute: %v; namespace nodes emitted: %d", kept, rn.Appends)
			if ok && rn.Appends == 1 {
				// prefix source: the field that is not "xmlns"
				want := ""
				if as["Space"] == "xmlns" {
					want = "Local"
				} else if as["Local"] == "xmlns" {
					want = "Space"
				}
				got := rn.PrefixFrom[0]
				if want != "" && got != want && !(want == "Space" && as["Space"] == "" && got == "const:") {
					ok = false
				}
				detail += fmt.Sprintf("; prefix taken from %s (expected %s)", got, want)
			}
			w.check(P, "R09.1", "attribute with "+name, nsBuilder.Pos(), ok, detail)
		}
		// implicit xml binding first
		xmlFirst := false
		if len(nsBuilder.Blocks) > 0 {
			for _, in := range nsBuilder.Blocks[0].Instrs {
				if st, ok := in.(*ssa.Store); ok {
					if s, ok := constString(st.Val); ok && s == "http://www.w3.org/XML/1998/namespace" {
						xmlFirst = true
					}
					// a package-level value holding the binding (initialised with the constant)
					if ld, ok := st.Val.(*ssa.UnOp); ok {
						if g, ok := ld.X.(*ssa.Global); ok && g.Pkg != nil {
							if ini := g.Pkg.Func("init"); ini != nil {
								allInstrs(ini, func(in2 ssa.Instruction) {
									if s2, ok := in2.(*ssa.Store); ok {
										if fa, ok := s2.Addr.(*ssa.FieldAddr); ok && fa.X == ssa.Value(g) {
											if s, ok := constString(s2.Val); ok && s == "http://www.w3.org/XML/1998/namespace" {
												xmlFirst = true
											}
										}
									}
								})
							}
						}
					}
				}
			}
		}
		w.check(P, "R09.1", "implicit xml namespace binding", nsBuilder.Pos(), xmlFirst, fmt.Sprintf("the xml prefix is bound to http://www.w3.org/XML/1998/namespace before the declared ones: %v", xmlFirst))
	}
	w.floor(P, "R09.1", 5)

	// R09.6 values verbatim
	docRule(P, "R09.6", "F", "values are handed on as the decoder delivered them: every string that the attribute and namespace builders store next to a name is the xml.Attr's Value itself (or a constant), not the result of a call - encoding/xml has already expanded references and normalised line ends; a second normalisation (trimming, whitespace folding) changes values that were written with character references.")
	if nsBuilder != nil && attrBuilder != nil {
		r96 := []*ssa.Function{nsBuilder, attrBuilder}
		if nsBuilder == attrBuilder {
			r96 = r96[:1]
		}
		for _, b := range r96 {
			n := 0
			for g := range staticReach(b, func(x *ssa.Function) bool { return fnPkgKey(x) == "parser" }) {
				if fnPkgKey(g) != "parser" {
					continue
				}
				allInstrs(g, func(in ssa.Instruction) {
					st, ok := in.(*ssa.Store)
					if !ok || !isStringType(st.Val.Type()) {
						return
					}
					fa, ok := st.Addr.(*ssa.FieldAddr)
					if !ok {
						return
					}
					if _, isAlloc := fa.X.(*ssa.Alloc); !isAlloc {
						if _, isElem := fa.X.(*ssa.IndexAddr); !isElem {
							return
						}
					}
					// which field of the xml.Attr does the stored string come from, and through what
					viaCall := ""
					fromValue := false
					backSlice(st.Val, func(v ssa.Value) bool {
						if c, ok := v.(*ssa.Call); ok {
							if _, isB := c.Call.Value.(*ssa.Builtin); !isB {
								viaCall = calleeName(c)
							}
						}
						if loadedFieldName(v) == "Value" {
							fromValue = true
						}
						return true
					})
					if !fromValue {
						return
					}
					n++
					w.check(P, "R09.6", "attribute value stored by "+g.Name(), st.Pos(), viaCall == "", "the stored value is xml.Attr.Value unchanged: "+fmt.Sprint(viaCall == "")+orElse(" (passes through "+viaCall+")", ""))
				})
			}
			if n == 0 {
				w.undecided(P, "R09.6", "values stored by "+b.Name(), b.Pos(), "no store of the attribute's Value found")
			}
		}
	}
	w.floor(P, "R09.6", 2)

	// R09.2 token switch
	wantTok := map[string]string{"StartElement": "Element", "CharData": "CharData", "Comment": "Comment", "ProcInst": "ProcInst"}
	exclusive := []string{"Element", "Attribute", "Namespace", "CharData", "Comment", "ProcInst"}
	found := map[string]bool{}
	// the adapter = Pull and the functions of the package it was split into; guards of a helper with a single call
	// site include what is known at that call
	var scope []*ssa.Function
	scopeSet := map[*ssa.Function]bool{}
	for g := range staticReach(pull, func(x *ssa.Function) bool { return fnPkgKey(x) == "parser" }) {
		if fnPkgKey(g) == "parser" {
			scope = append(scope, g)
			scopeSet[g] = true
		}
	}
	sortFuncs(scope)
	allScope := func(visit func(ssa.Instruction)) {
		for _, g := range scope {
			allInstrs(g, visit)
		}
	}
	var scopeGuards func(b *ssa.BasicBlock, depth int) []atom
	scopeGuards = func(b *ssa.BasicBlock, depth int) []atom {
		out := guardAtoms(b)
		fn := b.Parent()
		if fn == pull || depth > 2 {
			return out
		}
		var sites []*ssa.Call
		for _, g := range scope {
			allInstrs(g, func(in ssa.Instruction) {
				if c, ok := in.(*ssa.Call); ok && staticCallee(c) == fn {
					sites = append(sites, c)
				}
			})
		}
		if len(sites) == 1 {
			out = append(out, scopeGuards(sites[0].Block(), depth+1)...)
		}
		return out
	}
	allScope(func(in ssa.Instruction) {
		ta, ok := in.(*ssa.TypeAssert)
		if !ok || !ta.CommaOk {
			return
		}
		n, ok := types.Unalias(ta.AssertedType).(*types.Named)
		if !ok || n.Obj().Pkg() == nil || n.Obj().Pkg().Path() != "encoding/xml" {
			return
		}
		tok := n.Obj().Name()
		want, known := wantTok[tok]
		if !known {
			return
		}
		if !producesEvents(ta.Parent()) {
			return // a token filter of the adapter (e.g. the XML declaration), not an arm that produces events
		}
		found[tok] = true
		// returns in blocks where the assertion held
		good := true
		detail := ""
		nret := 0
		for _, b := range ta.Parent().Blocks {
			under := false
			for _, a := range guardAtoms(b) {
				if ex, ok := a.V.(*ssa.Extract); ok && ex.Tuple == ssa.Value(ta) && ex.Index == 1 && a.Pol {
					under = true
				}
			}
			if !under {
				continue
			}
			for _, in2 := range b.Instrs {
				ret, ok := in2.(*ssa.Return)
				if !ok || len(ret.Results) < 2 || len(ret.Results) > 3 {
					continue
				}
				nret++
				mi, ok := ret.Results[0].(*ssa.MakeInterface)
				if !ok {
					good, detail = false, "does not return a node"
					continue
				}
				var impl []string
				for _, k := range exclusive {
					if w.implementsNode(mi.X.Type(), k) {
						impl = append(impl, k)
					}
				}
				okKind := false
				for _, k := range impl {
					if k == want {
						okKind = true
					}
				}
				// Element is implied by Attribute; anything else must be exclusive
				for _, k := range impl {
					if k != want && !(want == "Attribute" && k == "Element") {
						okKind = false
					}
				}
				endFlag, isC := ret.Results[1].(*ssa.Const)
				endFalse := isC && endFlag.Value != nil && endFlag.Value.String() == "false"
				if !okKind || !endFalse || (len(ret.Results) == 3 && !isNilConst(ret.Results[2])) {
					good = false
				}
				detail = fmt.Sprintf("returns %s implementing %v, end flag false: %v", mi.X.Type().String(), impl, endFalse)
			}
		}
		if nret == 0 {
			good, detail = false, "arm has no return"
		}
		w.check(P, "R09.2", "token xml."+tok, ta.Pos(), good, detail+"; required node."+want)
	})
	for tok := range wantTok {
		if !found[tok] {
			w.check(P, "R09.2", "token xml."+tok, pull.Pos(), false, "the token switch has no arm for xml."+tok+": such tokens are reported as end events and silently unbalance the tree")
		}
	}
	// end flag true only when all arms failed
	allScope(func(in ssa.Instruction) {
		ret, ok := in.(*ssa.Return)
		if !ok || !producesEvents(in.Parent()) || len(ret.Results) < 2 {
			return
		}
		c, isC := ret.Results[1].(*ssa.Const)
		if !isC || c.Value == nil || c.Value.String() != "true" {
			return
		}
		failed := 0
		for _, a := range scopeGuards(ret.Block(), 0) {
			if ex, ok := a.V.(*ssa.Extract); ok && ex.Index == 1 && !a.Pol {
				if ta, ok := ex.Tuple.(*ssa.TypeAssert); ok {
					if n, ok := types.Unalias(ta.AssertedType).(*types.Named); ok && wantTok[n.Obj().Name()] != "" {
						failed++
					}
				}
			}
		}
		w.check(P, "R09.2", "end event", ret.Pos(), failed == 4 && isNilConst(ret.Results[0]) && (len(ret.Results) < 3 || isNilConst(ret.Results[2])), fmt.Sprintf("end flag true is returned after %d of the 4 node-producing arms failed", failed))
	})
	// every successful return is either (node, false) or (nil, true)
	allScope(func(in ssa.Instruction) {
		ret, ok := in.(*ssa.Return)
		if !ok || !producesEvents(in.Parent()) || len(ret.Results) < 2 || (len(ret.Results) == 3 && !isNilConst(ret.Results[2])) {
			return
		}
		c, isC := ret.Results[1].(*ssa.Const)
		if !isC || c.Value == nil {
			return
		}
		end := c.Value.String() == "true"
		nilNode := isNilConst(ret.Results[0])
		w.check(P, "R09.2", "event shape of a successful return", ret.Pos(), end == nilNode, fmt.Sprintf("node is nil: %v, end flag: %v (a nil node that is not an end event becomes a child whose Node() is nil; a node with the end flag set is lost)", nilNode, end))
	})
	w.floor(P, "R09.2", 9)

	// R09.3 replay order
	w.replayOrder(P, pull)

	// R09.4 error discipline
	w.errorDiscipline(P, pull, "Token")

	// R09.5 charset reader
	rx := w.member("parser", "ReadXml")
	if rx == nil {
		w.undecided(P, "R09.5", "parser.ReadXml", 0, "not found")
	} else {
		ok := false
		csDetail := "no non-nil CharsetReader is installed (without it every document that declares an encoding other than UTF-8 fails)"
		allInstrs(rx, func(in ssa.Instruction) {
			st, isSt := in.(*ssa.Store)
			if !isSt {
				return
			}
			fa, isFA := st.Addr.(*ssa.FieldAddr)
			if !isFA {
				return
			}
			pt, isP := fa.X.Type().Underlying().(*types.Pointer)
			if !isP {
				return
			}
			n, isN := pt.Elem().(*types.Named)
			if !isN || n.Obj().Name() != "Decoder" {
				return
			}
			stt := n.Underlying().(*types.Struct)
			if stt.Field(fa.Field).Name() == "CharsetReader" && !isNilConst(st.Val) {
				// the value must be charset.NewReaderLabel (errors on unknown labels) or a package-local
				// function that reaches it and no content-sniffing fallback
				var target *ssa.Function
				switch v := stripConv(st.Val).(type) {
				case *ssa.Function:
					target = v
				case *ssa.MakeClosure:
					target, _ = v.Fn.(*ssa.Function)
				}
				if target != nil {
					reachesLabel, sniff := funcFullName(target) == "golang.org/x/net/html/charset.NewReaderLabel", false
					if inRepo(target) {
						for g := range staticReach(target, func(x *ssa.Function) bool { return true }) {
							switch funcFullName(g) {
							case "golang.org/x/net/html/charset.NewReaderLabel":
								if g != target {
									reachesLabel = true
								}
							case "golang.org/x/net/html/charset.NewReader", "golang.org/x/net/html/charset.DetermineEncoding":
								sniff = true
							}
						}
						if sniff {
							reachesLabel = false
						}
					}
					ok = reachesLabel
					csDetail = fmt.Sprintf("CharsetReader = %s; resolves declared labels with charset.NewReaderLabel (unknown encodings are an error): %v; falls back to content sniffing: %v", target.Name(), reachesLabel, sniff)
				}
			}
		})
		w.check(P, "R09.5", "xml.Decoder.CharsetReader", rx.Pos(), ok, csDetail)
		direct := false
		allInstrs(rx, func(in ssa.Instruction) {
			if c, isCall := in.(*ssa.Call); isCall && staticCallee(c) != nil && funcFullName(staticCallee(c)) == "encoding/xml.NewDecoder" {
				if c.Call.Args[0] == ssa.Value(rx.Params[0]) {
					direct = true
				}
			}
		})
		w.check(P, "R09.5", "xml.NewDecoder reads the caller's bytes", rx.Pos(), direct, fmt.Sprintf("the decoder is given the caller's reader itself: %v (a transcoding layer in front of it runs before the declared encoding is known and corrupts non-UTF-8 documents or hides invalid bytes)", direct))
	}
	w.floor(P, "R09.5", 2)
	// R09.7 strictness of the decoder
	docRule(P, "R09.7", "F", "the library never relaxes encoding/xml's well-formedness checks: no function of the library packages (the command passes its -u/-e flags as caller options, which is the caller's choice) stores into the Strict (other than the constant true), AutoClose, Entity or DefaultSpace field of an xml.Decoder (Strict=false accepts mismatched/unclosed tags and unknown entities; an Entity map such as xml.HTMLEntity makes undefined entities resolve silently; AutoClose closes elements the document left open). The scanner is the one that finds the CharsetReader store of R09.5, so it sees the decoder's configuration site.")
	{
		var bad []string
		seenFields := map[string]bool{}
		for _, pk := range []string{"parser", "", "store", "exec"} { // the command's -u/-e flags are the user's own request and reach the decoder as options
			w.forAllFuncs(pk, func(fn *ssa.Function) {
				allInstrs(fn, func(in ssa.Instruction) {
					st, isSt := in.(*ssa.Store)
					if !isSt {
						return
					}
					fa, isFA := st.Addr.(*ssa.FieldAddr)
					if !isFA {
						return
					}
					pt, isP := fa.X.Type().Underlying().(*types.Pointer)
					if !isP {
						return
					}
					n, isN := pt.Elem().(*types.Named)
					if !isN || n.Obj().Pkg() == nil || n.Obj().Pkg().Path() != "encoding/xml" || n.Obj().Name() != "Decoder" {
						return
					}
					name := n.Underlying().(*types.Struct).Field(fa.Field).Name()
					seenFields[name] = true
					switch name {
					case "Strict":
						if c, isC := st.Val.(*ssa.Const); isC && c.Value != nil && constant.BoolVal(c.Value) {
							return
						}
						bad = append(bad, fmt.Sprintf("%s: Strict set to a value other than true in %s", w.pos(st.Pos()), fn.Name()))
					case "AutoClose", "Entity", "DefaultSpace":
						if isNilConst(st.Val) {
							return
						}
						if c, isC := st.Val.(*ssa.Const); isC && c.Value != nil && c.Value.Kind() == constant.String && constant.StringVal(c.Value) == "" {
							return
						}
						bad = append(bad, fmt.Sprintf("%s: %s set in %s", w.pos(st.Pos()), name, fn.Name()))
					}
				})
			})
		}
		sort.Strings(bad)
		w.check(P, "R09.7", "xml.Decoder configuration", rxPos(w), len(bad) == 0 && seenFields["CharsetReader"],
			fmt.Sprintf("decoder fields written by the repository: %v; relaxing stores: %v", keys(seenFields), orElse(strings.Join(bad, "; "), "none")))
	}
	w.floor(P, "R09.7", 1)
	// R09.8 the XML declaration is not a processing instruction
	w.xmlDeclarationDiscarded(P, pull)
	// R09.9 adjacent character data is one text node
	w.charDataMerged(P, pull)
	// R09.11 character data outside the document element
	w.topLevelCharData(P, pull)
	// R09.10 xmlns="" removes a binding
	w.namespaceUndeclared(P)
	// namespace nodes belong to their element: ownership rules of the store
	w.include(P, "C10", "R10.2", "R10.3", "R10.5", "R10.8", "R10.9", "R10.10")
	w.include(P, "C17", "R17.5") // the adapters of package parser share no growing package-level state
}

// replayOrder: the decoder call is guarded by both pending lists being drained.
func (w *World) replayOrder(P string, pull *ssa.Function) {
	// pending-list tests: BinOp LSS between a field load (position) and len(field load (list))
	type pend struct {
		listField string
	}
	// listOf: v is the test "the replay position is still inside the list": pos < len(list) or len(list) > pos
	listOf := func(v ssa.Value) string {
		bo, ok := v.(*ssa.BinOp)
		if !ok {
			return ""
		}
		var c *ssa.Call
		switch bo.Op {
		case token.LSS:
			c, _ = bo.Y.(*ssa.Call)
		case token.GTR:
			c, _ = bo.X.(*ssa.Call)
		}
		if c == nil {
			return ""
		}
		if bi, ok := c.Call.Value.(*ssa.Builtin); !ok || bi.Name() != "len" {
			return ""
		}
		ld, ok := c.Call.Args[0].(*ssa.UnOp)
		if !ok {
			return ""
		}
		fa, ok := ld.X.(*ssa.FieldAddr)
		if !ok {
			return ""
		}
		st := fa.X.Type().Underlying().(*types.Pointer).Elem().Underlying().(*types.Struct)
		return st.Field(fa.Field).Name()
	}
	tokenCall, _ := w.tokenSource(pull, "Token", 0)
	if tokenCall == nil {
		w.undecided(P, "R09.3", "replay order", pull.Pos(), "no decoder Token() call")
		return
	}
	drained := map[string]bool{}
	for _, a := range guardAtoms(tokenCall.Block()) {
		if l := listOf(a.V); l != "" && !a.Pol {
			drained[l] = true
		}
	}
	nsList, attrList := "", ""
	st := pull.Params[0].Type().Underlying().(*types.Pointer).Elem().Underlying().(*types.Struct)
	for i := 0; i < st.NumFields(); i++ {
		if sl, ok := st.Field(i).Type().Underlying().(*types.Slice); ok {
			if w.implementsNode(sl.Elem(), "Namespace") {
				nsList = st.Field(i).Name()
			} else if w.implementsNode(sl.Elem(), "Attribute") {
				attrList = st.Field(i).Name()
			}
		}
	}
	w.check(P, "R09.3", "next token only when pending lists are drained", tokenCall.Pos(), drained[nsList] && drained[attrList], fmt.Sprintf("Token() guarded by drained %s: %v, drained %s: %v", nsList, drained[nsList], attrList, drained[attrList]))
	// attribute replay only when namespaces drained
	okAttr := false
	var rscope []*ssa.Function
	for g := range staticReach(pull, func(x *ssa.Function) bool { return fnPkgKey(x) == "parser" }) {
		if fnPkgKey(g) == "parser" {
			rscope = append(rscope, g)
		}
	}
	sortFuncs(rscope)
	forScope := func(visit func(ssa.Instruction)) {
		for _, g := range rscope {
			allInstrs(g, visit)
		}
	}
	forScope(func(in ssa.Instruction) {
		ret, ok := in.(*ssa.Return)
		if !ok || len(ret.Results) < 1 {
			return
		}
		mi, ok := ret.Results[0].(*ssa.MakeInterface)
		if !ok || !w.implementsNode(mi.X.Type(), "Attribute") {
			return
		}
		for _, a := range guardAtoms(ret.Block()) {
			if l := listOf(a.V); l == nsList && !a.Pol {
				okAttr = true
			}
		}
	})
	w.check(P, "R09.3", "attributes replayed after namespaces", pull.Pos(), okAttr, fmt.Sprintf("a pending attribute is returned only when the pending namespaces are drained: %v", okAttr))
	w.floor(P, "R09.3", 2)
}

// errorDiscipline checks the decoder-error path of a pull adapter and the store/xsel propagation.
func (w *World) errorDiscipline(P string, pull *ssa.Function, tokenMethod string) {
	tokenCall, okRet, okOrder, via := w.errPropagation(pull, tokenMethod, 0)
	if tokenCall == nil {
		w.undecided(P, "R09.4", "decoder error", pull.Pos(), "no decoder call")
		return
	}
	w.check(P, "R09.4", "decoder error returned by "+pull.String(), tokenCall.Pos(), okRet && okOrder, fmt.Sprintf("returns (nil, _, err) when err != nil: %v; every node-producing return is reached only with err == nil: %v%s", okRet, okOrder, via))

	// store: nil only under errors.Is(err, io.EOF)
	sf := w.StoreFacts()
	_ = sf
	n := 0
	w.forAllFuncs("store", func(fn *ssa.Function) {
		var pullErr ssa.Value
		allInstrs(fn, func(in ssa.Instruction) {
			if c, ok := in.(*ssa.Call); ok && c.Call.IsInvoke() && c.Call.Method.Name() == "Pull" {
				for _, rr := range referrers(c) {
					if ex, ok := rr.(*ssa.Extract); ok && ex.Index == 2 {
						pullErr = ex
					}
				}
			}
		})
		if pullErr == nil {
			return
		}
		if es := storeEventSource(fn); es != nil && len(es.pulls) > 1 && es.err != nil {
			pullErr = es.err // several Pull sites feed one loop variable
		}
		n++
		eofGuardedNil, otherReturned := false, false
		allInstrs(fn, func(in ssa.Instruction) {
			ret, ok := in.(*ssa.Return)
			if !ok || len(ret.Results) != 1 {
				return
			}
			if ret.Results[0] == pullErr {
				for _, a := range guardAtoms(ret.Block()) {
					if bo, ok := a.V.(*ssa.BinOp); ok && bo.X == pullErr && isNilConst(bo.Y) && bo.Op == token.NEQ && a.Pol {
						otherReturned = true
					}
				}
			}
			if isNilConst(ret.Results[0]) {
				for _, a := range guardAtoms(ret.Block()) {
					if c, ok := a.V.(*ssa.Call); ok && a.Pol && staticCallee(c) != nil && funcFullName(staticCallee(c)) == "errors.Is" && c.Call.Args[0] == pullErr {
						if ld, ok := c.Call.Args[1].(*ssa.UnOp); ok {
							if g, ok := ld.X.(*ssa.Global); ok && g.Name() == "EOF" {
								eofGuardedNil = true
							}
						}
					}
				}
			}
		})
		// any other nil return?
		otherNil := false
		allInstrs(fn, func(in ssa.Instruction) {
			ret, ok := in.(*ssa.Return)
			if !ok || len(ret.Results) != 1 || !isNilConst(ret.Results[0]) {
				return
			}
			eof := false
			for _, a := range guardAtoms(ret.Block()) {
				if c, ok := a.V.(*ssa.Call); ok && a.Pol && staticCallee(c) != nil && funcFullName(staticCallee(c)) == "errors.Is" {
					eof = true
				}
			}
			if !eof {
				otherNil = true
			}
		})
		w.check(P, "R09.4", "store: event-stream errors in "+fn.Name(), fn.Pos(), eofGuardedNil && otherReturned && !otherNil, fmt.Sprintf("nil is returned only under errors.Is(err, io.EOF): %v; any other non-nil error is returned: %v; other nil returns: %v", eofGuardedNil, otherReturned, otherNil))
	})
	if n == 0 {
		w.undecided(P, "R09.4", "store: event-stream errors", 0, "no Pull call in store")
	}
	// CreateInMemory returns the error of the consumer
	entry := w.member("store", "CreateInMemory")
	okEntry := false
	allInstrs(entry, func(in ssa.Instruction) {
		ret, ok := in.(*ssa.Return)
		if !ok || len(ret.Results) != 2 {
			return
		}
		if c, ok := ret.Results[1].(*ssa.Call); ok && staticCallee(c) != nil && fnPkgKey(staticCallee(c)) == "store" {
			okEntry = true
		}
	})
	w.check(P, "R09.4", "store.CreateInMemory returns the consumer's error", entry.Pos(), okEntry, fmt.Sprintf("%v", okEntry))
	// public readers return CreateInMemory's results
	for _, name := range []string{"ReadXml", "ReadHtml", "ReadJson"} {
		fn := w.member("", name)
		if fn == nil {
			w.check(P, "R09.4", "xsel."+name, 0, false, "public reader missing")
			continue
		}
		ok := false
		allInstrs(fn, func(in ssa.Instruction) {
			ret, isRet := in.(*ssa.Return)
			if !isRet || len(ret.Results) != 2 {
				return
			}
			if ex, isEx := ret.Results[1].(*ssa.Extract); isEx {
				if c, isC := ex.Tuple.(*ssa.Call); isC && staticCallee(c) == entry && ex.Index == 1 {
					ok = true
				}
			}
		})
		w.check(P, "R09.4", "xsel."+name+" returns the store's error", fn.Pos(), ok, fmt.Sprintf("%v", ok))
	}
	w.floorSites(P, "R09.4", 6)
}

func rxPos(w *World) token.Pos {
	if rx := w.member("parser", "ReadXml"); rx != nil {
		return rx.Pos()
	}
	return token.NoPos
}

// xmlDeclarationDiscarded (R09.8): encoding/xml reports `<?xml version="1.0"?>` as a ProcInst token with the target
// "xml". The XPath data model has no node for the XML declaration, so somewhere between Decoder.Token() and the
// construction of a processing-instruction node the adapter has to compare the target with "xml" and drop the token:
// from the true edge of that comparison no path may reach a return of the function without first obtaining a fresh
// token (the next iteration of a read loop, or a recursive pull).
func (w *World) xmlDeclarationDiscarded(P string, pull *ssa.Function) {
	docRule(P, "R09.8", "D", "the XML declaration is not a node: in the XML pull adapter (Pull and the functions of the package it calls) the Target of a ProcInst token is compared with the constant \"xml\", and from the edge on which they are equal every path obtains a new token (Decoder.Token/RawToken or a recursive call into the adapter) before it reaches a return: the declaration token is dropped, never turned into a processing-instruction node or an end event.")
	var scope []*ssa.Function
	for g := range staticReach(pull, func(x *ssa.Function) bool { return fnPkgKey(x) == "parser" }) {
		if fnPkgKey(g) == "parser" {
			scope = append(scope, g)
		}
	}
	sortFuncs(scope)
	inScope := map[*ssa.Function]bool{}
	for _, g := range scope {
		inScope[g] = true
	}
	fresh := func(b *ssa.BasicBlock) bool {
		for _, in := range b.Instrs {
			c, ok := in.(ssa.CallInstruction)
			if !ok {
				continue
			}
			if sc := c.Common().StaticCallee(); sc != nil {
				fn := funcFullName(sc)
				if fn == "(*encoding/xml.Decoder).Token" || fn == "(*encoding/xml.Decoder).RawToken" || inScope[sc] && sc.Signature.Results().Len() >= 2 {
					return true
				}
			}
		}
		return false
	}
	n := 0
	for _, g := range scope {
		allInstrs(g, func(in ssa.Instruction) {
			bo, ok := in.(*ssa.BinOp)
			if !ok || (bo.Op != token.EQL && bo.Op != token.NEQ) {
				return
			}
			var other ssa.Value
			if s, isC := constString(bo.Y); isC && s == "xml" {
				other = bo.X
			} else if s, isC := constString(bo.X); isC && s == "xml" {
				other = bo.Y
			} else {
				return
			}
			// other is the Target field of an xml.ProcInst
			isTarget := false
			switch x := other.(type) {
			case *ssa.Field:
				if nt, ok := types.Unalias(x.X.Type()).(*types.Named); ok && nt.Obj().Pkg() != nil && nt.Obj().Pkg().Path() == "encoding/xml" && nt.Obj().Name() == "ProcInst" {
					isTarget = nt.Underlying().(*types.Struct).Field(x.Field).Name() == "Target"
				}
			case *ssa.UnOp:
				if fa, ok := x.X.(*ssa.FieldAddr); ok {
					if pt, ok := fa.X.Type().Underlying().(*types.Pointer); ok {
						if nt, ok := types.Unalias(pt.Elem()).(*types.Named); ok && nt.Obj().Pkg() != nil && nt.Obj().Pkg().Path() == "encoding/xml" && nt.Obj().Name() == "ProcInst" {
							isTarget = nt.Underlying().(*types.Struct).Field(fa.Field).Name() == "Target"
						}
					}
				}
			}
			if !isTarget {
				return
			}
			n++
			// the If that branches on this comparison
			var iff *ssa.If
			for _, rr := range referrers(bo) {
				if x, ok := rr.(*ssa.If); ok {
					iff = x
				}
			}
			if iff == nil {
				w.undecided(P, "R09.8", "comparison of a ProcInst target with \"xml\" in "+g.Name(), bo.Pos(), "the comparison does not feed a branch directly")
				return
			}
			eqSucc := iff.Block().Succs[0]
			if bo.Op == token.NEQ {
				eqSucc = iff.Block().Succs[1]
			}
			// search from the equal edge for a return that is reached without a fresh token
			seen := map[*ssa.BasicBlock]bool{}
			var bad *ssa.Return
			var walk func(b *ssa.BasicBlock)
			walk = func(b *ssa.BasicBlock) {
				if seen[b] || bad != nil {
					return
				}
				seen[b] = true
				if fresh(b) {
					return
				}
				for _, in2 := range b.Instrs {
					if ret, ok := in2.(*ssa.Return); ok {
						bad = ret
						return
					}
				}
				for _, s := range b.Succs {
					walk(s)
				}
			}
			walk(eqSucc)
			ok2 := bad == nil
			d := "from the edge on which the target equals \"xml\" every path reads a new token before returning"
			if !ok2 {
				d = "the token with target \"xml\" reaches the return at " + w.pos(bad.Pos()) + " without a new token being read: the XML declaration is handed on"
			}
			w.check(P, "R09.8", "XML declaration dropped in "+g.Name(), bo.Pos(), ok2, d)
		})
	}
	if n == 0 {
		w.check(P, "R09.8", "XML declaration", pull.Pos(), false, "nothing in the XML pull adapter compares a ProcInst target with \"xml\": the XML declaration `<?xml version=...?>` becomes a processing-instruction child of the root (count(/processing-instruction()) = 1 for a document without processing instructions)")
	}
	w.floor(P, "R09.8", 1)
}

// tokenSource: the call in fn through which the adapter obtains its next token: a direct call of the decoder's
// method, or a call of a helper of the same package (last result an error) that obtains it the same way.
func (w *World) tokenSource(fn *ssa.Function, tokenMethod string, depth int) (*ssa.Call, bool) {
	var direct, viaHelper *ssa.Call
	allInstrs(fn, func(in ssa.Instruction) {
		c, ok := in.(*ssa.Call)
		if !ok || staticCallee(c) == nil {
			return
		}
		sc := staticCallee(c)
		if strings.HasSuffix(funcFullName(sc), "."+tokenMethod) && !inRepo(sc) {
			direct = c
			return
		}
		if depth < 3 && inRepo(sc) && fnPkgKey(sc) == fnPkgKey(fn) && sc != fn && lastResultIsError(sc) && sc.Signature.Results().Len() >= 2 {
			if inner, _ := w.tokenSource(sc, tokenMethod, depth+1); inner != nil {
				viaHelper = c
			}
		}
	})
	if direct != nil {
		return direct, false
	}
	return viaHelper, viaHelper != nil
}

func lastResultIsError(fn *ssa.Function) bool {
	res := fn.Signature.Results()
	if res.Len() == 0 {
		return false
	}
	n, ok := res.At(res.Len() - 1).Type().(*types.Named)
	return ok && n.Obj().Pkg() == nil && n.Obj().Name() == "error"
}

// errPropagation: in fn the error of the token source is returned unchanged (with a nil first result) when it is
// not nil, and every other return after the token source is reached only with a nil error. When the token source
// is a helper, the same has to hold inside the helper.
func (w *World) errPropagation(fn *ssa.Function, tokenMethod string, depth int) (call *ssa.Call, okRet, okOrder bool, via string) {
	tokenCall, isHelper := w.tokenSource(fn, tokenMethod, depth)
	if tokenCall == nil {
		return nil, false, false, ""
	}
	nres := fn.Signature.Results().Len()
	errIdx := staticCallee(tokenCall).Signature.Results().Len() - 1
	var errV ssa.Value
	for _, rr := range referrers(tokenCall) {
		if ex, ok := rr.(*ssa.Extract); ok && ex.Index == errIdx {
			errV = ex
		}
	}
	allInstrs(fn, func(in ssa.Instruction) {
		ret, ok := in.(*ssa.Return)
		if !ok || len(ret.Results) != nres || nres == 0 {
			return
		}
		if ret.Results[nres-1] == errV && isNilConst(ret.Results[0]) {
			for _, a := range guardAtoms(ret.Block()) {
				if bo, ok := a.V.(*ssa.BinOp); ok && bo.X == errV && isNilConst(bo.Y) && ((bo.Op == token.NEQ && a.Pol) || (bo.Op == token.EQL && !a.Pol)) {
					okRet = true
				}
			}
		}
		// `return decoder.Token()`: both results handed on as they are
		if ret.Results[nres-1] == errV && nres == 2 {
			if ex, ok := ret.Results[0].(*ssa.Extract); ok && ex.Tuple == ssa.Value(tokenCall) && ex.Index == 0 {
				okRet = true
			}
		}
	})
	okOrder = true
	allInstrs(fn, func(in ssa.Instruction) {
		ret, ok := in.(*ssa.Return)
		if !ok || len(ret.Results) != nres || nres == 0 || ret.Results[nres-1] == errV {
			return
		}
		if !tokenCall.Block().Dominates(ret.Block()) || tokenCall.Block() == ret.Block() {
			return
		}
		nilTested := false
		for _, a := range guardAtoms(ret.Block()) {
			if bo, ok := a.V.(*ssa.BinOp); ok && bo.X == errV && isNilConst(bo.Y) && ((bo.Op == token.NEQ && !a.Pol) || (bo.Op == token.EQL && a.Pol)) {
				nilTested = true
			}
		}
		if !nilTested {
			okOrder = false
		}
	})
	if isHelper {
		h := staticCallee(tokenCall)
		_, hRet, hOrder, hVia := w.errPropagation(h, tokenMethod, depth+1)
		okRet = okRet && hRet
		okOrder = okOrder && hOrder
		via = fmt.Sprintf(" (token obtained through %s, which returns the decoder's error unchanged: %v, and a token only with a nil error: %v%s)", h.Name(), hRet, hOrder, hVia)
	}
	return tokenCall, okRet, okOrder, via
}

// charDataMerged (R09.9): encoding/xml delivers the text before a CDATA section, the section and the text after it as
// separate CharData tokens; the XPath data model has one text node for them ("as much character data as possible is
// grouped into each text node"). An adapter that turns every CharData token into a node of its own therefore builds
// too many text nodes. Necessary shape of any adapter that merges them: it reads ahead. Somewhere in the adapter
//
//	(a) a loop calls the decoder's Token() and tests the new token for CharData, and on the matching edge stays in
//	    the loop with the bytes concatenated to what it has;
//	(b) on the other edge the token that was read ahead is kept in a field of the adapter (nothing else survives
//	    until the next Pull), and so is an error met while reading ahead, unless it is returned at once;
//	(c) the kept token is handed out before the decoder is asked again: the function that loads that field calls
//	    Token() only under the test that the field is empty.
func (w *World) charDataMerged(P string, pull *ssa.Function) {
	docRule(P, "R09.9", "D+F", "adjacent character data (text, CDATA sections) forms one text node: the XML pull adapter contains a read-ahead loop that calls Decoder.Token(), concatenates while the new token is xml.CharData and otherwise stores the token read ahead (and an error met there) into a field of the adapter; the function that reads that field back calls Decoder.Token() only when the field is empty, so no token is lost or delivered out of order.")
	var scope []*ssa.Function
	for g := range staticReach(pull, func(x *ssa.Function) bool { return fnPkgKey(x) == "parser" }) {
		if fnPkgKey(g) == "parser" {
			scope = append(scope, g)
		}
	}
	sortFuncs(scope)
	isToken := func(in ssa.Instruction) *ssa.Call {
		c, ok := in.(*ssa.Call)
		if !ok || staticCallee(c) == nil {
			return nil
		}
		if fn := funcFullName(staticCallee(c)); fn == "(*encoding/xml.Decoder).Token" || fn == "(*encoding/xml.Decoder).RawToken" {
			return c
		}
		return nil
	}
	isXML := func(t types.Type, name string) bool {
		n, ok := types.Unalias(t).(*types.Named)
		return ok && n.Obj().Pkg() != nil && n.Obj().Pkg().Path() == "encoding/xml" && n.Obj().Name() == name
	}
	type found struct {
		fn        *ssa.Function
		tok       *ssa.Call
		ta        *ssa.TypeAssert
		concat    bool
		keptField int
		errKept   bool
	}
	var loops []found
	for _, g := range scope {
		lb := loopBlocks(g)
		allInstrs(g, func(in ssa.Instruction) {
			tc := isToken(in)
			if tc == nil || !lb[tc.Block()] {
				return
			}
			// the token value and its CharData test inside the loop
			var tokV, errV ssa.Value
			for _, rr := range referrers(tc) {
				if ex, ok := rr.(*ssa.Extract); ok {
					if ex.Index == 0 {
						tokV = ex
					} else {
						errV = ex
					}
				}
			}
			if tokV == nil {
				return
			}
			var ta *ssa.TypeAssert
			for _, rr := range referrers(tokV) {
				if x, ok := rr.(*ssa.TypeAssert); ok && x.CommaOk && isXML(x.AssertedType, "CharData") && lb[x.Block()] {
					ta = x
				}
			}
			if ta == nil {
				return
			}
			f := found{fn: g, tok: tc, ta: ta, keptField: -1}
			// (a) concatenation of the asserted bytes inside the loop
			var val ssa.Value
			for _, rr := range referrers(ta) {
				if ex, ok := rr.(*ssa.Extract); ok && ex.Index == 0 {
					val = ex
				}
			}
			if val != nil {
				seen := map[ssa.Value]bool{}
				var flows func(v ssa.Value, depth int)
				flows = func(v ssa.Value, depth int) {
					if seen[v] || depth > 6 {
						return
					}
					seen[v] = true
					for _, rr := range referrers(v) {
						switch x := rr.(type) {
						case *ssa.Call:
							if bi, ok := x.Call.Value.(*ssa.Builtin); ok && bi.Name() == "append" && lb[x.Block()] {
								f.concat = true
							}
						case *ssa.BinOp:
							if x.Op == token.ADD && lb[x.Block()] {
								f.concat = true
							}
						case *ssa.Convert:
							flows(x, depth+1)
						case *ssa.ChangeType:
							flows(x, depth+1)
						case *ssa.Slice:
							flows(x, depth+1)
						}
					}
				}
				flows(val, 0)
			}
			// (b) the token read ahead is stored into a field of the adapter where the assertion failed
			allInstrs(g, func(in2 ssa.Instruction) {
				st, ok := in2.(*ssa.Store)
				if !ok {
					return
				}
				fa, ok := st.Addr.(*ssa.FieldAddr)
				if !ok || len(g.Params) == 0 || fa.X != ssa.Value(g.Params[0]) {
					return
				}
				if sliceContains(st.Val, func(v ssa.Value) bool { return v == tokV }) {
					f.keptField = fa.Field
				}
				if errV != nil && sliceContains(st.Val, func(v ssa.Value) bool { return v == errV }) {
					f.errKept = true
				}
			})
			// an error returned at once is as good as a kept one
			if errV != nil && !f.errKept {
				allInstrs(g, func(in2 ssa.Instruction) {
					if ret, ok := in2.(*ssa.Return); ok {
						for _, rv := range ret.Results {
							if rv == errV {
								f.errKept = true
							}
						}
					}
				})
			}
			loops = append(loops, f)
		})
	}
	if len(loops) == 0 {
		w.check(P, "R09.9", "read-ahead over character data", pull.Pos(), false, "no loop of the XML pull adapter calls Decoder.Token() and tests the token for xml.CharData: every CharData token becomes a text node of its own, so `<a>x<![CDATA[y]]>z</a>` has three text children instead of one")
		w.floor(P, "R09.9", 1)
		return
	}
	for _, f := range loops {
		w.check(P, "R09.9", "read-ahead loop in "+f.fn.Name()+": character data is concatenated", f.tok.Pos(), f.concat, fmt.Sprintf("the bytes of a following CharData token are appended inside the loop: %v", f.concat))
		w.check(P, "R09.9", "read-ahead loop in "+f.fn.Name()+": the token read ahead is kept", f.ta.Pos(), f.keptField >= 0 && f.errKept, fmt.Sprintf("a token that is not character data is stored into a field of the adapter: %v; an error met while reading ahead is stored or returned: %v", f.keptField >= 0, f.errKept))
		if f.keptField < 0 {
			continue
		}
		// (c) the field is read back before the decoder is asked again
		readers := 0
		okOrder := true
		detail := ""
		for _, g := range scope {
			var loads []ssa.Value
			allInstrs(g, func(in ssa.Instruction) {
				if ld, ok := in.(*ssa.UnOp); ok && ld.Op == token.MUL {
					if fa, ok := ld.X.(*ssa.FieldAddr); ok && fa.Field == f.keptField && len(g.Params) > 0 && fa.X == ssa.Value(g.Params[0]) {
						loads = append(loads, ld)
					}
				}
			})
			if len(loads) == 0 {
				continue
			}
			readers++
			// every Token() call of this function outside the read-ahead loop is guarded by "field is nil"
			allInstrs(g, func(in ssa.Instruction) {
				tc := isToken(in)
				if tc == nil || tc == f.tok {
					return
				}
				guarded := false
				for _, a := range guardAtoms(tc.Block()) {
					bo, ok := a.V.(*ssa.BinOp)
					if !ok {
						continue
					}
					for _, ld := range loads {
						if (bo.X == ld && isNilConst(bo.Y)) || (bo.Y == ld && isNilConst(bo.X)) {
							if (bo.Op == token.EQL && a.Pol) || (bo.Op == token.NEQ && !a.Pol) {
								guarded = true
							}
						}
					}
				}
				if !guarded {
					okOrder = false
					detail = "Decoder.Token() at " + w.pos(tc.Pos()) + " is called without testing that no token is waiting"
				}
			})
		}
		w.check(P, "R09.9", "the token read ahead is delivered first", f.ta.Pos(), readers > 0 && okOrder, orElse(detail, fmt.Sprintf("functions reading the kept token back: %d; each asks the decoder only when nothing is waiting: %v", readers, okOrder)))
		// (d) every character-data token that is handed on went through the merge: no return of the adapter's token
		// functions, reached with the token known to be xml.CharData, returns the token as the decoder delivered it
		var raw []string
		for _, g := range scope {
			if g == f.fn {
				continue
			}
			allInstrs(g, func(in ssa.Instruction) {
				ret, ok := in.(*ssa.Return)
				if !ok || len(ret.Results) < 2 || !isNilConst(ret.Results[len(ret.Results)-1]) {
					return
				}
				for _, a := range guardAtoms(ret.Block()) {
					ex, ok := a.V.(*ssa.Extract)
					if !ok || !a.Pol || ex.Index != 1 {
						continue
					}
					ta, ok := ex.Tuple.(*ssa.TypeAssert)
					if !ok || ta.AssertedType.String() != "encoding/xml.CharData" {
						continue
					}
					// what is returned: the asserted token itself (or the interface it was asserted from)?
					for _, rv := range ret.Results[:len(ret.Results)-1] {
						v := stripConv(rv)
						if ex0, isEx := v.(*ssa.Extract); isEx && ex0.Tuple == ssa.Value(ta) && ex0.Index == 0 {
							raw = append(raw, w.pos(ret.Pos())+" in "+g.Name())
						}
						if v == ta.X {
							raw = append(raw, w.pos(ret.Pos())+" in "+g.Name())
						}
					}
				}
			})
		}
		sort.Strings(raw)
		w.check(P, "R09.9", "no character-data token bypasses the merge", f.ta.Pos(), len(raw) == 0, fmt.Sprintf("returns that hand on an xml.CharData token as the decoder delivered it: %s (text next to it - a CDATA section after indentation - then becomes a second text node)", orElse(strings.Join(raw, "; "), "none")))
	}
	w.floor(P, "R09.9", 1)
}

// namespaceUndeclared (R09.10): `xmlns=""` is not a namespace binding: the element and its descendants have no
// namespace node for the default namespace. The XML adapter reports it as a namespace event with an empty value
// (it cannot know what the store inherited), so the store has to keep such an event out of the element's list and
// must not let the element inherit the parent's node for that prefix. Two shapes are recognised:
//
//	A (inherit first): nodes are constructed only for non-empty values, and on an empty value the inherited entry
//	  of that prefix is taken out of the list;
//	B (declarations first): the element's declarations are collected as they come; the function that completes the
//	  list keeps a declared node only under NamespaceValue() != "" and tests the parent's prefixes against the
//	  unfiltered declarations (so an un-declaration still blocks the inheritance of its prefix).
func (w *World) namespaceUndeclared(P string) {
	docRule(P, "R09.10", "D+F", "an empty namespace name un-declares: in package store either (A) every constructor call for a node.Namespace is reached only under NamespaceValue() != \"\" and on the empty path the list is stored back without the entry of that prefix, or (B) the function that rebuilds an element's namespaces list keeps a declared entry only under NamespaceValue() != \"\" and hands the unfiltered declarations to the prefix test that decides what is inherited from the parent: `<b xmlns=\"\"/>` has no namespace node with an empty URI and does not keep the default namespace of its parent.")
	sf := w.StoreFacts()
	// shape B
	type rebuild struct {
		fn       *ssa.Function
		keeps    int
		keepsOK  bool
		predOK   bool
		predSeen bool
	}
	var rb *rebuild
	w.forAllFuncs("store", func(fn *ssa.Function) {
		if len(fn.Params) == 0 {
			return
		}
		E := ssa.Value(fn.Params[0])
		if pt, ok := E.Type().(*types.Pointer); !ok || !types.Identical(pt.Elem(), sf.T) {
			// a method of a builder object: the element is the (single) read of its cursor field
			cf, okB := builderCursorField(fn, sf)
			if !okB {
				return
			}
			var loads []ssa.Value
			stored := false
			allInstrs(fn, func(in ssa.Instruction) {
				switch x := in.(type) {
				case *ssa.UnOp:
					if fa, ok := x.X.(*ssa.FieldAddr); ok && x.Op == token.MUL && fa.X == ssa.Value(fn.Params[0]) && fa.Field == cf {
						loads = append(loads, x)
					}
				case *ssa.Store:
					if fa, ok := x.Addr.(*ssa.FieldAddr); ok && fa.X == ssa.Value(fn.Params[0]) && fa.Field == cf {
						stored = true
					}
				}
			})
			if len(loads) != 1 || stored {
				return
			}
			E = loads[0]
		}
		// the rebuild may be spread over helpers of the package that fn calls (`E.namespaces = keepBinding(declared, n)`,
		// `copyFromParent(E, declared, pos)`): each is read with its parameters standing for the values fn passes
		type frame struct {
			g    *ssa.Function
			bind map[ssa.Value]ssa.Value
		}
		frames := []frame{{fn, nil}}
		allInstrs(fn, func(in ssa.Instruction) {
			c, ok := in.(*ssa.Call)
			if !ok {
				return
			}
			h := staticCallee(c)
			if h == nil || h == fn || fnPkgKey(h) != "store" || len(h.Blocks) == 0 || len(frames) > 6 {
				return
			}
			if _, isCtor := sf.Ctors[h]; isCtor {
				return
			}
			b := map[ssa.Value]ssa.Value{}
			for i, p := range h.Params {
				if i < len(c.Call.Args) {
					b[p] = c.Call.Args[i]
				}
			}
			frames = append(frames, frame{h, b})
		})
		resolve := func(fr frame, v ssa.Value) ssa.Value {
			if fr.bind != nil {
				if a, ok := fr.bind[v]; ok {
					return a
				}
			}
			return v
		}
		// a store of a freshly made slice into E.namespaces
		fresh := false
		allInstrs(fn, func(in ssa.Instruction) {
			st, ok := in.(*ssa.Store)
			if !ok {
				return
			}
			fa, ok := st.Addr.(*ssa.FieldAddr)
			if !ok || fa.X != E || sf.roleOf(fa.Field) != "namespaces" {
				return
			}
			if _, isMake := st.Val.(*ssa.MakeSlice); isMake {
				fresh = true
			}
			// ... or of the list a helper builds from a fresh slice
			if c, isCall := st.Val.(*ssa.Call); isCall {
				if h := staticCallee(c); h != nil && fnPkgKey(h) == "store" && len(h.Blocks) > 0 {
					all, n := true, 0
					allInstrs(h, func(in2 ssa.Instruction) {
						if ret, isRet := in2.(*ssa.Return); isRet && len(ret.Results) == 1 {
							n++
							if !sliceContains(ret.Results[0], func(v ssa.Value) bool { _, isMk := v.(*ssa.MakeSlice); return isMk }) {
								all = false
							}
						}
					})
					if all && n > 0 {
						fresh = true
					}
				}
			}
		})
		if !fresh {
			return
		}
		r := &rebuild{fn: fn, keepsOK: true}
		// D: loads of E.namespaces
		isD := func(v ssa.Value) bool {
			ld, ok := v.(*ssa.UnOp)
			if !ok || ld.Op != token.MUL {
				return false
			}
			fa, ok := ld.X.(*ssa.FieldAddr)
			return ok && fa.X == E && sf.roleOf(fa.Field) == "namespaces"
		}
		// the load that the keep loop ranges over: a load of E.namespaces whose elements are appended
		var D ssa.Value
		for _, fr := range frames {
			fr := fr
			allInstrs(fr.g, func(in ssa.Instruction) {
				c, ok := in.(*ssa.Call)
				if !ok {
					return
				}
				b, ok := c.Call.Value.(*ssa.Builtin)
				if !ok || b.Name() != "append" || len(c.Call.Args) != 2 {
					return
				}
				var src ssa.Value
				sliceContains(c.Call.Args[1], func(v ssa.Value) bool {
					if ia, ok := v.(*ssa.IndexAddr); ok && isD(resolve(fr, ia.X)) {
						src = resolve(fr, ia.X)
						return true
					}
					return false
				})
				if src == nil {
					return
				}
				D = src
				r.keeps++
				guarded := false
				for _, a := range guardAtoms(c.Block()) {
					if isT, eqTrue := emptyNamespaceTest(a.V); isT && a.Pol != eqTrue {
						guarded = true
					}
				}
				if !guarded {
					r.keepsOK = false
				}
			})
		}
		if r.keeps == 0 {
			return
		}
		// the prefix test gets the unfiltered declarations
		for _, fr := range frames {
			fr := fr
			allInstrs(fr.g, func(in ssa.Instruction) {
				c, ok := in.(*ssa.Call)
				if !ok {
					return
				}
				sc := staticCallee(c)
				if sc == nil || fnPkgKey(sc) != "store" || !comparesPrefix(sc) || len(c.Call.Args) == 0 {
					return
				}
				r.predSeen = true
				if resolve(fr, c.Call.Args[0]) == D {
					r.predOK = true
				}
			})
		}
		// inline form of the prefix test: a comparison of Prefix() values one of which belongs to an element of D
		if !r.predSeen {
			for _, fr := range frames {
				fr := fr
				allInstrs(fr.g, func(in ssa.Instruction) {
					bo, ok := in.(*ssa.BinOp)
					if !ok || (bo.Op != token.EQL && bo.Op != token.NEQ) {
						return
					}
					rx, okx := isMethodCall(bo.X, "Prefix")
					ry, oky := isMethodCall(bo.Y, "Prefix")
					if !okx || !oky {
						return
					}
					r.predSeen = true
					for _, recv := range []ssa.Value{rx, ry} {
						if sliceContains(recv, func(v ssa.Value) bool {
							ia, ok := v.(*ssa.IndexAddr)
							return ok && resolve(fr, ia.X) == D
						}) {
							r.predOK = true
						}
					}
				})
			}
		}
		rb = r
	})
	if rb != nil {
		w.check(P, "R09.10", "declared namespaces kept by "+rb.fn.Name(), rb.fn.Pos(), rb.keepsOK, fmt.Sprintf("every declared entry that is kept in the rebuilt list is kept under NamespaceValue() != \"\": %v (%d keep sites)", rb.keepsOK, rb.keeps))
		w.check(P, "R09.10", "un-declarations block inheritance in "+rb.fn.Name(), rb.fn.Pos(), rb.predSeen && rb.predOK, fmt.Sprintf("the prefix test that decides what is inherited is given the unfiltered declarations: %v (with the filtered list an `xmlns=\"\"` would be forgotten and the parent's default namespace inherited again)", rb.predSeen && rb.predOK))
		w.floor(P, "R09.10", 2)
		return
	}
	// shape A
	n := 0
	w.forAllFuncs("store", func(fn *ssa.Function) {
		allInstrs(fn, func(in ssa.Instruction) {
			c, ok := in.(*ssa.Call)
			if !ok {
				return
			}
			ci, isCtor := sf.Ctors[staticCallee(c)]
			if !isCtor || ci.NodeParam < 0 || ci.NodeParam >= len(c.Call.Args) {
				return
			}
			arg := c.Call.Args[ci.NodeParam]
			isNS := false
			backSlice(arg, func(v ssa.Value) bool {
				if nm, _ := nodeIface(v.Type()); nm != nil && nm.Obj().Name() == "Namespace" {
					isNS = true
					return false
				}
				_, isCall := v.(*ssa.Call)
				return !isCall
			})
			if !isNS {
				return
			}
			n++
			guarded := false
			for _, a := range guardAtoms(c.Block()) {
				if isT, eqTrue := emptyNamespaceTest(a.V); isT && a.Pol != eqTrue {
					guarded = true
				}
			}
			w.check(P, "R09.10", "namespace node constructed in "+fn.Name(), c.Pos(), guarded, fmt.Sprintf("the constructor call is reached only when NamespaceValue() is not empty: %v (otherwise xmlns=\"\" yields a namespace node with an empty URI, and the inherited default namespace node is replaced by it instead of being removed)", guarded))
		})
	})
	if n == 0 {
		w.undecided(P, "R09.10", "namespace node construction", 0, "no constructor call with a node.Namespace argument found in package store")
	}
	// removal on the empty path
	removed := false
	var where token.Pos
	w.forAllFuncs("store", func(fn *ssa.Function) {
		allInstrs(fn, func(in ssa.Instruction) {
			c, ok := in.(*ssa.Call)
			if !ok {
				return
			}
			b, ok := c.Call.Value.(*ssa.Builtin)
			if !ok || b.Name() != "append" || len(c.Call.Args) != 2 {
				return
			}
			s1, ok1 := c.Call.Args[0].(*ssa.Slice)
			s2, ok2 := c.Call.Args[1].(*ssa.Slice)
			if !ok1 || !ok2 || s1.High == nil || s2.Low == nil {
				return
			}
			bo, ok := s2.Low.(*ssa.BinOp)
			if !ok || bo.Op != token.ADD || bo.X != s1.High {
				return
			}
			if k, isK := constInt(bo.Y); !isK || k != 1 {
				return
			}
			emptyPath := false
			for _, a := range guardAtoms(c.Block()) {
				if isT, eqTrue := emptyNamespaceTest(a.V); isT && a.Pol == eqTrue {
					emptyPath = true
				}
			}
			storedBack := false
			for _, rr := range referrers(c) {
				if st, ok := rr.(*ssa.Store); ok {
					if fa, ok := st.Addr.(*ssa.FieldAddr); ok && sf.roleOf(fa.Field) == "namespaces" {
						storedBack = true
					}
				}
			}
			if emptyPath && storedBack {
				removed = true
				where = c.Pos()
			}
		})
	})
	w.check(P, "R09.10", "inherited binding removed on an empty namespace name", where, removed, fmt.Sprintf("on the path where NamespaceValue() is empty the namespaces list is stored back without the entry of that prefix: %v", removed))
	w.floor(P, "R09.10", 2)
}

// topLevelCharData (R09.11): white space before and after the document element is not part of the XPath data model
// (the root node has the document element, comments and processing instructions as children, never text), but
// encoding/xml reports it as CharData tokens like any other. An adapter that does not know whether it is inside an
// element cannot tell the two apart. Necessary shape:
//
//	(a) an integer field of the adapter is incremented where the token is an xml.StartElement and decremented where
//	    it is an xml.EndElement (the nesting depth);
//	(b) inside the xml.CharData arm a branch compares that field with 0, and from its "depth is zero" edge some
//	    path obtains a new token without returning (the character data can be dropped there).
func (w *World) topLevelCharData(P string, pull *ssa.Function) {
	docRule(P, "R09.11", "D+F", "character data outside the document element is not a text node: the XML pull adapter keeps a nesting depth (an integer field incremented under the xml.StartElement assertion and decremented under the xml.EndElement assertion), and in its xml.CharData arm a branch on that field compared with 0 leads, on the zero side, to a path that reads the next token without returning a node: `<?xml ...?>\\n<r/>\\n` has one child of the root, not three.")
	var scope []*ssa.Function
	for g := range staticReach(pull, func(x *ssa.Function) bool { return fnPkgKey(x) == "parser" }) {
		if fnPkgKey(g) == "parser" {
			scope = append(scope, g)
		}
	}
	sortFuncs(scope)
	inScope := map[*ssa.Function]bool{}
	for _, g := range scope {
		inScope[g] = true
	}
	underToken := func(b *ssa.BasicBlock, name string) bool {
		arms := typeSwitchArms(b.Parent())[b]
		for ta := range arms {
			if n, ok := types.Unalias(ta.AssertedType).(*types.Named); ok && n.Obj().Pkg() != nil && n.Obj().Pkg().Path() == "encoding/xml" && n.Obj().Name() == name {
				return true
			}
		}
		for _, a := range guardAtoms(b) {
			if ex, ok := a.V.(*ssa.Extract); ok && ex.Index == 1 && a.Pol {
				if ta, ok := ex.Tuple.(*ssa.TypeAssert); ok {
					if n, ok := types.Unalias(ta.AssertedType).(*types.Named); ok && n.Obj().Pkg() != nil && n.Obj().Pkg().Path() == "encoding/xml" && n.Obj().Name() == name {
						return true
					}
				}
			}
		}
		return false
	}
	// (a) depth field
	inc := map[int]bool{}
	dec := map[int]bool{}
	for _, g := range scope {
		allInstrs(g, func(in ssa.Instruction) {
			st, ok := in.(*ssa.Store)
			if !ok {
				return
			}
			fa, ok := st.Addr.(*ssa.FieldAddr)
			if !ok || len(g.Params) == 0 || fa.X != ssa.Value(g.Params[0]) {
				return
			}
			bo, ok := st.Val.(*ssa.BinOp)
			if !ok {
				return
			}
			k, isK := constInt(bo.Y)
			ld, isLd := bo.X.(*ssa.UnOp)
			if !isK || k != 1 || !isLd {
				return
			}
			if fa2, ok := ld.X.(*ssa.FieldAddr); !ok || fa2.Field != fa.Field || fa2.X != fa.X {
				return
			}
			if bo.Op == token.ADD && underToken(st.Block(), "StartElement") {
				inc[fa.Field] = true
			}
			if bo.Op == token.SUB && underToken(st.Block(), "EndElement") {
				dec[fa.Field] = true
			}
		})
	}
	depth := -1
	for fld := range inc {
		if dec[fld] {
			depth = fld
		}
	}
	w.check(P, "R09.11", "nesting depth of the adapter", pull.Pos(), depth >= 0, fmt.Sprintf("an integer field is incremented for xml.StartElement tokens and decremented for xml.EndElement tokens: %v (without a depth the adapter cannot tell white space around the document element from text inside it: count(/node()) is 3 for a document element between two line breaks)", depth >= 0))
	if depth < 0 {
		w.floor(P, "R09.11", 1)
		return
	}
	fresh := func(b *ssa.BasicBlock) bool {
		for _, in := range b.Instrs {
			c, ok := in.(ssa.CallInstruction)
			if !ok {
				continue
			}
			if sc := c.Common().StaticCallee(); sc != nil {
				fn := funcFullName(sc)
				if fn == "(*encoding/xml.Decoder).Token" || fn == "(*encoding/xml.Decoder).RawToken" {
					return true
				}
				if inScope[sc] && lastResultIsError(sc) {
					if tc, _ := w.tokenSource(sc, "Token", 0); tc != nil {
						return true
					}
				}
			}
		}
		return false
	}
	dropOK := false
	var where token.Pos
	for _, g := range scope {
		allInstrs(g, func(in ssa.Instruction) {
			iff, ok := in.(*ssa.If)
			if !ok || !underToken(iff.Block(), "CharData") {
				return
			}
			bo, ok := iff.Cond.(*ssa.BinOp)
			if !ok {
				return
			}
			ld, isLd := bo.X.(*ssa.UnOp)
			k, isK := constInt(bo.Y)
			if !isLd || !isK || k != 0 {
				return
			}
			fa, ok := ld.X.(*ssa.FieldAddr)
			if !ok || fa.Field != depth {
				return
			}
			// which successor is "depth is zero (or below)"
			zero := -1
			switch bo.Op {
			case token.EQL, token.LEQ:
				zero = 0
			case token.NEQ, token.GTR:
				zero = 1
			}
			if zero < 0 {
				return
			}
			where = iff.Pos()
			seen := map[*ssa.BasicBlock]bool{}
			var walk func(b *ssa.BasicBlock) bool
			walk = func(b *ssa.BasicBlock) bool {
				if seen[b] {
					return false
				}
				seen[b] = true
				if fresh(b) {
					return true
				}
				for _, in2 := range b.Instrs {
					if _, isRet := in2.(*ssa.Return); isRet {
						return false
					}
				}
				for _, s := range b.Succs {
					if walk(s) {
						return true
					}
				}
				return false
			}
			if walk(iff.Block().Succs[zero]) {
				dropOK = true
			}
		})
	}
	w.check(P, "R09.11", "character data at depth zero can be dropped", where, dropOK, fmt.Sprintf("in the xml.CharData arm a branch on the depth leads, on its zero side, to the next token without a return: %v", dropOK))
	w.floor(P, "R09.11", 2)
}

// eventFns: the functions of the adapter whose (node, flag) results are pull events: Pull itself and the helpers whose
// flag Pull (or another such helper) returns as its own end flag. A helper with the same signature whose flag means
// something else (found/not found) is not one.
var eventFns map[*ssa.Function]bool

func computeEventFns(pull *ssa.Function, scope []*ssa.Function) {
	eventFns = map[*ssa.Function]bool{pull: true}
	for round := 0; round < 4; round++ {
		for _, g := range scope {
			if !eventFns[g] {
				continue
			}
			allInstrs(g, func(in ssa.Instruction) {
				ret, ok := in.(*ssa.Return)
				if !ok || len(ret.Results) < 2 {
					return
				}
				if ex, ok := ret.Results[1].(*ssa.Extract); ok && ex.Index == 1 {
					if c, ok := ex.Tuple.(*ssa.Call); ok {
						if sc := staticCallee(c); sc != nil && hasEventSignature(sc) {
							eventFns[sc] = true
						}
					}
				}
			})
		}
	}
}

func producesEvents(fn *ssa.Function) bool {
	if eventFns != nil {
		return eventFns[fn]
	}
	return hasEventSignature(fn)
}

// hasEventSignature: fn returns (node.Node, bool) with or without an error.
func hasEventSignature(fn *ssa.Function) bool {
	res := fn.Signature.Results()
	if res.Len() < 2 || res.Len() > 3 {
		return false
	}
	n, ok := types.Unalias(res.At(0).Type()).(*types.Named)
	if !ok || n.Obj().Pkg() == nil || n.Obj().Pkg().Path() != modPath+"/node" || n.Obj().Name() != "Node" {
		return false
	}
	b, ok := res.At(1).Type().Underlying().(*types.Basic)
	return ok && b.Kind() == types.Bool
}
