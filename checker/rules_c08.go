package main

import (
	"fmt"
	"go/token"
	"go/types"
	"sort"
	"strings"

	"golang.org/x/tools/go/ssa"
)

const startSymbol = "OrExpr" // XPath 1.0 [14] Expr ::= OrExpr; the generated parser is started with it

// NTs without a handler whose alternates are not plain unit productions, and why falling through to
// "evaluate the first NT child" (or not being dispatched at all) is right for them.
var passThroughExceptions = map[string]string{
	"PrimaryExprParenthetic":              "group: parentheses only group; the single NT child is the value",
	"AxisSpecifierWithAxisName":           "group: '::' is a separator; the single NT child AxisName carries the meaning",
	"AbbreviatedStepSelf":                 "identity: '.' selects the context node; leaving the context untouched is its meaning",
	"ReservedNameConflictResolver":        "consumed: terminals only; the parent name-test handler reads its text through the child's extents",
	"NodeType":                            "consumed: terminals only; the parent node-type-test handler reads its text",
	"QName":                               "consumed: read as text by the function-call handler",
	"QNameLocalOnly":                      "consumed: read as text by the function-call handler",
	"QNameNamespaceWithLocal":             "consumed: read as text by the function-call handler",
	"FunctionSignature":                   "consumed: walked by the function-call handler's argument gatherer, never dispatched",
	"FunctionSignatureNoArgs":             "consumed: walked by the function-call handler's argument gatherer, never dispatched",
	"FunctionCallArgumentList":            "consumed: walked by the function-call handler's argument gatherer, never dispatched",
	"FunctionCallArgumentListArgWithNext": "consumed: walked by the function-call handler's argument gatherer, never dispatched",
	"FunctionCallArgumentListEndArg":      "consumed: walked by the function-call handler's argument gatherer, never dispatched",
}

func init() {
	register("C08", checkC08)
	notDecided["C08"] = "that every XPath 1.0 string is accepted and every other string rejected by the generated GLL automaton (a property over all strings); whitespace insensitivity; literal escapes; which alternative of an ambiguous forest is evaluated."
}

func checkC08(w *World) {
	const P = "C08"
	f := w.Facts()
	r := w.Roles()
	for _, e := range r.err {
		w.undecided(P, "R00.roles", "role resolution: "+e, 0, e)
	}
	reach := f.grammarReachable(startSymbol)

	// R08.1 handler coverage
	docRule(P, "R08.1", "T G<->H", "every alternate of every reachable nonterminal either has a registered handler, or is a unit production (exactly one NT symbol, no terminal: evaluating the first NT child loses nothing), or is in the frozen exception table; 'consumed' exceptions must occur only under a nonterminal that has a handler or is itself consumed. Anything else means part of the input is silently ignored.")
	var nts []string
	for nt := range reach {
		nts = append(nts, nt)
	}
	sort.Strings(nts)
	for _, nt := range nts {
		for _, a := range f.Alts[nt] {
			c := fmt.Sprintf("alternate %d of %s", a.Idx, nt)
			if h := f.Handlers[nt]; h != nil {
				w.check(P, "R08.1", c, h.Pos, true, "handled by "+h.Fn.Name()+": "+a.String())
				continue
			}
			if len(a.NTs()) == 1 && len(a.Ts()) == 0 {
				w.check(P, "R08.1", c, 0, true, "unit production: "+a.String())
				continue
			}
			if why, ok := passThroughExceptions[nt]; ok {
				good := true
				detail := why
				if strings.HasPrefix(why, "consumed") {
					for _, pnt := range nts {
						for _, pa := range f.Alts[pnt] {
							for _, s := range pa.Syms {
								if s.IsNT && s.Name == nt {
									_, pconsumed := passThroughExceptions[pnt]
									if f.Handlers[pnt] == nil && !(pconsumed && strings.HasPrefix(passThroughExceptions[pnt], "consumed")) {
										good = false
										detail = fmt.Sprintf("%s occurs under %s, which neither has a handler nor is consumed", nt, pnt)
									}
								}
							}
						}
					}
				}
				if strings.HasPrefix(why, "group") && len(a.NTs()) != 1 {
					good = false
					detail = "grouping exception but not exactly one NT child: " + a.String()
				}
				if strings.HasPrefix(why, "identity") && len(a.NTs()) != 0 {
					good = false
					detail = "identity exception but has NT children: " + a.String()
				}
				w.check(P, "R08.1", c, 0, good, detail)
				continue
			}
			w.check(P, "R08.1", c, 0, false, "no handler is registered and the dispatcher's fallback evaluates only the first NT child: the rest of `"+a.String()+"` is silently ignored")
		}
	}
	w.floor(P, "R08.1", 160)
	for _, d := range f.HandlerDup {
		w.check(P, "R08.1", "duplicate registration for "+d, f.Handlers[d].Pos, false, "two different functions are registered for "+d+"; the later one silently wins")
	}

	// R08.2 index agreement
	docRule(P, "R08.2", "T G<->HK", "a handler that indexes the flattened NT children with constant k is registered only for nonterminals all of whose alternates have more than k NT symbols; every constant GetTChildI(i) addresses a terminal at symbol position i of every alternate of the registered nonterminal.")
	byFn := f.handlersByFn()
	var fns []*ssa.Function
	for fn := range byFn {
		fns = append(fns, fn)
	}
	sort.Slice(fns, func(i, j int) bool { return fns[i].Name() < fns[j].Name() })
	for _, h := range fns {
		maxIdx := -1
		var tIdx []int64
		for _, fn := range w.handlerClosure(h) {
			allInstrs(fn, func(in ssa.Instruction) {
				switch x := in.(type) {
				case *ssa.IndexAddr:
					if isBSRPtrSlice(x.X.Type()) {
						if k, ok := constInt(x.Index); ok && int(k) > maxIdx {
							maxIdx = int(k)
						}
					}
				case *ssa.Call:
					if sc := staticCallee(x); sc != nil && sc.Name() == "GetTChildI" && len(x.Call.Args) == 2 {
						if k, ok := constInt(x.Call.Args[1]); ok {
							tIdx = append(tIdx, k)
						} else if ks, ok := constArgsFor(x.Call.Args[1], w.handlerClosure(h)); ok {
							// the index is a parameter of a text helper: the constants this handler passes for it
							tIdx = append(tIdx, ks...)
						} else {
							w.undecided(P, "R08.2", "terminal index of "+h.Name(), x.Pos(), "GetTChildI with a non-constant index")
						}
					}
				}
			})
		}
		ntsOf := byFn[h]
		sort.Strings(ntsOf)
		for _, nt := range ntsOf {
			ok := true
			detail := fmt.Sprintf("%s uses NT-child indices up to %d, terminal indices %v", h.Name(), maxIdx, tIdx)
			for _, a := range f.Alts[nt] {
				if len(a.NTs()) <= maxIdx {
					ok = false
					detail = fmt.Sprintf("%s indexes NT child %d but `%s` has only %d NT symbols", h.Name(), maxIdx, a.String(), len(a.NTs()))
				}
				for _, ti := range tIdx {
					if int(ti) >= len(a.Syms) || a.Syms[ti].IsNT {
						ok = false
						detail = fmt.Sprintf("%s reads terminal child %d but symbol %d of `%s` is not a terminal", h.Name(), ti, ti, a.String())
					}
				}
			}
			w.check(P, "R08.2", "handler registered for "+nt, f.Handlers[nt].Pos, ok, detail)
		}
	}
	w.floor(P, "R08.2", 46)

	// R08.3 precedence tower
	docRule(P, "R08.3", "T G<->S", "the generated grammar contains the XPath 1.0 precedence tower: level i has a unit alternate to level i+1 and, per operator of that level, a left-recursive production `L_i op L_{i+1}`; unary minus is `- UnaryExpr`.")
	type level struct {
		nt  string
		ops []string
	}
	tower := []level{
		{"OrExpr", []string{"or"}}, {"AndExpr", []string{"and"}}, {"EqualityExpr", []string{"=", "!="}},
		{"RelationalExpr", []string{"<", ">", "<=", ">="}}, {"AdditiveExpr", []string{"+", "-"}},
		{"MultiplicativeExpr", []string{"*", "div", "mod"}}, {"UnaryExpr", nil}, {"UnionExpr", []string{"|"}}, {"PathExpr", nil},
	}
	// resolve an alternate consisting of one NT to the production behind it
	prodOf := func(nt string) []Alt { return f.Alts[nt] }
	for i := 0; i+1 < len(tower); i++ {
		lv, next := tower[i], tower[i+1].nt
		hasUnit := false
		opsFound := map[string]bool{}
		for _, a := range prodOf(lv.nt) {
			if len(a.Syms) == 1 && a.Syms[0].IsNT {
				if a.Syms[0].Name == next {
					hasUnit = true
					continue
				}
				for _, pa := range prodOf(a.Syms[0].Name) {
					if len(pa.Syms) == 3 && pa.Syms[0].IsNT && !pa.Syms[1].IsNT && pa.Syms[2].IsNT &&
						pa.Syms[0].Name == lv.nt && pa.Syms[2].Name == next {
						opsFound[pa.Syms[1].Name] = true
					}
					if lv.nt == "UnaryExpr" && len(pa.Syms) == 2 && !pa.Syms[0].IsNT && pa.Syms[0].Name == "-" && pa.Syms[1].IsNT && pa.Syms[1].Name == "UnaryExpr" {
						opsFound["neg"] = true
					}
				}
			}
		}
		w.check(P, "R08.3", "unit alternate "+lv.nt+" -> "+next, 0, hasUnit, fmt.Sprintf("%s must derive %s directly", lv.nt, next))
		for _, op := range lv.ops {
			w.check(P, "R08.3", "left-recursive production for operator "+op, 0, opsFound[op], fmt.Sprintf("expected `%s : %s %q %s` (left associative, binds looser than %s)", lv.nt, lv.nt, op, next, next))
		}
		if lv.nt == "UnaryExpr" {
			w.check(P, "R08.3", "unary minus production", 0, opsFound["neg"], "expected `- UnaryExpr`")
		}
		// no operator of another level
		var extra []string
		for op := range opsFound {
			if op == "neg" {
				continue
			}
			found := false
			for _, o := range lv.ops {
				if o == op {
					found = true
				}
			}
			if !found {
				extra = append(extra, op)
			}
		}
		sort.Strings(extra)
		w.check(P, "R08.3", "no foreign operator at level "+lv.nt, 0, len(extra) == 0, fmt.Sprintf("operators found at this level that XPath does not put there: %v", extra))
	}
	w.floor(P, "R08.3", 20)

	// R08.4 keyword shadowing
	docRule(P, "R08.4", "T G", "every string-literal terminal that is also in the ncname token language (the generated lexer gives literals priority) must be an alternative of ReservedNameConflictResolver, otherwise an element or attribute of that name cannot be selected by a name test.")
	reserved := map[string]bool{}
	for _, a := range f.Alts["ReservedNameConflictResolver"] {
		if len(a.Syms) == 1 && !a.Syms[0].IsNT {
			reserved[a.Syms[0].Name] = true
		}
	}
	lits := map[string]bool{}
	for nt := range reach {
		for _, a := range f.Alts[nt] {
			for _, s := range a.Syms {
				if !s.IsNT && isNCNameLike(s.Name) && !isTokenClassName(s.Name) {
					lits[s.Name] = true
				}
			}
		}
	}
	var ls []string
	for l := range lits {
		ls = append(ls, l)
	}
	sort.Strings(ls)
	for _, l := range ls {
		w.check(P, "R08.4", "keyword "+l, 0, reserved[l], fmt.Sprintf("literal %q lexes as a keyword everywhere; it is %sone of the ReservedNameConflictResolver alternatives, so a name test `%s` %s", l, map[bool]string{true: "", false: "not "}[reserved[l]], l, map[bool]string{true: "still parses", false: "cannot be written (`//" + l + "` does not compile)"}[reserved[l]]))
	}
	w.floor(P, "R08.4", 17)

	// R08.5 Build error discipline
	docRule(P, "R08.5", "D", "grammar.Build returns a nil error only on a path where the parser's error list was tested empty and the BSR forest was tested to have a root; the BSR handed out on that path is an element of the root list.")
	build := w.member("grammar", "Build")
	if build == nil {
		w.undecided(P, "R08.5", "grammar.Build", 0, "function not found")
	} else {
		nRet := 0
		allInstrs(build, func(in ssa.Instruction) {
			ret, ok := in.(*ssa.Return)
			if !ok || len(ret.Results) != 2 {
				return
			}
			if !isNilConst(ret.Results[1]) {
				return
			}
			nRet++
			errsTested, rootsTested := false, false
			for _, a := range guardAtoms(ret.Block()) {
				bo, ok := a.V.(*ssa.BinOp)
				if !ok {
					continue
				}
				lenOf := func(v ssa.Value) ssa.Value {
					if c, ok := v.(*ssa.Call); ok {
						if b, ok := c.Call.Value.(*ssa.Builtin); ok && b.Name() == "len" {
							return c.Call.Args[0]
						}
					}
					return nil
				}
				x := lenOf(bo.X)
				k, kok := constInt(bo.Y)
				if x == nil || !kok || k != 0 {
					continue
				}
				// condition says "len(x) is zero" when: (== 0, pol true) | (> 0, pol false) | (!= 0, pol false)
				isZero := (bo.Op == token.EQL && a.Pol) || (bo.Op == token.GTR && !a.Pol) || (bo.Op == token.NEQ && !a.Pol)
				isNonZero := (bo.Op == token.EQL && !a.Pol) || (bo.Op == token.GTR && a.Pol) || (bo.Op == token.NEQ && a.Pol)
				src := valueOrigin(x)
				if isZero && strings.Contains(src, "Parse") {
					errsTested = true
				}
				if isNonZero && strings.Contains(src, "GetRoots") {
					rootsTested = true
				}
			}
			w.check(P, "R08.5", "nil-error return of grammar.Build", ret.Pos(), errsTested && rootsTested,
				fmt.Sprintf("parser error list tested empty: %v; root list tested non-empty: %v", errsTested, rootsTested))
		})
		if nRet == 0 {
			w.undecided(P, "R08.5", "grammar.Build", build.Pos(), "no nil-error return found")
		}
	}
	w.floor(P, "R08.5", 1)

	// shared rules: the evaluator must read the tree as the grammar structures it
	w.include(P, "C11", "R11.2", "R11.3")                    // QName / NCName tokenisation incl. names that spell an axis, node type or operator
	w.include(P, "C01", "R01.4", "R01.7", "R01.9", "R01.14") // abbreviated forms equal their expansions (selector and principal node type); absolute paths
	w.spanTextTrimmed(P, f)
	w.include(P, "C02", "R02.4", "R02.8") // operands/steps threaded as the production shape requires, nothing skipped
	// no panic while building an expression: bounds discipline of the hand-written grammar front end
	docRule(P, "R08.6", "D", "grammar.Build and the Grammar accessors (hand-written front end of the generated parser) contain no slice or index expression with a computed bound that is not a loop counter, guarded by a length comparison, or a constant: error reporting must not panic on any input.")
	nb := 0
	w.forAllFuncs("grammar", func(fn *ssa.Function) {
		nb++
		bad := ""
		allInstrs(fn, func(in ssa.Instruction) {
			var idxs []ssa.Value
			var base ssa.Value
			switch x := in.(type) {
			case *ssa.IndexAddr:
				idxs, base = []ssa.Value{x.Index}, x.X
			case *ssa.Index:
				idxs, base = []ssa.Value{x.Index}, x.X
			case *ssa.Slice:
				if x.Low != nil {
					idxs = append(idxs, x.Low)
				}
				if x.High != nil {
					idxs = append(idxs, x.High)
				}
				base = x.X
			default:
				return
			}
			for _, idx := range idxs {
				if k, isC := constInt(idx); isC {
					if k == 0 && nonEmptyGuard(in.Block(), base) {
						continue
					}
					if k == 0 {
						if _, isAlloc := base.(*ssa.Alloc); isAlloc {
							continue
						}
					}
					if _, isSl := in.(*ssa.Slice); isSl && k == 0 {
						continue
					}
					if _, isAlloc := base.(*ssa.Alloc); isAlloc {
						continue
					}
					bad = fmt.Sprintf("constant index %d without a length guard at %s", k, w.pos(in.Pos()))
					continue
				}
				if ascendingCounter(idx) || descendingCounter(idx) || isStringRangeIndex(idx, base) || lenGuarded(in.Block(), idx, base) {
					continue
				}
				bad = "computed bound without a length guard at " + w.pos(in.Pos())
			}
		})
		w.check(P, "R08.6", "bounds in grammar."+fn.Name(), fn.Pos(), bad == "", orElse(bad, "no unguarded computed index"))
	})
	w.floor(P, "R08.6", 5)
	w.literalDelimiters(P, f, r)
	w.numberForms(P, f)
	w.ncNameStart(P)
	w.buildExprVerbatim(P)
	w.generatedFrontEnd(P, f)
	w.lexerSetPredicates(P)
}

// generatedFrontEnd (R08.11-R08.13): three places where the generated lexer/parser and the evaluator's use of the
// parse forest decide whether "every valid expression is accepted, regardless of white space, and nothing else".
func (w *World) generatedFrontEnd(P string, f *Facts) {
	docRule(P, "R08.11", "T", "ExprWhitespace: the token-skipping loop of the lexer constructor skips with unicode.IsSpace, or with a predicate of the package that tests all of #x20, #x9, #xD and #xA (leaving out carriage return rejects expressions with CRLF line ends).")
	docRule(P, "R08.12", "D", "whole input: the generated parser returns its BSR set without errors only under a positive (*bsr.Set).Contain(start symbol, 0, index of the last token): the start symbol has to span every token (any derivation of a prefix is not enough: `count(//a))` would be accepted with the rest ignored).")
	docRule(P, "R08.13", "T who-may-call", "package exec reads the children of a parse node only through the accessors that tolerate an ambiguous forest (GetAllNTChildren, GetTChildI): it never calls BSR.GetNTChild / GetNTChildI, which panic when a child has more than one derivation (`a | f()`).")
	// R08.11
	if lp := w.SSA["grammar/lexer"]; lp != nil {
		newFn := lp.Func("New")
		if newFn == nil {
			w.undecided(P, "R08.11", "lexer.New", 0, "not found")
		} else {
			ok, detail := false, "no skipping loop found: no call of a rune predicate on the input in a loop of lexer.New"
			loops := loopBlocks(newFn)
			allInstrs(newFn, func(in ssa.Instruction) {
				c, isCall := in.(*ssa.Call)
				if !isCall || !loops[c.Block()] || len(c.Call.Args) != 1 || staticCallee(c) == nil {
					return
				}
				if b, isB := c.Type().Underlying().(*types.Basic); !isB || b.Kind() != types.Bool {
					return
				}
				if b, isB := c.Call.Args[0].Type().Underlying().(*types.Basic); !isB || b.Kind() != types.Int32 {
					return // a predicate over a rune of the input
				}
				sc := staticCallee(c)
				if funcFullName(sc) == "unicode.IsSpace" {
					ok, detail = true, "white space between tokens is skipped with unicode.IsSpace"
					return
				}
				if inRepo(sc) {
					seen := charsTested(sc)
					all := seen[' '] && seen['\t'] && seen['\r'] && seen['\n']
					ok = all
					detail = fmt.Sprintf("white space between tokens is skipped with %s, which tests #x20: %v, #x9: %v, #xD: %v, #xA: %v", sc.Name(), seen[' '], seen['\t'], seen['\r'], seen['\n'])
				}
			})
			w.check(P, "R08.11", "lexer: white space between tokens", newFn.Pos(), ok, detail)
		}
	} else {
		w.undecided(P, "R08.11", "lexer", 0, "package grammar/lexer not loaded")
	}
	w.floor(P, "R08.11", 1)
	// R08.12
	if pp := w.SSA["grammar/parser"]; pp != nil {
		var parse *ssa.Function
		w.forAllFuncs("grammar/parser", func(fn *ssa.Function) {
			if fn.Name() == "parse" && fn.Signature.Recv() != nil {
				parse = fn
			}
		})
		if parse == nil {
			w.undecided(P, "R08.12", "generated parser", 0, "method parse not found")
		} else {
			n, good := 0, true
			detail := ""
			allInstrs(parse, func(in ssa.Instruction) {
				ret, isRet := in.(*ssa.Return)
				if !isRet || len(ret.Results) != 2 || !isNilConst(ret.Results[1]) || isNilConst(ret.Results[0]) {
					return
				}
				n++
				okc := false
				for _, a := range guardAtoms(ret.Block()) {
					c, isCall := a.V.(*ssa.Call)
					if !isCall || !a.Pol || staticCallee(c) == nil || funcFullName(staticCallee(c)) != "(*"+modPath+"/grammar/parser/bsr.Set).Contain" || len(c.Call.Args) != 4 {
						continue
					}
					nt, isNT := constInt(c.Call.Args[1])
					left, isL := constInt(c.Call.Args[2])
					startOK := isNT && int(nt) < len(f.NTNames) && f.NTNames[nt] == startSymbol
					// right extent: len(tokens) - 1
					rightOK := false
					if bo, isBO := c.Call.Args[3].(*ssa.BinOp); isBO && bo.Op == token.SUB {
						if k, isK := constInt(bo.Y); isK && k == 1 && isLenOf(bo.X, nil) {
							rightOK = true
						}
					}
					okc = startOK && isL && left == 0 && rightOK
					detail = fmt.Sprintf("Contain(start symbol %s: %v, left extent 0: %v, right extent len(tokens)-1: %v)", startSymbol, startOK, isL && left == 0, rightOK)
				}
				if !okc {
					good = false
					if detail == "" {
						detail = "the successful return at " + w.pos(ret.Pos()) + " is not guarded by bsrSet.Contain(start, 0, last token)"
					}
				}
			})
			w.check(P, "R08.12", "parser accepts only a derivation of the whole input", parse.Pos(), n > 0 && good, orElse(detail, "no successful return found"))
		}
	} else {
		w.undecided(P, "R08.12", "generated parser", 0, "package grammar/parser not loaded")
	}
	w.floor(P, "R08.12", 1)
	// R08.13
	var bad []string
	nf := 0
	w.forAllFuncs("exec", func(fn *ssa.Function) {
		nf++
		allInstrs(fn, func(in ssa.Instruction) {
			c, ok := in.(ssa.CallInstruction)
			if !ok || c.Common().StaticCallee() == nil {
				return
			}
			switch funcFullName(c.Common().StaticCallee()) {
			case "(" + modPath + "/grammar/parser/bsr.BSR).GetNTChildI", "(" + modPath + "/grammar/parser/bsr.BSR).GetNTChild",
				"(" + modPath + "/grammar/parser/bsr.BSR).GetNTChildrenI", "(" + modPath + "/grammar/parser/bsr.BSR).GetNTChildren":
				bad = append(bad, fmt.Sprintf("%s in %s", w.pos(in.Pos()), fn.Name()))
			}
		})
	})
	sort.Strings(bad)
	w.check(P, "R08.13", "package exec: no panicking child accessor", 0, len(bad) == 0 && nf > 0, fmt.Sprintf("%d functions scanned; calls of BSR.GetNTChild/GetNTChildI (panic on an ambiguous child): %s", nf, orElse(strings.Join(bad, "; "), "none")))
	w.floor(P, "R08.13", 1)
}

// buildExprVerbatim (R08.10): what is compiled is the caller's text. The public BuildExpr/MustBuildExpr hand their
// string parameter itself to the builder of package grammar and return what that call returned: a normalised copy
// (collapsed white space changes string literals), a truncated copy or a value looked up elsewhere (a cache keyed by
// something coarser than the text) all make two different expressions evaluate alike.
func (w *World) buildExprVerbatim(P string) {
	docRule(P, "R08.10", "F", "the public BuildExpr and MustBuildExpr pass their own string parameter, unchanged, to the builder of package grammar (or to one another), and every Grammar they return derives from the result of that call in the same activation and from nothing else (no package-level variable, no map or cache lookup): the compiled query is the tree of exactly the text the caller gave.")
	for _, name := range []string{"BuildExpr", "MustBuildExpr"} {
		fn := w.member("", name)
		if fn == nil || len(fn.Params) != 1 {
			w.undecided(P, "R08.10", "xsel."+name, 0, "public function not found")
			continue
		}
		var builds []*ssa.Call
		argOK := true
		allInstrs(fn, func(in ssa.Instruction) {
			c, ok := in.(*ssa.Call)
			if !ok {
				return
			}
			sc := staticCallee(c)
			if sc == nil || !inRepo(sc) {
				return
			}
			isBuilder := fnPkgKey(sc) == "grammar" || (fnPkgKey(sc) == "" && (sc.Name() == "BuildExpr" || sc.Name() == "MustBuildExpr"))
			if !isBuilder || len(c.Call.Args) == 0 || !isStringType(c.Call.Args[0].Type()) {
				return
			}
			builds = append(builds, c)
			if c.Call.Args[0] != ssa.Value(fn.Params[0]) {
				argOK = false
			}
		})
		retOK := len(builds) > 0
		foreign := ""
		allInstrs(fn, func(in ssa.Instruction) {
			ret, ok := in.(*ssa.Return)
			if !ok || len(ret.Results) == 0 {
				return
			}
			v := ret.Results[0]
			fromBuild := false
			backSlice(v, func(x ssa.Value) bool {
				switch y := x.(type) {
				case *ssa.Call:
					for _, b := range builds {
						if y == b {
							fromBuild = true
							return false
						}
					}
					if _, isB := y.Call.Value.(*ssa.Builtin); !isB {
						foreign = "the returned value depends on " + calleeName(y)
					}
					return false
				case *ssa.Global:
					foreign = "the returned value depends on the package-level variable " + y.Name()
					return false
				case *ssa.Lookup:
					foreign = "the returned value comes out of a map lookup"
					return false
				}
				return true
			})
			// an error return hands back the zero Grammar: a constant or a zeroed local
			if !fromBuild {
				if len(ret.Results) == 2 && !isNilConst(ret.Results[1]) {
					return
				}
				retOK = false
			}
		})
		w.check(P, "R08.10", "xsel."+name+" compiles the caller's text", fn.Pos(), len(builds) > 0 && argOK && retOK && foreign == "",
			fmt.Sprintf("builder calls: %d; each receives the parameter itself: %v; every successful return is the builder's result: %v%s", len(builds), argOK, retOK, map[bool]string{true: "; " + foreign, false: ""}[foreign != ""]))
	}
	w.floor(P, "R08.10", 2)
}

// numberForms (R08.8): XPath 1.0 [30] Number ::= Digits ('.' Digits?)? | '.' Digits. The production of the
// nonterminal whose alternates are built from the digits token and "." has to offer all four forms.
func (w *World) numberForms(P string, f *Facts) {
	docRule(P, "R08.8", "T G<->S", "the nonterminal whose alternates consist of the digits token and \".\" (Number) has the four forms of XPath 1.0 [30]: digits, digits \".\", digits \".\" digits, \".\" digits; a missing form makes valid numbers (`1.`) a syntax error.")
	forms := map[string]string{"digits": "digits", "digits .": "digits \".\"", "digits . digits": "digits \".\" digits", ". digits": "\".\" digits"}
	var nts []string
	for nt := range f.Alts {
		nts = append(nts, nt)
	}
	sort.Strings(nts)
	n := 0
	for _, nt := range nts {
		alts := f.Alts[nt]
		isNum := len(alts) > 0
		have := map[string]bool{}
		for _, a := range alts {
			var parts []string
			for _, sy := range a.Syms {
				if sy.IsNT || (sy.Name != "digits" && sy.Name != ".") {
					isNum = false
				}
				parts = append(parts, sy.Name)
			}
			have[strings.Join(parts, " ")] = true
		}
		if !isNum || !have["digits"] {
			continue
		}
		var keys []string
		for k := range forms {
			keys = append(keys, k)
		}
		sort.Strings(keys)
		for _, k := range keys {
			n++
			w.check(P, "R08.8", "number form "+forms[k], 0, have[k], fmt.Sprintf("production %s has the alternate %s: %v", nt, forms[k], have[k]))
		}
	}
	if n == 0 {
		w.undecided(P, "R08.8", "number production", 0, "no nonterminal made of the digits token and \".\" found")
	}
	w.floor(P, "R08.8", 4)
}

// ncNameStart (R08.9): an NCName may start with a letter or an underscore. The generated lexer's start state is a
// function `func(r rune) state` made of `r == c` cases and a final unicode.IsLetter case; '_' is not a letter, so it
// needs a case of its own that leads to the state letters lead to.
func (w *World) ncNameStart(P string) {
	docRule(P, "R08.9", "T", "NCName start characters: the start state of the generated lexer (element 0 of its transition table) sends '_' to the same state as unicode.IsLetter characters: names such as `_id` are NCNames (XML Names [4] NCNameStartChar).")
	lp := w.SSA["grammar/lexer"]
	if lp == nil {
		w.undecided(P, "R08.9", "lexer", 0, "package grammar/lexer not loaded")
		return
	}
	g, _ := lp.Members["nextState"].(*ssa.Global)
	initFn := lp.Func("init")
	if g == nil || initFn == nil {
		w.undecided(P, "R08.9", "lexer transition table", 0, "package variable nextState not found")
		return
	}
	// element 0 of the slice literal stored into nextState
	var start *ssa.Function
	allInstrs(initFn, func(in ssa.Instruction) {
		st, ok := in.(*ssa.Store)
		if !ok {
			return
		}
		ia, ok := st.Addr.(*ssa.IndexAddr)
		if !ok {
			return
		}
		if k, isK := constInt(ia.Index); !isK || k != 0 {
			return
		}
		al, ok := ia.X.(*ssa.Alloc)
		if !ok {
			return
		}
		// the array backs the slice stored into nextState
		feeds := false
		for _, rr := range referrers(al) {
			if sl, ok := rr.(*ssa.Slice); ok {
				for _, r2 := range referrers(sl) {
					if s2, ok := r2.(*ssa.Store); ok && s2.Addr == ssa.Value(g) {
						feeds = true
					}
				}
			}
		}
		if !feeds {
			return
		}
		switch v := st.Val.(type) {
		case *ssa.Function:
			start = v
		case *ssa.MakeClosure:
			start, _ = v.Fn.(*ssa.Function)
		}
	})
	if start == nil {
		w.undecided(P, "R08.9", "lexer start state", g.Pos(), "element 0 of nextState not found in the package initialiser")
		return
	}
	// returns per case
	retOf := func(b *ssa.BasicBlock) (int64, bool) {
		for hop := 0; hop < 3 && b != nil; hop++ {
			for _, in := range b.Instrs {
				if ret, ok := in.(*ssa.Return); ok && len(ret.Results) == 1 {
					return constInt(ret.Results[0])
				}
			}
			if len(b.Succs) == 1 {
				b = b.Succs[0]
			} else {
				b = nil
			}
		}
		return 0, false
	}
	var letterState, underscoreState int64 = -1, -1
	allInstrs(start, func(in ssa.Instruction) {
		iff, ok := in.(*ssa.If)
		if !ok {
			return
		}
		switch c := iff.Cond.(type) {
		case *ssa.BinOp:
			if c.Op == token.EQL {
				if k, isK := constInt(c.Y); isK && k == '_' {
					if s, ok := retOf(iff.Block().Succs[0]); ok {
						underscoreState = s
					}
				}
			}
		case *ssa.Call:
			if sc := staticCallee(c); sc != nil && funcFullName(sc) == "unicode.IsLetter" {
				if s, ok := retOf(iff.Block().Succs[0]); ok {
					letterState = s
				}
			}
		}
	})
	if letterState < 0 {
		w.undecided(P, "R08.9", "lexer start state", start.Pos(), "no unicode.IsLetter case in the start state")
		return
	}
	w.check(P, "R08.9", "NCName start character _", start.Pos(), underscoreState == letterState, fmt.Sprintf("letters lead to state %d; '_' leads to state %d (-1: no case, the character is rejected: `_id` and `//_x` do not compile)", letterState, underscoreState))
	w.floor(P, "R08.9", 1)
}

// literalDelimiters (R08.7): the Literal token keeps its delimiters; the value of the literal is what lies between
// them, so exactly one byte is removed from each end. Character-set trimming (strings.Trim and friends) also eats
// quotes of the other kind at the ends of the content ("'a'" is the three characters 'a').
func (w *World) literalDelimiters(P string, f *Facts, r *Roles) {
	docRule(P, "R08.7", "F G<->H", "the handler of every production whose alternates are all a single quoted-string token (Literal) stores String(text[1 : len(text)-1]) of the token text: exactly one delimiter byte is removed from each end and nothing else is done to the content (XPath 1.0 literals have no escapes and may contain quotes of the other kind anywhere).")
	n := 0
	var nts []string
	for nt := range f.Alts {
		nts = append(nts, nt)
	}
	sort.Strings(nts)
	for _, nt := range nts {
		alts := f.Alts[nt]
		quoted := len(alts) > 0
		for _, a := range alts {
			if len(a.Syms) != 1 || a.Syms[0].IsNT || (a.Syms[0].Name != "singlequote" && a.Syms[0].Name != "doublequote") {
				quoted = false
			}
		}
		if !quoted {
			continue
		}
		h := f.Handlers[nt]
		if h == nil {
			w.check(P, "R08.7", "literal production "+nt, 0, false, "no handler registered for a quoted-string production")
			n++
			continue
		}
		stores := 0
		for _, g := range w.handlerClosureH(h) {
			allInstrs(g, func(in ssa.Instruction) {
				st, ok := in.(*ssa.Store)
				if !ok {
					return
				}
				fa, ok := st.Addr.(*ssa.FieldAddr)
				if !ok || fa.Field != r.CtxResultField {
					return
				}
				stores++
				n++
				v := stripConv(st.Val)
				for i := 0; i < 4; i++ {
					switch x := v.(type) {
					case *ssa.MakeInterface:
						v = stripConv(x.X)
					case *ssa.ChangeType:
						v = stripConv(x.X)
					}
				}
				v = throughCells(v)
				ok, why := false, fmt.Sprintf("the stored value is %s, not a slice [1:len-1] of the token text", describeValue(v))
				if sl, isSl := v.(*ssa.Slice); isSl {
					base := throughCells(sl.X)
					lowOK := false
					if sl.Low != nil {
						if k, isK := constInt(sl.Low); isK && k == 1 {
							lowOK = true
						}
					}
					highOK := false
					if bo, isBO := sl.High.(*ssa.BinOp); isBO && bo.Op == token.SUB {
						if k, isK := constInt(bo.Y); isK && k == 1 {
							if c, isC := bo.X.(*ssa.Call); isC && isLenOf(c, nil) && throughCells(c.Call.Args[0]) == base {
								highOK = true
							}
						}
					}
					fromText := false
					if c, isC := base.(*ssa.Call); isC {
						if sc := staticCallee(c); sc != nil && fnPkgKey(sc) == "grammar" {
							fromText = true
						}
					}
					ok = lowOK && highOK && fromText
					why = fmt.Sprintf("slice of the token text: low bound 1: %v, high bound len-1 of the same string: %v, sliced value is the token text: %v", lowOK, highOK, fromText)
				}
				w.check(P, "R08.7", "literal production "+nt+": value stored by "+g.Name(), st.Pos(), ok, why)
			})
		}
		if stores == 0 {
			n++
			w.check(P, "R08.7", "literal production "+nt, h.Fn.Pos(), false, "the handler stores no result")
		}
	}
	w.floor(P, "R08.7", 1)
}

func describeValue(v ssa.Value) string {
	switch x := v.(type) {
	case *ssa.Call:
		return "the result of " + calleeName(x)
	case *ssa.Slice:
		return "a slice expression"
	case *ssa.Const:
		return "a constant"
	case *ssa.Phi:
		return "a value merged from several paths"
	}
	return fmt.Sprintf("%T", v)
}

// valueOrigin names the call a value (transitively through extract/phi-free chains) comes from.
func valueOrigin(v ssa.Value) string {
	for i := 0; i < 8; i++ {
		switch x := v.(type) {
		case *ssa.Extract:
			v = x.Tuple
		case *ssa.Call:
			return calleeName(x)
		case *ssa.ChangeType:
			v = x.X
		case *ssa.UnOp:
			v = x.X
		default:
			return fmt.Sprintf("%T", v)
		}
	}
	return ""
}

func isNCNameLike(s string) bool {
	if s == "" {
		return false
	}
	for i, c := range s {
		switch {
		case c >= 'a' && c <= 'z', c >= 'A' && c <= 'Z', c == '#':
		case i > 0 && (c == '-' || c == '.' || c == '_' || (c >= '0' && c <= '9')):
		default:
			return false
		}
	}
	return true
}

// token classes (not literals) of the generated lexer
func isTokenClassName(s string) bool {
	switch s {
	case "ncname", "digits", "singlequote", "doublequote", "variableReference":
		return true
	}
	return false
}

var _ = types.Identical

// constArgsFor: v is a parameter of its function; the integer constants passed for it at the static calls of that
// function inside the given set of functions (ok only when every such call passes a constant and there is one).
func constArgsFor(v ssa.Value, within []*ssa.Function) ([]int64, bool) {
	p, ok := v.(*ssa.Parameter)
	if !ok {
		return nil, false
	}
	fn := p.Parent()
	idx := -1
	for i, x := range fn.Params {
		if x == p {
			idx = i
		}
	}
	var out []int64
	all := true
	for _, g := range within {
		allInstrs(g, func(in ssa.Instruction) {
			c, ok := in.(ssa.CallInstruction)
			if !ok || c.Common().StaticCallee() != fn || idx < 0 || idx >= len(c.Common().Args) {
				return
			}
			if k, ok := constInt(c.Common().Args[idx]); ok {
				out = append(out, k)
			} else {
				all = false
			}
		})
	}
	return out, all && len(out) > 0
}

// spanTextTrimmed (R08.14): the text of a production that spans several tokens contains the optional whitespace
// between them (ExprWhitespace: space, tab, CR, LF). A handler that takes a word out of that text and compares it with
// constants must have removed all four characters from the end the next token was cut off at: strings.TrimSpace,
// strings.Fields, or Trim/TrimRight with a cut-set containing the four. `TrimRight(s, " ")` makes `text\n()` select
// nothing.
func (w *World) spanTextTrimmed(P string, f *Facts) {
	docRule(P, "R08.14", "F", "optional whitespace inside a production: in the handler of a production with more than one symbol, a string that derives from the production's text (Grammar.GetString) and is compared with a constant has passed through strings.TrimSpace, strings.Fields, or strings.Trim/TrimRight with a cut-set that contains space, tab, CR and LF.")
	var nts []string
	for nt := range f.Handlers {
		nts = append(nts, nt)
	}
	sort.Strings(nts)
	fullSet := func(v ssa.Value) bool {
		cs, ok := constString(v)
		return ok && strings.Contains(cs, " ") && strings.Contains(cs, "\t") && strings.Contains(cs, "\r") && strings.Contains(cs, "\n")
	}
	n := 0
	seenSite := map[ssa.Instruction]bool{}
	for _, nt := range nts {
		multi := false
		for _, a := range f.Alts[nt] {
			if len(a.Syms) > 1 {
				multi = true
			}
		}
		if !multi {
			continue
		}
		h := f.Handlers[nt]
		for _, fn := range w.handlerClosureH(h) {
			allInstrs(fn, func(in ssa.Instruction) {
				bo, ok := in.(*ssa.BinOp)
				if !ok || (bo.Op != token.EQL && bo.Op != token.NEQ) || seenSite[in] {
					return
				}
				var text ssa.Value
				if _, isK := constString(bo.Y); isK {
					text = bo.X
				} else if _, isK := constString(bo.X); isK {
					text = bo.Y
				}
				if text == nil || !isStringType(text.Type()) {
					return
				}
				fromSpan, trimmed := false, false
				backSlice(text, func(v ssa.Value) bool {
					c, isCall := v.(*ssa.Call)
					if !isCall {
						return true
					}
					sc := staticCallee(c)
					if sc == nil {
						return true
					}
					switch name := funcFullName(sc); {
					case sc.Name() == "GetString" && fnPkgKey(sc) == "grammar":
						// the handler's own expression: the whole span (the text of a child taken with Next is
						// that child's business)
						if _, own := c.Call.Args[0].(*ssa.Parameter); own {
							fromSpan = true
						}
						return false
					case name == "strings.TrimSpace" || name == "strings.Fields":
						trimmed = true
					case (name == "strings.Trim" || name == "strings.TrimRight") && len(c.Call.Args) == 2 && fullSet(c.Call.Args[1]):
						trimmed = true
					}
					return true
				})
				if !fromSpan {
					return
				}
				seenSite[in] = true
				n++
				w.check(P, "R08.14", fmt.Sprintf("%s: text compared with a constant in %s", nt, fn.Name()), in.Pos(), trimmed, fmt.Sprintf("the text of the production has lost space, tab, CR and LF at its end before the comparison: %v", trimmed))
			})
		}
	}
	if n == 0 {
		w.undecided(P, "R08.14", "span text", 0, "no handler of a multi-symbol production compares its text with a constant")
	}
	w.floorSites(P, "R08.14", 1)
}
