package main

import (
	"fmt"
	"sort"
	"strings"

	"golang.org/x/tools/go/ssa"
)

func init() {
	register("C13", checkC13)
	notDecided["C13"] = "determinism as equality of results across histories (it follows from 'no write to anything that outlives the call', which is what the effect analysis establishes, plus absence of order-dependent map iteration on the result path, which is only listed as advisory); behaviour of user-supplied functions, options and Cursor implementations."
}

type entryPoint struct {
	Name    string
	Fn      *ssa.Function
	Allowed map[string]string // tag -> why it may be written
}

func (w *World) purityEntries() []entryPoint {
	var out []entryPoint
	add := func(name string, fn *ssa.Function, allowed map[string]string) {
		if fn == nil {
			out = append(out, entryPoint{Name: name})
			return
		}
		out = append(out, entryPoint{name, fn, allowed})
	}
	add("exec.Exec", w.member("exec", "Exec"), nil)
	add("exec.Unmarshal", w.member("exec", "Unmarshal"), map[string]string{"P1": "the Unmarshal target is written by design", "P1*": "the Unmarshal target (fields, elements, pointees) is written by design"})
	add("exec.GetCursorString", w.member("exec", "GetCursorString"), nil)
	for _, t := range []string{"Bool", "Number", "String", "NodeSet"} {
		for _, m := range []string{"String", "Number", "Bool"} {
			add("exec."+t+"."+m, w.method("exec", t, m), nil)
		}
	}
	// compiling an expression: nothing outlives the call but the value it returns
	add("xsel.BuildExpr", w.member("", "BuildExpr"), nil)
	add("xsel.MustBuildExpr", w.member("", "MustBuildExpr"), nil)
	add("grammar.Build", w.member("grammar", "Build"), nil)
	add("grammar.MustBuild", w.member("grammar", "MustBuild"), nil)
	for _, m := range []string{"Next", "GetString", "GetStringExtents"} {
		add("grammar.Grammar."+m, w.method("grammar", "Grammar", m), nil)
	}
	return out
}

func checkC13(w *World) {
	const P = "C13"
	docRule(P, "R13.1", "E", "write-effect closure: over all repository functions reachable (VTA call graph) from Exec, Unmarshal, GetCursorString, the Result conversion methods, BuildExpr/MustBuildExpr/grammar.Build/MustBuild and Grammar.Next/GetString/GetStringExtents, every store, map update, in-place append, copy, delete, sort.Sort and every write performed by a classified external callee has a base allocated in the activation (or freshly returned by a callee): never memory reachable from the cursor, the compiled expression, a variable's or argument's Result, the caller's binding maps, or a package-level variable. External callees are classified in a frozen table; an unclassified one that receives a non-local reference fails the check.")
	docRule(P, "R13.2", "T", "no package-level variable of exec, store, parser, grammar (hand-written part) or the root package is written outside package initialisation by any function reachable from the entry points.")
	docRule(P, "R13.3", "advisory", "map iterations whose order could reach a result are listed (not armed): bsr.Set.GetRoots and parser.call in generated code.")
	e := w.Effects()
	entries := w.purityEntries()
	for _, ep := range entries {
		if ep.Fn != nil {
			e.summary(ep.Fn)
		}
	}
	e.settle()
	for _, ep := range entries {
		if ep.Fn == nil {
			w.undecided(P, "R13.1", "entry point "+ep.Name, 0, "entry point not found")
			continue
		}
		s := e.summary(ep.Fn)
		bad := tagset{}
		for t := range s.W {
			if _, ok := ep.Allowed[t]; ok {
				continue
			}
			bad[t] = true
		}
		nf, nm := e.reachStats(ep.Fn)
		if len(bad) == 0 {
			w.check(P, "R13.1", "entry point "+ep.Name, ep.Fn.Pos(), true, fmt.Sprintf("%d reachable repository functions, %d mutating instructions, all with call-local bases (allowed: %v)", nf, nm, ep.Allowed))
			continue
		}
		var leaves []write
		e.explain(ep.Fn, bad, 0, map[string]bool{}, &leaves)
		sort.Slice(leaves, func(i, j int) bool { return leaves[i].Pos < leaves[j].Pos })
		seen := map[string]bool{}
		for _, lw := range leaves {
			key := lw.Fn.Name() + ": " + lw.What
			if seen[key] {
				continue
			}
			seen[key] = true
			isGlobal := false
			for t := range lw.Tags {
				if strings.HasPrefix(t, "G:") {
					isGlobal = true
				}
			}
			rule := "R13.1"
			if isGlobal {
				rule = "R13.2"
			}
			w.check(P, rule, fmt.Sprintf("%s reaches %s in %s", ep.Name, lw.What, lw.Fn.Name()), lw.Pos, false,
				fmt.Sprintf("writes memory that is not local to the call: %v (in terms of %s); entry point %s may therefore modify %v", lw.Tags.list(), lw.Fn.Name(), ep.Name, describeTags(bad, ep.Fn)))
		}
		if len(leaves) == 0 {
			w.check(P, "R13.1", "entry point "+ep.Name, ep.Fn.Pos(), false, fmt.Sprintf("may write %v (no leaf instruction isolated)", describeTags(bad, ep.Fn)))
		}
	}
	w.floorSites(P, "R13.1", 17)
	// R13.2: explicit global inventory
	nG := 0
	for _, pk := range []string{"exec", "store", "parser", "grammar", ""} {
		p := w.SSA[pk]
		if p == nil {
			continue
		}
		var names []string
		for n, m := range p.Members {
			if _, ok := m.(*ssa.Global); ok && !strings.HasPrefix(n, "init$") {
				names = append(names, n)
			}
		}
		sort.Strings(names)
		for _, n := range names {
			g := p.Members[n].(*ssa.Global)
			written := ""
			for _, ep := range entries {
				if ep.Fn == nil {
					continue
				}
				if e.summary(ep.Fn).W["G:"+g.Pkg.Pkg.Name()+"."+g.Name()] {
					written = ep.Name
				}
			}
			nG++
			w.check(P, "R13.2", "package variable "+g.Pkg.Pkg.Name()+"."+n, g.Pos(), written == "", "written by code reachable from an entry point: "+orNone(written))
		}
	}
	w.floor(P, "R13.2", 8)
	var as []string
	for a := range e.assumed {
		as = append(as, a)
	}
	sort.Strings(as)
	w.check(P, "R13.3", "assumptions and advisory sites", 0, true, "assumed: "+strings.Join(as, "; ")+". Advisory (not armed): map range in bsr.Set.GetRoots feeding roots[0] in grammar.Build; map range over popped descriptors in the generated parser.")
}

func describeTags(t tagset, fn *ssa.Function) []string {
	var out []string
	for _, k := range t.list() {
		var i int
		if n, _ := fmt.Sscanf(k, "P%d", &i); n == 1 && i < len(fn.Params) {
			out = append(out, "its argument `"+fn.Params[i].Name()+"`")
		} else {
			out = append(out, k)
		}
	}
	return out
}
