package main

import (
	"fmt"
	"go/token"
	"go/types"
	"sort"
	"strings"

	"golang.org/x/tools/go/ssa"
)

// S: the 13 XPath 1.0 axes: direction (true = forward) and accessor discipline.
type axisSpec struct {
	forward bool
	must    []string // Cursor methods the selector must reach
	mustNot []string // Cursor methods it must not reach
}

var axisSpecs = map[string]axisSpec{
	"child":              {true, []string{"Children"}, []string{"Attributes", "Namespaces", "Parent"}},
	"attribute":          {true, []string{"Attributes"}, []string{"Children", "Namespaces", "Parent"}},
	"namespace":          {true, []string{"Namespaces"}, []string{"Children", "Attributes", "Parent"}},
	"parent":             {true, []string{"Parent"}, []string{"Children", "Attributes", "Namespaces"}},
	"ancestor":           {false, []string{"Parent"}, []string{"Children", "Attributes", "Namespaces"}},
	"ancestor-or-self":   {false, []string{"Parent"}, []string{"Children", "Attributes", "Namespaces"}},
	"descendant":         {true, []string{"Children"}, []string{"Attributes", "Namespaces", "Parent"}},
	"descendant-or-self": {true, []string{"Children"}, []string{"Attributes", "Namespaces", "Parent"}},
	"following":          {true, []string{"Parent", "Children"}, []string{"Attributes", "Namespaces"}},
	"following-sibling":  {true, []string{"Parent", "Children"}, []string{"Attributes", "Namespaces"}},
	"preceding":          {false, []string{"Parent", "Children"}, []string{"Attributes", "Namespaces"}},
	"preceding-sibling":  {false, []string{"Parent", "Children"}, []string{"Attributes", "Namespaces"}},
	"self":               {true, nil, nil},
}

func init() {
	register("C01", checkC01)
	notDecided["C01"] = "the selected node sets for every tree shape and context node (the rules decide the selector, direction, accessor discipline, root handling and principal node type of every axis, not the sets); name tests on the namespace axis (excluded by the property)."
}

func checkC01(w *World) {
	const P = "C01"
	f := w.Facts()
	r := w.Roles()
	ef := w.ExecFacts()
	for _, e := range append(append([]string{}, r.err...), ef.err...) {
		w.undecided(P, "R00.roles", "role resolution: "+e, 0, e)
	}
	at := ef.Axis
	if at == nil {
		w.undecided(P, "R01.1", "axis dispatch", 0, "handler of AxisName not found")
		return
	}
	for _, e := range at.err {
		w.check(P, "R01.1", "axis dispatch: "+e, at.Handler.Pos(), false, e)
	}

	// R01.1
	docRule(P, "R01.1", "T G<->A", "the spellings tested by the handler of nonterminal AxisName, plus the one axis allowed to take the identity default arm (self), are exactly the terminals of the AxisName production; the default arm leaves the context result untouched.")
	gAxes := map[string]bool{}
	for _, a := range f.Alts["AxisName"] {
		if len(a.Syms) == 1 && !a.Syms[0].IsNT {
			gAxes[a.Syms[0].Name] = true
		}
	}
	var names []string
	for n := range gAxes {
		names = append(names, n)
	}
	sort.Strings(names)
	for _, n := range names {
		if _, isSpec := axisSpecs[n]; !isSpec {
			w.check(P, "R01.1", "axis "+n, 0, false, "the grammar has an axis XPath 1.0 does not define")
			continue
		}
		arm := at.Arms[n]
		if arm == nil {
			if n == "self" {
				w.check(P, "R01.1", "axis self", at.Handler.Pos(), at.DefaultOK, "self takes the default arm, which must be the identity: "+at.DefaultWhy)
			} else {
				w.check(P, "R01.1", "axis "+n, at.Handler.Pos(), false, "the axis dispatch has no arm for `"+n+"`: it falls into the default arm and silently behaves as self")
			}
			continue
		}
		w.check(P, "R01.1", "axis "+n, arm.Pos, arm.Callee != nil, fmt.Sprintf("arm calls %v", fnName(arm.Callee)))
	}
	for n := range at.Arms {
		if !gAxes[n] {
			w.check(P, "R01.1", "axis "+n, at.Arms[n].Pos, false, "the dispatch tests a spelling that is not a terminal of AxisName")
		}
	}
	for n := range axisSpecs {
		if !gAxes[n] {
			w.check(P, "R01.1", "axis "+n, 0, false, "XPath axis missing from the AxisName production")
		}
	}
	w.floor(P, "R01.1", 13)

	// R01.2 direction + normalisation per arm
	docRule(P, "R01.2", "T+P A<->N<->S", "for every axis arm the selector's every return passes through a sort+dedupe normaliser whose direction is XPath's: reverse document order for ancestor, ancestor-or-self, preceding, preceding-sibling (so positions are proximity positions), document order otherwise. Direction is read from the comparison in the sort type's Less.")
	docRule(P, "R01.3", "T CG<->S", "accessor reach: the store.Cursor methods transitively invoked (within package exec) from each arm's selector contain the accessor the axis is defined by and none it must not use (child/descendant never touch Attributes/Namespaces, attribute never Children, ...). The Cursor interface is the only way to the tree.")
	for _, n := range names {
		arm := at.Arms[n]
		if arm == nil || arm.Callee == nil {
			continue
		}
		spec := axisSpecs[n]
		dir := 1
		if !spec.forward {
			dir = -1
		}
		ok, why := w.returnsNormalised(arm.Callee, dir, 0)
		w.check(P, "R01.2", "axis "+n, arm.Callee.Pos(), ok, fmt.Sprintf("selector %s: %s", arm.Callee.Name(), orOK(why)))
		reached := w.cursorMethodsReached(arm.Callee)
		good := true
		var problems []string
		for _, m := range spec.must {
			if !reached[m] {
				good = false
				problems = append(problems, "never calls Cursor."+m)
			}
		}
		for _, m := range spec.mustNot {
			if reached[m] {
				good = false
				problems = append(problems, "calls Cursor."+m)
			}
		}
		w.check(P, "R01.3", "axis "+n, arm.Callee.Pos(), good, fmt.Sprintf("selector %s reaches %v %s", arm.Callee.Name(), keys(reached), strings.Join(problems, "; ")))
	}
	w.floor(P, "R01.2", 12)
	w.floor(P, "R01.3", 12)

	// R01.4 abbreviations call the same selector as the axis they abbreviate
	docRule(P, "R01.4", "T", "abbreviated forms use the selector of the axis they abbreviate: `..` = parent, `@` = attribute, `//` = descendant-or-self (in every production that contains the `//` terminal), a step without axis = child.")
	abbrev := func(nt, axis string) {
		h := f.Handlers[nt]
		if h == nil {
			// reported by R08.1 / R01.7; here only if the production exists
			if len(f.Alts[nt]) > 0 {
				w.check(P, "R01.4", "abbreviation "+nt, 0, false, "no handler registered for "+nt)
			}
			return
		}
		want := at.Arms[axis]
		if want == nil || want.Callee == nil {
			w.undecided(P, "R01.4", "abbreviation "+nt, h.Pos, "axis "+axis+" has no arm to compare with")
			return
		}
		called := map[*ssa.Function]bool{}
		for _, fn := range w.handlerClosureH(h) {
			allInstrs(fn, func(in ssa.Instruction) {
				if c, ok := in.(*ssa.Call); ok {
					for _, sel := range selectorsApplied(c, ef) {
						called[sel] = true
					}
				}
			})
		}
		ok := len(called) == 1 && called[want.Callee]
		w.check(P, "R01.4", "abbreviation "+nt, h.Fn.Pos(), ok, fmt.Sprintf("handler %s calls selectors %v; the %s axis uses %s", h.Fn.Name(), sortedFuncNames(called), axis, want.Callee.Name()))
	}
	abbrev("AbbreviatedStepParent", "parent")
	abbrev("AbbreviatedAxisSpecifier", "attribute")
	for nt, alts := range f.Alts {
		for _, a := range alts {
			for _, s := range a.Syms {
				if !s.IsNT && s.Name == "//" {
					abbrev(nt, "descendant-or-self")
				}
			}
		}
	}
	abbrev("Step", "child")
	w.floor(P, "R01.4", 5)

	// R01.7 absolute paths reset to the root
	docRule(P, "R01.7", "T+D G<->H", "every alternate of AbsoluteLocationPath has a handler, and in it a store into the context result of a value derived from the context's root field (and not from the previous result) precedes every evaluation of a child: an absolute path starts at the root wherever it occurs (predicates and function arguments evaluate in copies of the context).")
	for _, a := range f.Alts["AbsoluteLocationPath"] {
		if len(a.Syms) != 1 || !a.Syms[0].IsNT {
			w.undecided(P, "R01.7", "alternate of AbsoluteLocationPath", 0, "unexpected shape "+a.String())
			continue
		}
		nt := a.Syms[0].Name
		h := f.Handlers[nt]
		if h == nil {
			w.check(P, "R01.7", "absolute path production "+nt, 0, false, "no handler: the dispatcher falls through to the relative path, which is then evaluated from the current context node instead of the root (visible inside predicates and function arguments)")
			continue
		}
		ok, why := w.rootResetDominates(h.Fn, r)
		w.check(P, "R01.7", "absolute path production "+nt, h.Fn.Pos(), ok, why)
	}
	w.floor(P, "R01.7", 3)

	// R01.8 copy completeness
	docRule(P, "R01.8", "T", "the context copy used for predicates, operands and function arguments initialises every field of the context struct from the same field of the receiver (the builtin table may come from the package-level table).")
	if r.CopyCtx != nil && r.CtxType != nil {
		st := r.CtxType.Underlying().(*types.Struct)
		src := map[int]string{}
		var recv ssa.Value
		if len(r.CopyCtx.Params) > 0 {
			recv = r.CopyCtx.Params[0]
		}
		allInstrs(r.CopyCtx, func(in ssa.Instruction) {
			s, ok := in.(*ssa.Store)
			if !ok {
				return
			}
			fa, ok := s.Addr.(*ssa.FieldAddr)
			if !ok {
				return
			}
			if _, isAlloc := fa.X.(*ssa.Alloc); !isAlloc {
				return
			}
			switch v := s.Val.(type) {
			case *ssa.UnOp:
				if sfa, ok := v.X.(*ssa.FieldAddr); ok && sfa.X == recv {
					src[fa.Field] = fmt.Sprintf("recv.%d", sfa.Field)
				} else if g, ok := v.X.(*ssa.Global); ok {
					src[fa.Field] = "global " + g.Name()
				} else {
					src[fa.Field] = "other"
				}
			default:
				src[fa.Field] = "other"
			}
		})
		// whole-struct copy `return *e`
		whole := false
		allInstrs(r.CopyCtx, func(in ssa.Instruction) {
			if ret, ok := in.(*ssa.Return); ok && len(ret.Results) == 1 {
				if u, ok := ret.Results[0].(*ssa.UnOp); ok && u.X == recv {
					whole = true
				}
			}
		})
		// `next := *e` followed by single-field overrides: every field starts as the receiver's
		wholeInit := false
		allInstrs(r.CopyCtx, func(in ssa.Instruction) {
			if s, ok := in.(*ssa.Store); ok {
				if _, isAlloc := s.Addr.(*ssa.Alloc); isAlloc {
					if u, ok := s.Val.(*ssa.UnOp); ok && u.X == recv {
						wholeInit = true
					}
				}
			}
		})
		for i := 0; i < st.NumFields(); i++ {
			name := st.Field(i).Name()
			got := src[i]
			if got == "" && wholeInit {
				got = fmt.Sprintf("recv.%d", i)
			}
			ok := whole || got == fmt.Sprintf("recv.%d", i)
			if !ok && f.BuiltinVar != nil && got == "global "+f.BuiltinVar.Name() {
				ok = true
			}
			w.check(P, "R01.8", "context copy field "+name, r.CopyCtx.Pos(), ok, fmt.Sprintf("field %s initialised from %q", name, got))
		}
		w.floor(P, "R01.8", 4)
	} else {
		w.undecided(P, "R01.8", "context copy", 0, "copy method not identified")
	}

	// R01.9 implicit child axis
	docRule(P, "R01.9", "T G<->H", "the set of child nonterminals under which the Step handler applies the child selector equals the alternates of Step that start with a NodeTest without an axis specifier, and excludes the alternates that carry their own axis, the abbreviated steps and function calls.")
	if h := f.Handlers["Step"]; h != nil && at.Arms["child"] != nil {
		childSel := at.Arms["child"].Callee
		cases := map[string]bool{}
		var selCalls []*ssa.Call
		stepFn := h.Fn
		for _, g := range w.handlerClosureH(h) {
			allInstrs(g, func(in ssa.Instruction) {
				if c, ok := in.(*ssa.Call); ok {
					for _, sel := range selectorsApplied(c, ef) {
						if sel == childSel {
							selCalls = append(selCalls, c)
							stepFn = g
						}
					}
				}
			})
		}
		if len(selCalls) != 1 {
			w.undecided(P, "R01.9", "implicit child axis", h.Fn.Pos(), fmt.Sprintf("expected one call of the child selector in the Step handler, found %d", len(selCalls)))
		} else {
			// the nonterminals for which the selector call is reached (case lists, a predicate helper on the
			// nonterminal, or a set literal)
			for k := range w.ntSetFor(selCalls[0].Block()) {
				cases[k] = true
			}
			_ = stepFn
			for _, a := range f.Alts["Step"] {
				if len(a.Syms) != 1 || !a.Syms[0].IsNT {
					w.undecided(P, "R01.9", "alternate of Step", 0, "unexpected shape "+a.String())
					continue
				}
				x := a.Syms[0].Name
				implicit := x == "NodeTest"
				for _, xa := range f.Alts[x] {
					if len(xa.Syms) > 0 && xa.Syms[0].IsNT && xa.Syms[0].Name == "NodeTest" {
						implicit = true
					}
				}
				ok := cases[x] == implicit
				d := fmt.Sprintf("`Step : %s` %s an implicit child axis; the Step handler %s the child selector for it", x, map[bool]string{true: "has", false: "does not have"}[implicit], map[bool]string{true: "applies", false: "does not apply"}[cases[x]])
				w.check(P, "R01.9", "Step alternate "+x, h.Fn.Pos(), ok, d)
			}
		}
	} else {
		w.undecided(P, "R01.9", "implicit child axis", 0, "Step handler or child arm not found")
	}
	w.floorSites(P, "R01.9", 6)

	// R01.10 node type tests
	docRule(P, "R01.10", "T+X G<->S<->K", "the spellings switched on by the node-type test handler equal the NodeType terminals; comment/text/processing-instruction arms keep a node only under a type assertion to node.Comment/node.CharData/node.ProcInst, node() is the identity; the PI-target test compares ProcInst.Target() for equality with the literal.")
	w.checkNodeTypeTests(P, f, r)
	w.floor(P, "R01.10", 5)

	w.checkRootHandling(P, f, r, ef)
	w.checkContextConstruction(P, f, r)
	w.checkPrincipalNodeType(P, f, r, ef)
	// node tests and selectors never modify the node-set they were given (it is shared with other contexts)
	w.include(P, "C03", "R03.6")
}

func fnName(f *ssa.Function) string {
	if f == nil {
		return "<none>"
	}
	return f.Name()
}

func orOK(s string) string {
	if s == "" {
		return "every return is sorted and de-duplicated in the required direction"
	}
	return s
}

func keys(m map[string]bool) []string {
	var s []string
	for k := range m {
		s = append(s, k)
	}
	sort.Strings(s)
	return s
}

// reachesWithoutIf: from block a, following only unconditional jumps, do we arrive at b?
func reachesWithoutIf(a, b *ssa.BasicBlock) bool {
	for i := 0; i < 8; i++ {
		if a == b {
			return true
		}
		if len(a.Succs) != 1 {
			return false
		}
		a = a.Succs[0]
	}
	return false
}

// rootResetDominates: in handler fn there is a store to ctx.result whose value derives from ctx.root and
// not from ctx.result, and that store dominates every call that evaluates a child (dispatcher calls).
func (w *World) rootResetDominates(fn *ssa.Function, r *Roles) (bool, string) {
	var resets []*ssa.Store
	allInstrs(fn, func(in ssa.Instruction) {
		s, ok := in.(*ssa.Store)
		if !ok {
			return
		}
		fa, ok := s.Addr.(*ssa.FieldAddr)
		if !ok || fa.Field != r.CtxResultField || len(fn.Params) == 0 || fa.X != ssa.Value(ctxParam(fn)) {
			return
		}
		fromRoot := sliceContains(s.Val, func(v ssa.Value) bool { return isFieldLoad(v, r.CtxType, r.CtxRootField) })
		fromResult := sliceContains(s.Val, func(v ssa.Value) bool { return isFieldLoad(v, r.CtxType, r.CtxResultField) })
		if fromRoot && !fromResult {
			resets = append(resets, s)
		}
	})
	if len(resets) == 0 {
		return false, "handler " + fn.Name() + " never stores a value derived from the context root into the context result"
	}
	ok := true
	why := fmt.Sprintf("handler %s resets the result to a root-derived value at %s before evaluating children", fn.Name(), w.pos(resets[0].Pos()))
	for _, g := range w.handlerClosure(fn) {
		allInstrs(g, func(in ssa.Instruction) {
			c, isCall := in.(*ssa.Call)
			if !isCall || staticCallee(c) != r.ExecContext {
				return
			}
			if g != fn {
				// child evaluation in a helper: the helper call itself must be dominated (checked below through fn's call to g)
				return
			}
			dom := false
			for _, s := range resets {
				if s.Block() == c.Block() && instrIndex(s) < instrIndex(c) || (s.Block() != c.Block() && s.Block().Dominates(c.Block())) {
					dom = true
				}
			}
			if !dom {
				ok = false
				why = "a child is evaluated at " + w.pos(c.Pos()) + " before the result is reset to the root"
			}
		})
	}
	// calls from fn to helpers that evaluate children
	allInstrs(fn, func(in ssa.Instruction) {
		c, isCall := in.(*ssa.Call)
		if !isCall {
			return
		}
		sc := staticCallee(c)
		if sc == nil || sc == r.ExecContext || fnPkgKey(sc) != "exec" {
			return
		}
		evaluates := false
		for g := range staticReach(sc, func(f *ssa.Function) bool { return fnPkgKey(f) == "exec" && f != r.ExecContext }) {
			allInstrs(g, func(in2 ssa.Instruction) {
				if c2, ok := in2.(*ssa.Call); ok && staticCallee(c2) == r.ExecContext {
					evaluates = true
				}
			})
		}
		if !evaluates {
			return
		}
		dom := false
		for _, s := range resets {
			if s.Block() == c.Block() && instrIndex(s) < instrIndex(c) || (s.Block() != c.Block() && s.Block().Dominates(c.Block())) {
				dom = true
			}
		}
		if !dom {
			ok = false
			why = "children are evaluated through " + sc.Name() + " at " + w.pos(c.Pos()) + " before the result is reset to the root"
		}
	})
	return ok, why
}

func (w *World) checkNodeTypeTests(P string, f *Facts, r *Roles) {
	want := map[string]string{"comment": "Comment", "text": "CharData", "processing-instruction": "ProcInst", "node": ""}
	gTypes := map[string]bool{}
	for _, a := range f.Alts["NodeType"] {
		if len(a.Syms) == 1 && !a.Syms[0].IsNT {
			gTypes[a.Syms[0].Name] = true
		}
	}
	h := f.Handlers["NodeTestNodeTypeNoArgTest"]
	if h == nil {
		w.check(P, "R01.10", "node type test handler", 0, false, "no handler for NodeTestNodeTypeNoArgTest")
		return
	}
	arms := map[string]*ssa.If{}
	allInstrs(h.Fn, func(in ssa.Instruction) {
		ifi, ok := in.(*ssa.If)
		if !ok {
			return
		}
		bo, ok := ifi.Cond.(*ssa.BinOp)
		if !ok || bo.Op != token.EQL {
			return
		}
		if s, ok := constString(bo.Y); ok {
			arms[s] = ifi
		}
	})
	// table form: the spelling is looked up in a package-level map from spellings to node predicates
	tableArms := map[string]*ssa.Function{}
	allInstrs(h.Fn, func(in ssa.Instruction) {
		lk, ok := in.(*ssa.Lookup)
		if !ok {
			return
		}
		ld, ok := lk.X.(*ssa.UnOp)
		if !ok {
			return
		}
		g, ok := ld.X.(*ssa.Global)
		if !ok {
			return
		}
		entries, ok := w.globalMapLiteral(g)
		if !ok {
			return
		}
		for _, e := range entries {
			k, ok := constString(e.Key)
			if !ok {
				continue
			}
			switch v := stripConv(e.Val).(type) {
			case *ssa.Function:
				tableArms[k] = v
			case *ssa.MakeClosure:
				if f2, ok := v.Fn.(*ssa.Function); ok {
					tableArms[k] = f2
				}
			}
		}
	})
	var ts []string
	for t := range gTypes {
		ts = append(ts, t)
	}
	sort.Strings(ts)
	for _, t := range ts {
		ifi := arms[t]
		iface, known := want[t]
		if !known {
			w.check(P, "R01.10", "node type "+t, 0, false, "grammar has a node type XPath does not define")
			continue
		}
		if pred := tableArms[t]; ifi == nil && pred != nil {
			asserted := map[string]bool{}
			withCallees(pred.Blocks, "exec", h.Fn, func(in ssa.Instruction) {
				if ta, ok := in.(*ssa.TypeAssert); ok {
					if n, _ := nodeIface(ta.AssertedType); n != nil {
						asserted[n.Obj().Name()] = true
					}
				}
			})
			ok := iface != "" && len(asserted) == 1 && asserted[iface]
			w.check(P, "R01.10", "node type "+t, pred.Pos(), ok, fmt.Sprintf("table entry filters by %v, XPath requires node.%s", keys(asserted), iface))
			continue
		}
		if ifi == nil {
			w.check(P, "R01.10", "node type "+t, h.Fn.Pos(), false, "the node-type test has no arm for `"+t+"()`: such a step returns an empty node-set")
			continue
		}
		body := ifi.Block().Succs[0]
		asserted := map[string]bool{}
		storesResult := false
		var armBlks []*ssa.BasicBlock
		for _, b := range h.Fn.Blocks {
			if body.Dominates(b) {
				armBlks = append(armBlks, b)
			}
		}
		// the arm together with the function literals it creates and the helpers it calls (a filter helper taking a
		// predicate keeps the assertion inside the predicate)
		// a predicate chosen in the arm and applied after the switch reaches the join as a phi edge from the arm
		var viaPhi []*ssa.BasicBlock
		inArm := map[*ssa.BasicBlock]bool{}
		for _, b := range armBlks {
			inArm[b] = true
		}
		allInstrs(h.Fn, func(in ssa.Instruction) {
			phi, ok := in.(*ssa.Phi)
			if !ok {
				return
			}
			for i, e := range phi.Edges {
				if !inArm[phi.Block().Preds[i]] {
					continue
				}
				switch x := e.(type) {
				case *ssa.Function:
					viaPhi = append(viaPhi, x.Blocks...)
				case *ssa.MakeClosure:
					if f2, ok := x.Fn.(*ssa.Function); ok {
						viaPhi = append(viaPhi, f2.Blocks...)
					}
				}
			}
		})
		withCallees(append(armBlks, viaPhi...), "exec", h.Fn, func(in ssa.Instruction) {
			if ta, ok := in.(*ssa.TypeAssert); ok {
				if n, _ := nodeIface(ta.AssertedType); n != nil {
					asserted[n.Obj().Name()] = true
				}
			}
			if s, ok := in.(*ssa.Store); ok {
				if fa, ok := s.Addr.(*ssa.FieldAddr); ok && fa.Field == r.CtxResultField {
					storesResult = true
				}
			}
		})
		if iface == "" {
			ok := len(asserted) == 0 && !storesResult
			w.check(P, "R01.10", "node type "+t, ifPos(ifi), ok, fmt.Sprintf("node() must keep every node: type assertions in arm %v, stores result in arm: %v", keys(asserted), storesResult))
		} else {
			ok := len(asserted) == 1 && asserted[iface]
			w.check(P, "R01.10", "node type "+t, ifPos(ifi), ok, fmt.Sprintf("arm filters by %v, XPath requires node.%s", keys(asserted), iface))
		}
	}
	for t := range arms {
		if !gTypes[t] {
			w.check(P, "R01.10", "node type "+t, arms[t].Pos(), false, "arm for a spelling that is not a NodeType terminal")
		}
	}
	for t, pred := range tableArms {
		if !gTypes[t] {
			w.check(P, "R01.10", "node type "+t, pred.Pos(), false, "table entry for a spelling that is not a NodeType terminal")
		}
	}
	// PI target test
	hp := f.Handlers["NodeTestProcInstTargetTest"]
	if hp == nil {
		w.check(P, "R01.10", "processing-instruction target test", 0, false, "no handler")
		return
	}
	okPI := false
	detail := "no equality between ProcInst.Target() and the literal's string found"
	withCallees(hp.Fn.Blocks, "exec", hp.Fn, func(in ssa.Instruction) {
		bo, ok := in.(*ssa.BinOp)
		if !ok {
			return
		}
		isTarget := func(v ssa.Value) bool { _, ok := isMethodCall(throughCells(v), "Target"); return ok }
		isLit := func(v ssa.Value) bool { _, ok := isMethodCall(throughCells(v), "String"); return ok }
		if (isTarget(bo.X) && isLit(bo.Y)) || (isTarget(bo.Y) && isLit(bo.X)) {
			if bo.Op == token.EQL {
				okPI = true
				detail = "Target() == literal.String()"
			} else {
				detail = "Target() compared with " + bo.Op.String()
			}
		}
	})
	asserted := false
	withCallees(hp.Fn.Blocks, "exec", hp.Fn, func(in ssa.Instruction) {
		if ta, ok := in.(*ssa.TypeAssert); ok {
			if n, ok := types.Unalias(ta.AssertedType).(*types.Named); ok && n.Obj().Name() == "ProcInst" {
				asserted = true
			}
		}
	})
	w.check(P, "R01.10", "processing-instruction target test", hp.Fn.Pos(), okPI && asserted, detail)
}

// selectorsApplied: the axis selectors a call applies: its static callee when that is a selector, and every selector
// handed to the callee as a function value (`applyAxis(context, selectParent)`).
func selectorsApplied(c *ssa.Call, ef *ExecFacts) []*ssa.Function {
	var out []*ssa.Function
	if sc := staticCallee(c); sc != nil {
		if _, isSel := ef.Selectors[sc]; isSel {
			out = append(out, sc)
		}
	}
	for _, a := range c.Call.Args {
		var fv *ssa.Function
		switch x := stripConv(a).(type) {
		case *ssa.Function:
			fv = x
		case *ssa.MakeClosure:
			fv, _ = x.Fn.(*ssa.Function)
		}
		if fv != nil {
			if _, isSel := ef.Selectors[fv]; isSel {
				out = append(out, fv)
			}
		}
	}
	return out
}
