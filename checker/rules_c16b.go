package main

import (
	"fmt"
	"go/token"
	"go/types"
	"strings"

	"golang.org/x/tools/go/ssa"
)

// jsonSetters classifies the small methods of the JSON adapter by their effect on the top-of-stack state.
type jsonRoles struct {
	boolFields []string                 // bool fields of the state struct
	setter     map[*ssa.Function]string // method -> field it stores its bool parameter into
	getter     map[*ssa.Function]string // method -> bool field it returns
	push, pop  *ssa.Function
	current    *ssa.Function // returns the state kind of the top of the stack
}

func (w *World) jsonRolesOf(pull *ssa.Function) *jsonRoles {
	jr := &jsonRoles{setter: map[*ssa.Function]string{}, getter: map[*ssa.Function]string{}}
	recvT := pull.Params[0].Type()
	ms := w.Prog.MethodSets.MethodSet(recvT)
	for i := 0; i < ms.Len(); i++ {
		fn := w.Prog.MethodValue(ms.At(i))
		if fn == nil || fn == pull || len(fn.Blocks) == 0 {
			continue
		}
		res := fn.Signature.Results()
		// setter: stores its bool parameter into a field of an element of the stack
		if fn.Signature.Params().Len() == 1 && res.Len() == 0 {
			if b, ok := fn.Signature.Params().At(0).Type().Underlying().(*types.Basic); ok && b.Kind() == types.Bool {
				allInstrs(fn, func(in ssa.Instruction) {
					if st, ok := in.(*ssa.Store); ok && st.Val == ssa.Value(fn.Params[1]) {
						if fa, ok := st.Addr.(*ssa.FieldAddr); ok {
							jr.setter[fn] = fieldName(fa)
						}
					}
				})
				continue
			}
			// push: appends
			allInstrs(fn, func(in ssa.Instruction) {
				if c, ok := in.(*ssa.Call); ok {
					if b, ok := c.Call.Value.(*ssa.Builtin); ok && b.Name() == "append" {
						jr.push = fn
					}
				}
			})
		}
		if fn.Signature.Params().Len() == 0 && res.Len() == 0 {
			allInstrs(fn, func(in ssa.Instruction) {
				if sl, ok := in.(*ssa.Slice); ok && sl.High != nil && isLenMinusConst(sl.High, nil) {
					jr.pop = fn
				}
			})
		}
		if fn.Signature.Params().Len() == 0 && res.Len() == 1 {
			if b, ok := res.At(0).Type().Underlying().(*types.Basic); ok && b.Kind() == types.Bool {
				allInstrs(fn, func(in ssa.Instruction) {
					if ret, ok := in.(*ssa.Return); ok {
						// the returned value is (a conjunction ending in) the load of a bool field of a state
						backSlice(ret.Results[0], func(v ssa.Value) bool {
							if ld, ok := v.(*ssa.UnOp); ok && ld.Op == token.MUL {
								if fa, ok := ld.X.(*ssa.FieldAddr); ok {
									if b, isB := fa.Type().(*types.Pointer).Elem().Underlying().(*types.Basic); isB && b.Kind() == types.Bool {
										jr.getter[fn] = fieldName(fa)
									}
								}
							}
							_, isCall := v.(*ssa.Call)
							return !isCall
						})
					}
				})
			} else if b, ok := res.At(0).Type().Underlying().(*types.Basic); ok && b.Info()&types.IsInteger != 0 {
				// the kind of the top state (an integer-kinded enumeration); helpers that hand out the state itself
				// (a pointer) are not it
				jr.current = fn
			}
		}
	}
	return jr
}

// callsIn lists the static calls of functions of the adapter inside the blocks dominated by the true edge of ifi.
func callsUnder(blocks []*ssa.BasicBlock) []*ssa.Call {
	var out []*ssa.Call
	for _, b := range blocks {
		for _, in := range b.Instrs {
			if c, ok := in.(*ssa.Call); ok && staticCallee(c) != nil {
				out = append(out, c)
			}
		}
	}
	return out
}

func boolConstArg(c *ssa.Call) (bool, bool) {
	if len(c.Call.Args) < 2 {
		return false, false
	}
	k, ok := c.Call.Args[1].(*ssa.Const)
	if !ok || k.Value == nil {
		return false, false
	}
	return k.Value.String() == "true", true
}

// checkJsonScheduling: R16.4.
func (w *World) checkJsonScheduling(P string, pull *ssa.Function, scope *pullScope) {
	docRule(P, "R16.4", "D state machine guards", "member-end scheduling of the JSON adapter. (a) Pull first delivers a pending end event: when the pending-end flag of the current state is set it is cleared and (nil, end) is returned before any token is read. (b) '}' and ']' pop first and then, iff the enclosing state is an object that was expecting a value, set its pending-end flag (the member element must be closed after its container value). (c) '{' and '[' inside an object mark the enclosing member as 'value seen' before pushing. (d) a scalar in object state is a key iff the state expects a key: then it clears the flag and returns an element; otherwise it is the member's value: the state goes back to expecting a key and the pending-end flag is set, and a character-data node is returned. (Guards of the transitions, not a proof of the alternation automaton.)")
	jr := w.jsonRolesOf(pull)
	if jr.push == nil || jr.pop == nil || len(jr.setter) < 2 || len(jr.getter) < 2 {
		w.undecided(P, "R16.4", "JSON adapter roles", pull.Pos(), fmt.Sprintf("push %v pop %v setters %d getters %d", jr.push != nil, jr.pop != nil, len(jr.setter), len(jr.getter)))
		return
	}
	// pending-end flag: the field whose getter guards an early (nil, true, nil) return that dominates the token read
	var tokenCall *ssa.Call
	allInstrs(pull, func(in ssa.Instruction) {
		if c, ok := in.(*ssa.Call); ok && staticCallee(c) != nil && strings.HasSuffix(funcFullName(staticCallee(c)), "json.Decoder).Token") {
			tokenCall = c
		}
	})
	endField := ""
	okA := false
	allInstrs(pull, func(in ssa.Instruction) {
		ret, ok := in.(*ssa.Return)
		if !ok || len(ret.Results) != 3 || tokenCall == nil || tokenCall.Block().Dominates(ret.Block()) {
			return
		}
		c, isC := ret.Results[1].(*ssa.Const)
		if !isC || c.Value == nil || c.Value.String() != "true" {
			return
		}
		for _, a := range guardAtoms(ret.Block()) {
			if gc, ok := a.V.(*ssa.Call); ok && a.Pol {
				if f := jr.getter[staticCallee(gc)]; f != "" {
					endField = f
					// cleared in the same block
					for _, in2 := range ret.Block().Instrs {
						if sc, ok := in2.(*ssa.Call); ok && jr.setter[staticCallee(sc)] == f {
							if v, ok := boolConstArg(sc); ok && !v {
								okA = true
							}
						}
					}
				}
			}
		}
	})
	w.check(P, "R16.4", "pending end event is delivered first and cleared", pull.Pos(), okA, fmt.Sprintf("pending-end flag field %q; cleared and returned as (nil, end) before reading a token: %v", endField, okA))
	keyField := ""
	for _, f := range jr.getter {
		if f != endField {
			keyField = f
		}
	}
	arms := scope.arms()
	setCalls := func(blocks []*ssa.BasicBlock, field string, val bool) []*ssa.Call {
		var out []*ssa.Call
		for _, c := range callsUnder(blocks) {
			if jr.setter[staticCallee(c)] == field {
				if v, ok := boolConstArg(c); ok && v == val {
					out = append(out, c)
				}
			}
		}
		return out
	}
	guardedByGetter := func(c *ssa.Call, field string, pol bool) bool {
		for _, a := range guardAtoms(c.Block()) {
			if gc, ok := a.V.(*ssa.Call); ok && a.Pol == pol && jr.getter[staticCallee(gc)] == field {
				return true
			}
		}
		return false
	}
	for _, d := range []string{"}", "]"} {
		ifi := arms[d]
		if ifi == nil {
			continue
		}
		av := scope.armView(ifi)
		blocks := av.blocks
		var popCall *ssa.Call
		for _, c := range callsUnder(blocks) {
			if staticCallee(c) == jr.pop {
				popCall = c
			}
		}
		sets := setCalls(blocks, endField, true)
		ok := popCall != nil && len(sets) == 1 && guardedByGetter(sets[0], keyField, true) && av.before(popCall, sets[0])
		// the guard must be evaluated after the pop
		if ok {
			for _, a := range guardAtoms(sets[0].Block()) {
				if gc, isC := a.V.(*ssa.Call); isC && jr.getter[staticCallee(gc)] == keyField && !av.before(popCall, gc) {
					ok = false
				}
			}
		}
		// ... or the pop method schedules the member's end itself, after shortening the stack
		if !ok && popCall != nil && len(sets) == 0 {
			var shorten ssa.Instruction
			allInstrs(jr.pop, func(in ssa.Instruction) {
				if sl, isSl := in.(*ssa.Slice); isSl && sl.High != nil && isLenMinusConst(sl.High, nil) {
					// the store of the shortened stack
					for _, rr := range referrers(sl) {
						if st, isSt := rr.(*ssa.Store); isSt {
							shorten = st
						}
					}
				}
			})
			inner := setCalls(jr.pop.Blocks, endField, true)
			if shorten != nil && len(inner) == 1 && guardedByGetter(inner[0], keyField, true) && instrAfter(shorten, inner[0]) {
				ok = true
				for _, a := range guardAtoms(inner[0].Block()) {
					if gc, isC := a.V.(*ssa.Call); isC && jr.getter[staticCallee(gc)] == keyField && !instrAfter(shorten, gc) {
						ok = false
					}
				}
			}
		}
		w.check(P, "R16.4", "closing "+d+": member end scheduled after the pop", ifPos(ifi), ok, fmt.Sprintf("pops, then sets the pending-end flag iff the enclosing state has its %q flag set: %v", keyField, ok))
	}
	for _, d := range []string{"{", "["} {
		ifi := arms[d]
		if ifi == nil {
			continue
		}
		av := scope.armView(ifi)
		blocks := av.blocks
		var pushCall *ssa.Call
		for _, c := range callsUnder(blocks) {
			if staticCallee(c) == jr.push {
				pushCall = c
			}
		}
		ok := false
		// ... in the arm, or in the push method itself before it appends the new state
		var appendCall ssa.Instruction
		allInstrs(jr.push, func(in ssa.Instruction) {
			if c, isC := in.(*ssa.Call); isC {
				if b, isB := c.Call.Value.(*ssa.Builtin); isB && b.Name() == "append" {
					appendCall = c
				}
			}
		})
		if pushCall != nil && appendCall != nil {
			for _, c := range setCalls(jr.push.Blocks, keyField, true) {
				if instrAfter(appendCall, c) || c.Block() == appendCall.Block() && instrIndex(c) > instrIndex(appendCall) {
					continue
				}
				for _, a := range guardAtoms(c.Block()) {
					if bo, isBo := a.V.(*ssa.BinOp); isBo && bo.Op == token.EQL && a.Pol {
						if gc, isC := bo.X.(*ssa.Call); isC && staticCallee(gc) == jr.current {
							ok = true
						}
					}
				}
			}
		}
		for _, c := range setCalls(blocks, keyField, true) {
			if pushCall == nil || av.before(pushCall, c) {
				continue
			}
			// guarded by current state == object constant
			for _, a := range guardAtoms(c.Block()) {
				if bo, isBo := a.V.(*ssa.BinOp); isBo && bo.Op == token.EQL && a.Pol {
					if gc, isC := bo.X.(*ssa.Call); isC && staticCallee(gc) == jr.current {
						ok = true
					}
				}
			}
		}
		w.check(P, "R16.4", "opening "+d+": enclosing member marked before the push", ifPos(ifi), ok, fmt.Sprintf("inside an object the enclosing state's %q flag is set before the new state is pushed: %v (otherwise the member element is never closed after its container value)", keyField, ok))
	}
	// (d) scalar in object state
	keyOK, valOK := false, false
	scope.all(func(in ssa.Instruction) {
		c, ok := in.(*ssa.Call)
		if !ok || jr.setter[staticCallee(c)] != keyField {
			return
		}
		v, isC := boolConstArg(c)
		if !isC {
			return
		}
		inArm := false
		for _, ifi := range arms {
			if ifi.Parent() == c.Parent() && ifi.Block().Succs[0].Dominates(c.Block()) {
				inArm = true
			}
		}
		if inArm {
			return
		}
		if !v && guardedByGetter(c, keyField, true) {
			// followed by a return of an element
			for _, b := range c.Parent().Blocks {
				if c.Block() == b || c.Block().Dominates(b) {
					for _, in2 := range b.Instrs {
						if ret, ok := in2.(*ssa.Return); ok {
							retNode, _, okR := scope.effRet(ret)
							if !okR {
								continue
							}
							if mi, ok := retNode.(*ssa.MakeInterface); ok && w.implementsNode(mi.X.Type(), "Element") && !w.implementsNode(mi.X.Type(), "Attribute") {
								keyOK = true
							}
						}
					}
				}
			}
		}
		if v && guardedByGetter(c, keyField, false) {
			for _, in2 := range c.Block().Instrs {
				if sc, ok := in2.(*ssa.Call); ok && jr.setter[staticCallee(sc)] == endField {
					if vv, ok := boolConstArg(sc); ok && vv {
						valOK = true
					}
				}
			}
		}
	})
	w.check(P, "R16.4", "scalar in object state: key", pull.Pos(), keyOK, fmt.Sprintf("when a key is expected the flag is cleared and an element node is returned: %v", keyOK))
	w.check(P, "R16.4", "scalar in object state: value", pull.Pos(), valOK, fmt.Sprintf("when a value is expected the state returns to expecting a key and the member's end is scheduled: %v", valOK))
	w.floorSites(P, "R16.4", 7)
}
