package main

import (
	"fmt"
	"go/token"
	"go/types"
	"sort"
	"strings"

	"golang.org/x/tools/go/callgraph"
	"golang.org/x/tools/go/ssa"
)

// Effect analysis (analysis E of DESIGN.md).
//
// Tags name memory relative to the function being analysed:
//
//	"L"        an object allocated in the current activation (or returned fresh by a callee)
//	"P<i>"     the object parameter i refers to directly (pointee, backing array, map, boxed value)
//	"P<i>*"    any object reachable from that one through stored references (any depth)
//	"FV<i>", "FV<i>*"  the same for captured variables of closures
//	"G:<name>" a package-level variable or anything reachable from it
//	"X:<why>"  memory the analysis cannot attribute
//
// origin(v)    = the objects v may refer to directly;
// reachFrom(v) = the objects reachable from those through references stored in them (flattened).
// A write through an address a modifies origin(a).
type tagset map[string]bool

func (t tagset) add(o tagset) bool {
	ch := false
	for k := range o {
		if !t[k] {
			t[k] = true
			ch = true
		}
	}
	return ch
}
func (t tagset) list() []string {
	var s []string
	for k := range t {
		s = append(s, k)
	}
	sort.Strings(s)
	return s
}

// below: tag of what is reachable from an object with tag t ("" for locals: handled structurally).
func below(t string) string {
	switch {
	case t == "L" || t == "F":
		return ""
	case strings.HasPrefix(t, "P") || strings.HasPrefix(t, "FV"):
		if strings.HasSuffix(t, "*") {
			return t
		}
		return t + "*"
	}
	return t
}

type write struct {
	Pos    token.Pos
	Fn     *ssa.Function
	What   string
	Tags   tagset
	Callee *ssa.Function
	Map    map[string]tagset // callee tag -> caller tags
}

type fnSummary struct {
	W      tagset                  // memory it may write (own-parameter terms)
	WLoc   map[string][]types.Type // tag -> types of the objects written through it (nil entry = unknown)
	R      tagset                  // origin of returned references ("F" = fresh), all result positions together
	Rc     tagset                  // what is reachable from the returned references
	Ri     map[int]tagset          // the same per result position
	Rci    map[int]tagset
	S      map[int]tagset // parameter j -> references it may store into memory reachable from parameter j
	Writes []write
}

type effects struct {
	w              *World
	sum            map[*ssa.Function]*fnSummary
	cg             *callgraph.Graph
	assumed        map[string]bool
	unknownCallees map[string]bool
}

func isRefType(t types.Type) bool {
	switch u := t.Underlying().(type) {
	case *types.Pointer, *types.Slice, *types.Map, *types.Chan, *types.Interface, *types.Signature:
		return true
	case *types.Struct:
		for i := 0; i < u.NumFields(); i++ {
			if isRefType(u.Field(i).Type()) {
				return true
			}
		}
	case *types.Tuple:
		for i := 0; i < u.Len(); i++ {
			if isRefType(u.At(i).Type()) {
				return true
			}
		}
	case *types.Array:
		return isRefType(u.Elem())
	}
	return false
}

var effectsCache *effects

func (w *World) Effects() *effects {
	if effectsCache == nil {
		theWorld = w
		effectsCache = &effects{w: w, sum: map[*ssa.Function]*fnSummary{}, cg: w.CallGraph(), assumed: map[string]bool{}, unknownCallees: map[string]bool{}}
	}
	return effectsCache
}

// callUse: a call that receives (an address derived from) a local.
type callUse struct {
	Call ssa.CallInstruction
	Arg  int
}

// localUses: how a local object (alloc, make) leaves the function.
func localUses(root ssa.Value, localHolder func(addr ssa.Value) bool) (calls []callUse, other bool) {
	seen := map[ssa.Value]bool{}
	var walk func(v ssa.Value)
	walk = func(v ssa.Value) {
		if seen[v] {
			return
		}
		seen[v] = true
		for _, r := range referrers(v) {
			switch x := r.(type) {
			case *ssa.FieldAddr:
				if x.X == v {
					walk(x)
				}
			case *ssa.IndexAddr:
				if x.X == v {
					walk(x)
				}
			case *ssa.Slice:
				if x.X == v {
					walk(x)
				}
			case *ssa.Store:
				if x.Val == v && !localHolder(x.Addr) {
					other = true
				}
			case *ssa.MapUpdate:
				if (x.Value == v || x.Key == v) && !localHolder(x.Map) {
					other = true
				}
			case *ssa.UnOp:
			case ssa.CallInstruction:
				if b, ok := x.Common().Value.(*ssa.Builtin); ok {
					if b.Name() == "append" && x.Common().Args[0] == v {
						// the result may share the backing array of the first argument only
						if c, ok := x.(*ssa.Call); ok {
							walk(c)
						}
					}
					continue
				}
				for i, a := range callArgs(x) {
					if a == v {
						calls = append(calls, callUse{x, i})
					}
				}
			case *ssa.MakeInterface:
				walk(x)
			case *ssa.ChangeType:
				walk(x)
			case *ssa.Phi:
				walk(x)
			case *ssa.MakeClosure:
				if cf, ok := x.Fn.(*ssa.Function); ok {
					for k, b := range x.Bindings {
						if b != v || k >= len(cf.FreeVars) {
							continue
						}
						assigned := false
						var chase func(a ssa.Value)
						chase = func(a ssa.Value) {
							for _, rr := range referrers(a) {
								switch y := rr.(type) {
								case *ssa.Store:
									if y.Addr == a {
										assigned = true
									}
								case *ssa.FieldAddr:
									chase(y)
								case *ssa.IndexAddr:
									chase(y)
								case ssa.CallInstruction, *ssa.MakeClosure:
									assigned = true
								}
							}
						}
						chase(cf.FreeVars[k])
						if assigned {
							other = true
						}
					}
				} else {
					other = true
				}
			case *ssa.Return:
				// returned: the caller sees it through the R/Rc summaries
			}
		}
	}
	walk(root)
	return
}

// scalarCell: addr is the cell of a local variable that is only assigned directly in its own function (closures that
// capture it only read it, its address goes nowhere else); returns the assigned values.
func scalarCell(addr ssa.Value) ([]ssa.Value, bool) {
	al, ok := addr.(*ssa.Alloc)
	if !ok {
		return nil, false
	}
	var vals []ssa.Value
	for _, r := range referrers(al) {
		switch x := r.(type) {
		case *ssa.Store:
			if x.Addr != ssa.Value(al) {
				return nil, false
			}
			vals = append(vals, x.Val)
		case *ssa.UnOp, *ssa.DebugRef:
		case *ssa.MakeClosure:
			cf, ok := x.Fn.(*ssa.Function)
			if !ok {
				return nil, false
			}
			for k, b := range x.Bindings {
				if b != ssa.Value(al) {
					continue
				}
				if k >= len(cf.FreeVars) || !readOnlyCapture(cf.FreeVars[k], 0) {
					return nil, false
				}
			}
		default:
			return nil, false
		}
	}
	return vals, true
}

func readOnlyCapture(fv ssa.Value, depth int) bool {
	if depth > 4 {
		return false
	}
	for _, r := range referrers(fv) {
		switch x := r.(type) {
		case *ssa.UnOp, *ssa.DebugRef:
		case *ssa.MakeClosure:
			cf, ok := x.Fn.(*ssa.Function)
			if !ok {
				return false
			}
			for k, b := range x.Bindings {
				if b == fv && (k >= len(cf.FreeVars) || !readOnlyCapture(cf.FreeVars[k], depth+1)) {
					return false
				}
			}
		default:
			return false
		}
	}
	return true
}

type originCtx struct {
	e      *effects
	fn     *ssa.Function
	memoO  map[ssa.Value]tagset
	memoR  map[ssa.Value]tagset
	stackO map[ssa.Value]bool
	stackR map[ssa.Value]bool
}

func (e *effects) newOriginCtx(fn *ssa.Function) *originCtx {
	return &originCtx{e: e, fn: fn, memoO: map[ssa.Value]tagset{}, memoR: map[ssa.Value]tagset{}, stackO: map[ssa.Value]bool{}, stackR: map[ssa.Value]bool{}}
}

func (oc *originCtx) paramTag(p *ssa.Parameter) string {
	for i, x := range oc.fn.Params {
		if x == p {
			return fmt.Sprintf("P%d", i)
		}
	}
	return "P?"
}

// origin: the objects v may refer to directly.
func (oc *originCtx) origin(v ssa.Value) tagset {
	if v == nil {
		return tagset{}
	}
	if t, ok := oc.memoO[v]; ok {
		return t
	}
	if oc.stackO[v] {
		return tagset{}
	}
	oc.stackO[v] = true
	defer delete(oc.stackO, v)
	res := tagset{}
	switch x := v.(type) {
	case *ssa.Const, *ssa.Function, *ssa.Builtin:
	case *ssa.Parameter:
		if isRefType(x.Type()) {
			res[oc.paramTag(x)] = true
		}
	case *ssa.FreeVar:
		for i, fv := range oc.fn.FreeVars {
			if fv == x {
				res[fmt.Sprintf("FV%d", i)] = true
			}
		}
	case *ssa.Global:
		res["G:"+x.Pkg.Pkg.Name()+"."+x.Name()] = true
	case *ssa.Alloc, *ssa.MakeSlice, *ssa.MakeMap, *ssa.MakeChan, *ssa.MakeClosure:
		res["L"] = true
	case *ssa.FieldAddr:
		res.add(oc.origin(x.X))
	case *ssa.IndexAddr:
		res.add(oc.origin(x.X))
	case *ssa.Slice:
		res.add(oc.origin(x.X))
	case *ssa.ChangeType:
		res.add(oc.origin(x.X))
	case *ssa.Convert:
		if isRefType(x.Type()) && isRefType(x.X.Type()) {
			res.add(oc.origin(x.X))
		} else if isRefType(x.Type()) {
			res["L"] = true
		}
	case *ssa.MakeInterface:
		res.add(oc.origin(x.X))
	case *ssa.ChangeInterface:
		res.add(oc.origin(x.X))
	case *ssa.TypeAssert:
		res.add(oc.origin(x.X))
	case *ssa.Extract:
		res.add(oc.originOfTuple(x.Tuple, x.Index, false))
	case *ssa.Phi:
		for _, e := range x.Edges {
			res.add(oc.origin(e))
		}
	case *ssa.Field:
		res.add(oc.origin(x.X))
	case *ssa.Index:
		res.add(oc.reachFrom(x.X))
	case *ssa.Lookup:
		if isRefType(x.Type()) {
			res.add(oc.reachFrom(x.X))
		}
	case *ssa.Range:
		res.add(oc.origin(x.X))
	case *ssa.Next:
		res.add(oc.reachFrom(x.Iter))
	case *ssa.UnOp:
		if x.Op == token.MUL {
			if isRefType(x.Type()) {
				if vals, ok := scalarCell(x.X); ok {
					// a variable cell (go/ssa heap-allocates every captured variable): exactly what was assigned
					for _, sv := range vals {
						res.add(oc.origin(sv))
					}
				} else {
					res.add(oc.reachFrom(x.X))
				}
			}
		} else if x.Op == token.ARROW {
			res["X:received from a channel"] = true
		}
	case *ssa.BinOp:
	case *ssa.Call:
		res.add(oc.originOfTuple(x, -1, false))
	default:
		if isRefType(v.Type()) {
			res[fmt.Sprintf("X:%T", v)] = true
		}
	}
	oc.memoO[v] = res
	return res
}

// reachFrom: the objects reachable through references stored in the object(s) v refers to (flattened).
func (oc *originCtx) reachFrom(v ssa.Value) tagset {
	if v == nil {
		return tagset{}
	}
	if t, ok := oc.memoR[v]; ok {
		return t
	}
	if oc.stackR[v] {
		return tagset{}
	}
	oc.stackR[v] = true
	defer delete(oc.stackR, v)
	res := tagset{}
	addStored := func(val ssa.Value) {
		if val == nil || !isRefType(val.Type()) {
			return
		}
		res.add(oc.origin(val))
		res.add(oc.reachFrom(val))
	}
	local := func(root ssa.Value) {
		switch r := root.(type) {
		case *ssa.Alloc:
			for _, st := range storesInto(root) {
				addStored(st.Val)
			}
		case *ssa.MakeSlice:
			for _, st := range storesIntoSlice(root) {
				addStored(st.Val)
			}
		case *ssa.MakeMap:
			for _, rr := range referrers(root) {
				if mu, ok := rr.(*ssa.MapUpdate); ok && mu.Map == root {
					addStored(mu.Value)
					addStored(mu.Key)
				}
			}
		case *ssa.MakeClosure:
			for _, b := range r.Bindings {
				addStored(b)
			}
		}
		calls, other := localUses(root, func(addr ssa.Value) bool {
			for t := range oc.origin(addr) {
				if t != "L" {
					return false
				}
			}
			return true
		})
		if other {
			res["X:contents of a local that was stored elsewhere or captured ("+root.Name()+" in "+oc.fn.Name()+")"] = true
		}
		for _, cu := range calls {
			callees := oc.e.callees(cu.Call)
			if len(callees) == 0 {
				res["X:contents of a local passed to a function outside the analysis"] = true
			}
			for _, g := range callees {
				if !inRepo(g) {
					continue // external callees fill what they are given with fresh data (model)
				}
				gs := oc.e.summary(g)
				for t := range gs.S[cu.Arg] {
					oc.e.mapTag(t, cu.Call, g, oc, res)
				}
			}
		}
	}
	switch x := v.(type) {
	case *ssa.Const, *ssa.Function, *ssa.Builtin:
	case *ssa.Parameter:
		if isRefType(x.Type()) {
			res[oc.paramTag(x)+"*"] = true
		}
	case *ssa.FreeVar:
		for i, fv := range oc.fn.FreeVars {
			if fv == x {
				res[fmt.Sprintf("FV%d*", i)] = true
			}
		}
	case *ssa.Global:
		res["G:"+x.Pkg.Pkg.Name()+"."+x.Name()] = true
	case *ssa.Alloc, *ssa.MakeSlice, *ssa.MakeMap, *ssa.MakeClosure:
		local(v)
	case *ssa.MakeChan:
	case *ssa.FieldAddr:
		res.add(oc.reachFrom(x.X))
	case *ssa.IndexAddr:
		res.add(oc.reachFrom(x.X))
	case *ssa.Slice:
		res.add(oc.reachFrom(x.X))
	case *ssa.ChangeType:
		res.add(oc.reachFrom(x.X))
	case *ssa.Convert:
		if isRefType(x.X.Type()) {
			res.add(oc.reachFrom(x.X))
		}
	case *ssa.MakeInterface:
		res.add(oc.reachFrom(x.X))
	case *ssa.ChangeInterface:
		res.add(oc.reachFrom(x.X))
	case *ssa.TypeAssert:
		res.add(oc.reachFrom(x.X))
	case *ssa.Field:
		res.add(oc.reachFrom(x.X))
	case *ssa.Range:
		res.add(oc.reachFrom(x.X))
	case *ssa.Phi:
		for _, e := range x.Edges {
			res.add(oc.reachFrom(e))
		}
	case *ssa.Extract:
		res.add(oc.originOfTuple(x.Tuple, x.Index, true))
	case *ssa.Call:
		res.add(oc.originOfTuple(x, -1, true))
	default:
		// loaded / looked-up values: everything below what they may refer to
		for t := range oc.origin(v) {
			if b := below(t); b != "" {
				res[b] = true
			} else {
				res.add(oc.loadedLocalContents(v))
			}
		}
	}
	oc.memoR[v] = res
	return res
}

// loadedLocalContents: v was loaded from memory and may refer to a local object; with flattening the
// contents of the holder are an upper bound of the contents of the loaded object.
func (oc *originCtx) loadedLocalContents(v ssa.Value) tagset {
	switch x := v.(type) {
	case *ssa.UnOp:
		return oc.reachFrom(x.X)
	case *ssa.Lookup:
		return oc.reachFrom(x.X)
	case *ssa.Index:
		return oc.reachFrom(x.X)
	case *ssa.Next:
		return oc.reachFrom(x.Iter)
	}
	return tagset{}
}

// storesIntoSlice: stores through IndexAddr on a make([]T) value (following slices and phis of it).
func storesIntoSlice(root ssa.Value) []*ssa.Store {
	var out []*ssa.Store
	seen := map[ssa.Value]bool{}
	var walk func(v ssa.Value)
	walk = func(v ssa.Value) {
		if seen[v] {
			return
		}
		seen[v] = true
		for _, r := range referrers(v) {
			switch x := r.(type) {
			case *ssa.IndexAddr:
				if x.X == v {
					for _, rr := range referrers(x) {
						if st, ok := rr.(*ssa.Store); ok && st.Addr == ssa.Value(x) {
							out = append(out, st)
						}
					}
				}
			case *ssa.Slice:
				if x.X == v {
					walk(x)
				}
			case *ssa.Phi:
				walk(x)
			}
		}
	}
	walk(root)
	return out
}

// originOfTuple: origin (contents=false) or reachFrom (contents=true) of result idx of a call-like value.
func (oc *originCtx) originOfTuple(v ssa.Value, idx int, contents bool) tagset {
	res := tagset{}
	c, ok := v.(*ssa.Call)
	if !ok {
		switch x := v.(type) {
		case *ssa.TypeAssert:
			if idx == 0 {
				if contents {
					return oc.reachFrom(x.X)
				}
				return oc.origin(x.X)
			}
		case *ssa.Lookup:
			if idx == 0 {
				return oc.reachFrom(x.X)
			}
		case *ssa.Next:
			return oc.reachFrom(x.Iter)
		case *ssa.UnOp:
			return oc.reachFrom(x.X)
		}
		return res
	}
	var rt types.Type = c.Type()
	if tup, ok := rt.(*types.Tuple); ok && idx >= 0 && idx < tup.Len() {
		rt = tup.At(idx).Type()
	}
	if !isRefType(rt) {
		return res
	}
	cc := c.Common()
	if b, ok := cc.Value.(*ssa.Builtin); ok {
		if b.Name() == "append" {
			if contents {
				res.add(oc.reachFrom(cc.Args[0]))
				res.add(oc.reachFrom(cc.Args[1]))
			} else {
				res.add(oc.origin(cc.Args[0]))
				res["L"] = true
			}
		}
		return res
	}
	callees := oc.e.callees(c)
	if len(callees) == 0 {
		res["X:result of a call outside the analysis ("+calleeName(c)+")"] = true
		return res
	}
	for _, g := range callees {
		if !inRepo(g) {
			res.add(oc.e.externalResult(g, c, oc, contents))
			continue
		}
		s := oc.e.summary(g)
		src := s.R
		if contents {
			src = s.Rc
		}
		if idx >= 0 {
			// one position of a result tuple: an error returned next to a fresh slice does not taint the slice
			src = s.Ri[idx]
			if contents {
				src = s.Rci[idx]
			}
		} else if g.Signature.Results().Len() == 1 {
			src = s.Ri[0]
			if contents {
				src = s.Rci[0]
			}
		}
		for t := range src {
			oc.e.mapTag(t, c, g, oc, res)
		}
	}
	return res
}

// mapTag translates a callee-relative tag to the caller's terms.
func (e *effects) mapTag(t string, c ssa.CallInstruction, g *ssa.Function, oc *originCtx, out tagset) {
	deep := strings.HasSuffix(t, "*")
	base := strings.TrimSuffix(t, "*")
	switch {
	case t == "F" || t == "L":
		out["L"] = true
	case strings.HasPrefix(base, "FV"):
		var j int
		fmt.Sscanf(base, "FV%d", &j)
		if mc, ok := c.Common().Value.(*ssa.MakeClosure); ok && j < len(mc.Bindings) {
			if deep {
				out.add(oc.reachFrom(mc.Bindings[j]))
			} else {
				out.add(oc.origin(mc.Bindings[j]))
			}
		} else {
			out["X:variable captured by a function value"] = true
		}
	case strings.HasPrefix(base, "P"):
		var j int
		fmt.Sscanf(base, "P%d", &j)
		args := callArgs(c)
		if j < len(args) {
			if deep {
				out.add(oc.reachFrom(args[j]))
			} else {
				out.add(oc.origin(args[j]))
			}
		}
	default:
		out[t] = true
	}
}

func callArgs(c ssa.CallInstruction) []ssa.Value {
	cc := c.Common()
	if cc.IsInvoke() {
		return append([]ssa.Value{cc.Value}, cc.Args...)
	}
	return cc.Args
}

func (e *effects) callees(c ssa.CallInstruction) []*ssa.Function {
	if sc := staticCallee(c); sc != nil {
		return []*ssa.Function{sc}
	}
	var out []*ssa.Function
	if n := e.cg.Nodes[c.Parent()]; n != nil {
		for _, ed := range n.Out {
			if ed.Site == c {
				out = append(out, ed.Callee.Func)
			}
		}
	}
	sort.Slice(out, func(i, j int) bool { return out[i].String() < out[j].String() })
	return out
}

func pkgPathOf(g *ssa.Function) string {
	if g.Pkg != nil {
		return g.Pkg.Pkg.Path()
	}
	if o := g.Object(); o != nil && o.Pkg() != nil {
		return o.Pkg().Path()
	}
	return ""
}

// external callee model: which of its arguments an external function writes.
func (e *effects) externalWrites(g *ssa.Function, c ssa.CallInstruction, oc *originCtx) tagset {
	name := funcFullName(g)
	out := tagset{}
	args := callArgs(c)
	pk := pkgPathOf(g)
	writesRecv := func() {
		if len(args) > 0 {
			out.add(oc.origin(args[0]))
		}
	}
	switch {
	case name == "sort.Sort" || name == "sort.Stable" || name == "sort.Slice" || name == "sort.SliceStable":
		// sorting permutes the elements of the slice: for a struct sort type built in place (slice plus comparison
		// function) that is the slice it was given, not the function value next to it
		handled := false
		if len(args) > 0 {
			if mi, ok := args[0].(*ssa.MakeInterface); ok {
				if al := structSortLiteral(mi.X); al != nil {
					for _, st := range storesInto(al) {
						if fa, isFA := st.Addr.(*ssa.FieldAddr); isFA && fa.X == ssa.Value(al) {
							if _, isSlice := st.Val.Type().Underlying().(*types.Slice); isSlice {
								out.add(oc.origin(st.Val))
								handled = true
							}
						}
					}
				}
			}
		}
		if !handled {
			writesRecv()
		}
	case strings.HasPrefix(name, "(*strings.Builder).") || strings.HasPrefix(name, "(*bytes.Buffer).") || strings.HasPrefix(name, "(*encoding/xml.Encoder)."):
		if !strings.HasSuffix(name, ".String") && !strings.HasSuffix(name, ".Len") && !strings.HasSuffix(name, ".Bytes") {
			writesRecv()
		}
	case strings.HasPrefix(name, "fmt.Fprint"):
		writesRecv()
	case name == "fmt.Print" || name == "fmt.Println" || name == "fmt.Printf":
		out["G:os.Stdout"] = true
	case strings.HasPrefix(name, "(reflect.Value).Set"):
		writesRecv()
	case pk == "reflect":
	case pk == "strings" || pk == "strconv" || pk == "math" || pk == "unicode" || pk == "unicode/utf8" || pk == "errors" || pk == "fmt" || pk == "bytes" || pk == "sort":
	case strings.HasPrefix(pk, "golang.org/x/text"):
	case pk == "github.com/pkg/errors":
	case strings.HasPrefix(name, "(*sync.WaitGroup).") || strings.HasPrefix(name, "(*sync.Mutex).") || strings.HasPrefix(name, "(*sync.RWMutex)."):
	default:
		for _, a := range args {
			if !isRefType(a.Type()) {
				continue
			}
			for t := range oc.origin(a) {
				if t != "L" {
					e.unknownCallees[name] = true
					out["X:unclassified external callee "+name+" receives "+t] = true
				}
			}
		}
	}
	return out
}

func (e *effects) externalResult(g *ssa.Function, c *ssa.Call, oc *originCtx, contents bool) tagset {
	name := funcFullName(g)
	out := tagset{}
	args := callArgs(c)
	switch {
	case name == "reflect.ValueOf" || strings.HasPrefix(name, "(reflect.Value).Elem") || strings.HasPrefix(name, "(reflect.Value).Field") ||
		strings.HasPrefix(name, "(reflect.Value).Addr") || strings.HasPrefix(name, "(reflect.Value).Index") || strings.HasPrefix(name, "(reflect.Value).Interface"):
		if len(args) > 0 {
			out.add(oc.origin(args[0]))
			out.add(oc.reachFrom(args[0]))
		}
	default:
		if !contents {
			out["L"] = true
		}
	}
	return out
}

var readOnlyMethods = map[string]bool{"Pos": true, "Node": true, "Namespaces": true, "Attributes": true, "Children": true, "Parent": true,
	"Space": true, "Local": true, "Prefix": true, "NamespaceValue": true, "AttributeValue": true, "CharDataValue": true, "CommentValue": true,
	"Target": true, "ProcInstValue": true, "String": true, "Number": true, "Bool": true, "Error": true, "Result": true, "ContextPosition": true, "ContextSize": true,
	"Len": true, "Less": true, "Kind": true, "Elem": true, "Name": true, "Field": true, "NumField": true, "AssignableTo": true, "Get": true}

func (e *effects) summary(fn *ssa.Function) *fnSummary {
	if s, ok := e.sum[fn]; ok {
		return s
	}
	s := &fnSummary{W: tagset{}, R: tagset{}, Rc: tagset{}, S: map[int]tagset{}, WLoc: map[string][]types.Type{}}
	e.sum[fn] = s
	for round := 0; round < 8; round++ {
		if !e.analyse(fn, s) {
			break
		}
	}
	return s
}

// settle re-analyses every summarised function until nothing changes (mutual recursion).
func (e *effects) settle() {
	for round := 0; round < 12; round++ {
		changed := false
		var fns []*ssa.Function
		for f := range e.sum {
			fns = append(fns, f)
		}
		sort.Slice(fns, func(i, j int) bool { return fns[i].String() < fns[j].String() })
		for _, f := range fns {
			if e.analyse(f, e.sum[f]) {
				changed = true
			}
		}
		if !changed {
			return
		}
	}
}

func addLoc(s *fnSummary, tag string, loc types.Type) bool {
	for _, l := range s.WLoc[tag] {
		if l == nil && loc == nil {
			return false
		}
		if l != nil && loc != nil && types.Identical(l, loc) {
			return false
		}
	}
	if len(s.WLoc[tag]) > 24 {
		for _, l := range s.WLoc[tag] {
			if l == nil {
				return false
			}
		}
		s.WLoc[tag] = append(s.WLoc[tag], nil)
		return true
	}
	s.WLoc[tag] = append(s.WLoc[tag], loc)
	return true
}

func writtenObjectType(addr ssa.Value) types.Type {
	switch a := addr.(type) {
	case *ssa.FieldAddr:
		if pt, ok := a.X.Type().Underlying().(*types.Pointer); ok {
			return pt.Elem()
		}
	case *ssa.IndexAddr:
		return a.X.Type()
	}
	if pt, ok := addr.Type().Underlying().(*types.Pointer); ok {
		return pt.Elem()
	}
	return nil
}

// implementers lists the named types of the program (and their pointers) that implement iface.
var implCache = map[string][]types.Type{}
var theWorld *World

func implementers(iface *types.Interface) []types.Type {
	k := iface.String()
	if r, ok := implCache[k]; ok {
		return r
	}
	var out []types.Type
	if theWorld != nil {
		for _, p := range theWorld.Prog.AllPackages() {
			for _, m := range p.Members {
				tn, ok := m.(*ssa.Type)
				if !ok {
					continue
				}
				t := tn.Type()
				if _, isIface := t.Underlying().(*types.Interface); isIface {
					continue
				}
				if types.Implements(t, iface) {
					out = append(out, t)
				} else if types.Implements(types.NewPointer(t), iface) {
					out = append(out, types.NewPointer(t))
				}
			}
		}
	}
	implCache[k] = out
	return out
}

// typeMayContain: can an object of type loc be root itself or be reachable from a value of type root?
// Interfaces are resolved to the types of the program that implement them; the empty interface and
// function values can hide anything.
func typeMayContain(root, loc types.Type) bool {
	seen := map[string]bool{}
	found := false
	var walk func(t types.Type, depth int)
	walk = func(t types.Type, depth int) {
		if found || depth > 16 {
			return
		}
		if types.Identical(t, loc) {
			found = true
			return
		}
		k := t.String()
		if seen[k] {
			return
		}
		seen[k] = true
		switch u := t.Underlying().(type) {
		case *types.Signature:
			found = true
		case *types.Interface:
			if u.NumMethods() == 0 {
				found = true
				return
			}
			for _, it := range implementers(u) {
				walk(it, depth+1)
			}
		case *types.Pointer:
			walk(u.Elem(), depth+1)
		case *types.Slice:
			walk(u.Elem(), depth+1)
		case *types.Array:
			walk(u.Elem(), depth+1)
		case *types.Map:
			walk(u.Key(), depth+1)
			walk(u.Elem(), depth+1)
		case *types.Chan:
			walk(u.Elem(), depth+1)
		case *types.Struct:
			for i := 0; i < u.NumFields(); i++ {
				walk(u.Field(i).Type(), depth+1)
			}
		}
	}
	walk(root, 0)
	return found
}

// paramMayContain: may a write to an object of type loc hit memory named by parameter tag t of fn?
func paramMayContain(fn *ssa.Function, t string, loc types.Type) bool {
	var j int
	base := strings.TrimSuffix(t, "*")
	if n, _ := fmt.Sscanf(base, "P%d", &j); n != 1 || j >= len(fn.Params) {
		return true
	}
	return typeMayContain(fn.Params[j].Type(), loc)
}

func (e *effects) globalMayContain(tag string, loc types.Type) bool {
	name := strings.TrimPrefix(tag, "G:")
	i := strings.Index(name, ".")
	if i < 0 {
		return true
	}
	var g *ssa.Global
	for _, p := range e.w.Prog.AllPackages() {
		if p.Pkg.Name() == name[:i] {
			if gg, ok := p.Members[name[i+1:]].(*ssa.Global); ok {
				g = gg
			}
		}
	}
	if g == nil {
		return true
	}
	return typeMayContain(g.Type().(*types.Pointer).Elem(), loc)
}

func (e *effects) analyse(fn *ssa.Function, s *fnSummary) bool {
	oc := e.newOriginCtx(fn)
	changed := false
	s.Writes = nil
	var lastCallee *ssa.Function
	var lastMap map[string]tagset
	var loc types.Type
	record := func(pos token.Pos, what string, tags tagset) {
		nl := tagset{}
		for t := range tags {
			if t == "L" {
				continue
			}
			if strings.HasPrefix(t, "G:") && loc != nil && !e.globalMayContain(t, loc) {
				continue
			}
			if strings.HasPrefix(t, "P") && loc != nil && !paramMayContain(fn, t, loc) {
				continue
			}
			nl[t] = true
		}
		if len(nl) == 0 {
			return
		}
		s.Writes = append(s.Writes, write{Pos: pos, Fn: fn, What: what, Tags: nl, Callee: lastCallee, Map: lastMap})
		if s.W.add(nl) {
			changed = true
		}
		for t := range nl {
			if addLoc(s, t, loc) {
				changed = true
			}
		}
	}
	noteStore := func(addr, val tagset) bool {
		ch := false
		for t := range addr {
			base := strings.TrimSuffix(t, "*")
			var j int
			if !strings.HasPrefix(base, "P") || base == "P?" {
				continue
			}
			if n, _ := fmt.Sscanf(base, "P%d", &j); n != 1 {
				continue
			}
			if s.S[j] == nil {
				s.S[j] = tagset{}
			}
			for v := range val {
				if v == "L" {
					v = "F"
				}
				if !s.S[j][v] {
					s.S[j][v] = true
					ch = true
				}
			}
		}
		return ch
	}
	stored := func(val ssa.Value) tagset {
		t := tagset{}
		t.add(oc.origin(val))
		t.add(oc.reachFrom(val))
		return t
	}
	allInstrs(fn, func(in ssa.Instruction) {
		switch x := in.(type) {
		case *ssa.Store:
			loc = writtenObjectType(x.Addr)
			record(x.Pos(), "store", oc.origin(x.Addr))
			loc = nil
			if isRefType(x.Val.Type()) {
				if noteStore(oc.origin(x.Addr), stored(x.Val)) {
					changed = true
				}
			}
		case *ssa.MapUpdate:
			loc = x.Map.Type()
			record(x.Pos(), "map update", oc.origin(x.Map))
			loc = nil
			if isRefType(x.Value.Type()) {
				if noteStore(oc.origin(x.Map), stored(x.Value)) {
					changed = true
				}
			}
		case *ssa.Return:
			for ri, rv := range x.Results {
				if !isRefType(rv.Type()) {
					continue
				}
				if s.Ri == nil {
					s.Ri, s.Rci = map[int]tagset{}, map[int]tagset{}
				}
				if s.Ri[ri] == nil {
					s.Ri[ri], s.Rci[ri] = tagset{}, tagset{}
				}
				for t := range oc.origin(rv) {
					if t == "L" {
						t = "F"
					}
					if !s.R[t] {
						s.R[t] = true
						changed = true
					}
					if !s.Ri[ri][t] {
						s.Ri[ri][t] = true
						changed = true
					}
				}
				for t := range oc.reachFrom(rv) {
					if t == "L" {
						t = "F"
					}
					if !s.Rc[t] {
						s.Rc[t] = true
						changed = true
					}
					if !s.Rci[ri][t] {
						s.Rci[ri][t] = true
						changed = true
					}
				}
			}
		case ssa.CallInstruction:
			cc := x.Common()
			if b, ok := cc.Value.(*ssa.Builtin); ok {
				switch b.Name() {
				case "append":
					loc = cc.Args[0].Type()
					record(x.Pos(), "append (writes the backing array of its first argument when it has spare capacity)", oc.origin(cc.Args[0]))
					if noteStore(oc.origin(cc.Args[0]), oc.reachFrom(cc.Args[1])) {
						changed = true
					}
				case "copy":
					loc = cc.Args[0].Type()
					record(x.Pos(), "copy", oc.origin(cc.Args[0]))
					if noteStore(oc.origin(cc.Args[0]), oc.reachFrom(cc.Args[1])) {
						changed = true
					}
				case "delete":
					loc = cc.Args[0].Type()
					record(x.Pos(), "delete", oc.origin(cc.Args[0]))
				}
				loc = nil
				return
			}
			callees := e.callees(x)
			if len(callees) == 0 {
				if cc.IsInvoke() {
					if !readOnlyMethods[cc.Method.Name()] {
						e.assumed["interface method "+cc.Method.FullName()+" has no implementation in the program; assumed not to write shared memory"] = true
					}
				} else {
					e.assumed["function values of type "+cc.Value.Type().String()+" supplied by the caller (user functions / options) are outside the analysis"] = true
				}
				return
			}
			for _, g := range callees {
				if !inRepo(g) {
					record(x.Pos(), "call of "+funcFullName(g), e.externalWrites(g, x, oc))
					continue
				}
				gs := e.summary(g)
				for t := range gs.W {
					one := tagset{}
					e.mapTag(t, x, g, oc, one)
					locs := gs.WLoc[t]
					if len(locs) == 0 {
						locs = []types.Type{nil}
					}
					for _, lt := range locs {
						lastCallee, lastMap = g, map[string]tagset{t: one}
						loc = lt
						record(x.Pos(), "call of "+g.Name(), one)
					}
				}
				loc = nil
				lastCallee, lastMap = nil, nil
				args := callArgs(x)
				for k, st := range gs.S {
					if k >= len(args) {
						continue
					}
					vals := tagset{}
					for t := range st {
						e.mapTag(t, x, g, oc, vals)
					}
					dst := tagset{}
					dst.add(oc.origin(args[k]))
					dst.add(oc.reachFrom(args[k]))
					if noteStore(dst, vals) {
						changed = true
					}
				}
			}
		}
	})
	return changed
}

// explain finds the leaf writes responsible for the tags in bad (relative to fn).
func (e *effects) explain(fn *ssa.Function, bad tagset, depth int, seen map[string]bool, out *[]write) {
	if depth > 14 {
		return
	}
	key := fn.String() + "|" + strings.Join(bad.list(), ",")
	if seen[key] {
		return
	}
	seen[key] = true
	for _, w := range e.summary(fn).Writes {
		hit := false
		for t := range w.Tags {
			if bad[t] {
				hit = true
			}
		}
		if !hit {
			continue
		}
		if w.Callee == nil {
			*out = append(*out, w)
			continue
		}
		sub := tagset{}
		for ct, mapped := range w.Map {
			for t := range mapped {
				if bad[t] {
					sub[ct] = true
				}
			}
		}
		if len(sub) == 0 {
			*out = append(*out, w)
			continue
		}
		e.explain(w.Callee, sub, depth+1, seen, out)
	}
}

func (e *effects) reachStats(fn *ssa.Function) (funcs, mutating int) {
	seen := map[*ssa.Function]bool{}
	var walk func(f *ssa.Function)
	walk = func(f *ssa.Function) {
		if seen[f] || !inRepo(f) {
			return
		}
		seen[f] = true
		funcs++
		allInstrs(f, func(in ssa.Instruction) {
			switch x := in.(type) {
			case *ssa.Store, *ssa.MapUpdate:
				mutating++
			case ssa.CallInstruction:
				if b, ok := x.Common().Value.(*ssa.Builtin); ok {
					if b.Name() == "append" || b.Name() == "copy" || b.Name() == "delete" {
						mutating++
					}
					return
				}
				for _, g := range e.callees(x) {
					walk(g)
				}
			}
		})
	}
	walk(fn)
	return
}
