package main

import (
	"fmt"
	"go/token"
	"go/types"
	"sort"
	"strings"

	"golang.org/x/tools/go/callgraph"
	"golang.org/x/tools/go/ssa"
)

// Effect analysis (analysis E of DESIGN.md). Tags describe where a reference points:
//   "L"        memory allocated in the current activation (or fresh from a callee)
//   "P<i>"     memory reachable from parameter i of the current function
//   "FV<i>"    memory reachable from free variable i (closures)
//   "G:<name>" a package-level variable
//   "X:<why>"  memory the analysis cannot attribute (results of dynamic calls, escaped locals ...)
type tagset map[string]bool

func (t tagset) add(o tagset) bool {
	ch := false
	for k := range o {
		if !t[k] {
			t[k] = true
			ch = true
		}
	}
	return ch
}
func (t tagset) list() []string {
	var s []string
	for k := range t {
		s = append(s, k)
	}
	sort.Strings(s)
	return s
}
func one(s string) tagset { return tagset{s: true} }

// write records one mutating instruction with a non-local target.
type write struct {
	Pos    token.Pos
	Fn     *ssa.Function
	What   string
	Tags   tagset
	Callee *ssa.Function     // for writes performed by a repository callee
	Map    map[string]tagset // callee tag -> caller tags
}

type fnSummary struct {
	W      tagset  // tags (in terms of the function's own parameters) of memory it may write
	R      tagset  // tags of the references it may return ("F" = fresh)
	WLoc   map[string][]types.Type // tag -> types of the objects written through it (nil entry = unknown)
	S      map[int]tagset // parameter j -> tags of the references it may store into memory reachable from parameter j
	Writes []write // the individual non-local writes (for reporting)
}

type effects struct {
	w       *World
	sum     map[*ssa.Function]*fnSummary
	cg      *callgraph.Graph
	assumed map[string]bool
	unknownCallees map[string]bool
}

func isRefType(t types.Type) bool {
	switch u := t.Underlying().(type) {
	case *types.Pointer, *types.Slice, *types.Map, *types.Chan, *types.Interface, *types.Signature:
		return true
	case *types.Struct:
		for i := 0; i < u.NumFields(); i++ {
			if isRefType(u.Field(i).Type()) {
				return true
			}
		}
	case *types.Tuple:
		for i := 0; i < u.Len(); i++ {
			if isRefType(u.At(i).Type()) {
				return true
			}
		}
	case *types.Array:
		return isRefType(u.Elem())
	}
	return false
}

func (w *World) Effects() *effects {
	e := &effects{w: w, sum: map[*ssa.Function]*fnSummary{}, cg: w.CallGraph(), assumed: map[string]bool{}, unknownCallees: map[string]bool{}}
	return e
}

// allocUses: how the address of an alloc leaves the function: as call arguments (calls) or otherwise (other).
type callUse struct {
	Call ssa.CallInstruction
	Arg  int
}

func allocUses(al *ssa.Alloc) (calls []callUse, other bool) {
	seen := map[ssa.Value]bool{}
	var walk func(v ssa.Value)
	walk = func(v ssa.Value) {
		if seen[v] {
			return
		}
		seen[v] = true
		for _, r := range referrers(v) {
			switch x := r.(type) {
			case *ssa.FieldAddr:
				if x.X == v {
					walk(x)
				}
			case *ssa.IndexAddr:
				if x.X == v {
					walk(x)
				}
			case *ssa.Store:
				if x.Val == v {
					other = true
				}
			case *ssa.UnOp:
			case ssa.CallInstruction:
				for i, a := range callArgs(x) {
					if a == v {
						calls = append(calls, callUse{x, i})
					}
				}
			case *ssa.MakeInterface, *ssa.ChangeType:
				walk(x.(ssa.Value))
			case *ssa.MakeClosure:
				// captured by a closure: only a closure that assigns through the captured variable changes the contents
				if cf, ok := x.Fn.(*ssa.Function); ok {
					for k, b := range x.Bindings {
						if b != v || k >= len(cf.FreeVars) {
							continue
						}
						fv := cf.FreeVars[k]
						assigned := false
						var chase func(a ssa.Value)
						chase = func(a ssa.Value) {
							for _, rr := range referrers(a) {
								switch y := rr.(type) {
								case *ssa.Store:
									if y.Addr == a {
										assigned = true
									}
								case *ssa.FieldAddr:
									chase(y)
								case *ssa.IndexAddr:
									chase(y)
								case ssa.CallInstruction, *ssa.MakeClosure:
									assigned = true
								}
							}
						}
						chase(fv)
						if assigned {
							other = true
						}
					}
				} else {
					other = true
				}
			case *ssa.Return, *ssa.Phi, *ssa.Slice:
				other = true
			}
		}
	}
	walk(al)
	return
}

type originCtx struct {
	e     *effects
	fn    *ssa.Function
	memo  map[ssa.Value]tagset
	stack map[ssa.Value]bool
}

func (oc *originCtx) paramIndex(p *ssa.Parameter) int {
	for i, x := range oc.fn.Params {
		if x == p {
			return i
		}
	}
	return -1
}

// origin computes the tags of the memory v may refer to.
func (oc *originCtx) origin(v ssa.Value) tagset {
	if v == nil {
		return tagset{}
	}
	if t, ok := oc.memo[v]; ok {
		return t
	}
	if oc.stack[v] {
		return tagset{}
	}
	oc.stack[v] = true
	defer delete(oc.stack, v)
	res := tagset{}
	switch x := v.(type) {
	case *ssa.Const, *ssa.Function, *ssa.Builtin:
	case *ssa.Parameter:
		if isRefType(x.Type()) {
			res[fmt.Sprintf("P%d", oc.paramIndex(x))] = true
		}
	case *ssa.FreeVar:
		for i, fv := range oc.fn.FreeVars {
			if fv == x {
				res[fmt.Sprintf("FV%d", i)] = true
			}
		}
	case *ssa.Global:
		res["G:"+x.Pkg.Pkg.Name()+"."+x.Name()] = true
	case *ssa.Alloc, *ssa.MakeSlice, *ssa.MakeMap, *ssa.MakeChan, *ssa.MakeClosure:
		res["L"] = true
	case *ssa.FieldAddr:
		res.add(oc.origin(x.X))
	case *ssa.IndexAddr:
		res.add(oc.origin(x.X))
	case *ssa.Slice:
		res.add(oc.origin(x.X))
	case *ssa.ChangeType:
		res.add(oc.origin(x.X))
	case *ssa.Convert:
		if isRefType(x.Type()) && isRefType(x.X.Type()) {
			res.add(oc.origin(x.X))
		} else if isRefType(x.Type()) {
			res["L"] = true // string -> []byte/[]rune: fresh
		}
	case *ssa.MakeInterface:
		res.add(oc.origin(x.X))
	case *ssa.ChangeInterface:
		res.add(oc.origin(x.X))
	case *ssa.TypeAssert:
		res.add(oc.origin(x.X))
	case *ssa.Extract:
		res.add(oc.originOfTuple(x.Tuple, x.Index))
	case *ssa.Phi:
		for _, e := range x.Edges {
			res.add(oc.origin(e))
		}
	case *ssa.Field:
		res.add(oc.origin(x.X))
	case *ssa.Index:
		res.add(oc.origin(x.X))
	case *ssa.Lookup:
		if isRefType(x.Type()) {
			res.add(oc.origin(x.X))
		}
	case *ssa.Next, *ssa.Range:
		if r, ok := x.(*ssa.Range); ok {
			res.add(oc.origin(r.X))
		} else {
			res.add(oc.origin(x.(*ssa.Next).Iter))
		}
	case *ssa.UnOp:
		if x.Op == token.MUL {
			if !isRefType(x.Type()) {
				break
			}
			// load: contents of the memory at x.X
			root := x.X
			for {
				if fa, ok := root.(*ssa.FieldAddr); ok {
					root = fa.X
				} else if ia, ok := root.(*ssa.IndexAddr); ok {
					root = ia.X
				} else {
					break
				}
			}
			if al, ok := root.(*ssa.Alloc); ok {
				for _, st := range storesInto(al) {
					res.add(oc.origin(st.Val))
				}
				calls, other := allocUses(al)
				if other {
					res["X:contents of a local whose address was stored or captured ("+al.Comment+")"] = true
				}
				for _, cu := range calls {
					callees := oc.e.callees(cu.Call)
					if len(callees) == 0 {
						res["X:contents of a local passed to an unresolved call ("+al.Comment+")"] = true
					}
					for _, g := range callees {
						if !inRepo(g) {
							res.add(oc.e.externalStores(g))
							continue
						}
						gs := oc.e.summary(g)
						for t := range gs.S[cu.Arg] {
							oc.e.mapTag(t, cu.Call, g, oc, res)
						}
					}
				}
			} else {
				// contents of non-local memory: reachable from the same roots
				for t := range oc.origin(x.X) {
					if t == "L" {
						res["X:contents of memory returned by a callee"] = true
					} else {
						res[t] = true
					}
				}
			}
		} else if x.Op == token.ARROW {
			res["X:received from a channel"] = true
		}
	case *ssa.BinOp:
	case *ssa.Call:
		res.add(oc.originOfTuple(x, -1))
	default:
		if isRefType(v.Type()) {
			res[fmt.Sprintf("X:%T", v)] = true
		}
	}
	oc.memo[v] = res
	return res
}

// originOfTuple: origin of result idx (or the single result when idx<0) of a call.
func (oc *originCtx) originOfTuple(v ssa.Value, idx int) tagset {
	res := tagset{}
	c, ok := v.(*ssa.Call)
	if !ok {
		switch x := v.(type) {
		case *ssa.TypeAssert:
			if idx == 0 {
				return oc.origin(x.X)
			}
			return res
		case *ssa.Lookup:
			if idx == 0 && isRefType(x.Type().(*types.Tuple).At(0).Type()) {
				return oc.origin(x.X)
			}
			return res
		case *ssa.Next:
			return oc.origin(x.Iter)
		case *ssa.UnOp:
			return oc.origin(x.X)
		}
		return res
	}
	var rt types.Type = c.Type()
	if tup, ok := rt.(*types.Tuple); ok && idx >= 0 && idx < tup.Len() {
		rt = tup.At(idx).Type()
	}
	if !isRefType(rt) {
		return res
	}
	cc := c.Common()
	if b, ok := cc.Value.(*ssa.Builtin); ok {
		switch b.Name() {
		case "append":
			res.add(oc.origin(cc.Args[0]))
			res["L"] = true
		}
		return res
	}
	callees := oc.e.callees(c)
	if len(callees) == 0 {
		res["X:result of an unresolved call ("+calleeName(c)+")"] = true
		return res
	}
	for _, g := range callees {
		if !inRepo(g) {
			res.add(oc.e.externalResult(g, c, oc))
			continue
		}
		s := oc.e.summary(g)
		for t := range s.R {
			oc.e.mapTag(t, c, g, oc, res)
		}
	}
	return res
}

// mapTag translates a callee-relative tag to the caller's terms.
func (e *effects) mapTag(t string, c ssa.CallInstruction, g *ssa.Function, oc *originCtx, out tagset) {
	switch {
	case t == "F" || t == "L":
		out["L"] = true
	case strings.HasPrefix(t, "P"):
		var j int
		fmt.Sscanf(t, "P%d", &j)
		args := callArgs(c)
		if j < len(args) {
			out.add(oc.origin(args[j]))
		}
	case strings.HasPrefix(t, "FV"):
		var j int
		fmt.Sscanf(t, "FV%d", &j)
		if mc, ok := c.Common().Value.(*ssa.MakeClosure); ok && j < len(mc.Bindings) {
			out.add(oc.origin(mc.Bindings[j]))
		} else {
			out["X:captured variable of a closure value"] = true
		}
	default:
		out[t] = true
	}
}

// callArgs: arguments including the receiver for invoke-mode calls (receiver first).
func callArgs(c ssa.CallInstruction) []ssa.Value {
	cc := c.Common()
	if cc.IsInvoke() {
		return append([]ssa.Value{cc.Value}, cc.Args...)
	}
	return cc.Args
}

func (e *effects) callees(c ssa.CallInstruction) []*ssa.Function {
	if sc := staticCallee(c); sc != nil {
		return []*ssa.Function{sc}
	}
	var out []*ssa.Function
	if n := e.cg.Nodes[c.Parent()]; n != nil {
		for _, ed := range n.Out {
			if ed.Site == c {
				out = append(out, ed.Callee.Func)
			}
		}
	}
	sort.Slice(out, func(i, j int) bool { return out[i].String() < out[j].String() })
	return out
}

// external callee model
func (e *effects) externalWrites(g *ssa.Function, c ssa.CallInstruction, oc *originCtx) tagset {
	name := funcFullName(g)
	out := tagset{}
	args := callArgs(c)
	pk := ""
	if g.Pkg != nil {
		pk = g.Pkg.Pkg.Path()
	} else if o := g.Object(); o != nil && o.Pkg() != nil {
		pk = o.Pkg().Path()
	}
	writesRecv := func() {
		if len(args) > 0 {
			out.add(oc.origin(args[0]))
		}
	}
	switch {
	case name == "sort.Sort" || name == "sort.Stable" || name == "sort.Slice" || name == "sort.SliceStable":
		writesRecv()
	case strings.HasPrefix(name, "(*strings.Builder).") || strings.HasPrefix(name, "(*bytes.Buffer).") || strings.HasPrefix(name, "(*encoding/xml.Encoder)."):
		if !strings.HasSuffix(name, ".String") && !strings.HasSuffix(name, ".Len") && !strings.HasSuffix(name, ".Bytes") {
			writesRecv()
		}
	case strings.HasPrefix(name, "fmt.Fprint"):
		writesRecv()
	case name == "fmt.Print" || name == "fmt.Println" || name == "fmt.Printf":
		out["G:os.Stdout"] = true
	case strings.HasPrefix(name, "(reflect.Value).Set") || name == "(reflect.Value).Set":
		writesRecv()
	case pk == "reflect":
	case pk == "strings" || pk == "strconv" || pk == "math" || pk == "unicode" || pk == "unicode/utf8" || pk == "errors" || pk == "fmt" || pk == "bytes" || pk == "sort":
	case strings.HasPrefix(pk, "golang.org/x/text"):
	case pk == "github.com/pkg/errors":
	case strings.HasPrefix(name, "(*sync.WaitGroup).") || strings.HasPrefix(name, "(*sync.Mutex)."):
		// synchronisation objects are written by design
	default:
		// unknown external callee: a write if it receives a non-local reference
		for _, a := range args {
			if !isRefType(a.Type()) {
				continue
			}
			for t := range oc.origin(a) {
				if t != "L" {
					e.unknownCallees[name] = true
					out["X:unclassified external callee "+name+" receives "+t] = true
				}
			}
		}
	}
	return out
}

// externalStores: what an external callee may leave in memory it is given (decoders fill buffers with fresh data).
func (e *effects) externalStores(g *ssa.Function) tagset {
	return tagset{"L": true}
}

func (e *effects) externalResult(g *ssa.Function, c *ssa.Call, oc *originCtx) tagset {
	name := funcFullName(g)
	out := tagset{}
	args := callArgs(c)
	switch {
	case name == "reflect.ValueOf" || strings.HasPrefix(name, "(reflect.Value).Elem") || strings.HasPrefix(name, "(reflect.Value).Field") ||
		strings.HasPrefix(name, "(reflect.Value).Addr") || strings.HasPrefix(name, "(reflect.Value).Index") || strings.HasPrefix(name, "(reflect.Value).Interface"):
		if len(args) > 0 {
			out.add(oc.origin(args[0]))
		}
	default:
		out["L"] = true
	}
	return out
}

var readOnlyMethods = map[string]bool{"Pos": true, "Node": true, "Namespaces": true, "Attributes": true, "Children": true, "Parent": true,
	"Space": true, "Local": true, "Prefix": true, "NamespaceValue": true, "AttributeValue": true, "CharDataValue": true, "CommentValue": true,
	"Target": true, "ProcInstValue": true, "String": true, "Number": true, "Bool": true, "Error": true, "Result": true, "ContextPosition": true, "ContextSize": true,
	"Len": true, "Less": true, "Kind": true, "Elem": true, "Name": true, "Field": true, "NumField": true, "AssignableTo": true, "Get": true}

// summary computes (to a fixpoint, lazily) the effect summary of a repository function.
func (e *effects) summary(fn *ssa.Function) *fnSummary {
	if s, ok := e.sum[fn]; ok {
		return s
	}
	s := &fnSummary{W: tagset{}, R: tagset{}, S: map[int]tagset{}, WLoc: map[string][]types.Type{}}
	e.sum[fn] = s
	for round := 0; round < 6; round++ {
		if !e.analyse(fn, s) {
			break
		}
	}
	return s
}

func (e *effects) analyse(fn *ssa.Function, s *fnSummary) bool {
	oc := &originCtx{e: e, fn: fn, memo: map[ssa.Value]tagset{}, stack: map[ssa.Value]bool{}}
	changed := false
	s.Writes = nil
	var lastCallee *ssa.Function
	var lastMap map[string]tagset
	var loc types.Type // type of the object the current instruction writes into (nil = unknown)
	record := func(pos token.Pos, what string, tags tagset) {
		nl := tagset{}
		for t := range tags {
			if t == "L" {
				continue
			}
			if strings.HasPrefix(t, "G:") && loc != nil && !e.globalMayContain(t, loc) {
				continue
			}
			nl[t] = true
		}
		if len(nl) == 0 {
			return
		}
		s.Writes = append(s.Writes, write{Pos: pos, Fn: fn, What: what, Tags: nl, Callee: lastCallee, Map: lastMap})
		if s.W.add(nl) {
			changed = true
		}
		for t := range nl {
			if addLoc(s, t, loc) {
				changed = true
			}
		}
	}
	noteStore := func(addr, val tagset) bool {
		ch := false
		for t := range addr {
			var j int
			if n, _ := fmt.Sscanf(t, "P%d", &j); n != 1 || !strings.HasPrefix(t, "P") {
				continue
			}
			if s.S[j] == nil {
				s.S[j] = tagset{}
			}
			for v := range val {
				if v == "L" {
					v = "F"
				}
				if !s.S[j][v] {
					s.S[j][v] = true
					ch = true
				}
			}
		}
		return ch
	}
	allInstrs(fn, func(in ssa.Instruction) {
		switch x := in.(type) {
		case *ssa.Store:
			loc = writtenObjectType(x.Addr)
			record(x.Pos(), "store", oc.origin(x.Addr))
			loc = nil
			if isRefType(x.Val.Type()) {
				if noteStore(oc.origin(x.Addr), oc.origin(x.Val)) {
					changed = true
				}
			}
		case *ssa.MapUpdate:
			loc = x.Map.Type()
			record(x.Pos(), "map update", oc.origin(x.Map))
			loc = nil
			if isRefType(x.Value.Type()) {
				if noteStore(oc.origin(x.Map), oc.origin(x.Value)) {
					changed = true
				}
			}
		case *ssa.Send:
			// channel operations are synchronisation, not data writes
		case *ssa.Return:
			for _, rv := range x.Results {
				if !isRefType(rv.Type()) {
					continue
				}
				for t := range oc.origin(rv) {
					if t == "L" {
						t = "F"
					}
					if !s.R[t] {
						s.R[t] = true
						changed = true
					}
				}
			}
		case ssa.CallInstruction:
			cc := x.Common()
			if b, ok := cc.Value.(*ssa.Builtin); ok {
				switch b.Name() {
				case "append":
					loc = cc.Args[0].Type()
					record(x.Pos(), "append (writes the backing array of its first argument when it has spare capacity)", oc.origin(cc.Args[0]))
				case "copy":
					loc = cc.Args[0].Type()
					record(x.Pos(), "copy", oc.origin(cc.Args[0]))
				case "delete":
					loc = cc.Args[0].Type()
					record(x.Pos(), "delete", oc.origin(cc.Args[0]))
				}
				loc = nil
				return
			}
			callees := e.callees(x)
			if len(callees) == 0 {
				if cc.IsInvoke() {
					if !readOnlyMethods[cc.Method.Name()] {
						e.assumed["interface method "+cc.Method.FullName()+" has no repository implementation; assumed not to write shared memory"] = true
					}
				} else {
					e.assumed["function values of type "+cc.Value.Type().String()+" supplied by the caller (user functions / options) are outside the analysis"] = true
				}
				return
			}
			for _, g := range callees {
				if !inRepo(g) {
					record(x.Pos(), "call of "+funcFullName(g), e.externalWrites(g, x, oc))
					continue
				}
				gs := e.summary(g)
				m := map[string]tagset{}
				for t := range gs.W {
					one := tagset{}
					e.mapTag(t, x, g, oc, one)
					// one record per written object type so that impossible global targets can be dropped
					locs := gs.WLoc[t]
					if len(locs) == 0 {
						locs = []types.Type{nil}
					}
					for _, lt := range locs {
						lastCallee, lastMap = g, map[string]tagset{t: one}
						loc = lt
						record(x.Pos(), "call of "+g.Name(), one)
					}
					m[t] = one
				}
				loc = nil
				lastCallee, lastMap = nil, nil
				// stores performed by the callee into memory reachable from its parameters
				args := callArgs(x)
				for k, st := range gs.S {
					if k >= len(args) {
						continue
					}
					vals := tagset{}
					for t := range st {
						e.mapTag(t, x, g, oc, vals)
					}
					if noteStore(oc.origin(args[k]), vals) {
						changed = true
					}
				}
			}
		}
	})
	return changed
}

func addLoc(s *fnSummary, tag string, loc types.Type) bool {
	for _, l := range s.WLoc[tag] {
		if l == nil && loc == nil {
			return false
		}
		if l != nil && loc != nil && types.Identical(l, loc) {
			return false
		}
	}
	if len(s.WLoc[tag]) > 24 {
		// too many distinct types: fall back to unknown
		for _, l := range s.WLoc[tag] {
			if l == nil {
				return false
			}
		}
		s.WLoc[tag] = append(s.WLoc[tag], nil)
		return true
	}
	s.WLoc[tag] = append(s.WLoc[tag], loc)
	return true
}

// writtenObjectType: the type of the object a store through addr modifies.
func writtenObjectType(addr ssa.Value) types.Type {
	switch a := addr.(type) {
	case *ssa.FieldAddr:
		if pt, ok := a.X.Type().Underlying().(*types.Pointer); ok {
			return pt.Elem()
		}
	case *ssa.IndexAddr:
		return a.X.Type()
	}
	if pt, ok := addr.Type().Underlying().(*types.Pointer); ok {
		return pt.Elem()
	}
	return nil
}

// globalMayContain: can an object of type loc be the global itself or be reachable from it?
func (e *effects) globalMayContain(tag string, loc types.Type) bool {
	name := strings.TrimPrefix(tag, "G:")
	i := strings.Index(name, ".")
	if i < 0 {
		return true
	}
	var g *ssa.Global
	for _, p := range e.w.Prog.AllPackages() {
		if p.Pkg.Name() == name[:i] {
			if gg, ok := p.Members[name[i+1:]].(*ssa.Global); ok {
				g = gg
			}
		}
	}
	if g == nil {
		return true
	}
	root := g.Type().(*types.Pointer).Elem()
	seen := map[string]bool{}
	found := false
	var walk func(t types.Type, depth int)
	walk = func(t types.Type, depth int) {
		if found || depth > 12 {
			return
		}
		if types.Identical(t, loc) {
			found = true
			return
		}
		k := t.String()
		if seen[k] {
			return
		}
		seen[k] = true
		switch u := t.Underlying().(type) {
		case *types.Interface, *types.Signature:
			found = true // anything may hide behind an interface or a closure
		case *types.Pointer:
			walk(u.Elem(), depth+1)
		case *types.Slice:
			walk(u.Elem(), depth+1)
		case *types.Array:
			walk(u.Elem(), depth+1)
		case *types.Map:
			walk(u.Key(), depth+1)
			walk(u.Elem(), depth+1)
		case *types.Chan:
			walk(u.Elem(), depth+1)
		case *types.Struct:
			for i := 0; i < u.NumFields(); i++ {
				walk(u.Field(i).Type(), depth+1)
			}
		}
	}
	walk(root, 0)
	return found
}

// explain finds the leaf writes responsible for the tags in bad (relative to fn).
func (e *effects) explain(fn *ssa.Function, bad tagset, depth int, seen map[string]bool, out *[]write) {
	if depth > 12 {
		return
	}
	key := fn.String() + "|" + strings.Join(bad.list(), ",")
	if seen[key] {
		return
	}
	seen[key] = true
	for _, w := range e.summary(fn).Writes {
		hit := false
		for t := range w.Tags {
			if bad[t] {
				hit = true
			}
		}
		if !hit {
			continue
		}
		if w.Callee == nil {
			*out = append(*out, w)
			continue
		}
		sub := tagset{}
		for ct, mapped := range w.Map {
			for t := range mapped {
				if bad[t] {
					sub[ct] = true
				}
			}
		}
		if len(sub) == 0 {
			*out = append(*out, w)
			continue
		}
		e.explain(w.Callee, sub, depth+1, seen, out)
	}
}

// reachStats counts the repository functions and mutating instructions reachable from fn.
func (e *effects) reachStats(fn *ssa.Function) (funcs, mutating int) {
	seen := map[*ssa.Function]bool{}
	var walk func(f *ssa.Function)
	walk = func(f *ssa.Function) {
		if seen[f] || !inRepo(f) {
			return
		}
		seen[f] = true
		funcs++
		allInstrs(f, func(in ssa.Instruction) {
			switch x := in.(type) {
			case *ssa.Store, *ssa.MapUpdate:
				mutating++
			case ssa.CallInstruction:
				if b, ok := x.Common().Value.(*ssa.Builtin); ok {
					if b.Name() == "append" || b.Name() == "copy" || b.Name() == "delete" {
						mutating++
					}
					return
				}
				for _, g := range e.callees(x) {
					walk(g)
				}
			}
		})
	}
	walk(fn)
	return
}
