package main

import (
	"fmt"
	"go/constant"
	"go/token"
	"go/types"
	"math"
	"sort"

	"golang.org/x/tools/go/ssa"
)

// IEEE class domain for a float64: the seven classes of DESIGN.md section 4 (analysis I).
type fclass int

const (
	cNaN fclass = iota
	cNegInf
	cNegFin
	cNegZero
	cPosZero
	cPosFin
	cPosInf
	nClasses
)

var classNames = []string{"NaN", "-Inf", "-finite", "-0", "+0", "+finite", "+Inf"}

// members returns witness points that are exact for threshold comparisons against k:
// for the interval classes the points just inside the ends and around k.
func (c fclass) members(k float64) []float64 {
	switch c {
	case cNaN:
		return []float64{math.NaN()}
	case cNegInf:
		return []float64{math.Inf(-1)}
	case cPosInf:
		return []float64{math.Inf(1)}
	case cNegZero:
		return []float64{math.Copysign(0, -1)}
	case cPosZero:
		return []float64{0}
	}
	cand := []float64{math.Nextafter(k, math.Inf(-1)), k, math.Nextafter(k, math.Inf(1))}
	if c == cNegFin {
		cand = append(cand, -math.MaxFloat64, -math.SmallestNonzeroFloat64)
	} else {
		cand = append(cand, math.MaxFloat64, math.SmallestNonzeroFloat64)
	}
	var out []float64
	for _, x := range cand {
		if math.IsNaN(x) || math.IsInf(x, 0) || x == 0 {
			continue
		}
		if (c == cNegFin) == (x < 0) {
			out = append(out, x)
		}
	}
	return out
}

func classOf(x float64) fclass {
	switch {
	case math.IsNaN(x):
		return cNaN
	case math.IsInf(x, -1):
		return cNegInf
	case math.IsInf(x, 1):
		return cPosInf
	case x == 0 && math.Signbit(x):
		return cNegZero
	case x == 0:
		return cPosZero
	case x < 0:
		return cNegFin
	}
	return cPosFin
}

// aval is an abstract value.
type aval struct {
	kind  string // "param" (the analysed float parameter, class fixed by the run), "fconst", "bool", "str", "top"
	f     float64
	bools uint8 // bit0: may be false, bit1: may be true
	str   string
}

func top() aval { return aval{kind: "top"} }
func abool(f, t bool) aval {
	var b uint8
	if f {
		b |= 1
	}
	if t {
		b |= 2
	}
	return aval{kind: "bool", bools: b}
}

type interp struct {
	w       *World
	fn      *ssa.Function
	param   *ssa.Parameter
	class   fclass
	results map[string]bool // rendered abstract return values
	steps   int
	unknown []string
}

func cmpFloat(op token.Token, a, b float64) bool {
	switch op {
	case token.EQL:
		return a == b
	case token.NEQ:
		return a != b
	case token.LSS:
		return a < b
	case token.LEQ:
		return a <= b
	case token.GTR:
		return a > b
	case token.GEQ:
		return a >= b
	}
	return false
}

func (it *interp) eval(v ssa.Value, env map[ssa.Value]aval) aval {
	if a, ok := env[v]; ok {
		return a
	}
	switch x := v.(type) {
	case *ssa.Parameter:
		if x == it.param {
			return aval{kind: "param"}
		}
		return top()
	case *ssa.Const:
		if x.Value == nil {
			return top()
		}
		switch x.Value.Kind() {
		case constant.Bool:
			b := constant.BoolVal(x.Value)
			return abool(!b, b)
		case constant.String:
			return aval{kind: "str", str: constant.StringVal(x.Value)}
		case constant.Int, constant.Float:
			f, _ := constant.Float64Val(x.Value)
			return aval{kind: "fconst", f: f}
		}
		return top()
	case *ssa.Convert:
		return it.eval(x.X, env)
	case *ssa.ChangeType:
		return it.eval(x.X, env)
	}
	return top()
}

func (it *interp) evalInstr(in ssa.Instruction, env map[ssa.Value]aval) {
	switch x := in.(type) {
	case *ssa.ChangeType:
		env[x] = it.eval(x.X, env)
	case *ssa.Convert:
		env[x] = it.eval(x.X, env)
	case *ssa.UnOp:
		if x.Op == token.NOT {
			a := it.eval(x.X, env)
			if a.kind == "bool" {
				env[x] = abool(a.bools&2 != 0, a.bools&1 != 0)
				return
			}
		}
		if x.Op == token.SUB {
			a := it.eval(x.X, env)
			if a.kind == "fconst" {
				env[x] = aval{kind: "fconst", f: -a.f}
				return
			}
		}
		env[x] = top()
	case *ssa.BinOp:
		a, b := it.eval(x.X, env), it.eval(x.Y, env)
		if isCmpOp(x.Op) {
			env[x] = it.compare(x.Op, a, b)
			return
		}
		env[x] = top()
	case *ssa.Call:
		sc := staticCallee(x)
		name := ""
		if sc != nil {
			name = funcFullName(sc)
		}
		args := x.Call.Args
		switch name {
		case "math.IsNaN":
			if a := it.eval(args[0], env); a.kind == "param" {
				env[x] = abool(it.class != cNaN, it.class == cNaN)
				return
			}
		case "math.IsInf":
			if a := it.eval(args[0], env); a.kind == "param" {
				if s, ok := constInt(args[1]); ok {
					t := (s >= 0 && it.class == cPosInf) || (s <= 0 && it.class == cNegInf)
					env[x] = abool(!t, t)
					return
				}
			}
		case "math.Signbit":
			if a := it.eval(args[0], env); a.kind == "param" {
				switch it.class {
				case cNaN:
					env[x] = abool(true, true)
				case cNegInf, cNegFin, cNegZero:
					env[x] = abool(false, true)
				default:
					env[x] = abool(true, false)
				}
				return
			}
		case "strconv.FormatFloat":
			if a := it.eval(args[0], env); a.kind == "param" && len(args) == 4 {
				fm, ok1 := constInt(args[1])
				pr, ok2 := constInt(args[2])
				bs, ok3 := constInt(args[3])
				if ok1 && ok2 && ok3 && fm == 'f' && pr == -1 && bs == 64 {
					env[x] = aval{kind: "str", str: "\x00fmt"}
					return
				}
				env[x] = aval{kind: "str", str: fmt.Sprintf("\x00fmt(%c,%d,%d)", rune(fm), pr, bs)}
				return
			}
		}
		env[x] = top()
	default:
		if v, ok := in.(ssa.Value); ok {
			env[v] = top()
		}
	}
}

func (it *interp) compare(op token.Token, a, b aval) aval {
	if a.kind == "param" && b.kind == "param" {
		// x op x
		eq := it.class != cNaN
		switch op {
		case token.EQL, token.LEQ, token.GEQ:
			return abool(!eq, eq)
		case token.NEQ:
			return abool(eq, !eq)
		default:
			return abool(true, false)
		}
	}
	if a.kind == "fconst" && b.kind == "param" {
		a, b = b, a
		op = swapOp(op)
	}
	if a.kind == "param" && b.kind == "fconst" {
		mayT, mayF := false, false
		for _, m := range it.class.members(b.f) {
			if cmpFloat(op, m, b.f) {
				mayT = true
			} else {
				mayF = true
			}
		}
		return abool(mayF, mayT)
	}
	if a.kind == "fconst" && b.kind == "fconst" {
		t := cmpFloat(op, a.f, b.f)
		return abool(!t, t)
	}
	return abool(true, true)
}

func (it *interp) run(b, pred *ssa.BasicBlock, env map[ssa.Value]aval, depth int) {
	it.steps++
	if it.steps > 4000 || depth > 64 {
		it.unknown = append(it.unknown, "path exploration bound exceeded")
		return
	}
	for _, in := range b.Instrs {
		switch x := in.(type) {
		case *ssa.Phi:
			for i, p := range b.Preds {
				if p == pred {
					env[x] = it.eval(x.Edges[i], env)
				}
			}
		case *ssa.If:
			c := it.eval(x.Cond, env)
			if c.kind != "bool" {
				c = abool(true, true)
				it.unknown = append(it.unknown, "branch on a value outside the domain at "+it.w.pos(x.Cond.Pos()))
			}
			if c.bools&2 != 0 {
				it.run(b.Succs[0], b, copyEnv(env), depth+1)
			}
			if c.bools&1 != 0 {
				it.run(b.Succs[1], b, copyEnv(env), depth+1)
			}
			return
		case *ssa.Jump:
			it.run(b.Succs[0], b, env, depth+1)
			return
		case *ssa.Return:
			if len(x.Results) >= 1 {
				a := it.eval(x.Results[0], env)
				switch a.kind {
				case "bool":
					if a.bools&1 != 0 {
						it.results["false"] = true
					}
					if a.bools&2 != 0 {
						it.results["true"] = true
					}
				case "str":
					it.results[a.str] = true
				case "param":
					it.results["\x00param"] = true
				default:
					it.results["\x00top"] = true
				}
			}
			return
		case *ssa.Panic:
			it.results["\x00panic"] = true
			return
		default:
			it.evalInstr(in, env)
		}
	}
}

func copyEnv(e map[ssa.Value]aval) map[ssa.Value]aval {
	n := make(map[ssa.Value]aval, len(e))
	for k, v := range e {
		n[k] = v
	}
	return n
}

// classResults abstractly interprets fn (whose single float64-based parameter is the analysed value)
// once per IEEE class and returns, per class, the sorted set of possible abstract results.
func (w *World) classResults(fn *ssa.Function) (map[fclass][]string, []string) {
	out := map[fclass][]string{}
	var unknown []string
	var param *ssa.Parameter
	for _, p := range fn.Params {
		if b, ok := p.Type().Underlying().(*types.Basic); ok && b.Kind() == types.Float64 {
			param = p
		}
	}
	if param == nil || len(fn.Blocks) == 0 {
		return nil, []string{"no float64 parameter"}
	}
	for c := fclass(0); c < nClasses; c++ {
		it := &interp{w: w, fn: fn, param: param, class: c, results: map[string]bool{}}
		it.run(fn.Blocks[0], nil, map[ssa.Value]aval{}, 0)
		var rs []string
		for r := range it.results {
			rs = append(rs, r)
		}
		sort.Strings(rs)
		out[c] = rs
		unknown = append(unknown, it.unknown...)
	}
	return out, unknown
}
