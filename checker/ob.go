package main

import (
	"encoding/json"
	"fmt"
	"go/token"
	"os"
	"path/filepath"
	"sort"
	"strings"
)

// Verdicts.
const (
	Holds     = "holds"
	Violated  = "violated"
	Undecided = "undecided"
)

// Obligation is one instance of one rule on one construct of the program.
type Obligation struct {
	Property  string `json:"property"`
	Rule      string `json:"rule"`      // e.g. R01.2
	Construct string `json:"construct"` // role of the construct, never a line number
	Pos       string `json:"pos"`       // file:line for the reader
	Verdict   string `json:"verdict"`
	Detail    string `json:"detail"`
	Known     string `json:"known_finding,omitempty"`
}

func (w *World) ob(prop, rule, construct string, p token.Pos, verdict, detail string) *Obligation {
	o := &Obligation{Property: prop, Rule: rule, Construct: construct, Pos: w.pos(p), Verdict: verdict, Detail: detail}
	w.Obs = append(w.Obs, o)
	return o
}

// check records holds/violated from a boolean.
func (w *World) check(prop, rule, construct string, p token.Pos, ok bool, detail string) *Obligation {
	v := Holds
	if !ok {
		v = Violated
	}
	return w.ob(prop, rule, construct, p, v, detail)
}

func (w *World) undecided(prop, rule, construct string, p token.Pos, detail string) *Obligation {
	if i := strings.Index(detail, "DECIDED-VIOLATED: "); i >= 0 {
		// a sub-analysis that normally only extracts facts found a definite deviation
		return w.ob(prop, rule, construct, p, Violated, detail[:i]+detail[i+len("DECIDED-VIOLATED: "):])
	}
	return w.ob(prop, rule, construct, p, Undecided, detail)
}

// floor declares the minimum number of instances rule must have produced.
func (w *World) floor(prop, rule string, n int) {
	w.floors[prop+"|"+rule] = n
}

// floorSites declares a floor for a rule whose instances are code sites rather than table entries: n is the number
// of sites on the tree the rule was written against; merging duplicated code legitimately lowers it, so the rule
// counts as vacuous only below half of that (at least one).
func (w *World) floorSites(prop, rule string, n int) {
	m := n / 2
	if m < 1 {
		m = 1
	}
	w.floors[prop+"|"+rule] = m
}

// KnownFinding is an entry of /verif/known_findings.json.
type KnownFinding struct {
	ID        string `json:"id"`
	Property  string `json:"property"`
	Rule      string `json:"rule"`
	Construct string `json:"construct"`
	Status    string `json:"status"` // "known" or "fixed"
	Commit    string `json:"commit,omitempty"`
	What      string `json:"what"`
}

func loadKnown(path string) ([]KnownFinding, error) {
	b, err := os.ReadFile(path)
	if err != nil {
		if os.IsNotExist(err) {
			return nil, nil
		}
		return nil, err
	}
	var k []KnownFinding
	if err := json.Unmarshal(b, &k); err != nil {
		return nil, err
	}
	return k, nil
}

type ruleDoc struct {
	Rule string `json:"rule"`
	Kind string `json:"kind"`
	Text string `json:"text"`
}

var ruleDocs = map[string][]ruleDoc{}
var notDecided = map[string]string{}

func docRule(prop, rule, kind, text string) {
	for _, d := range ruleDocs[prop] {
		if d.Rule == rule {
			return
		}
	}
	ruleDocs[prop] = append(ruleDocs[prop], ruleDoc{rule, kind, text})
}

type evidence struct {
	PropertyID  string                 `json:"property_id"`
	Tier        string                 `json:"tier"`
	Seed        int                    `json:"seed"`
	Level       string                 `json:"level"`
	Coverage    map[string]interface{} `json:"coverage"`
	Assumptions []string               `json:"assumptions"`
	WallS       float64                `json:"wall_s"`
	Violations  int                    `json:"violations"`
}

// finish evaluates floors, matches known findings, prints lines, writes evidence, and returns the exit code.
func (w *World) finish(prop string, verifDir string, seed int, wall float64, extra map[string]interface{}) int {
	known, err := loadKnown(filepath.Join(verifDir, "known_findings.json"))
	if err != nil {
		fmt.Printf("ERROR reading known_findings.json: %v\n", err)
		return 1
	}
	var obs []*Obligation
	for _, o := range w.Obs {
		if o.Property == prop {
			obs = append(obs, o)
		}
	}
	// vacuity floors
	counts := map[string]int{}
	for _, o := range obs {
		counts[o.Rule]++
	}
	floorReport := map[string]interface{}{}
	var floorKeys []string
	for k := range w.floors {
		if strings.HasPrefix(k, prop+"|") {
			floorKeys = append(floorKeys, k)
		}
	}
	sort.Strings(floorKeys)
	for _, k := range floorKeys {
		rule := strings.TrimPrefix(k, prop+"|")
		n := w.floors[k]
		floorReport[rule] = map[string]int{"instances": counts[rule], "floor": n}
		if counts[rule] < n {
			o := &Obligation{Property: prop, Rule: rule, Construct: "vacuity floor", Pos: "-", Verdict: Undecided,
				Detail: fmt.Sprintf("rule matched %d instances, fewer than the floor of %d: the rule no longer finds its subject", counts[rule], n)}
			w.Obs = append(w.Obs, o)
			obs = append(obs, o)
		}
	}
	// a stable order of the report, whatever order the rules discovered their instances in
	ruleOrder := map[string]int{}
	for _, o := range obs {
		if _, seen := ruleOrder[o.Rule]; !seen {
			ruleOrder[o.Rule] = len(ruleOrder)
		}
	}
	sort.SliceStable(obs, func(i, j int) bool {
		if obs[i].Rule != obs[j].Rule {
			return ruleOrder[obs[i].Rule] < ruleOrder[obs[j].Rule] // the rules in the order they ran
		}
		if obs[i].Construct != obs[j].Construct {
			return obs[i].Construct < obs[j].Construct
		}
		return obs[i].Pos < obs[j].Pos
	})
	// known findings
	exit := 0
	nViol := 0
	replayDir := filepath.Join(verifDir, "evidence", "replay")
	var lines []string
	nKnown := 0
	for _, o := range obs {
		if o.Verdict == Holds {
			continue
		}
		matched := false
		if o.Verdict == Violated {
			for _, k := range known {
				if k.Status == "known" && k.Property == prop && k.Rule == o.Rule && k.Construct == o.Construct {
					matched = true
					o.Known = k.ID
					lines = append(lines, fmt.Sprintf("KNOWN-FINDING: property=%s %s %s [%s] %s (%s)", prop, k.ID, o.Rule, o.Construct, k.What, o.Pos))
					nKnown++
					break
				}
			}
		}
		if matched {
			continue
		}
		nViol++
		exit = 1
		os.MkdirAll(replayDir, 0o755)
		rp := filepath.Join(replayDir, fmt.Sprintf("%s-%s-%d.json", prop, o.Rule, nViol))
		rb, _ := json.MarshalIndent(map[string]interface{}{
			"obligation": o,
			"replay_cmd": fmt.Sprintf("/verif/bin/xselcheck -property %s -tier quick -only %s", prop, o.Rule),
		}, "", " ")
		os.WriteFile(rp, rb, 0o644)
		fmt.Printf("%s %s [%s] at %s: %s\n", strings.ToUpper(o.Verdict), o.Rule, o.Construct, o.Pos, o.Detail)
		lines = append(lines, fmt.Sprintf("VIOLATION property=%s replay=%s", prop, rp))
	}
	for _, l := range lines {
		fmt.Println(l)
	}
	// evidence
	distinct := map[string]bool{}
	nh := 0
	for _, o := range obs {
		distinct[o.Rule+"|"+o.Construct] = true
		if o.Verdict == Holds {
			nh++
		}
	}
	var samples []interface{}
	perRule := map[string]int{}
	for _, o := range obs {
		if o.Verdict != Holds || perRule[o.Rule] < 2 {
			samples = append(samples, o)
			perRule[o.Rule]++
		}
	}
	var ruleTexts []string
	for _, d := range ruleDocs[prop] {
		ruleTexts = append(ruleTexts, fmt.Sprintf("%s [%s] %s", d.Rule, d.Kind, d.Text))
	}
	cov := map[string]interface{}{
		"explanation": fmt.Sprintf("Static analysis of /repo's working tree (go/packages + go/types + go/ssa, x/tools v0.29.0); no repository code is executed. "+
			"Decided: the structural necessary conditions listed under 'rules' (each obligation = one rule instance on one construct of the resolved program). "+
			"NOT decided: %s", notDecided[prop]),
		"evaluations":         len(obs),
		"distinct_nontrivial": len(distinct),
		"rule":                "one evaluation = one (rule, construct) obligation discovered in the resolved program; all are non-trivial (each names a construct that exists); distinct by rule+construct role",
		"rules":               ruleTexts,
		"samples":             samples,
		"obligations":         len(obs),
		"discharged":          nh,
		"known_findings":      nKnown,
		"floors":              floorReport,
		"exhaustive":          false,
		"analysed": map[string]interface{}{
			"repo_packages":    len(w.Pkgs),
			"repo_functions":   w.NumFuncs,
			"ssa_instructions": w.NumInstrs,
			"fact_tables":      w.factSummary(),
		},
		"all_obligations": obs,
	}
	for k, v := range extra {
		cov[k] = v
	}
	ev := evidence{
		PropertyID: prop, Tier: w.Tier, Seed: seed, Level: "other", Coverage: cov,
		Assumptions: []string{
			"go/packages, go/types, go/ssa and the VTA call graph of golang.org/x/tools v0.29.0 represent the program faithfully",
			"the XPath 1.0 tables transcribed into the checker (axes, core functions, operators, node kinds) are correct",
			"gogll's generated lexer/parser implement the tables in grammar/parser/slot and symbols",
			"documented contracts of sort, strconv, math, reflect, encoding/xml, encoding/json, x/net/html",
		},
		WallS: wall, Violations: nViol,
	}
	eb, _ := json.MarshalIndent(ev, "", " ")
	os.MkdirAll(filepath.Join(verifDir, "evidence"), 0o755)
	if err := os.WriteFile(filepath.Join(verifDir, "evidence", prop+".json"), eb, 0o644); err != nil {
		fmt.Printf("ERROR writing evidence: %v\n", err)
		return 1
	}
	fmt.Printf("property=%s tier=%s obligations=%d holds=%d known=%d violations=%d wall=%.1fs\n", prop, w.Tier, len(obs), nh, nKnown, nViol, wall)
	return exit
}

// include evaluates the rules of another property and adopts the obligations of the selected rules under
// property P (same rule ids): rules that are necessary conditions of several properties are decided once
// and reported under each.
var includeDepth int

func (w *World) include(P, from string, rules ...string) {
	sel := map[string]bool{}
	for _, r := range rules {
		sel[r] = true
	}
	if includeDepth > 0 {
		return // an included rule set does not pull in its own inclusions (they are filtered out anyway)
	}
	includeDepth++
	defer func() { includeDepth-- }()
	before := len(w.Obs)
	oldFloors := map[string]int{}
	for k, v := range w.floors {
		oldFloors[k] = v
	}
	registry[from](w)
	var keep []*Obligation
	for i, o := range w.Obs {
		if i < before {
			keep = append(keep, o)
			continue
		}
		if o.Property == from && sel[o.Rule] {
			c := *o
			c.Property = P
			keep = append(keep, &c)
		}
	}
	w.Obs = keep
	// floors of the adopted rules
	for k, v := range w.floors {
		if _, had := oldFloors[k]; had {
			continue
		}
		if strings.HasPrefix(k, from+"|") {
			r := strings.TrimPrefix(k, from+"|")
			if sel[r] {
				oldFloors[P+"|"+r] = v
			}
		}
	}
	w.floors = oldFloors
	for _, d := range ruleDocs[from] {
		if sel[d.Rule] {
			docRule(P, d.Rule, d.Kind, d.Text+" (shared with "+from+")")
		}
	}
}
