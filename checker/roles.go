package main

import (
	"go/token"
	"go/types"

	"golang.org/x/tools/go/ssa"
)

// Roles are functions and types of the evaluator identified by what they do, not by name.
type Roles struct {
	ExecContext    *ssa.Function // dispatcher: looks the NT up in the handler table
	ExecChildren   *ssa.Function // fallback called by the dispatcher when no handler is registered
	CopyCtx        *ssa.Function // (*exprContext).copy: returns an exprContext built from the receiver
	CtxType        *types.Named  // exprContext
	CtxResultField int           // index of the field of type Result in exprContext
	CtxRootField   int           // index of the field of type store.Cursor
	CtxPosField    int           // index of the int field read by ContextPosition
	CtxSizeField   int           // index of the int field read by ContextSize (-1 if absent)
	ResultIface    *types.Named
	NodeSet        *types.Named
	Number         *types.Named
	String         *types.Named
	Bool           *types.Named
	Cursor         *types.Named
	err            []string
}

func (w *World) namedType(pkg, name string) *types.Named {
	p := w.Pkgs[pkg]
	if p == nil {
		return nil
	}
	o := p.Types.Scope().Lookup(name)
	if o == nil {
		return nil
	}
	n, _ := o.Type().(*types.Named)
	return n
}

var rolesCache *Roles

func (w *World) Roles() *Roles {
	if rolesCache != nil {
		return rolesCache
	}
	r := &Roles{CtxSizeField: -1, CtxPosField: -1, CtxResultField: -1, CtxRootField: -1}
	rolesCache = r
	f := w.Facts()
	r.ResultIface = w.namedType("exec", "Result")
	r.NodeSet = w.namedType("exec", "NodeSet")
	r.Number = w.namedType("exec", "Number")
	r.String = w.namedType("exec", "String")
	r.Bool = w.namedType("exec", "Bool")
	r.Cursor = w.namedType("store", "Cursor")
	for _, n := range []*types.Named{r.ResultIface, r.NodeSet, r.Number, r.String, r.Bool, r.Cursor} {
		if n == nil {
			r.err = append(r.err, "public result/cursor type missing")
			return r
		}
	}
	p := w.SSA["exec"]
	if p == nil || f.HandlerVar == nil {
		r.err = append(r.err, "handler table not found")
		return r
	}
	// dispatcher: function with a Lookup on the handler table
	for _, m := range p.Members {
		fn, ok := m.(*ssa.Function)
		if !ok {
			continue
		}
		allInstrs(fn, func(in ssa.Instruction) {
			lk, ok := in.(*ssa.Lookup)
			if !ok {
				return
			}
			if ld, ok := lk.X.(*ssa.UnOp); ok && ld.X == f.HandlerVar {
				if r.ExecContext != nil && r.ExecContext != fn {
					r.err = append(r.err, "more than one function reads the handler table: "+r.ExecContext.Name()+", "+fn.Name())
				}
				r.ExecContext = fn
			}
		})
	}
	if r.ExecContext == nil {
		r.err = append(r.err, "no function looks up the handler table")
		return r
	}
	// fallback: the static callee (same signature as the dispatcher) called by the dispatcher
	allInstrs(r.ExecContext, func(in ssa.Instruction) {
		if c, ok := in.(ssa.CallInstruction); ok {
			if sc := staticCallee(c); sc != nil && fnPkgKey(sc) == "exec" && types.Identical(sc.Signature, r.ExecContext.Signature) {
				r.ExecChildren = sc
			}
		}
	})
	// context type = first parameter of the dispatcher
	if len(r.ExecContext.Params) >= 1 {
		if pt, ok := r.ExecContext.Params[0].Type().(*types.Pointer); ok {
			r.CtxType, _ = pt.Elem().(*types.Named)
		}
	}
	if r.CtxType == nil {
		r.err = append(r.err, "context type not identified")
		return r
	}
	st, _ := r.CtxType.Underlying().(*types.Struct)
	if st == nil {
		r.err = append(r.err, "context type is not a struct")
		return r
	}
	for i := 0; i < st.NumFields(); i++ {
		ft := st.Field(i).Type()
		if types.Identical(ft, r.ResultIface) {
			r.CtxResultField = i
		}
		if types.Identical(ft, r.Cursor) {
			r.CtxRootField = i
		}
	}
	// copy: method on *ctx returning ctx
	ms := w.Prog.MethodSets.MethodSet(types.NewPointer(r.CtxType))
	for i := 0; i < ms.Len(); i++ {
		fn := w.Prog.MethodValue(ms.At(i))
		if fn == nil {
			continue
		}
		res := fn.Signature.Results()
		if res.Len() == 1 && types.Identical(res.At(0).Type(), r.CtxType) && fn.Signature.Params().Len() == 0 {
			r.CopyCtx = fn
		}
		// position / size accessors: method named per the public Context interface
		if fn.Signature.Params().Len() == 0 && res.Len() == 1 {
			if b, ok := res.At(0).Type().(*types.Basic); ok && b.Kind() == types.Int {
				fld := singleFieldReturned(fn)
				switch fn.Name() {
				case "ContextPosition":
					r.CtxPosField = fld
				case "ContextSize":
					r.CtxSizeField = fld
				}
			}
		}
	}
	if r.CopyCtx == nil {
		r.err = append(r.err, "context copy method not identified")
	}
	return r
}

// singleFieldReturned: for a getter `return recv.f`, the field index; -1 otherwise.
func singleFieldReturned(fn *ssa.Function) int {
	fld := -1
	n := 0
	allInstrs(fn, func(in ssa.Instruction) {
		ret, ok := in.(*ssa.Return)
		if !ok {
			return
		}
		n++
		if len(ret.Results) != 1 {
			fld = -2
			return
		}
		v := ret.Results[0]
		if u, ok := v.(*ssa.UnOp); ok && u.Op == token.MUL {
			if fa, ok := u.X.(*ssa.FieldAddr); ok {
				if _, isParam := fa.X.(*ssa.Parameter); isParam {
					fld = fa.Field
					return
				}
			}
		}
		if fv, ok := v.(*ssa.Field); ok {
			if _, isParam := fv.X.(*ssa.Parameter); isParam {
				fld = fv.Field
				return
			}
			if u, ok := fv.X.(*ssa.UnOp); ok {
				if _, isParam := u.X.(*ssa.Parameter); isParam {
					fld = fv.Field
					return
				}
			}
		}
		fld = -2
	})
	if n != 1 || fld < 0 {
		return -1
	}
	return fld
}

// handlerClosure: the handler plus the exec-package functions it statically calls while passing on
// its own expression parameter (so the callee looks at the same production). The dispatcher and the
// functions registered as handlers are not entered: they evaluate other productions.
func (w *World) handlerClosure(h *ssa.Function) []*ssa.Function {
	r := w.Roles()
	seen := map[*ssa.Function]bool{}
	var out []*ssa.Function
	var walk func(fn *ssa.Function, exprParam ssa.Value)
	walk = func(fn *ssa.Function, exprParam ssa.Value) {
		if fn == nil || seen[fn] {
			return
		}
		seen[fn] = true
		out = append(out, fn)
		allInstrs(fn, func(in ssa.Instruction) {
			c, ok := in.(ssa.CallInstruction)
			if !ok {
				return
			}
			sc := staticCallee(c)
			if sc == nil || fnPkgKey(sc) != "exec" || sc == r.ExecContext {
				return
			}
			for i, a := range c.Common().Args {
				if exprParam != nil && i < len(sc.Params) {
					if ld, isLd := a.(*ssa.UnOp); a == exprParam || (isLd && ld.Op == token.MUL && ld.X == exprParam) {
						walk(sc, sc.Params[i])
					}
				}
			}
			// a driver of the package that is handed a function literal of this function: the driver runs code of
			// the handler (the literal), so both belong to it
			for _, a := range c.Common().Args {
				var lit *ssa.Function
				switch x := a.(type) {
				case *ssa.MakeClosure:
					lit, _ = x.Fn.(*ssa.Function)
				case *ssa.Function:
					lit = x
				}
				if lit != nil && lit.Parent() == fn {
					walk(sc, nil)
				}
			}
		})
		// function literals of the handler: the expression reaches them as a captured variable
		allInstrs(fn, func(in ssa.Instruction) {
			mc, ok := in.(*ssa.MakeClosure)
			if !ok {
				return
			}
			lit, ok := mc.Fn.(*ssa.Function)
			if !ok || lit.Parent() != fn {
				return
			}
			var fv ssa.Value
			for i, b := range mc.Bindings {
				if exprParam == nil || i >= len(lit.FreeVars) {
					continue
				}
				if b == exprParam {
					fv = lit.FreeVars[i]
				}
				// captured by reference: the cell the parameter was spilled into
				if al, isAl := b.(*ssa.Alloc); isAl {
					for _, st := range storesInto(al) {
						if st.Addr == ssa.Value(al) && st.Val == exprParam {
							fv = lit.FreeVars[i]
						}
					}
				}
			}
			walk(lit, fv)
		})
	}
	var ep ssa.Value
	for _, p := range h.Params {
		if pt, ok := p.Type().(*types.Pointer); ok {
			if n, ok := pt.Elem().(*types.Named); ok && n.Obj().Name() == "Grammar" {
				ep = p
			}
		}
	}
	walk(h, ep)
	return out
}

// handlerClosureH: handlerClosure of the handler's function, extended by the functions bound to the function-valued
// parameters and captured variables it calls (a handler that delegates to a generic driver with a step function, a
// closure built by a factory).
func (w *World) handlerClosureH(h *Handler) []*ssa.Function {
	out := w.handlerClosure(h.Fn)
	if h.ParamBind == nil && h.Bind == nil {
		return out
	}
	seen := map[*ssa.Function]bool{}
	for _, fn := range out {
		seen[fn] = true
	}
	for i := 0; i < len(out) && i < 64; i++ {
		allInstrs(out[i], func(in ssa.Instruction) {
			c, ok := in.(ssa.CallInstruction)
			if !ok || staticCallee(c) != nil || c.Common().IsInvoke() {
				return
			}
			g := h.boundFunc(c.Common().Value)
			if g == nil || fnPkgKey(g) != "exec" || seen[g] {
				return
			}
			for _, x := range w.handlerClosure(g) {
				if !seen[x] {
					seen[x] = true
					out = append(out, x)
				}
			}
		})
	}
	return out
}

// isBSRPtrSlice reports whether t is []*bsr.BSR.
func isBSRPtrSlice(t types.Type) bool {
	s, ok := t.Underlying().(*types.Slice)
	if !ok {
		return false
	}
	p, ok := s.Elem().(*types.Pointer)
	if !ok {
		return false
	}
	n, ok := p.Elem().(*types.Named)
	return ok && n.Obj().Name() == "BSR"
}

// handlersByFn groups NTs by the function registered for them.
func (f *Facts) handlersByFn() map[*ssa.Function][]string {
	m := map[*ssa.Function][]string{}
	for nt, h := range f.Handlers {
		m[h.Fn] = append(m[h.Fn], nt)
	}
	return m
}

// grammarReachable computes the NTs reachable from the start symbol.
func (f *Facts) grammarReachable(start string) map[string]bool {
	seen := map[string]bool{}
	var walk func(nt string)
	walk = func(nt string) {
		if seen[nt] {
			return
		}
		seen[nt] = true
		for _, a := range f.Alts[nt] {
			for _, s := range a.Syms {
				if s.IsNT {
					walk(s.Name)
				}
			}
		}
	}
	walk(start)
	return seen
}

// ctxParam: the parameter of a handler-like function that holds the evaluation context: the first one of type pointer
// to the context struct (a method used as a handler has its receiver in front of it); Params[0] otherwise.
func ctxParam(fn *ssa.Function) *ssa.Parameter {
	if fn == nil || len(fn.Params) == 0 {
		return nil
	}
	if theWorld != nil {
		if r := theWorld.Roles(); r != nil && r.CtxType != nil {
			for _, p := range fn.Params {
				if pt, ok := p.Type().(*types.Pointer); ok && types.Identical(pt.Elem(), r.CtxType) {
					return p
				}
			}
		}
	}
	return fn.Params[0]
}
