package main

import (
	"fmt"
	"go/constant"
	"go/token"
	"go/types"
	"sort"

	"golang.org/x/tools/go/ssa"
)

func init() {
	register("C06", checkC06)
	notDecided["C06"] = "numeric results for concrete doubles (that is IEEE 754 as implemented by Go's float64 operators and math package, which the rules tie the operators to); string-to-number conversion of node string-values is decided under C04."
}

var arithNTs = map[string]string{
	"AdditiveExprAdd": "+", "AdditiveExprSubtract": "-", "MultiplicativeExprMultiply": "*",
	"MultiplicativeExprDivide": "div", "MultiplicativeExprMod": "mod",
}
var arithGoOp = map[string]token.Token{"+": token.ADD, "-": token.SUB, "*": token.MUL, "div": token.QUO}

// resultStores returns the values stored by fn into the result field of its own context.
func resultStores(fn *ssa.Function, r *Roles) []*ssa.Store {
	var out []*ssa.Store
	allInstrs(fn, func(in ssa.Instruction) {
		if st, ok := in.(*ssa.Store); ok {
			if fa, ok := st.Addr.(*ssa.FieldAddr); ok && fa.Field == r.CtxResultField && len(fn.Params) > 0 && fa.X == ssa.Value(ctxParam(fn)) {
				out = append(out, st)
			}
		}
	})
	return out
}

func isFloatToInt(c *ssa.Convert) bool {
	from, ok1 := c.X.Type().Underlying().(*types.Basic)
	to, ok2 := c.Type().Underlying().(*types.Basic)
	return ok1 && ok2 && from.Info()&types.IsFloat != 0 && to.Info()&types.IsInteger != 0
}

func checkC06(w *World) {
	const P = "C06"
	f := w.Facts()
	r := w.Roles()
	for _, e := range r.err {
		w.undecided(P, "R00.roles", "role resolution: "+e, 0, e)
	}
	docRule(P, "R06.1", "T+F G<->H<->S", "operator agreement: the handler of the production whose middle terminal is + - * div stores exactly Number(left OP right) with Go's float64 operator of the same meaning, left = number() of NT child 0, right = number() of NT child 1, both evaluated in independent copies of the context; mod stores math.Mod(left, right) (truncating, sign-of-dividend remainder); unary minus stores the float negation of number(child).")
	docRule(P, "R06.2", "F units", "no float-to-integer conversion lies in any arithmetic handler or in the builtins sum, floor, ceiling, round and their package-local helpers: a double never passes through an integer on its way to a numeric result.")
	docRule(P, "R06.3", "D", "the handlers of + - * div mod and unary minus contain no branch on operand values: the stored result is the operator applied to the operands on every non-error path (Go's float operators are IEEE 754; a special case can only be redundant or wrong).")
	docRule(P, "R06.4", "T", "count returns len of its node-set argument and errors for any other argument type; sum adds Number() of a one-node node-set per node of its node-set argument into a float64 accumulator and errors otherwise; floor is math.Floor and ceiling is math.Ceil of Number() of the argument.")
	docRule(P, "R06.5", "D", "no integer division or remainder with a non-constant divisor in package exec (it panics on zero).")
	docRule(P, "R06.6", "T+D", "round: NaN and infinities are returned unchanged (guarded by math.IsNaN/IsInf on the argument); ties go toward positive infinity: the helper decides with a tie test on an exact difference, `x - floor(x) >= 0.5` (round up) or `ceil(x) - x > 0.5` (round down), with exactly that strictness; floor(x + 0.5) is rejected (the addition rounds), math.Round/RoundToEven/Trunc and integer conversions are not used.")

	var nts []string
	for nt := range arithNTs {
		nts = append(nts, nt)
	}
	sort.Strings(nts)
	for _, nt := range nts {
		sym := arithNTs[nt]
		h := f.Handlers[nt]
		if h == nil {
			w.check(P, "R06.1", "handler of "+nt, 0, false, "no handler registered")
			continue
		}
		gsym := ""
		for _, a := range f.Alts[nt] {
			if len(a.Syms) == 3 && !a.Syms[1].IsNT {
				gsym = a.Syms[1].Name
			}
		}
		if gsym != sym {
			w.check(P, "R06.1", "production of "+nt, 0, false, fmt.Sprintf("grammar terminal is %q, expected %q", gsym, sym))
			continue
		}
		left, right, ph, why := w.operandsOf(h.Fn)
		if why != "" {
			w.undecided(P, "R06.1", "operands of "+nt, h.Fn.Pos(), why)
			continue
		}
		if !ph.Numeric || !ph.Independent {
			w.check(P, "R06.1", "operands of "+nt, h.Fn.Pos(), false, "operands are not number() of independently evaluated children")
			continue
		}
		stores := resultStores(h.Fn, r)
		if len(stores) == 0 {
			w.undecided(P, "R06.1", "result of "+nt, h.Fn.Pos(), "handler stores no result")
		}
		for i, st := range stores {
			v := stripConvAll(st.Val)
			ok := false
			detail := ""
			// the operator handed to a generic evaluator as a function value: what the closure was bound to
			if c, isCall := v.(*ssa.Call); isCall && staticCallee(c) == nil && len(c.Call.Args) == 2 {
				if g := h.boundFunc(c.Call.Value); g != nil {
					argsOK := c.Call.Args[0] == left && c.Call.Args[1] == right
					if funcFullName(g) == "math.Mod" {
						ok = sym == "mod" && argsOK
						detail = fmt.Sprintf("the bound operator is math.Mod, applied to (left, right) in order: %v; production operator %s", argsOK, sym)
					} else if op, swapped, isOp := smallBinOp(g); isOp {
						ok = sym != "mod" && op == arithGoOp[sym] && argsOK && (!swapped || sym == "+" || sym == "*")
						detail = fmt.Sprintf("the bound operator %s computes its first %s its second parameter (swapped: %v), applied to (left, right) in order: %v; production operator %s", g.Name(), op, swapped, argsOK, sym)
					} else {
						detail = "the bound operator " + g.Name() + " is not a single float64 operation on its two parameters"
					}
					w.check(P, "R06.1", fmt.Sprintf("%s: stored result #%d", nt, i+1), st.Pos(), ok, detail)
					continue
				}
			}
			if sym == "mod" {
				if c, isCall := v.(*ssa.Call); isCall && staticCallee(c) != nil && funcFullName(staticCallee(c)) == "math.Mod" && len(c.Call.Args) == 2 {
					ok = c.Call.Args[0] == left && c.Call.Args[1] == right
					detail = fmt.Sprintf("math.Mod(left,right) with operands in order: %v", ok)
				} else {
					detail = fmt.Sprintf("stored value is %s, not math.Mod(left, right)", describe(v))
				}
			} else {
				if bo, isBo := v.(*ssa.BinOp); isBo {
					ok = bo.Op == arithGoOp[sym] && bo.X == left && bo.Y == right
					if bo.Op == arithGoOp[sym] && (sym == "+" || sym == "*") && bo.X == right && bo.Y == left {
						ok = true // commutative
					}
					detail = fmt.Sprintf("stores left %s right (float64); production operator %s", bo.Op, sym)
					if bo.X != left && bo.X != right || bo.Y != left && bo.Y != right {
						detail += "; operands are not the plain number() values of the two children"
					}
				} else {
					detail = fmt.Sprintf("stored value is %s, not a float64 binary operation on the operands", describe(v))
				}
			}
			w.check(P, "R06.1", fmt.Sprintf("%s: stored result #%d", nt, i+1), st.Pos(), ok, detail)
		}
		w.noOperandBranch(P, nt, h.Fn, left, right)
	}
	// unary minus
	if h := f.Handlers["UnaryExprNegate"]; h != nil {
		stores := resultStores(h.Fn, r)
		for i, st := range stores {
			v := stripConvAll(st.Val)
			ok := false
			detail := "stored value is not the float negation of Number() of the operand"
			if u, isU := v.(*ssa.UnOp); isU && u.Op == token.SUB {
				if _, isNum := isMethodCall(u.X, "Number"); isNum {
					ok = true
					detail = "stores -operand.Number()"
				} else if ex, isEx := u.X.(*ssa.Extract); isEx && ex.Index == 0 {
					// the operand's number handed back by a helper of the package (evaluate the child, return Number())
					if c, isCall := ex.Tuple.(*ssa.Call); isCall {
						if g := staticCallee(c); g != nil && fnPkgKey(g) == "exec" && len(g.Blocks) > 0 {
							all, n := true, 0
							allInstrs(g, func(in ssa.Instruction) {
								ret, isRet := in.(*ssa.Return)
								if !isRet || len(ret.Results) != 2 || !isNilConst(ret.Results[1]) {
									return
								}
								n++
								if _, isNum := isMethodCall(ret.Results[0], "Number"); !isNum {
									all = false
								}
							})
							if all && n > 0 {
								ok = true
								detail = "stores -(the operand's Number(), handed back by " + g.Name() + ")"
							}
						}
					}
				}
			}
			w.check(P, "R06.1", fmt.Sprintf("UnaryExprNegate: stored result #%d", i+1), st.Pos(), ok, detail)
		}
		w.noOperandBranch(P, "UnaryExprNegate", h.Fn, nil, nil)
	} else {
		w.check(P, "R06.1", "handler of UnaryExprNegate", 0, false, "no handler registered")
	}
	w.floor(P, "R06.1", 6)
	w.floor(P, "R06.3", 6)

	// R06.2 float->int conversions
	scan := map[*ssa.Function]string{}
	for _, nt := range append(nts, "UnaryExprNegate", "Number") {
		if h := f.Handlers[nt]; h != nil {
			for _, fn := range w.handlerClosureH(h) {
				scan[fn] = "handler of " + nt
			}
		}
	}
	for _, bn := range []string{"sum", "floor", "ceiling", "round", "count", "number"} {
		if b := f.Builtins[bn]; b != nil {
			for _, impl := range b.impls() {
				for fn := range staticReach(impl, func(g *ssa.Function) bool { return fnPkgKey(g) == "exec" }) {
					if _, dup := scan[fn]; !dup {
						scan[fn] = "builtin " + bn
					}
				}
			}
		} else if bn != "count" && bn != "number" {
			w.check(P, "R06.2", "builtin "+bn, 0, false, "builtin not registered")
		}
	}
	var sfns []*ssa.Function
	for fn := range scan {
		sfns = append(sfns, fn)
	}
	sort.Slice(sfns, func(i, j int) bool { return sfns[i].Name() < sfns[j].Name() })
	for _, fn := range sfns {
		n := 0
		allInstrs(fn, func(in ssa.Instruction) {
			if c, ok := in.(*ssa.Convert); ok && isFloatToInt(c) {
				n++
				w.check(P, "R06.2", fmt.Sprintf("float-to-integer conversion in %s (%s)", fn.Name(), scan[fn]), c.Pos(), false, "a double is converted to "+c.Type().String()+": truncates fractions, undefined beyond the integer range")
			}
		})
		if n == 0 {
			w.check(P, "R06.2", fmt.Sprintf("%s (%s)", fn.Name(), scan[fn]), fn.Pos(), true, "no float-to-integer conversion")
		}
	}
	w.floor(P, "R06.2", 12)

	// R06.4
	w.checkNumericBuiltins(P, f, r)

	// R06.5 integer division in exec
	nDiv := 0
	for _, m := range w.SSA["exec"].Members {
		fn, ok := m.(*ssa.Function)
		if !ok {
			continue
		}
		fns := append([]*ssa.Function{fn}, fn.AnonFuncs...)
		for _, g := range fns {
			allInstrs(g, func(in ssa.Instruction) {
				bo, ok := in.(*ssa.BinOp)
				if !ok || (bo.Op != token.QUO && bo.Op != token.REM) {
					return
				}
				b, ok := bo.X.Type().Underlying().(*types.Basic)
				if !ok || b.Info()&types.IsInteger == 0 {
					return
				}
				if k, isC := constInt(bo.Y); isC && k != 0 {
					return
				}
				nDiv++
				w.check(P, "R06.5", "integer "+bo.Op.String()+" in "+g.Name(), bo.Pos(), false, "integer division/remainder with a non-constant divisor panics when the divisor is zero")
			})
		}
	}
	// methods
	w.check(P, "R06.5", "package exec", 0, nDiv == 0, fmt.Sprintf("%d integer divisions with non-constant divisor", nDiv))
	w.floor(P, "R06.5", 1)
}

func describe(v ssa.Value) string {
	switch x := v.(type) {
	case *ssa.Call:
		return "a call of " + calleeName(x)
	case *ssa.BinOp:
		return "a " + x.Op.String() + " operation on " + x.X.Type().String()
	case *ssa.Const:
		return "the constant " + x.String()
	case *ssa.Phi:
		return "a value chosen by control flow"
	}
	return fmt.Sprintf("%T", v)
}

// noOperandBranch: no If in h whose condition derives from an operand value (error tests are fine).
func (w *World) noOperandBranch(P, nt string, h *ssa.Function, left, right ssa.Value) {
	bad := ""
	var badPos token.Pos
	allInstrs(h, func(in ssa.Instruction) {
		ifi, ok := in.(*ssa.If)
		if !ok {
			return
		}
		dep := false
		backSlice(ifi.Cond, func(v ssa.Value) bool {
			if left != nil && (v == left || v == right) {
				dep = true
			}
			if _, ok := isMethodCall(v, "Number"); ok {
				dep = true
			}
			if b, ok := v.Type().Underlying().(*types.Basic); ok && b.Info()&types.IsFloat != 0 {
				if _, isConst := v.(*ssa.Const); !isConst {
					dep = true
				}
			}
			return !dep
		})
		if dep {
			bad = "branches on an operand value"
			badPos = ifi.Cond.Pos()
		}
	})
	p := h.Pos()
	if bad != "" {
		p = badPos
	}
	w.check(P, "R06.3", "handler of "+nt, p, bad == "", map[bool]string{true: "no branch depends on an operand value", false: "the handler " + bad + ": IEEE 754 special cases re-implemented by hand"}[bad == ""])
}

func (w *World) checkNumericBuiltins(P string, f *Facts, r *Roles) {
	single := func(name string) *ssa.Function {
		b := f.Builtins[name]
		if b == nil {
			w.check(P, "R06.4", "builtin "+name, 0, false, "not registered")
			return nil
		}
		if fn := b.Fns[-1]; fn != nil {
			return fn
		}
		if fn := b.Fns[1]; fn != nil {
			return fn
		}
		w.undecided(P, "R06.4", "builtin "+name, b.Pos, "no single implementation")
		return nil
	}
	argsParam := func(fn *ssa.Function) ssa.Value {
		if len(fn.Params) >= 2 {
			return fn.Params[1]
		}
		return nil
	}
	// count
	if fn := single("count"); fn != nil {
		okAssert, okLen, okErr := false, false, false
		helperErr := false
		var asserted ssa.Value
		allInstrs(fn, func(in ssa.Instruction) {
			if ta, ok := in.(*ssa.TypeAssert); ok && ta.CommaOk && types.Identical(ta.AssertedType, r.NodeSet) {
				if sliceContains(ta.X, func(v ssa.Value) bool { return v == argsParam(fn) }) {
					okAssert = true
					asserted = ta
				}
			}
		})
		// or an argument helper of the package does the assertion and hands the node-set back with an error
		if !okAssert {
			if c, hOK, hErr := nodeSetArgHelper(fn, r); c != nil && hOK {
				okAssert = true
				asserted = c
				if hErr {
					helperErr = true
				}
			}
		}
		allInstrs(fn, func(in ssa.Instruction) {
			ret, ok := in.(*ssa.Return)
			if !ok || len(ret.Results) != 2 {
				return
			}
			if isNilConst(ret.Results[1]) {
				v := stripConvAll(ret.Results[0])
				if c, ok := v.(*ssa.Call); ok {
					if b, ok := c.Call.Value.(*ssa.Builtin); ok && b.Name() == "len" {
						if ex, ok := c.Call.Args[0].(*ssa.Extract); ok && ex.Tuple == asserted {
							okLen = true
						}
					}
				}
			} else if isNilConst(ret.Results[0]) {
				okErr = true
			}
		})
		okErr = okErr || helperErr
		w.check(P, "R06.4", "builtin count", fn.Pos(), okAssert && okLen && okErr, fmt.Sprintf("argument asserted to NodeSet: %v; returns len of it: %v; error path for other types: %v", okAssert, okLen, okErr))
	}
	// floor / ceiling
	for name, callee := range map[string]string{"floor": "math.Floor", "ceiling": "math.Ceil"} {
		if fn := single(name); fn != nil {
			ok := false
			detail := "no success return found"
			for _, sr := range successReturns(fn, "exec") {
				v := stripConvAll(sr.Val)
				c, isCall := v.(*ssa.Call)
				if !isCall {
					detail = "returns " + describe(v)
					continue
				}
				// the function applied: called directly, or received as a function value by a shared helper
				var applied *ssa.Function
				if sc := staticCallee(c); sc != nil {
					applied = sc
				} else if fv, isFn := sr.resolve(c.Call.Value).(*ssa.Function); isFn {
					applied = fv
				}
				if applied == nil {
					detail = "returns the result of " + describe(c.Call.Value)
					continue
				}
				got := funcFullName(applied)
				argOK := false
				if len(c.Call.Args) == 1 {
					if rcv, isNum := isMethodCall(stripConvAll(c.Call.Args[0]), "Number"); isNum {
						argOK = sr.contains(rcv, func(v ssa.Value) bool { return v == argsParam(fn) })
					}
				}
				ok = got == callee && argOK
				detail = fmt.Sprintf("returns %s(arg.Number()): callee %s, argument is Number() of the function argument: %v", callee, got, argOK)
			}
			w.check(P, "R06.4", "builtin "+name, fn.Pos(), ok, detail)
		}
	}
	// sum
	if fn := single("sum"); fn != nil {
		okAssert := false
		allInstrs(fn, func(in ssa.Instruction) {
			if ta, ok := in.(*ssa.TypeAssert); ok && ta.CommaOk && types.Identical(ta.AssertedType, r.NodeSet) {
				okAssert = true
			}
		})
		if !okAssert {
			if c, hOK, _ := nodeSetArgHelper(fn, r); c != nil && hOK {
				okAssert = true
			}
		}
		// accumulator: a float phi updated by ADD of a Number() call inside a loop
		okAcc := false
		accDetail := "no float64 accumulator `acc = acc + x.Number()` found"
		accFns := map[*ssa.Function]bool{}
		badTerm := ""
		var sumFns []*ssa.Function
		for g := range staticReach(fn, func(x *ssa.Function) bool { return fnPkgKey(x) == "exec" }) {
			if fnPkgKey(g) == "exec" {
				sumFns = append(sumFns, g)
			}
		}
		sortFuncs(sumFns)
		for _, g := range sumFns {
			loops := loopBlocks(g)
			allInstrs(g, func(in ssa.Instruction) {
				bo, ok := in.(*ssa.BinOp)
				if !ok || bo.Op != token.ADD || !loops[bo.Block()] {
					return
				}
				b, ok := bo.Type().Underlying().(*types.Basic)
				if !ok {
					return
				}
				_, isPhi := bo.X.(*ssa.Phi)
				other := bo.Y
				if !isPhi {
					_, isPhi = bo.Y.(*ssa.Phi)
					other = bo.X
				}
				if !isPhi {
					return
				}
				if b.Info()&types.IsFloat == 0 {
					// the loop counter of an index loop is not the accumulator
					if phiV, _ := bo.X.(*ssa.Phi); phiV != nil && (ascendingCounter(phiV) || isCounterPhi(phiV)) {
						return
					}
					if phiV, _ := bo.Y.(*ssa.Phi); phiV != nil && (ascendingCounter(phiV) || isCounterPhi(phiV)) {
						return
					}
					accDetail = "the accumulator is of type " + b.Name() + ", not float64"
					return
				}
				if w.isNumberOfNode(stripConvAll(other), 0) {
					okAcc = true
					accFns[g] = true
					accDetail = "float64 accumulator adds the number of each node (Number() of it, the spelled-out number(string-value(node)), or a helper of the package that returns exactly that)"
				} else {
					badTerm = w.pos(bo.Pos())
				}
			})
		}
		if badTerm != "" {
			// every term, not just one of them (a fast path that adds the number of a node's first text child
			// instead of its string-value is a different sum)
			okAcc = false
			accDetail = "a term added to the accumulator is not Number() of a node: " + badTerm
		}
		w.check(P, "R06.4", "builtin sum", fn.Pos(), okAssert && okAcc, fmt.Sprintf("argument asserted to NodeSet: %v; %s", okAssert, accDetail))
		// every node is added: the loops of sum leave only at their bound (an early exit "once the total is NaN or
		// infinite" is wrong: Infinity plus a later NaN or -Infinity is NaN)
		early := ""
		for _, g := range sumFns {
			if !accFns[g] {
				continue
			}
			loops := loopBlocks(g)
			for _, b := range g.Blocks {
				if !loops[b] || len(b.Instrs) == 0 {
					continue
				}
				if ifi, ok := b.Instrs[len(b.Instrs)-1].(*ssa.If); ok {
					if bo, ok := ifi.Cond.(*ssa.BinOp); ok && bo.Op == token.LSS && isLenOf(bo.Y, nil) {
						continue // the loop's own bound
					}
				}
				for _, sc := range b.Succs {
					if !loops[sc] {
						early = w.pos(b.Instrs[len(b.Instrs)-1].Pos())
					}
				}
			}
		}
		w.check(P, "R06.4", "builtin sum: every node is added", fn.Pos(), early == "", "exit from the summing loop other than its bound: "+orNone(early))
	}
	// round
	if fn := single("round"); fn != nil {
		w.checkRound(P, fn)
	}
	w.floorSites(P, "R06.4", 4)
	w.floor(P, "R06.6", 2)
}

// checkRound inspects the closure of the round builtin.
func (w *World) checkRound(P string, fn *ssa.Function) {
	allowed := map[string]bool{"math.Floor": true, "math.Ceil": true, "math.IsNaN": true, "math.IsInf": true, "math.Signbit": true, "math.Copysign": true}
	closure := staticReach(fn, func(g *ssa.Function) bool { return fnPkgKey(g) == "exec" })
	var fns []*ssa.Function
	for g := range closure {
		fns = append(fns, g)
	}
	sort.Slice(fns, func(i, j int) bool { return fns[i].Name() < fns[j].Name() })
	idioms := 0
	passThrough := false
	isMathCall := func(v ssa.Value, name string) bool {
		c, ok := stripConvAll(v).(*ssa.Call)
		return ok && staticCallee(c) != nil && funcFullName(staticCallee(c)) == name
	}
	for _, g := range fns {
		allInstrs(g, func(in ssa.Instruction) {
			switch x := in.(type) {
			case *ssa.Call:
				sc := staticCallee(x)
				if sc == nil || inRepo(sc) {
					return
				}
				name := funcFullName(sc)
				if sc.Pkg != nil && sc.Pkg.Pkg.Path() == "math" {
					if name == "math.Floor" {
						if bo, ok := stripConvAll(x.Call.Args[0]).(*ssa.BinOp); ok && bo.Op == token.ADD {
							kx, okx := constFloat(bo.X)
							ky, oky := constFloat(bo.Y)
							if (okx && kx == 0.5) || (oky && ky == 0.5) {
								idioms++
								w.check(P, "R06.6", "round: floor(x + 0.5) in "+g.Name(), x.Pos(), false, "the sum x + 0.5 is itself rounded to a double before floor sees it: round(0.49999999999999994) becomes 1 and odd integers in [2^52, 2^53) come back as n+1; the integer nearest to x must be found from floor(x) and the exact difference x - floor(x)")
							}
						}
					}
					if !allowed[name] {
						w.check(P, "R06.6", "round uses "+name+" in "+g.Name(), x.Pos(), false, name+" does not round ties toward positive infinity (XPath: round(-1.5) = -1, round(0.5) = 1)")
					}
				}
			case *ssa.BinOp:
				// tie tests: (distance) cmp 0.5
				if !isCmpOp(x.Op) {
					return
				}
				k, isK := constFloat(x.Y)
				dist, op := x.X, x.Op
				if !isK {
					k, isK = constFloat(x.X)
					dist, op = x.Y, swapOp(x.Op)
				}
				if !isK || k != 0.5 {
					return
				}
				sub, ok := dist.(*ssa.BinOp)
				if !ok || sub.Op != token.SUB {
					w.check(P, "R06.6", "round: unrecognised tie test in "+g.Name(), x.Pos(), false, "a comparison with 0.5 that is neither `x - floor(x)` nor `ceil(x) - x`: cannot decide which way ties go")
					return
				}
				switch {
				case isMathCall(sub.Y, "math.Floor"):
					// distance to floor: the tie (== 0.5) must belong to the round-up side: >= or <
					good := op == token.GEQ || op == token.LSS
					idioms++
					w.check(P, "R06.6", "round: tie test on the distance to the floor", x.Pos(), good, fmt.Sprintf("`x - floor(x) %s 0.5`: a tie must round up (>= or <)", op))
				case isMathCall(sub.X, "math.Ceil"):
					// distance to ceiling: the tie must stay at the ceiling: > or <=
					good := op == token.GTR || op == token.LEQ
					idioms++
					w.check(P, "R06.6", "round: tie test on the distance to the ceiling", x.Pos(), good, fmt.Sprintf("`ceil(x) - x %s 0.5`: a tie must stay at the ceiling, i.e. round toward positive infinity (> or <=); with %s round(-1.5) is -2", op, op))
				default:
					w.check(P, "R06.6", "round: unrecognised tie test in "+g.Name(), x.Pos(), false, "a comparison with 0.5 that is neither `x - floor(x)` nor `ceil(x) - x`: cannot decide which way ties go")
				}
			case *ssa.Return:
				if len(x.Results) == 1 && len(g.Params) == 1 && x.Results[0] == ssa.Value(g.Params[0]) {
					for _, a := range guardAtoms(x.Block()) {
						if c, ok := a.V.(*ssa.Call); ok && staticCallee(c) != nil {
							n := funcFullName(staticCallee(c))
							if (n == "math.IsNaN" || n == "math.IsInf") && a.Pol {
								passThrough = true
							}
						}
						// `case IsNaN(n) || IsInf(n, 0):` the disjunction as one value
						if phi, ok := a.V.(*ssa.Phi); ok && a.Pol && len(phi.Edges) > 0 {
							all := true
							for _, e := range phi.Edges {
								if k, isK := e.(*ssa.Const); isK && k.Value != nil && k.Value.Kind() == constant.Bool && constant.BoolVal(k.Value) {
									continue
								}
								if c, isC := e.(*ssa.Call); isC && staticCallee(c) != nil {
									if n := funcFullName(staticCallee(c)); n == "math.IsNaN" || n == "math.IsInf" {
										continue
									}
								}
								all = false
							}
							if all {
								passThrough = true
							}
						}
					}
					// `IsNaN(n) || IsInf(n)`: the return block is the join of two true edges
					for _, p := range x.Block().Preds {
						if len(p.Instrs) > 0 {
							if ifi, ok := p.Instrs[len(p.Instrs)-1].(*ssa.If); ok && p.Succs[0] == x.Block() {
								if c, ok := ifi.Cond.(*ssa.Call); ok && staticCallee(c) != nil {
									n := funcFullName(staticCallee(c))
									if n == "math.IsNaN" || n == "math.IsInf" {
										passThrough = true
									}
								}
							}
						}
					}
				}
			}
		})
	}
	w.check(P, "R06.6", "round: NaN and infinities pass through", fn.Pos(), passThrough, fmt.Sprintf("the rounding helper returns its argument unchanged under an IsNaN/IsInf guard: %v", passThrough))
	w.check(P, "R06.6", "round: a recognised rounding idiom is used", fn.Pos(), idioms > 0, fmt.Sprintf("%d instances of floor(x+0.5) / fraction tie tests found", idioms))
}

// isStringToNumber: fn is the package's string-to-number conversion, identified by role: the function of one string
// parameter and one float64 result that NodeSet.Number() and String.Number() apply.
func (w *World) isStringToNumber(fn *ssa.Function) bool {
	if fn == nil || fnPkgKey(fn) != "exec" || len(fn.Params) != 1 || !isStringType(fn.Params[0].Type()) || fn.Signature.Results().Len() != 1 {
		return false
	}
	if b, ok := fn.Signature.Results().At(0).Type().Underlying().(*types.Basic); !ok || b.Kind() != types.Float64 {
		return false
	}
	used := 0
	for _, tn := range []string{"NodeSet", "String"} {
		if m := w.method("exec", tn, "Number"); m != nil {
			allInstrs(m, func(in ssa.Instruction) {
				if c, ok := in.(*ssa.Call); ok && staticCallee(c) == fn {
					used++
				}
			})
		}
	}
	return used >= 2
}

// isStringValueOfElem: v is exec.GetCursorString applied to an element of a node-set.
func isStringValueOfElem(v ssa.Value, w *World) bool {
	c, ok := v.(*ssa.Call)
	if !ok || staticCallee(c) != w.member("exec", "GetCursorString") || len(c.Call.Args) != 1 {
		return false
	}
	ld, ok := c.Call.Args[0].(*ssa.UnOp)
	if !ok {
		return false
	}
	_, ok = ld.X.(*ssa.IndexAddr)
	return ok
}

// isNumberOfNode: v is the XPath number of one node: X.Number(); number(string-value(node)) spelled out with the
// package's own string-to-number conversion; or a call of a helper of the package every return of which is one of
// these.
func (w *World) isNumberOfNode(v ssa.Value, depth int) bool {
	if depth > 3 {
		return false
	}
	v = stripConvAll(v)
	if _, isNum := isMethodCall(v, "Number"); isNum {
		return true
	}
	c, ok := v.(*ssa.Call)
	if !ok {
		return false
	}
	sc := staticCallee(c)
	if sc == nil {
		return false
	}
	if w.isStringToNumber(sc) && len(c.Call.Args) == 1 {
		if sv, ok := c.Call.Args[0].(*ssa.Call); ok && staticCallee(sv) == w.member("exec", "GetCursorString") {
			return true
		}
		return false
	}
	if fnPkgKey(sc) != "exec" || len(sc.Blocks) == 0 || len(sc.Params) != 1 || sc.Signature.Results().Len() != 1 {
		return false
	}
	all, n := true, 0
	allInstrs(sc, func(in ssa.Instruction) {
		if ret, ok := in.(*ssa.Return); ok {
			n++
			if !w.isNumberOfNode(ret.Results[0], depth+1) {
				all = false
			}
		}
	})
	return all && n > 0
}

// nodeSetArgHelper: fn obtains its node-set argument from a helper of the package that is handed the argument list,
// asserts the argument to NodeSet, returns it on success and an error otherwise: (the call, assertion present,
// error path present).
func nodeSetArgHelper(fn *ssa.Function, r *Roles) (*ssa.Call, bool, bool) {
	var out *ssa.Call
	okA, okE := false, false
	args := fn.Params[len(fn.Params)-1]
	allInstrs(fn, func(in ssa.Instruction) {
		c, ok := in.(*ssa.Call)
		if !ok || out != nil {
			return
		}
		h := staticCallee(c)
		if h == nil || fnPkgKey(h) != "exec" || h.Signature.Results().Len() != 2 || !types.Identical(h.Signature.Results().At(0).Type(), r.NodeSet) {
			return
		}
		passes := false
		for _, a := range c.Call.Args {
			if a == ssa.Value(args) {
				passes = true
			}
		}
		if !passes {
			return
		}
		var ta *ssa.TypeAssert
		allInstrs(h, func(in2 ssa.Instruction) {
			if t, ok := in2.(*ssa.TypeAssert); ok && t.CommaOk && types.Identical(t.AssertedType, r.NodeSet) {
				ta = t
			}
		})
		if ta == nil {
			return
		}
		allInstrs(h, func(in2 ssa.Instruction) {
			ret, ok := in2.(*ssa.Return)
			if !ok || len(ret.Results) != 2 {
				return
			}
			if isNilConst(ret.Results[1]) {
				if ex, ok := ret.Results[0].(*ssa.Extract); ok && ex.Tuple == ssa.Value(ta) && ex.Index == 0 {
					okA = true
				}
			} else if isNilConst(ret.Results[0]) {
				okE = true
			}
		})
		out = c
	})
	return out, okA, okE
}

// smallBinOp: g is `func(a, b float64) float64 { return a OP b }` (or b OP a): the operator and whether the
// parameters are swapped.
func smallBinOp(g *ssa.Function) (token.Token, bool, bool) {
	if g == nil || len(g.Params) != 2 || len(g.Blocks) != 1 {
		return 0, false, false
	}
	ret, ok := g.Blocks[0].Instrs[len(g.Blocks[0].Instrs)-1].(*ssa.Return)
	if !ok || len(ret.Results) != 1 {
		return 0, false, false
	}
	bo, ok := ret.Results[0].(*ssa.BinOp)
	if !ok {
		return 0, false, false
	}
	if bo.X == ssa.Value(g.Params[0]) && bo.Y == ssa.Value(g.Params[1]) {
		return bo.Op, false, true
	}
	if bo.X == ssa.Value(g.Params[1]) && bo.Y == ssa.Value(g.Params[0]) {
		return bo.Op, true, true
	}
	return 0, false, false
}
