package main

import (
	"fmt"
	"go/constant"
	"go/token"
	"go/types"
	"sort"
	"strings"

	"golang.org/x/tools/go/ssa"
)

func init() {
	register("C05", checkC05)
	notDecided["C05"] = "the boolean results for concrete operand values; NaN behaviour beyond 'Go's IEEE float comparison is applied to number()-converted operands'."
}

var cmpNTs = map[string]string{
	"EqualityExprEqual": "=", "EqualityExprNotEqual": "!=",
	"RelationalExprLessThan": "<", "RelationalExprLessThanOrEqual": "<=",
	"RelationalExprGreaterThan": ">", "RelationalExprGreaterThanOrEqual": ">=",
}

var goOpOf = map[string]token.Token{"=": token.EQL, "!=": token.NEQ, "<": token.LSS, "<=": token.LEQ, ">": token.GTR, ">=": token.GEQ}

func swapOp(op token.Token) token.Token {
	switch op {
	case token.LSS:
		return token.GTR
	case token.GTR:
		return token.LSS
	case token.LEQ:
		return token.GEQ
	case token.GEQ:
		return token.LEQ
	}
	return op
}

func isCmpOp(op token.Token) bool {
	switch op {
	case token.EQL, token.NEQ, token.LSS, token.LEQ, token.GTR, token.GEQ:
		return true
	}
	return false
}

// operandCmp is a comparison between a left-derived and a right-derived value.
type operandCmp struct {
	Unit   *cmpUnit
	V      ssa.Value       // the comparison: a BinOp, or the call of a comparator function bound to a function parameter
	In     ssa.Instruction // the same, as an instruction
	X, Y   ssa.Value       // its operands
	Op     token.Token     // normalised to "left op right"
	Kind   string          // operand type compared: float / string / bool
	Guards string          // which dynamic operand types guard it, e.g. "L:NodeSet R:Number"
	InLoop bool
}

// cmpUnit is a function in which the operands of a comparison production are compared: the handler itself (which
// stores the answer into the context) or a helper of the package that is given the two operands and returns the answer
// (the handler, or the unit that calls it, stores or returns that in turn).
type cmpUnit struct {
	Fn          *ssa.Function
	Left, Right ssa.Value
	ResultIdx   int       // -1: the answer is stored into the context result; k: result k of Fn is the answer
	OkIdx       int       // index of a second boolean result meaning "handled" (-1: none)
	CallGuards  string    // operand-type guards that hold where the unit is called
	Call        *ssa.Call // the call in the parent unit
	Delivered   bool      // the answer flows into the caller's answer
	Negated     bool      // ... negated on the way (an odd number of !)
}

// comparisonUnits: the handler and, recursively, the helpers that receive both operands.
func (w *World) comparisonUnits(h *ssa.Function, left, right ssa.Value) []*cmpUnit {
	root := &cmpUnit{Fn: h, Left: left, Right: right, ResultIdx: -1, OkIdx: -1}
	units := []*cmpUnit{root}
	seen := map[*ssa.Function]bool{h: true}
	for i := 0; i < len(units) && i < 8; i++ {
		u := units[i]
		allInstrs(u.Fn, func(in ssa.Instruction) {
			c, ok := in.(*ssa.Call)
			if !ok {
				return
			}
			g := staticCallee(c)
			if g == nil || fnPkgKey(g) != "exec" || seen[g] || len(g.Blocks) == 0 {
				return
			}
			li, ri := -1, -1
			for k, a := range c.Call.Args {
				if a == u.Left {
					li = k
				}
				if a == u.Right {
					ri = k
				}
			}
			if li < 0 && ri < 0 {
				// the operands handed on after a type assertion (`nodeSetsCompare(leftNodeSet, rightNodeSet)`)
				assertedOf := func(a ssa.Value) ssa.Value {
					switch x := stripConv(a).(type) {
					case *ssa.TypeAssert:
						return x.X
					case *ssa.Extract:
						if ta, ok := x.Tuple.(*ssa.TypeAssert); ok && x.Index == 0 {
							return ta.X
						}
					}
					return nil
				}
				for k, a := range c.Call.Args {
					switch assertedOf(a) {
					case u.Left:
						if li < 0 {
							li = k
						}
					case u.Right:
						if ri < 0 {
							ri = k
						}
					}
				}
			}
			if li < 0 || ri < 0 || li >= len(g.Params) || ri >= len(g.Params) {
				return
			}
			res := g.Signature.Results()
			ridx, okidx := -1, -1
			for k := 0; k < res.Len(); k++ {
				if n, isN := types.Unalias(res.At(k).Type()).(*types.Named); isN && n.Obj().Name() == "Bool" && ridx < 0 {
					ridx = k
				} else if b, isB := res.At(k).Type().Underlying().(*types.Basic); isB && b.Kind() == types.Bool {
					if _, named := types.Unalias(res.At(k).Type()).(*types.Named); !named {
						okidx = k
					} else if ridx < 0 {
						ridx = k
					}
				}
			}
			if ridx < 0 && res.Len() == 1 && okidx == 0 {
				ridx, okidx = 0, -1 // a helper that answers with a plain bool
			}
			if ridx < 0 && res.Len() == 2 {
				// (answer, handled), both plain bools: "handled" is the one the caller branches on
				b0, ok0 := res.At(0).Type().Underlying().(*types.Basic)
				b1, ok1 := res.At(1).Type().Underlying().(*types.Basic)
				if ok0 && ok1 && b0.Kind() == types.Bool && b1.Kind() == types.Bool {
					branched := map[int]bool{}
					for _, rr := range referrers(c) {
						if ex, ok := rr.(*ssa.Extract); ok {
							for _, r2 := range referrers(ex) {
								if _, isIf := r2.(*ssa.If); isIf {
									branched[ex.Index] = true
								}
							}
						}
					}
					switch {
					case branched[1] && !branched[0]:
						ridx, okidx = 0, 1
					case branched[0] && !branched[1]:
						ridx, okidx = 1, 0
					}
				}
			}
			if ridx < 0 {
				return
			}
			seen[g] = true
			cg := typeGuards(c.Block(), u.Left, u.Right)
			if u.CallGuards != "" {
				cg = strings.TrimSpace(u.CallGuards + " " + cg)
			}
			nu := &cmpUnit{Fn: g, Left: g.Params[li], Right: g.Params[ri], ResultIdx: ridx, OkIdx: okidx, CallGuards: cg, Call: c}
			// the answer the helper hands back is what the caller stores (or hands back in turn)
			var start ssa.Value = c
			if res.Len() > 1 {
				start = nil
				for _, rr := range referrers(c) {
					if ex, ok := rr.(*ssa.Extract); ok && ex.Index == ridx {
						start = ex
					}
				}
			}
			if start != nil {
				seenV := map[ssa.Value]bool{}
				var flows func(v ssa.Value, d int, neg bool)
				flows = func(v ssa.Value, d int, neg bool) {
					if seenV[v] || d > 6 {
						return
					}
					seenV[v] = true
					for _, rr := range referrers(v) {
						switch x := rr.(type) {
						case *ssa.Phi:
							flows(x, d+1, neg)
						case *ssa.ChangeType:
							flows(x, d+1, neg)
						case *ssa.MakeInterface:
							flows(x, d+1, neg)
						case *ssa.UnOp:
							if x.Op == token.NOT {
								flows(x, d+1, !neg) // the caller answers with the negation of the helper's answer
							}
						case *ssa.Store:
							if fa, ok := x.Addr.(*ssa.FieldAddr); ok && u.ResultIdx < 0 && x.Val == v {
								if pt, ok := fa.X.Type().Underlying().(*types.Pointer); ok {
									if st, ok := pt.Elem().Underlying().(*types.Struct); ok && fa.Field < st.NumFields() && st.Field(fa.Field).Name() != "" {
										nu.Delivered = true
										nu.Negated = u.Negated != neg
									}
								}
							}
						case *ssa.Return:
							if u.ResultIdx >= 0 && u.ResultIdx < len(x.Results) && x.Results[u.ResultIdx] == v {
								nu.Delivered = true
								nu.Negated = u.Negated != neg
							}
						}
					}
				}
				flows(start, 0, false)
			}
			units = append(units, nu)
		})
	}
	return units
}

// allOperandComparisons: the comparisons of every unit.
func (w *World) allOperandComparisons(h *ssa.Function, left, right ssa.Value) []operandCmp {
	var out []operandCmp
	for _, u := range w.comparisonUnits(h, left, right) {
		for _, c := range w.operandComparisons(u.Fn, u.Left, u.Right) {
			c.Unit = u
			if u.Negated {
				// !(a == b) is a != b for every pair of values (NaN included); the negation of an ordering test
				// is not the complementary ordering (NaN), and the negation of "some node satisfies" is not
				// "some node satisfies the complement"
				switch {
				case c.InLoop:
					c.Op = token.ILLEGAL
				case c.Op == token.EQL:
					c.Op = token.NEQ
				case c.Op == token.NEQ:
					c.Op = token.EQL
				default:
					c.Op = token.ILLEGAL
				}
			}
			if u.CallGuards != "" {
				c.Guards = strings.TrimSpace(c.Guards + " " + u.CallGuards)
				fs := strings.Fields(c.Guards)
				sort.Strings(fs)
				c.Guards = strings.Join(fs, " ")
			}
			out = append(out, c)
		}
	}
	return out
}

// cmpBind resolves a function-typed parameter or free variable of the function under analysis to the function it was
// bound to for the handler being checked (set by checkC05 per handler; nil when there are no such bindings).
var cmpBind func(ssa.Value) *ssa.Function

func (w *World) operandComparisons(h *ssa.Function, left, right ssa.Value) []operandCmp {
	var out []operandCmp
	// the handler and the function literals it contains (a comparison handed to a helper as a closure still compares
	// the handler's operands; a literal that runs once per node of a node-set counts as "inside the loop")
	var fns []*ssa.Function
	var addFn func(g *ssa.Function)
	addFn = func(g *ssa.Function) {
		fns = append(fns, g)
		for _, a := range g.AnonFuncs {
			addFn(a)
		}
	}
	addFn(h)
	for _, g := range fns {
		g := g
		inLoop := loopBlocks(g)
		allInstrs(g, func(in ssa.Instruction) {
			var cv, cx, cy ssa.Value
			var cop token.Token
			switch x := in.(type) {
			case *ssa.BinOp:
				if !isCmpOp(x.Op) {
					return
				}
				cv, cx, cy, cop = x, x.X, x.Y, x.Op
			case *ssa.Call:
				// a comparator of the package parameterised by constants (`lessThan(l, r, orEqual)` with orEqual a
				// parameter the delegating handler binds to a constant)
				if g2 := x.Call.StaticCallee(); g2 != nil && fnPkgKey(g2) == "exec" && !x.Call.IsInvoke() {
					if bop, xi, yi, ok := comparatorUnder(x, g2); ok && isCmpOp(bop) {
						cv, cx, cy, cop = x, x.Call.Args[xi], x.Call.Args[yi], bop
						break
					}
					return
				}
				// the operator handed in as a function value (`cmp(l, r)` with cmp bound to
				// func(l, r float64) bool { return l < r })
				if staticCallee(x) != nil || x.Call.IsInvoke() || len(x.Call.Args) != 2 || cmpBind == nil {
					return
				}
				fb := cmpBind(x.Call.Value)
				bop, swapped, isCmp := smallBinOp(fb)
				if !isCmp || !isCmpOp(bop) {
					return
				}
				cv, cx, cy, cop = x, x.Call.Args[0], x.Call.Args[1], bop
				if swapped {
					cx, cy = cy, cx
				}
			default:
				return
			}
			xl, xr := sides(cx, left, right)
			yl, yr := sides(cy, left, right)
			var op token.Token
			switch {
			case xl && !xr && yr && !yl:
				op = cop
			case xr && !xl && yl && !yr:
				op = swapOp(cop)
			default:
				return
			}
			kind := "other"
			if b, ok := cx.Type().Underlying().(*types.Basic); ok {
				switch {
				case b.Info()&types.IsFloat != 0:
					kind = "float"
				case b.Info()&types.IsString != 0:
					kind = "string"
				case b.Info()&types.IsBoolean != 0:
					kind = "bool"
				}
			}
			guards := typeGuards(in.Block(), left, right)
			if g != h {
				// a comparison inside a function literal: what is known where the literal is handed to its helper
				// (and, for a literal inside a literal, where that one is)
				for lit, d := g, 0; lit != h && lit.Parent() != nil && d < 4; lit, d = lit.Parent(), d+1 {
					site := closureUseSite(lit)
					if site == nil {
						break
					}
					guards = strings.TrimSpace(guards + " " + typeGuards(site.Block(), left, right))
				}
			}
			out = append(out, operandCmp{V: cv, In: in, X: cx, Y: cy, Op: op, Kind: kind, Guards: guards, InLoop: inLoop[in.Block()] || g != h})
		})
	}
	return out
}

// typeGuards renders the comma-ok type assertions on the operands that hold in block b.
func typeGuards(b *ssa.BasicBlock, left, right ssa.Value) string {
	var gs []string
	for _, a := range guardAtoms(b) {
		var subject ssa.Value
		var asserted types.Type
		switch x := a.V.(type) {
		case *ssa.Extract:
			if ta, ok := x.Tuple.(*ssa.TypeAssert); ok && x.Index == 1 {
				subject, asserted = ta.X, ta.AssertedType
			}
		case *ssa.Call:
			// a type predicate of the package: `func isBoolResult(r Result) bool { _, ok := r.(Bool); return ok }`
			if t := typePredicate(staticCallee(x)); t != nil && len(x.Call.Args) == 1 {
				subject, asserted = x.Call.Args[0], t
			}
		}
		if subject == nil {
			continue
		}
		side := ""
		if subject == left {
			side = "L"
		} else if subject == right {
			side = "R"
		} else {
			continue
		}
		n, ok := types.Unalias(asserted).(*types.Named)
		if !ok {
			continue
		}
		pol := ""
		if !a.Pol {
			pol = "!"
		}
		gs = append(gs, side+":"+pol+n.Obj().Name())
	}
	sort.Strings(gs)
	return strings.Join(gs, " ")
}

func positiveGuards(g string) string {
	var out []string
	for _, s := range strings.Fields(g) {
		if !strings.Contains(s, "!") {
			out = append(out, s)
		}
	}
	return strings.Join(out, " ")
}

// loopBlocks: blocks that lie on a cycle of the CFG.
func loopBlocks(fn *ssa.Function) map[*ssa.BasicBlock]bool {
	out := map[*ssa.BasicBlock]bool{}
	for _, b := range fn.Blocks {
		// b is in a loop iff b reaches itself
		seen := map[*ssa.BasicBlock]bool{}
		var stack []*ssa.BasicBlock
		stack = append(stack, b.Succs...)
		for len(stack) > 0 {
			x := stack[len(stack)-1]
			stack = stack[:len(stack)-1]
			if x == b {
				out[b] = true
				break
			}
			if seen[x] {
				continue
			}
			seen[x] = true
			stack = append(stack, x.Succs...)
		}
	}
	return out
}

func checkC05(w *World) {
	const P = "C05"
	f := w.Facts()
	r := w.Roles()
	for _, e := range r.err {
		w.undecided(P, "R00.roles", "role resolution: "+e, 0, e)
	}
	docRule(P, "R05.0", "F", "the two-operand helper used by the comparison handlers evaluates NT child 0 and NT child 1 each in its own copy of the incoming context and returns them in that order (so 'left' really is the XPath left operand and a predicate's context node and position reach both operands).")
	docRule(P, "R05.1", "T+F G<->H<->S", "operator agreement: in the handler registered for the production `L op R`, every Go comparison whose one operand derives from the left and the other from the right operand is, after normalising operand order, exactly `op` (the terminal between the two nonterminals in the generated grammar).")
	docRule(P, "R05.2", "F", "the four relational handlers compare only float64-typed operands (XPath 3.4: <, <=, >, >= always compare numbers; Go string comparison is lexicographic).")
	docRule(P, "R05.3", "D", "existential shape: a comparison evaluated inside a loop over a node-set stores true (and returns) on its true edge; the arm stores false only after the loop; comparisons outside loops store the comparison value itself.")
	docRule(P, "R05.4", "D", "scalar priority in = and !=: the comparison of Bool() values is reached only when one operand is a boolean, the Number() comparison only when neither is a boolean, the String() comparison only when neither is a boolean or a number; node-set x boolean arms compare with the node-set's Bool().")
	docRule(P, "R05.5", "T siblings", "the four relational handlers have the same multiset of operand-type arms, likewise the two equality handlers; node-set x node-set, node-set x number, node-set x string (both orders) and node-set x boolean arms exist in each.")
	docRule(P, "R05.6", "F", "in the node-set arms, the value compared for a node is that node's string-value or the number of it: between the loop's node and the comparison lie only exec.GetCursorString, the package's string-to-number conversion, type conversions and helpers of the package every return of which is such a value; a value read from a map or a field (a memo keyed by position answers for a node of another document) or a method of the cursor's node (the text of the first child is not the string-value) is reported.")

	var nts []string
	for nt := range cmpNTs {
		nts = append(nts, nt)
	}
	sort.Strings(nts)
	armSets := map[string]string{}
	for _, nt := range nts {
		sym := cmpNTs[nt]
		h := f.Handlers[nt]
		if h == nil {
			w.check(P, "R05.1", "handler of "+nt, 0, false, "no handler registered")
			continue
		}
		// operator terminal from the grammar
		gsym := ""
		for _, a := range f.Alts[nt] {
			if len(a.Syms) == 3 && !a.Syms[1].IsNT {
				gsym = a.Syms[1].Name
			}
		}
		if gsym != sym {
			w.check(P, "R05.1", "production of "+nt, 0, false, fmt.Sprintf("grammar terminal is %q, expected %q", gsym, sym))
			continue
		}
		hh := h
		cmpBind = func(v ssa.Value) *ssa.Function { return hh.boundFunc(v) }
		cmpConst = func(v ssa.Value) (bool, bool) {
			if k, ok := v.(*ssa.Const); ok && k.Value != nil && k.Value.Kind() == constant.Bool {
				return constant.BoolVal(k.Value), true
			}
			if p, ok := v.(*ssa.Parameter); ok && hh.ParamBind != nil {
				if k, ok := hh.ParamBind[p].(*ssa.Const); ok && k.Value != nil && k.Value.Kind() == constant.Bool {
					return constant.BoolVal(k.Value), true
				}
			}
			return false, false
		}
		left, right, ph, why := w.operandsOf(h.Fn)
		if why != "" {
			w.undecided(P, "R05.0", "operands of "+nt, h.Fn.Pos(), why)
			continue
		}
		w.check(P, "R05.0", "operands of "+nt, h.Fn.Pos(), ph.Independent && !ph.Numeric, fmt.Sprintf("helper %s: independent copies: %v; result %d = child 0, result %d = child 1", ph.Fn.Name(), ph.Independent, ph.LeftResult, ph.RightResult))
		cmps := w.allOperandComparisons(h.Fn, left, right)
		for _, u := range w.comparisonUnits(h.Fn, left, right) {
			if u.Call != nil {
				w.check(P, "R05.3", fmt.Sprintf("%s: answer of %s", nt, u.Fn.Name()), u.Call.Pos(), u.Delivered, fmt.Sprintf("the boolean the comparison helper hands back becomes the result of the comparison: %v", u.Delivered))
			}
		}
		want := goOpOf[sym]
		relational := sym != "=" && sym != "!="
		var arms []string
		for i, c := range cmps {
			cons := fmt.Sprintf("%s: comparison #%d [%s]", nt, i+1, positiveGuards(c.Guards))
			w.check(P, "R05.1", cons, c.In.Pos(), c.Op == want, fmt.Sprintf("Go operator (left-to-right normalised) is %s, the production's operator is %s", c.Op, sym))
			if relational {
				w.check(P, "R05.2", cons, c.In.Pos(), c.Kind == "float", "operands compared as "+c.Kind)
			}
			// R05.3
			ok3, why3 := w.existentialShape(c, r)
			w.check(P, "R05.3", cons, c.In.Pos(), ok3, why3)
			arms = append(arms, positiveGuards(c.Guards)+"/"+c.Kind)
		}
		// constant results are stored only inside node-set arms; node-set arms compare node by node
		allInstrs(h.Fn, func(in ssa.Instruction) {
			st, ok := in.(*ssa.Store)
			if !ok {
				return
			}
			fa, ok := st.Addr.(*ssa.FieldAddr)
			if !ok || fa.Field != r.CtxResultField {
				return
			}
			cst, ok := stripConv(st.Val).(*ssa.Const)
			if !ok || cst.Value == nil || cst.Value.Kind() != constant.Bool {
				return
			}
			pg := positiveGuards(typeGuards(st.Block(), left, right))
			okArm := false
			for _, a := range []string{"L:NodeSet R:NodeSet", "L:Number R:NodeSet", "L:NodeSet R:Number", "L:NodeSet R:String", "L:String R:NodeSet"} {
				if pg == a {
					okArm = true
				}
			}
			w.check(P, "R05.3", fmt.Sprintf("%s: constant result %s [%s]", nt, cst.Value.String(), pg), st.Pos(), okArm, "a constant boolean is stored as the result outside a node-set x (node-set|number|string) arm: guards "+orNone(typeGuards(st.Block(), left, right))+" (e.g. an early 'empty node-set gives false' exit is wrong against a boolean operand, whose comparison uses boolean(node-set))")
		})
		for i, c := range cmps {
			pg := positiveGuards(c.Guards)
			if strings.Contains(pg, "NodeSet") && !strings.Contains(pg, "Bool") {
				perNode := c.InLoop && (derivesFromLoopElement(c.X) || derivesFromLoopElement(c.Y))
				if pg == "L:NodeSet R:NodeSet" {
					// every pair: each side is the node of a loop over its own set (a fixed node of one set, `left[0]`,
					// compared with the nodes of the other decides wrongly when the other set is empty or the first
					// node is not the one that differs)
					perNode = c.InLoop && derivesFromLoopElement(c.X) && derivesFromLoopElement(c.Y)
				}
				w.check(P, "R05.3", fmt.Sprintf("%s: comparison #%d [%s] is made per node", nt, i+1, pg), c.In.Pos(), perNode, fmt.Sprintf("the comparison sits inside the loop over the node-set and compares that loop's node: %v (summaries such as min/max of the set lose NaN and non-numeric nodes)", perNode))
				// ... and what is compared is the node's string-value (or its number), computed from the node itself
				fault := ""
				for _, o := range []ssa.Value{c.X, c.Y} {
					if derivesFromLoopElement(o) && fault == "" {
						fault = w.nodeValueFault(o, 0)
					}
				}
				w.check(P, "R05.6", fmt.Sprintf("%s: comparison #%d [%s] compares the node's string-value", nt, i+1, pg), c.In.Pos(), fault == "", "the value compared for a node is its string-value (GetCursorString) or the number of it, through conversions and helpers that return exactly that: "+orOK(fault))
			}
		}
		sort.Strings(arms)
		armSets[nt] = strings.Join(arms, " | ")
		if len(cmps) < 6 {
			w.check(P, "R05.1", nt+": number of operand comparisons", h.Fn.Pos(), false, fmt.Sprintf("only %d comparisons between the operands found", len(cmps)))
		}
		// required arms
		need := []string{"L:NodeSet R:NodeSet", "L:Number R:NodeSet", "L:NodeSet R:Number", "L:String R:NodeSet", "L:NodeSet R:String", "L:Bool R:NodeSet", "L:NodeSet R:Bool"}
		for _, n := range need {
			found := false
			for _, c := range cmps {
				if positiveGuards(c.Guards) == n {
					found = true
				}
			}
			w.check(P, "R05.5", nt+": arm "+n, h.Fn.Pos(), found, fmt.Sprintf("arm for operand types %s present: %v", n, found))
		}
		// node-set x boolean arms must use NodeSet.Bool()
		for _, c := range cmps {
			pg := positiveGuards(c.Guards)
			if pg == "L:Bool R:NodeSet" || pg == "L:NodeSet R:Bool" {
				usesBool := sliceContains(c.X, isBoolCall) || sliceContains(c.Y, isBoolCall)
				w.check(P, "R05.4", nt+": node-set x boolean arm "+pg, c.In.Pos(), usesBool, fmt.Sprintf("the node-set is converted with Bool(): %v", usesBool))
			}
		}
		if !relational {
			w.scalarPriority(P, nt, h.Fn, cmps, left, right)
		}
	}
	// siblings
	rel := []string{"RelationalExprLessThan", "RelationalExprLessThanOrEqual", "RelationalExprGreaterThan", "RelationalExprGreaterThanOrEqual"}
	for _, nt := range rel[1:] {
		w.check(P, "R05.5", "arms of "+nt+" = arms of "+rel[0], 0, armSets[nt] == armSets[rel[0]], fmt.Sprintf("%s: {%s}; %s: {%s}", nt, armSets[nt], rel[0], armSets[rel[0]]))
	}
	w.check(P, "R05.5", "arms of EqualityExprNotEqual = arms of EqualityExprEqual", 0, armSets["EqualityExprNotEqual"] == armSets["EqualityExprEqual"], fmt.Sprintf("{%s} vs {%s}", armSets["EqualityExprNotEqual"], armSets["EqualityExprEqual"]))
	w.floor(P, "R05.0", 6)
	w.floor(P, "R05.1", 48)
	w.floor(P, "R05.2", 32)
	w.floor(P, "R05.3", 48)
	w.floor(P, "R05.4", 14)
	w.floor(P, "R05.5", 46)
}

// derivesFromLoopElement: v is computed from set[i] with i a loop counter.
func derivesFromLoopElement(v ssa.Value) bool {
	return sliceContains(v, func(x ssa.Value) bool {
		// the parameter of a predicate literal handed to an existential helper is that helper's loop element
		if p, ok := x.(*ssa.Parameter); ok && p.Parent().Parent() != nil {
			if site := closureUseSite(p.Parent()); site != nil && existentialHelper(staticCallee(site)) {
				return true
			}
		}
		ld, ok := x.(*ssa.UnOp)
		if !ok {
			return false
		}
		ia, ok := ld.X.(*ssa.IndexAddr)
		return ok && ascendingCounter(ia.Index)
	})
}

func isBoolCall(v ssa.Value) bool {
	_, ok := isMethodCall(v, "Bool")
	return ok
}

// existentialShape checks the use of one operand comparison.
func (w *World) existentialShape(c operandCmp, r *Roles) (bool, string) {
	refs := referrers(c.V)
	// the comparison is the value a function literal returns, and the literal is the predicate of an existential
	// helper (`result = anyNode(set, func(n) bool { return a == f(n) })`) whose value is stored as the result
	if lit := c.In.Parent(); lit.Parent() != nil {
		returned := false
		for _, rr := range refs {
			if ret, ok := rr.(*ssa.Return); ok && len(ret.Results) == 1 && ret.Results[0] == c.V {
				returned = true
			}
		}
		site := closureUseSite(lit)
		if returned && site != nil {
			helper := staticCallee(site)
			if helper != nil && existentialHelper(helper) {
				stored := false
				var flows func(v ssa.Value, d int)
				flows = func(v ssa.Value, d int) {
					if d > 8 {
						return
					}
					for _, rr := range referrers(v) {
						switch x := rr.(type) {
						case *ssa.ChangeType:
							flows(x, d+1)
						case *ssa.MakeInterface:
							flows(x, d+1)
						case *ssa.Store:
							if fa, ok := x.Addr.(*ssa.FieldAddr); ok && fa.Field == r.CtxResultField {
								stored = true
							}
						case *ssa.Return:
							// the answer over the inner node-set is what the predicate of an outer existential helper
							// returns (node-set x node-set): follow that helper's answer
							outer := x.Parent()
							if outer.Parent() != nil && len(x.Results) == 1 && x.Results[0] == v {
								if s2 := closureUseSite(outer); s2 != nil && existentialHelper(staticCallee(s2)) {
									flows(s2, d+1)
								}
							}
						}
					}
				}
				flows(site, 0)
				if stored {
					return true, "the comparison is the predicate of " + helper.Name() + ", which answers true on the first node for which it holds and false after the last; its answer is stored as the result"
				}
				return false, "the answer of the existential helper is not stored as the result"
			}
			return false, "the function literal that makes the comparison is not handed to an existential helper (true on the first match, false after the loop)"
		}
	}
	ridx := -1
	if c.Unit != nil {
		ridx = c.Unit.ResultIdx
	}
	if c.InLoop {
		if len(refs) != 1 {
			return false, "in-loop comparison is not used as exactly one branch condition"
		}
		ifi, ok := refs[0].(*ssa.If)
		if !ok {
			return false, "in-loop comparison is not a branch condition"
		}
		tb := ifi.Block().Succs[0]
		storesTrue, returns := false, false
		for _, in := range tb.Instrs {
			if st, ok := in.(*ssa.Store); ok {
				if fa, ok := st.Addr.(*ssa.FieldAddr); ok && fa.Field == r.CtxResultField {
					if cst, ok := stripConv(st.Val).(*ssa.Const); ok && cst.Value != nil && cst.Value.Kind() == constant.Bool && constant.BoolVal(cst.Value) {
						storesTrue = true
					}
				}
			}
			if ret, ok := in.(*ssa.Return); ok {
				returns = true
				// a helper that returns the answer: the constant true is what it hands back
				if ridx >= 0 && ridx < len(ret.Results) {
					if cst, ok := stripConv(ret.Results[ridx]).(*ssa.Const); ok && cst.Value != nil && cst.Value.Kind() == constant.Bool && constant.BoolVal(cst.Value) {
						storesTrue = true
					}
				}
			}
		}
		if !storesTrue || !returns {
			// flag form: the true edge leaves the loop and sets a boolean variable (a phi that receives the constant
			// true on this path and false on the others) which is what is stored as the result after the loop
			if ok, why := w.flagFormExistential(ifi, r, ridx); ok {
				return true, why
			}
			return false, fmt.Sprintf("true edge of the in-loop comparison stores true: %v, returns: %v", storesTrue, returns)
		}
		// the false edge must stay in the loop (not store)
		fb := ifi.Block().Succs[1]
		for _, in := range fb.Instrs {
			if st, ok := in.(*ssa.Store); ok {
				if fa, ok := st.Addr.(*ssa.FieldAddr); ok && fa.Field == r.CtxResultField {
					return false, "false edge of the in-loop comparison stores a result (the search must continue)"
				}
			}
		}
		return true, "stores true and returns on the first match, continues otherwise"
	}
	// outside loops: the comparison value itself is stored, directly or after the arms of the cascade have been joined
	// in a variable (`switch {case ...: eq = a == b ...}; result = Bool(eq)`): followed through phis and conversions
	{
		seen := map[ssa.Value]bool{}
		var flows func(v ssa.Value, depth int) bool
		flows = func(v ssa.Value, depth int) bool {
			if seen[v] || depth > 6 {
				return false
			}
			seen[v] = true
			for _, rr := range referrers(v) {
				switch x := rr.(type) {
				case *ssa.Phi:
					if flows(x, depth+1) {
						return true
					}
				case *ssa.ChangeType:
					if flows(x, depth+1) {
						return true
					}
				case *ssa.MakeInterface:
					if flows(x, depth+1) {
						return true
					}
				case *ssa.Store:
					if fa, ok := x.Addr.(*ssa.FieldAddr); ok && fa.Field == r.CtxResultField && x.Val == v {
						return true
					}
				case *ssa.Return:
					if ridx >= 0 && ridx < len(x.Results) && x.Results[ridx] == v {
						return true
					}
				}
			}
			return false
		}
		if flows(c.V, 0) {
			return true, "the comparison value is stored (or handed back) as the result"
		}
	}
	for _, rr := range refs {
		v := c.V
		if ct, ok := rr.(*ssa.ChangeType); ok {
			v = ct
			for _, r2 := range referrers(ct) {
				if mi, ok := r2.(*ssa.MakeInterface); ok {
					for _, r3 := range referrers(mi) {
						if st, ok := r3.(*ssa.Store); ok {
							if fa, ok := st.Addr.(*ssa.FieldAddr); ok && fa.Field == r.CtxResultField {
								return true, "the comparison value is stored as the result"
							}
						}
					}
				}
			}
		}
		_ = v
	}
	return false, "the comparison value is not stored unchanged as the boolean result"
}

// scalarPriority checks the fallback chain of an equality handler.
func (w *World) scalarPriority(P, nt string, h *ssa.Function, cmps []operandCmp, left, right ssa.Value) {
	for _, c := range cmps {
		// fallback comparisons: both sides are the scalar value of a whole operand - a conversion method called on
		// the operand interface value, or the operand asserted to the scalar type itself
		ul, ur := left, right
		if c.Unit != nil {
			ul, ur = c.Unit.Left, c.Unit.Right
		}
		rx, mx := scalarOfOperand(c.X)
		ry, my := scalarOfOperand(c.Y)
		if mx == "" || mx != my {
			continue
		}
		if !((rx == ul && ry == ur) || (rx == ur && ry == ul)) {
			continue
		}
		g := " " + c.Guards + " "
		has := func(s string) bool { return strings.Contains(g, " "+s+" ") }
		// what the guards say an operand is not: a failed assertion, or a successful assertion to another type
		not := func(side, typ string) bool {
			if has(side + ":!" + typ) {
				return true
			}
			for _, other := range []string{"Bool", "Number", "String", "NodeSet"} {
				if other != typ && has(side+":"+other) {
					return true
				}
			}
			return false
		}
		switch mx {
		case "Bool":
			// reached only if some operand is Bool: i.e. NOT both (L:!Bool and R:!Bool)
			ok := !(not("L", "Bool") && not("R", "Bool"))
			w.check(P, "R05.4", nt+": boolean fallback comparison", c.In.Pos(), ok, "guards: "+c.Guards)
		case "Number":
			ok := not("L", "Bool") && not("R", "Bool") && !(not("L", "Number") && not("R", "Number"))
			w.check(P, "R05.4", nt+": number fallback comparison", c.In.Pos(), ok, "must be reached only when neither operand is a boolean and one is a number; guards: "+c.Guards)
		case "String":
			ok := not("L", "Bool") && not("R", "Bool") && not("L", "Number") && not("R", "Number")
			w.check(P, "R05.4", nt+": string fallback comparison", c.In.Pos(), ok, "must be reached only when neither operand is a boolean or a number; guards: "+c.Guards)
		}
	}
}

// scalarOfOperand: v is operand.Bool()/Number()/String(), or the operand itself asserted to Bool/Number/String
// (possibly converted to the underlying Go type). Returns the operand and the scalar kind.
func scalarOfOperand(v ssa.Value) (ssa.Value, string) {
	if r, m := directMethod(v); m == "Bool" || m == "Number" || m == "String" {
		return r, m
	}
	x := stripConvAll(v)
	var ta *ssa.TypeAssert
	switch y := x.(type) {
	case *ssa.TypeAssert:
		ta = y
	case *ssa.Extract:
		if t, ok := y.Tuple.(*ssa.TypeAssert); ok && y.Index == 0 {
			ta = t
		}
	}
	if ta == nil {
		return nil, ""
	}
	n, ok := types.Unalias(ta.AssertedType).(*types.Named)
	if !ok {
		return nil, ""
	}
	switch n.Obj().Name() {
	case "Bool", "Number", "String":
		return ta.X, n.Obj().Name()
	}
	return nil, ""
}

func directMethod(v ssa.Value) (ssa.Value, string) {
	c, ok := v.(*ssa.Call)
	if !ok || !c.Call.IsInvoke() {
		return nil, ""
	}
	return c.Call.Value, c.Call.Method.Name()
}

// closureUseSite: the call that receives the function literal lit as an argument (nil when there is not exactly one).
func closureUseSite(lit *ssa.Function) *ssa.Call {
	if lit.Parent() == nil {
		return nil
	}
	var site *ssa.Call
	n := 0
	allInstrs(lit.Parent(), func(in ssa.Instruction) {
		mc, ok := in.(*ssa.MakeClosure)
		if ok && mc.Fn == ssa.Value(lit) {
			for _, c := range closureArgCalls(mc) {
				site = c
				n++
			}
		}
		// a literal without free variables is a plain function value
		if c, ok := in.(*ssa.Call); ok {
			for _, a := range c.Call.Args {
				if f, ok := a.(*ssa.Function); ok && f == lit {
					site = c
					n++
				}
			}
		}
	})
	if n != 1 {
		return nil
	}
	return site
}

// existentialHelper: fn loops over a slice parameter, returns the constant true on the true edge of a call of its
// function parameter on the loop element, and the constant false after the loop.
func existentialHelper(fn *ssa.Function) bool {
	if fn == nil || len(fn.Blocks) == 0 || fn.Signature.Results().Len() != 1 {
		return false
	}
	loops := loopBlocks(fn)
	trueOnMatch, falseAfter, other := false, false, false
	allInstrs(fn, func(in ssa.Instruction) {
		ret, ok := in.(*ssa.Return)
		if !ok {
			return
		}
		c, isC := stripConv(ret.Results[0]).(*ssa.Const)
		if !isC || c.Value == nil || c.Value.Kind() != constant.Bool {
			other = true
			return
		}
		if constant.BoolVal(c.Value) {
			// reached on the true edge of match(element)
			for _, a := range guardAtoms(ret.Block()) {
				if call, ok := a.V.(*ssa.Call); ok && a.Pol && call.Call.StaticCallee() == nil && !call.Call.IsInvoke() {
					if _, isParam := call.Call.Value.(*ssa.Parameter); isParam {
						trueOnMatch = true
					}
				}
			}
		} else if !loops[ret.Block()] {
			falseAfter = true
		}
	})
	return trueOnMatch && falseAfter && !other
}

// typePredicate: fn has one parameter and does nothing but return the ok of a comma-ok assertion of that parameter to
// a type: returns that type.
func typePredicate(fn *ssa.Function) types.Type {
	if fn == nil || !inRepo(fn) || len(fn.Params) != 1 || len(fn.Blocks) != 1 || fn.Signature.Results().Len() != 1 {
		return nil
	}
	var t types.Type
	for _, in := range fn.Blocks[0].Instrs {
		switch x := in.(type) {
		case *ssa.TypeAssert:
			if !x.CommaOk || x.X != ssa.Value(fn.Params[0]) || t != nil {
				return nil
			}
			t = x.AssertedType
		case *ssa.Extract, *ssa.DebugRef:
		case *ssa.Return:
			ex, ok := x.Results[0].(*ssa.Extract)
			if !ok || ex.Index != 1 {
				return nil
			}
			if ta, ok := ex.Tuple.(*ssa.TypeAssert); !ok || ta.X != ssa.Value(fn.Params[0]) {
				return nil
			}
		default:
			return nil
		}
	}
	return t
}

// flagFormExistential: `for ... { if cmp { holds = true; break } }; result = Bool(holds)`.
func (w *World) flagFormExistential(ifi *ssa.If, r *Roles, ridx int) (bool, string) {
	fn := ifi.Parent()
	loops := loopBlocks(fn)
	// follow the true edge through empty jump blocks out of the loop
	prev, b := ifi.Block(), ifi.Block().Succs[0]
	for steps := 0; steps < 6; steps++ {
		hasPhi := false
		for _, in := range b.Instrs {
			if _, ok := in.(*ssa.Phi); ok {
				hasPhi = true
			}
		}
		if hasPhi && !loops[b] {
			break
		}
		if len(b.Succs) != 1 {
			return false, ""
		}
		for _, in := range b.Instrs {
			switch in.(type) {
			case *ssa.Jump, *ssa.DebugRef, *ssa.Phi:
			default:
				return false, ""
			}
		}
		prev, b = b, b.Succs[0]
	}
	if loops[b] {
		return false, ""
	}
	isBoolConst := func(v ssa.Value, want bool) bool {
		c, ok := v.(*ssa.Const)
		return ok && c.Value != nil && c.Value.Kind() == constant.Bool && constant.BoolVal(c.Value) == want
	}
	for _, in := range b.Instrs {
		ph, ok := in.(*ssa.Phi)
		if !ok {
			continue
		}
		mine := false
		othersOK := true
		for i, p := range b.Preds {
			if p == prev {
				mine = isBoolConst(ph.Edges[i], true)
				continue
			}
			// the ways out of a loop that did not find a match carry false (or the flag as it stood, itself a phi of
			// constants); what the other arms of the cascade contribute is their own business
			e := ph.Edges[i]
			if isBoolConst(e, false) || !loops[p] {
				continue
			}
			if inner, isPhi := e.(*ssa.Phi); isPhi {
				allConst := true
				for _, ie := range inner.Edges {
					if _, isC := ie.(*ssa.Const); !isC && ie != ssa.Value(inner) {
						if _, isP := ie.(*ssa.Phi); !isP {
							allConst = false
						}
					}
				}
				if allConst {
					continue
				}
			}
			othersOK = false
		}
		if !mine || !othersOK {
			continue
		}
		// the flag is what gets stored (or handed back) as the answer
		seen := map[ssa.Value]bool{}
		var flows func(v ssa.Value, depth int) bool
		flows = func(v ssa.Value, depth int) bool {
			if seen[v] || depth > 8 {
				return false
			}
			seen[v] = true
			for _, rr := range referrers(v) {
				switch x := rr.(type) {
				case *ssa.Phi, *ssa.ChangeType, *ssa.MakeInterface:
					if flows(x.(ssa.Value), depth+1) {
						return true
					}
				case *ssa.Store:
					if fa, ok := x.Addr.(*ssa.FieldAddr); ok && fa.Field == r.CtxResultField && x.Val == v {
						return true
					}
				case *ssa.Return:
					if ridx >= 0 && ridx < len(x.Results) && x.Results[ridx] == v {
						return true
					}
				}
			}
			return false
		}
		if flows(ph, 0) {
			return true, "on the first match a flag is set to true and the loop is left; the flag (false otherwise) is stored as the result"
		}
	}
	return false, ""
}

// cmpConst resolves a boolean argument to the constant it has for the handler being checked (a literal, or a parameter
// of a generic handler that the registered one-line handler binds to a constant).
var cmpConst func(ssa.Value) (bool, bool)

// comparatorUnder: g returns one comparison of two of its parameters, possibly selected by boolean parameters whose
// arguments at this call are constants for the handler being checked: the operator and the positions of its operands.
func comparatorUnder(c *ssa.Call, g *ssa.Function) (token.Token, int, int, bool) {
	if len(g.Blocks) == 0 || len(g.Blocks) > 8 || g.Signature.Results().Len() != 1 || cmpConst == nil {
		return 0, 0, 0, false
	}
	idxOf := func(v ssa.Value) int {
		for i, p := range g.Params {
			if ssa.Value(p) == v {
				return i
			}
		}
		return -1
	}
	b := g.Blocks[0]
	for steps := 0; steps < 8; steps++ {
		switch t := b.Instrs[len(b.Instrs)-1].(type) {
		case *ssa.If:
			cond, pol := t.Cond, true
			if u, ok := cond.(*ssa.UnOp); ok && u.Op == token.NOT {
				cond, pol = u.X, false
			}
			i := idxOf(cond)
			if i < 0 || i >= len(c.Call.Args) {
				return 0, 0, 0, false
			}
			val, ok := cmpConst(c.Call.Args[i])
			if !ok {
				return 0, 0, 0, false
			}
			if val == pol {
				b = b.Succs[0]
			} else {
				b = b.Succs[1]
			}
		case *ssa.Jump:
			b = b.Succs[0]
		case *ssa.Return:
			bo, ok := t.Results[0].(*ssa.BinOp)
			if !ok {
				return 0, 0, 0, false
			}
			xi, yi := idxOf(bo.X), idxOf(bo.Y)
			if xi < 0 || yi < 0 || xi >= len(c.Call.Args) || yi >= len(c.Call.Args) {
				return 0, 0, 0, false
			}
			return bo.Op, xi, yi, true
		default:
			return 0, 0, 0, false
		}
	}
	return 0, 0, 0, false
}
