package main

import (
	"go/token"
	"go/types"

	"golang.org/x/tools/go/ssa"
)

// childEval is one call of the dispatcher found in a handler or helper.
type childEval struct {
	Call     *ssa.Call
	Fn       *ssa.Function
	OwnCtx   bool       // evaluated in the function's own context parameter
	CopyCtx  *ssa.Alloc // evaluated in a local context initialised from the copy method of the own context
	ChildIdx int        // constant index into the flattened NT children, -1 when designated by a loop variable
	LoopVar  bool
}

// childEvals lists the dispatcher calls directly in fn.
func (w *World) childEvals(fn *ssa.Function) []childEval {
	r := w.Roles()
	var out []childEval
	if len(fn.Params) == 0 {
		return nil
	}
	allInstrs(fn, func(in ssa.Instruction) {
		c, ok := in.(*ssa.Call)
		if !ok || staticCallee(c) != r.ExecContext || len(c.Call.Args) != 2 {
			return
		}
		ce := childEval{Call: c, Fn: fn, ChildIdx: -1}
		ctx := c.Call.Args[0]
		if p, ok := ctx.(*ssa.Parameter); ok && p == ctxParam(fn) {
			ce.OwnCtx = true
		} else if al, ok := ctx.(*ssa.Alloc); ok {
			for _, st := range storesInto(al) {
				if st.Addr != ssa.Value(al) {
					continue
				}
				if cc, ok := st.Val.(*ssa.Call); ok && staticCallee(cc) == r.CopyCtx {
					ce.CopyCtx = al
				}
			}
		}
		// designator
		if nx, ok := c.Call.Args[1].(*ssa.Call); ok && len(nx.Call.Args) == 2 {
			d := nx.Call.Args[1]
			if ld, ok := d.(*ssa.UnOp); ok && ld.Op == token.MUL {
				if ia, ok := ld.X.(*ssa.IndexAddr); ok && isBSRPtrSlice(ia.X.Type()) {
					if k, ok := constInt(ia.Index); ok {
						ce.ChildIdx = int(k)
					}
				}
			}
			if ce.ChildIdx < 0 {
				switch d.(type) {
				case *ssa.Alloc, *ssa.Phi:
					ce.LoopVar = true
				}
			}
		}
		out = append(out, ce)
	})
	return out
}

// pairHelper describes a helper returning the evaluations of two children.
type pairHelper struct {
	Fn          *ssa.Function
	LeftResult  int // index of the result tuple element that holds the evaluation of NT child 0
	RightResult int // ... of NT child 1
	Independent bool
	Numeric     bool // results are float64 (Number() of the pair helper's results)
	Base        *pairHelper
	err         string
}

var pairCache = map[*ssa.Function]*pairHelper{}

// pairHelperOf analyses fn as a two-operand helper: (Result, Result, error) or (float64, float64, error).
func (w *World) pairHelperOf(fn *ssa.Function) *pairHelper {
	if ph, ok := pairCache[fn]; ok {
		return ph
	}
	r := w.Roles()
	res := fn.Signature.Results()
	if res.Len() != 3 {
		pairCache[fn] = nil
		return nil
	}
	ph := &pairHelper{Fn: fn, LeftResult: -1, RightResult: -1}
	pairCache[fn] = ph
	isFloat := func(t types.Type) bool {
		b, ok := t.Underlying().(*types.Basic)
		return ok && b.Kind() == types.Float64
	}
	if types.Identical(res.At(0).Type(), r.ResultIface) && types.Identical(res.At(1).Type(), r.ResultIface) {
		evals := w.childEvals(fn)
		byAlloc := map[*ssa.Alloc]childEval{}
		indep := true
		for _, e := range evals {
			if e.CopyCtx != nil {
				byAlloc[e.CopyCtx] = e
			} else {
				indep = false
			}
		}
		ph.Independent = indep && len(evals) == 2
		nEvaluator := 0
		defer func() {
			if nEvaluator > 0 {
				ph.Independent = indep && len(evals)+nEvaluator == 2
			}
		}()
		allInstrs(fn, func(in ssa.Instruction) {
			ret, ok := in.(*ssa.Return)
			if !ok || len(ret.Results) != 3 || isNilConst(ret.Results[0]) {
				return
			}
			nEvaluator = 0
			inPlaceCtx := map[*ssa.Alloc]bool{}
			for i := 0; i < 2; i++ {
				// the operand may be evaluated by a one-operand independent evaluator of the package
				// (copy the context, evaluate the designated child, hand back the copy's result)
				if ex, isEx := ret.Results[i].(*ssa.Extract); isEx && ex.Index == 0 {
					if c, isCall := ex.Tuple.(*ssa.Call); isCall {
						if e := staticCallee(c); e != nil && fnPkgKey(e) == "exec" {
							if idx, okE := theWorld.independentEvaluator(e, r); okE && idx < len(c.Call.Args) {
								k := int64(-1)
								if ld, ok := c.Call.Args[idx].(*ssa.UnOp); ok && ld.Op == token.MUL {
									if ia, ok := ld.X.(*ssa.IndexAddr); ok && isBSRPtrSlice(ia.X.Type()) {
										if kk, ok := constInt(ia.Index); ok {
											k = kk
										}
									}
								}
								switch k {
								case 0:
									ph.LeftResult = i
									nEvaluator++
									continue
								case 1:
									ph.RightResult = i
									nEvaluator++
									continue
								}
							}
						}
					}
				}
				// ... or by a helper that evaluates the designated child in the context it is handed and returns that
				// context's result: the operands are independent iff each call is given its own copy
				if ex, isEx := ret.Results[i].(*ssa.Extract); isEx && ex.Index == 0 {
					if c, isCall := ex.Tuple.(*ssa.Call); isCall {
						if e := staticCallee(c); e != nil && fnPkgKey(e) == "exec" {
							if idx, okE := theWorld.inPlaceEvaluator(e, r); okE && idx < len(c.Call.Args) {
								k := int64(-1)
								if ld, ok := c.Call.Args[idx].(*ssa.UnOp); ok && ld.Op == token.MUL {
									if ia, ok := ld.X.(*ssa.IndexAddr); ok && isBSRPtrSlice(ia.X.Type()) {
										if kk, ok := constInt(ia.Index); ok {
											k = kk
										}
									}
								}
								al, isAl := c.Call.Args[0].(*ssa.Alloc)
								isCopy := false
								if isAl {
									for _, st := range storesInto(al) {
										if cc, ok := st.Val.(*ssa.Call); ok && st.Addr == ssa.Value(al) && staticCallee(cc) == r.CopyCtx {
											isCopy = true
										}
									}
								}
								if !isCopy || inPlaceCtx[al] {
									indep = false // the caller's own context, or a copy another operand was evaluated in
								}
								if isAl {
									inPlaceCtx[al] = true
								}
								switch k {
								case 0:
									ph.LeftResult = i
									nEvaluator++
									continue
								case 1:
									ph.RightResult = i
									nEvaluator++
									continue
								}
							}
						}
					}
				}
				ld, ok := ret.Results[i].(*ssa.UnOp)
				if !ok {
					ph.err = "result is not read from an evaluation context"
					return
				}
				fa, ok := ld.X.(*ssa.FieldAddr)
				if !ok || fa.Field != r.CtxResultField {
					ph.err = "result is not the result field of an evaluation context"
					return
				}
				al, _ := fa.X.(*ssa.Alloc)
				e, ok := byAlloc[al]
				if !ok && fa.X == ssa.Value(ctxParam(fn)) {
					// the operand was evaluated in the helper's own context (not a copy: `indep` is already false)
					n := 0
					for _, ev := range evals {
						if ev.OwnCtx {
							e, ok = ev, true
							n++
						}
					}
					if n != 1 {
						ok = false
					}
				}
				if !ok {
					ph.err = "returned context was not evaluated"
					return
				}
				switch e.ChildIdx {
				case 0:
					ph.LeftResult = i
				case 1:
					ph.RightResult = i
				default:
					ph.err = "returned context evaluates an unexpected child"
				}
			}
		})
		if ph.LeftResult < 0 || ph.RightResult < 0 {
			if ph.err == "" {
				ph.err = "could not match results to children 0 and 1"
			}
		}
		return ph
	}
	if isFloat(res.At(0).Type()) && isFloat(res.At(1).Type()) {
		ph.Numeric = true
		// results must be X.Number() of the extracts of a base pair helper
		var base *ssa.Call
		allInstrs(fn, func(in ssa.Instruction) {
			if c, ok := in.(*ssa.Call); ok {
				if sc := staticCallee(c); sc != nil && fnPkgKey(sc) == "exec" {
					if b := w.pairHelperOf(sc); b != nil && !b.Numeric {
						base = c
						ph.Base = b
					}
				}
			}
		})
		if base == nil {
			ph.err = "numeric pair helper does not call a pair helper"
			return ph
		}
		ph.Independent = ph.Base.Independent
		allInstrs(fn, func(in ssa.Instruction) {
			ret, ok := in.(*ssa.Return)
			if !ok || len(ret.Results) != 3 || !isNilConst(ret.Results[2]) {
				return
			}
			for i := 0; i < 2; i++ {
				res := ret.Results[i]
				// a wrapper around Number(): every return of it is Number() of its only parameter
				if c, isCall := res.(*ssa.Call); isCall {
					if g := staticCallee(c); g != nil && fnPkgKey(g) == "exec" && len(g.Params) == 1 && len(c.Call.Args) == 1 {
						all, nret := true, 0
						allInstrs(g, func(gin ssa.Instruction) {
							gr, ok := gin.(*ssa.Return)
							if !ok {
								return
							}
							nret++
							rv, ok := isMethodCall(gr.Results[0], "Number")
							if !ok || rv != ssa.Value(g.Params[0]) {
								all = false
							}
						})
						if all && nret > 0 {
							if ex, ok := c.Call.Args[0].(*ssa.Extract); ok && ex.Tuple == ssa.Value(base) {
								if ex.Index == ph.Base.LeftResult {
									ph.LeftResult = i
								} else if ex.Index == ph.Base.RightResult {
									ph.RightResult = i
								}
								continue
							}
						}
						ph.err = "DECIDED-VIOLATED: the operand is converted by " + g.Name() + ", which is not Result.Number() on every path (the number of a node-set is the number of the string-value of its first node in document order; of a boolean 0/1; of a string the XPath number syntax)"
						return
					}
				}
				recv, ok := isMethodCall(res, "Number")
				if !ok {
					ph.err = "numeric result is not Number() of an operand"
					return
				}
				ex, ok := recv.(*ssa.Extract)
				if !ok || ex.Tuple != ssa.Value(base) {
					ph.err = "numeric result does not come from the pair helper"
					return
				}
				if ex.Index == ph.Base.LeftResult {
					ph.LeftResult = i
				} else if ex.Index == ph.Base.RightResult {
					ph.RightResult = i
				}
			}
		})
		if ph.LeftResult < 0 || ph.RightResult < 0 {
			if ph.err == "" {
				ph.err = "could not match numeric results to operands"
			}
		}
		return ph
	}
	pairCache[fn] = nil
	return nil
}

// operandsOf finds in handler h the call to a pair helper and returns the SSA values of the left (NT child 0)
// and right (NT child 1) operands.
func (w *World) operandsOf(h *ssa.Function) (left, right ssa.Value, ph *pairHelper, why string) {
	var call *ssa.Call
	allInstrs(h, func(in ssa.Instruction) {
		c, ok := in.(*ssa.Call)
		if !ok {
			return
		}
		sc := staticCallee(c)
		if sc == nil || fnPkgKey(sc) != "exec" {
			return
		}
		if p := w.pairHelperOf(sc); p != nil {
			// (handed the handler's own context and expression: for a method used as a handler they follow the receiver)
			cp := ctxParam(h)
			var ep *ssa.Parameter
			for i, x := range h.Params {
				if x == cp && i+1 < len(h.Params) {
					ep = h.Params[i+1]
				}
			}
			if ep != nil && len(c.Call.Args) >= 2 && c.Call.Args[0] == ssa.Value(cp) && c.Call.Args[1] == ssa.Value(ep) {
				call, ph = c, p
			}
		}
	})
	if call == nil {
		return nil, nil, nil, "handler does not obtain its operands from a two-operand helper"
	}
	if ph.err != "" {
		return nil, nil, ph, "operand helper " + ph.Fn.Name() + ": " + ph.err
	}
	for _, rr := range referrers(call) {
		if ex, ok := rr.(*ssa.Extract); ok {
			if ex.Index == ph.LeftResult {
				left = ex
			}
			if ex.Index == ph.RightResult {
				right = ex
			}
		}
	}
	if left == nil || right == nil {
		return nil, nil, ph, "operands not extracted"
	}
	return left, right, ph, ""
}

// sides reports whether v is computed from the left and/or the right operand.
func sides(v, left, right ssa.Value) (fromL, fromR bool) {
	seenParam := map[*ssa.Parameter]bool{}
	var visit func(x ssa.Value) bool
	visit = func(x ssa.Value) bool {
		if x == left {
			fromL = true
			return false
		}
		if x == right {
			fromR = true
			return false
		}
		// the parameter of a function literal that is handed to a helper (anyNode(set, func(n) bool {...})): the helper
		// feeds it from the other arguments of that call
		if p, ok := x.(*ssa.Parameter); ok && !seenParam[p] && p.Parent().Parent() != nil {
			seenParam[p] = true
			lit := p.Parent()
			allInstrs(lit.Parent(), func(in ssa.Instruction) {
				mc, ok := in.(*ssa.MakeClosure)
				if !ok || mc.Fn != ssa.Value(lit) {
					return
				}
				for _, c := range closureArgCalls(mc) {
					for _, a := range c.Call.Args {
						if stripConv(a) != ssa.Value(mc) {
							backSlice(a, visit)
						}
					}
				}
			})
		}
		return true
	}
	backSlice(v, visit)
	return
}

// inPlaceEvaluator: e evaluates the child designated by one of its parameters in the context it receives as its first
// parameter (no copy) and returns that context's result. Returns the index of the designating parameter.
func (w *World) inPlaceEvaluator(e *ssa.Function, r *Roles) (int, bool) {
	evals := w.childEvals(e)
	if len(evals) != 1 || !evals[0].OwnCtx {
		return 0, false
	}
	nx, ok := evals[0].Call.Call.Args[1].(*ssa.Call)
	if !ok || len(nx.Call.Args) != 2 {
		return 0, false
	}
	idx := -1
	for i, p := range e.Params {
		if nx.Call.Args[1] == ssa.Value(p) {
			idx = i
		}
	}
	if idx < 0 {
		return 0, false
	}
	returnsOwn := false
	allInstrs(e, func(in ssa.Instruction) {
		ret, ok := in.(*ssa.Return)
		if !ok || len(ret.Results) != 2 || !isNilConst(ret.Results[1]) {
			return
		}
		if ld, ok := ret.Results[0].(*ssa.UnOp); ok {
			if fa, ok := ld.X.(*ssa.FieldAddr); ok && fa.Field == r.CtxResultField && fa.X == ssa.Value(ctxParam(e)) {
				returnsOwn = true
			}
		}
	})
	return idx, returnsOwn
}

// closureArgCalls: the calls that receive the closure (also converted to a named function type, e.g. as the receiver
// of a method of that type) as an argument.
func closureArgCalls(mc ssa.Value) []*ssa.Call {
	var out []*ssa.Call
	var walk func(v ssa.Value, d int)
	walk = func(v ssa.Value, d int) {
		if d > 2 {
			return
		}
		for _, rr := range referrers(v) {
			switch x := rr.(type) {
			case *ssa.Call:
				for _, a := range x.Call.Args {
					if a == v {
						out = append(out, x)
						break
					}
				}
			case *ssa.ChangeType:
				walk(x, d+1)
			}
		}
	}
	walk(mc, 0)
	return out
}
