package main

import (
	"fmt"
	"go/constant"
	"go/token"
	"go/types"
	"sort"

	"golang.org/x/tools/go/ssa"
)

// posTest describes a guard "R.Pos() is (non-)zero".
type posTest struct {
	Recv    ssa.Value
	NonZero bool
}

// posTests returns the Pos()-against-0 tests that guard block b.
func posTests(b *ssa.BasicBlock) []posTest {
	var out []posTest
	for _, a := range guardAtoms(b) {
		bo, ok := a.V.(*ssa.BinOp)
		if !ok || (bo.Op != token.EQL && bo.Op != token.NEQ) {
			continue
		}
		x, y := bo.X, bo.Y
		if k, ok := constInt(x); ok && k == 0 {
			x, y = y, x
		}
		k, ok := constInt(y)
		if !ok || k != 0 {
			continue
		}
		recv, ok := isMethodCall(x, "Pos")
		if !ok {
			continue
		}
		out = append(out, posTest{Recv: a.resolve(recv), NonZero: (bo.Op == token.NEQ) == a.Pol})
	}
	return out
}

// posEqTests returns guards of b of the form A.Pos() == B.Pos() (true polarity).
func hasPosEqualityGuard(b *ssa.BasicBlock) bool {
	for _, a := range guardAtoms(b) {
		bo, ok := a.V.(*ssa.BinOp)
		if !ok {
			continue
		}
		_, okx := isMethodCall(bo.X, "Pos")
		_, oky := isMethodCall(bo.Y, "Pos")
		if !okx || !oky {
			continue
		}
		if (bo.Op == token.EQL && a.Pol) || (bo.Op == token.NEQ && !a.Pol) {
			return true
		}
	}
	return false
}

// membershipEstablished: block b is reached only after an element of a list compared equal (by Pos()) to another
// cursor, either directly (the equality guards b) or through a flag that is set to true only under such an equality.
func membershipEstablished(b *ssa.BasicBlock) bool {
	if hasPosEqualityGuard(b) {
		return true
	}
	for _, a := range guardAtoms(b) {
		if !a.Pol {
			continue
		}
		if ph, ok := a.V.(*ssa.Phi); ok && flagFromEquality(ph, map[*ssa.Phi]bool{}) {
			return true
		}
	}
	return false
}

func flagFromEquality(ph *ssa.Phi, seen map[*ssa.Phi]bool) bool {
	if seen[ph] {
		return true
	}
	seen[ph] = true
	for i, e := range ph.Edges {
		switch x := e.(type) {
		case *ssa.Const:
			if x.Value == nil {
				return false
			}
			if constant.BoolVal(x.Value) && !hasPosEqualityGuard(ph.Block().Preds[i]) {
				return false
			}
		case *ssa.Phi:
			if !flagFromEquality(x, seen) {
				return false
			}
		default:
			return false
		}
	}
	return true
}

type sink struct {
	In   ssa.Instruction
	Kind string
}

// resultSinks follows v through phis and value-preserving conversions to the places where it becomes
// part of a result (stored into an array that is appended) or is handed to another repository function.
func resultSinks(v ssa.Value) []sink {
	var out []sink
	seen := map[ssa.Value]bool{}
	var walk func(v ssa.Value)
	walk = func(v ssa.Value) {
		if seen[v] {
			return
		}
		seen[v] = true
		for _, r := range referrers(v) {
			switch x := r.(type) {
			case *ssa.Phi:
				walk(x)
			case *ssa.ChangeType:
				walk(x)
			case *ssa.MakeInterface:
				walk(x)
			case *ssa.ChangeInterface:
				walk(x)
			case *ssa.Store:
				if x.Val == v {
					if ia, ok := x.Addr.(*ssa.IndexAddr); ok {
						if _, isAlloc := ia.X.(*ssa.Alloc); isAlloc {
							out = append(out, sink{x, "appended to a result"})
						}
					}
				}
			case *ssa.Call:
				if sc := staticCallee(x); sc != nil && inRepo(sc) {
					for _, a := range x.Call.Args {
						if a == v {
							out = append(out, sink{x, "passed to " + sc.Name()})
						}
					}
				}
			}
		}
	}
	walk(v)
	return out
}

func (w *World) checkRootHandling(P string, f *Facts, r *Roles, ef *ExecFacts) {
	at := ef.Axis
	if at == nil {
		return
	}
	docRule(P, "R01.5a", "D contradiction", "the store makes the root its own parent, so in every axis selector a value obtained from C.Parent() may become part of a result, or be handed to a collecting helper, only under a test that C is not the root (C.Pos() != 0 on the same cursor): the root has no parent and is not its own ancestor; climbing must stop at it.")
	docRule(P, "R01.5b", "D contradiction", "in the ancestor axes no cursor is kept out of the result by a test of its own Pos() against 0: the root node is an ancestor of every other node.")
	docRule(P, "R01.5c", "D contradiction", "in the sibling/following/preceding selectors the enumeration P.Children() of the context node's parent P is not control-dependent on a test of P.Pos(): children of the root do have siblings, following and preceding nodes.")
	docRule(P, "R01.6", "D search-then-use", "a slice of a Children() list whose bound is a search index is taken only on a path where the search matched (an equality of Pos() values guards it): attribute and namespace context nodes are not among their parent's children and have no siblings.")

	var axes []string
	for n := range at.Arms {
		axes = append(axes, n)
	}
	sort.Strings(axes)
	n5a, n5c, n6 := 0, 0, 0
	for _, axis := range axes {
		arm := at.Arms[axis]
		if arm.Callee == nil {
			continue
		}
		closure := staticReach(arm.Callee, func(fn *ssa.Function) bool { return fnPkgKey(fn) == "exec" })
		var fns []*ssa.Function
		for fn := range closure {
			fns = append(fns, fn)
		}
		sort.Slice(fns, func(i, j int) bool { return fns[i].Name() < fns[j].Name() })
		for _, fn := range fns {
			allInstrs(fn, func(in ssa.Instruction) {
				call, ok := in.(*ssa.Call)
				if !ok {
					return
				}
				// (a) uses of C.Parent()
				if recv, ok := isMethodCall(call, "Parent"); ok && call.Call.IsInvoke() {
					for _, s := range resultSinks(call) {
						guarded := false
						// the test may guard the use or the Parent() call itself (a value computed only for a
						// non-root cursor is a genuine parent wherever it flows, e.g. round a climbing loop)
						for _, blk := range []*ssa.BasicBlock{s.In.Block(), call.Block()} {
							for _, pt := range posTests(blk) {
								if pt.Recv == recv && pt.NonZero {
									guarded = true
								}
							}
						}
						n5a++
						w.check(P, "R01.5a", fmt.Sprintf("axis %s: parent of a cursor %s in %s", axis, s.Kind, fn.Name()), s.In.Pos(), guarded,
							fmt.Sprintf("C.Parent() is %s; guarded by `C.Pos() != 0`: %v (for the root, Parent() is the root itself)", s.Kind, guarded))
					}
					// (c) P.Children() must not depend on P.Pos()
					if axis == "following" || axis == "following-sibling" || axis == "preceding" || axis == "preceding-sibling" {
						for _, rr := range referrers(call) {
							c2, ok := rr.(*ssa.Call)
							if !ok {
								continue
							}
							if rcv, ok := isMethodCall(c2, "Children"); ok && rcv == ssa.Value(call) {
								bad := false
								for _, pt := range posTests(c2.Block()) {
									if pt.Recv == ssa.Value(call) {
										bad = true
									}
								}
								n5c++
								w.check(P, "R01.5c", fmt.Sprintf("axis %s: sibling enumeration in %s", axis, fn.Name()), c2.Pos(), !bad,
									fmt.Sprintf("P.Children() of the context node's parent is enumerated under a test of P.Pos(): %v (then children of the root get no siblings/following/preceding nodes)", bad))
							}
						}
					}
				}
			})
			// (c') the same through a loop variable: P is a phi that is fed by Parent() calls (a climb written as a loop)
			if axis == "following" || axis == "following-sibling" || axis == "preceding" || axis == "preceding-sibling" {
				allInstrs(fn, func(in ssa.Instruction) {
					c2, ok := in.(*ssa.Call)
					if !ok {
						return
					}
					rcv, ok := isMethodCall(c2, "Children")
					if !ok {
						return
					}
					ph, isPhi := rcv.(*ssa.Phi)
					if !isPhi {
						return
					}
					fromParent := false
					for _, e := range ph.Edges {
						if _, isP := isMethodCall(e, "Parent"); isP {
							fromParent = true
						}
					}
					if !fromParent {
						return
					}
					bad := false
					for _, pt := range posTests(c2.Block()) {
						if pt.Recv == ssa.Value(ph) {
							bad = true
						}
					}
					n5c++
					w.check(P, "R01.5c", fmt.Sprintf("axis %s: sibling enumeration in %s (climbing loop)", axis, fn.Name()), c2.Pos(), !bad,
						fmt.Sprintf("P.Children() of the parent reached by the climb is enumerated under a test of P.Pos(): %v (then children of the root get no siblings/following/preceding nodes)", bad))
				})
			}
			// (b) ancestor axes: appended cursor not excluded by its own Pos() test
			if axis == "ancestor" || axis == "ancestor-or-self" {
				allInstrs(fn, func(in ssa.Instruction) {
					st, ok := in.(*ssa.Store)
					if !ok {
						return
					}
					ia, ok := st.Addr.(*ssa.IndexAddr)
					if !ok {
						return
					}
					if _, isAlloc := ia.X.(*ssa.Alloc); !isAlloc {
						return
					}
					if !types_isCursor(st.Val, r) {
						return
					}
					bad := false
					for _, pt := range posTests(st.Block()) {
						if pt.Recv == st.Val && pt.NonZero {
							bad = true
						}
					}
					w.check(P, "R01.5b", fmt.Sprintf("axis %s: cursor collected in %s", axis, fn.Name()), st.Pos(), !bad,
						fmt.Sprintf("the collected cursor is appended only when its own Pos() != 0: %v (the root would never be reported as an ancestor)", bad))
				})
			}
			// R01.6
			if axis == "following-sibling" || axis == "preceding-sibling" {
				allInstrs(fn, func(in ssa.Instruction) {
					sl, ok := in.(*ssa.Slice)
					if !ok {
						return
					}
					if _, ok := isMethodCall(throughCells(sl.X), "Children"); !ok {
						return
					}
					nonConst := false
					for _, b := range []ssa.Value{sl.Low, sl.High} {
						if b == nil {
							continue
						}
						if _, isC := constInt(b); !isC {
							nonConst = true
						}
					}
					if !nonConst {
						return
					}
					n6++
					g := membershipEstablished(sl.Block())
					w.check(P, "R01.6", fmt.Sprintf("axis %s: sibling slice in %s", axis, fn.Name()), sl.Pos(), g,
						fmt.Sprintf("slice of the parent's children with a search index as bound; taken only when the search matched: %v", g))
				})
				// element-wise form: a child of the parent collected one at a time
				allInstrs(fn, func(in ssa.Instruction) {
					ld, ok := in.(*ssa.UnOp)
					if !ok || ld.Op != token.MUL {
						return
					}
					ia, ok := ld.X.(*ssa.IndexAddr)
					if !ok {
						return
					}
					if _, ok := isMethodCall(throughCells(ia.X), "Children"); !ok {
						return
					}
					for _, s := range resultSinks(ld) {
						n6++
						g := membershipEstablished(s.In.Block())
						w.check(P, "R01.6", fmt.Sprintf("axis %s: sibling element %s in %s", axis, s.Kind, fn.Name()), s.In.Pos(), g,
							fmt.Sprintf("a child of the context node's parent is %s; only on a path where the context node was found among those children: %v", s.Kind, g))
					}
				})
			}
		}
	}
	// R01.11 following axis from attribute / namespace context nodes
	docRule(P, "R01.11", "X", "the following axis of an attribute or namespace node contains the children of its parent element (they come after it in document order and are not its descendants); such a context node is not among parent.Children(), so the search for the cursor among the children can never match: the collector must test the node kind (node.Attribute and node.Namespace) and let that test decide that everything in the parent's child list follows.")
	if arm := at.Arms["following"]; arm != nil && arm.Callee != nil {
		kinds := map[string]bool{}
		var where ssa.Instruction
		for fn := range staticReach(arm.Callee, func(fn *ssa.Function) bool { return fnPkgKey(fn) == "exec" }) {
			allInstrs(fn, func(in ssa.Instruction) {
				ta, ok := in.(*ssa.TypeAssert)
				if !ok || !ta.CommaOk {
					return
				}
				n, _ := nodeIface(ta.AssertedType)
				if n == nil {
					return
				}
				// the ok value must be used (feeds the found flag)
				for _, rr := range referrers(ta) {
					if ex, ok := rr.(*ssa.Extract); ok && ex.Index == 1 && len(referrers(ex)) > 0 {
						kinds[n.Obj().Name()] = true
						where = ta
					}
				}
			})
		}
		p := arm.Callee.Pos()
		if where != nil {
			p = where.Pos()
		}
		w.check(P, "R01.11", "axis following: attribute and namespace context nodes", p, kinds["Attribute"] && kinds["Namespace"], fmt.Sprintf("node kinds tested by the following collector: %v (both node.Attribute and node.Namespace are required)", keys(kinds)))
	}
	// ... and the preceding axis of such a node contains none of them: in the preceding collector no keep is enabled
	// by a node-kind test of the context node (a helper shared with the following axis must make that test only when
	// it collects forward; blocks that the constants passed down from the preceding selector make unreachable are
	// left out)
	if arm := at.Arms["preceding"]; arm != nil && arm.Callee != nil {
		reach := staticReach(arm.Callee, func(fn *ssa.Function) bool { return fnPkgKey(fn) == "exec" })
		// boolean parameters bound to one constant by every call inside the preceding collector
		bound := map[ssa.Value]bool{}
		for fn := range reach {
			for i, prm := range fn.Params {
				if b, ok := prm.Type().Underlying().(*types.Basic); !ok || b.Kind() != types.Bool {
					continue
				}
				val, n, okAll := false, 0, true
				for caller := range reach {
					allInstrs(caller, func(in ssa.Instruction) {
						c, ok := in.(*ssa.Call)
						if !ok || staticCallee(c) != fn || i >= len(c.Call.Args) {
							return
						}
						a := c.Call.Args[i]
						if a == ssa.Value(prm) {
							return // handed on unchanged by the recursion
						}
						k, isK := a.(*ssa.Const)
						if !isK || k.Value == nil {
							okAll = false
							return
						}
						v := k.Value.String() == "true"
						if n > 0 && v != val {
							okAll = false
						}
						val = v
						n++
					})
				}
				if okAll && n > 0 {
					bound[prm] = val
				}
			}
		}
		feasible := func(b *ssa.BasicBlock) bool {
			for _, a := range guardAtoms(b) {
				if v, ok := bound[a.V]; ok && v != a.Pol {
					return false
				}
			}
			return true
		}
		bad := ""
		for fn := range reach {
			fn := fn
			allInstrs(fn, func(in ssa.Instruction) {
				c, ok := in.(*ssa.Call)
				if !ok || bad != "" {
					return
				}
				bi, ok := c.Call.Value.(*ssa.Builtin)
				if !ok || bi.Name() != "append" || !feasible(c.Block()) {
					return
				}
				for _, a := range guardAtoms(c.Block()) {
					if !a.Pol {
						continue
					}
					if _, isPhi := a.V.(*ssa.Phi); !isPhi {
						continue
					}
					// what the flag is computed from, leaving out phi edges that come from unreachable blocks
					seen := map[ssa.Value]bool{}
					var fromKind func(v ssa.Value, d int) bool
					fromKind = func(v ssa.Value, d int) bool {
						if d > 10 || seen[v] {
							return false
						}
						seen[v] = true
						switch x := v.(type) {
						case *ssa.Phi:
							for i, e := range x.Edges {
								if feasible(x.Block().Preds[i]) && fromKind(e, d+1) {
									return true
								}
							}
						case *ssa.BinOp:
							return fromKind(x.X, d+1) || fromKind(x.Y, d+1)
						case *ssa.UnOp:
							return fromKind(x.X, d+1)
						case *ssa.Extract:
							if ta, ok := x.Tuple.(*ssa.TypeAssert); ok && x.Index == 1 && feasible(ta.Block()) {
								n, _ := nodeIface(ta.AssertedType)
								return n != nil && (n.Obj().Name() == "Attribute" || n.Obj().Name() == "Namespace")
							}
						}
						return false
					}
					if fromKind(a.V, 0) {
						bad = w.pos(c.Pos())
					}
				}
			})
		}
		w.check(P, "R01.11", "axis preceding: attribute and namespace context nodes", arm.Callee.Pos(), bad == "", "a keep of the preceding collector is enabled by a test for an attribute or namespace context node (the children of its parent element follow such a node, they do not precede it): "+orNone(bad))
	}
	w.floor(P, "R01.11", 2)
	// R01.12 selectors are per-context-node functions
	docRule(P, "R01.12", "F", "every axis selector computes its result from each context node independently: the incoming node-set is only ranged over and no branch inside that loop depends on state carried over from earlier context nodes (node-sets arrive in descending order after a reverse axis, so order-dependent shortcuts drop nodes).")
	for _, axis := range axes {
		if arm := at.Arms[axis]; arm != nil && arm.Callee != nil {
			ok, why := selectorLocal(arm.Callee)
			w.check(P, "R01.12", "axis "+axis+": selector treats context nodes independently", arm.Callee.Pos(), ok, why)
		}
	}
	w.floor(P, "R01.12", 12)
	w.floorSites(P, "R01.5a", 6)
	w.floor(P, "R01.5b", 2)
	w.floorSites(P, "R01.5c", 4)
	w.floorSites(P, "R01.6", 2)
}

func types_isCursor(v ssa.Value, r *Roles) bool {
	return r.Cursor != nil && v.Type() == r.Cursor.Obj().Type()
}
