package main

func (w *World) checkRootHandling(P string, f *Facts, r *Roles, ef *ExecFacts) {}
