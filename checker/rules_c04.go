package main

import (
	"fmt"
	"go/token"
	"go/types"
	"sort"
	"strings"

	"golang.org/x/tools/go/ssa"
)

func init() {
	register("C04", checkC04)
	notDecided["C04"] = "that the decimal rendering of finite numbers reads back to the same double (delegated to strconv.FormatFloat 'f',-1,64); string-values of concrete documents; that the number-syntax validator accepts exactly the XPath Number language (a property over all strings)."
}

// XPath 1.0 core function library (section 4) with the accepted argument counts; -1 = two or more.
var coreLibrary = map[string][]int{
	"last": {0}, "position": {0}, "count": {1}, "local-name": {0, 1}, "namespace-uri": {0, 1}, "name": {0, 1},
	"string": {0, 1}, "concat": {2, 3, 4}, "starts-with": {2}, "contains": {2}, "substring-before": {2}, "substring-after": {2},
	"substring": {2, 3}, "string-length": {0, 1}, "normalize-space": {0, 1}, "translate": {3},
	"boolean": {1}, "not": {1}, "true": {0}, "false": {0}, "lang": {1},
	"number": {0, 1}, "sum": {1}, "floor": {1}, "ceiling": {1}, "round": {1},
	// "id" is documented as unsupported (README)
}

// arities a single implementation function rejects/accepts: constants k in `len(args) != k` tests.
// arityTests: the argument counts (0..8) a builtin accepts, from its arity rejections: the returns of a non-nil error
// that depend on nothing but comparisons of len(args) with constants. nil when there is no such rejection (any count).
func arityTests(fn *ssa.Function) []int {
	if len(fn.Params) < 2 {
		return nil
	}
	args := fn.Params[len(fn.Params)-1]
	isLenArgs := func(v ssa.Value) bool {
		c, ok := stripConv(v).(*ssa.Call)
		if !ok {
			return false
		}
		b, ok := c.Call.Value.(*ssa.Builtin)
		return ok && b.Name() == "len" && c.Call.Args[0] == ssa.Value(args)
	}
	var rejections [][]intCon
	allInstrs(fn, func(in ssa.Instruction) {
		ret, ok := in.(*ssa.Return)
		if !ok || len(ret.Results) == 0 || isNilConst(ret.Results[len(ret.Results)-1]) {
			return
		}
		cons, pure := intConstraints(guardAtoms(ret.Block()), isLenArgs)
		if pure && len(cons) > 0 {
			rejections = append(rejections, cons)
		}
	})
	if len(rejections) == 0 {
		return nil
	}
	var ks []int
	for n := 0; n <= 8; n++ {
		rejected := false
		for _, cons := range rejections {
			if satisfies(cons, int64(n)) {
				rejected = true
			}
		}
		if !rejected {
			ks = append(ks, n)
		}
	}
	return ks
}

func (b *Builtin) accepts(k int) bool {
	if fn, ok := b.Fns[-1]; ok {
		ks := arityTests(fn)
		if len(ks) == 0 {
			return true
		}
		for _, x := range ks {
			if x == k {
				return true
			}
		}
		return false
	}
	_, ok := b.Fns[k]
	return ok
}

func checkC04(w *World) {
	const P = "C04"
	f := w.Facts()
	r := w.Roles()
	for _, e := range r.err {
		w.undecided(P, "R00.roles", "role resolution: "+e, 0, e)
	}
	// R04.1
	docRule(P, "R04.1", "T B<->S", "the builtin function table contains every function of the XPath 1.0 core library (except id, documented as unsupported) in no namespace and accepts the argument counts the recommendation defines.")
	var names []string
	for n := range coreLibrary {
		names = append(names, n)
	}
	sort.Strings(names)
	for _, n := range names {
		b := f.Builtins[n]
		if b == nil {
			w.check(P, "R04.1", "core function "+n, 0, false, "missing from the builtin table: `"+n+"(...)` fails with 'could not find function'")
			continue
		}
		var missing []string
		for _, k := range coreLibrary[n] {
			if !b.accepts(k) {
				missing = append(missing, fmt.Sprint(k))
			}
		}
		w.check(P, "R04.1", "core function "+n, b.Pos, len(missing) == 0, fmt.Sprintf("argument counts required %v; rejected: %v", coreLibrary[n], missing))
	}
	w.floor(P, "R04.1", 26)

	// R04.2 ParseFloat guarded by a validation function
	docRule(P, "R04.2", "D", "string-to-number: every strconv.ParseFloat in package exec outside the handler of the numeric-literal production (whose token admits only digits and '.') executes only under a true result of a package-local validation function applied to the same string; unguarded, ParseFloat accepts exponents, hex, Inf, NaN, '+', '_' and rejects surrounding whitespace, so it cannot implement the XPath Number rule. String.Number, NodeSet.Number and the node-set arms of comparisons all reach the guarded site.")
	numHandler := map[*ssa.Function]bool{}
	if h := f.Handlers["Number"]; h != nil {
		for _, fn := range w.handlerClosureH(h) {
			numHandler[fn] = true
		}
	}
	nPF := 0
	w.forAllFuncs("exec", func(fn *ssa.Function) {
		allInstrs(fn, func(in ssa.Instruction) {
			c, ok := in.(*ssa.Call)
			if !ok || staticCallee(c) == nil || funcFullName(staticCallee(c)) != "strconv.ParseFloat" {
				return
			}
			if numHandler[fn] {
				return
			}
			nPF++
			guarded := false
			validator := ""
			for _, a := range guardAtoms(c.Block()) {
				gc, ok := a.V.(*ssa.Call)
				if !ok || !a.Pol {
					continue
				}
				sc := staticCallee(gc)
				if sc == nil || fnPkgKey(sc) != "exec" {
					continue
				}
				if b, ok := sc.Signature.Results().At(0).Type().(*types.Basic); !ok || b.Kind() != types.Bool {
					continue
				}
				for _, ga := range gc.Call.Args {
					if ga == c.Call.Args[0] {
						guarded = true
						validator = sc.Name()
					}
				}
			}
			w.check(P, "R04.2", "strconv.ParseFloat in "+fn.Name(), c.Pos(), guarded, fmt.Sprintf("guarded by a package-local validator on the same string: %v %s", guarded, validator))
			// whitespace stripped before validation must be XML whitespace only
			wsBad := ""
			wsSeen := false
			allInstrs(fn, func(in2 ssa.Instruction) {
				tc, ok := in2.(*ssa.Call)
				if !ok || staticCallee(tc) == nil {
					return
				}
				n := funcFullName(staticCallee(tc))
				switch n {
				case "strings.TrimSpace", "strings.Fields", "strings.TrimFunc", "strings.TrimLeftFunc", "strings.TrimRightFunc", "unicode.IsSpace":
					wsBad = n + " uses Unicode's whitespace class (strips U+00A0, U+0085, U+2003, \\v, \\f ...)"
				case "strings.Trim", "strings.TrimLeft", "strings.TrimRight":
					wsSeen = true
					if cut, ok := constString(tc.Call.Args[1]); ok {
						set := map[rune]bool{}
						for _, r := range cut {
							set[r] = true
						}
						if !(len(set) == 4 && set[' '] && set['\t'] && set['\r'] && set['\n']) {
							wsBad = fmt.Sprintf("%s with cutset %q, XML whitespace is exactly #x20 #x9 #xD #xA", n, cut)
						}
					} else {
						wsBad = n + " with a non-constant cutset"
					}
				}
			})
			if !wsSeen && validator != "" {
				// whitespace may be skipped by the validator itself: it must then test the four characters
				if vf := w.member("exec", validator); vf != nil {
					cs := charsTested(vf)
					wsSeen = cs[0x20] && cs[0x9] && cs[0xD] && cs[0xA]
				}
			}
			w.check(P, "R04.2", "whitespace stripped before the number syntax check in "+fn.Name(), c.Pos(), wsBad == "" && wsSeen, fmt.Sprintf("leading/trailing XML whitespace (#x20 #x9 #xD #xA, nothing else) is accepted: %v %s", wsSeen, wsBad))
			if guarded {
				// the validator must not itself delegate to ParseFloat or a regexp of unknown language; it must reject on characters: requires comparisons with '0','9','.','-'
				w.validatorShape(P, validator)
			}
			// every number the conversion hands back is NaN or what ParseFloat made of the validated string: no second
			// way of computing the value (an integer fast path overflows or accepts another syntax)
			if b, isB := fn.Signature.Results().At(0).Type().Underlying().(*types.Basic); fn.Signature.Results().Len() == 1 && isB && b.Kind() == types.Float64 {
				other := ""
				var okVal func(v ssa.Value, d int) bool
				okVal = func(v ssa.Value, d int) bool {
					if d > 6 {
						return false
					}
					switch x := stripConv(v).(type) {
					case *ssa.Extract:
						return x.Tuple == ssa.Value(c) && x.Index == 0
					case *ssa.Call:
						if sc := staticCallee(x); sc != nil && funcFullName(sc) == "math.NaN" {
							return true
						}
					case *ssa.Phi:
						for _, e := range x.Edges {
							if !okVal(e, d+1) {
								return false
							}
						}
						return true
					}
					return false
				}
				allInstrs(fn, func(in2 ssa.Instruction) {
					if ret, isRet := in2.(*ssa.Return); isRet && len(ret.Results) == 1 && !okVal(ret.Results[0], 0) && other == "" {
						other = w.pos(ret.Pos())
					}
				})
				w.check(P, "R04.2", "every result of "+fn.Name()+" is NaN or ParseFloat's", fn.Pos(), other == "", "a return that hands back a number computed in another way: "+orNone(other))
			}
		})
	})
	if nPF == 0 {
		w.undecided(P, "R04.2", "string-to-number conversion", 0, "no strconv.ParseFloat found outside the numeric literal handler: the conversion was rewritten, rule cannot find its subject")
	}
	// the three conversion entry points reach a ParseFloat site
	for _, tn := range []string{"String", "NodeSet"} {
		m := w.method("exec", tn, "Number")
		reaches := false
		if m != nil {
			for g := range staticReach(m, func(x *ssa.Function) bool { return fnPkgKey(x) == "exec" }) {
				allInstrs(g, func(in ssa.Instruction) {
					if c, ok := in.(*ssa.Call); ok && staticCallee(c) != nil && funcFullName(staticCallee(c)) == "strconv.ParseFloat" {
						reaches = true
					}
				})
			}
		}
		w.check(P, "R04.2", tn+".Number reaches the guarded conversion", w.fnPos(m), reaches, fmt.Sprintf("reaches strconv.ParseFloat: %v", reaches))
	}
	w.floor(P, "R04.2", 3)

	// R04.3 IEEE classes
	docRule(P, "R04.3", "I", "abstract interpretation over the seven IEEE classes {NaN,-Inf,-finite,-0,+0,+finite,+Inf}: Number.Bool is false exactly for NaN and both zeros; Number.String is 'NaN', 'Infinity', '-Infinity', '0' for both zeros, and strconv.FormatFloat(x,'f',-1,64) (no exponent, shortest round-trip) for finite non-zero values.")
	if m := w.method("exec", "Number", "Bool"); m != nil {
		res, unk := w.classResults(m)
		for c := fclass(0); c < nClasses; c++ {
			want := "true"
			if c == cNaN || c == cNegZero || c == cPosZero {
				want = "false"
			}
			got := strings.Join(res[c], ",")
			w.check(P, "R04.3", "boolean(number) for class "+classNames[c], m.Pos(), got == want, fmt.Sprintf("Number.Bool on %s may return {%s}, XPath requires %s %v", classNames[c], got, want, unk))
		}
	} else {
		w.undecided(P, "R04.3", "Number.Bool", 0, "method not found")
	}
	if m := w.method("exec", "Number", "String"); m != nil {
		res, unk := w.classResults(m)
		for c := fclass(0); c < nClasses; c++ {
			var okSet []string
			switch c {
			case cNaN:
				okSet = []string{"NaN", "\x00fmt"}
			case cPosInf:
				okSet = []string{"Infinity"}
			case cNegInf:
				okSet = []string{"-Infinity"}
			case cPosZero:
				okSet = []string{"0", "\x00fmt"}
			case cNegZero:
				okSet = []string{"0"}
			default:
				okSet = []string{"\x00fmt"}
			}
			good := len(res[c]) > 0
			for _, g := range res[c] {
				found := false
				for _, o := range okSet {
					if g == o {
						found = true
					}
				}
				if !found {
					good = false
				}
			}
			got := strings.ReplaceAll(strings.Join(res[c], ","), "\x00fmt", "FormatFloat(x,'f',-1,64)")
			got = strings.ReplaceAll(got, "\x00", "?")
			w.check(P, "R04.3", "string(number) for class "+classNames[c], m.Pos(), good, fmt.Sprintf("Number.String on %s may return {%s} (FormatFloat renders -0 as \"-0\", infinities as \"+Inf\"/\"-Inf\") %v", classNames[c], got, unk))
		}
	} else {
		w.undecided(P, "R04.3", "Number.String", 0, "method not found")
	}
	w.floorSites(P, "R04.3", 14)

	// R04.4 node string-value switch
	docRule(P, "R04.4", "X+T K<->S", "node string-value: the type switch reached from GetCursorString has one arm per node kind using that kind's value accessor (NamespaceValue, AttributeValue, CharDataValue, CommentValue, ProcInstValue; element and root: recursion over Children() restricted to element and character-data children), and no arm is shadowed: Go interfaces are structural (every attribute also implements node.Element, node.Root matches everything), so a more general interface must come after the more specific ones. The shadowing rule is applied to every type switch over node kinds in exec, store, parser and the CLI.")
	w.stringValueSwitch(P, r)
	for _, pk := range []string{"exec", "store", "parser", "xsel", ""} {
		w.forAllFuncs(pk, func(fn *ssa.Function) {
			for _, sh := range nodeSwitchShadows(fn) {
				w.check(P, "R04.4", fmt.Sprintf("node-kind switch in %s: arm %s", fn.Name(), sh.Later), sh.Pos, false, fmt.Sprintf("arm node.%s can never be taken for values that reach it: every value implementing it also implements node.%s, which is tested first", sh.Later, sh.Earlier))
			}
		})
	}
	nsw := 0
	for _, pk := range []string{"exec", "store", "xsel"} {
		w.forAllFuncs(pk, func(fn *ssa.Function) {
			if n := countNodeSwitchArms(fn); n >= 2 {
				nsw++
				w.check(P, "R04.4", "node-kind switch in "+fn.Name()+": no shadowed arm", fn.Pos(), len(nodeSwitchShadows(fn)) == 0, fmt.Sprintf("%d arms over node interfaces", n))
			}
		})
	}
	w.floor(P, "R04.4", 9)

	// R04.5 first node in document order
	docRule(P, "R04.5", "F", "node-set to string/number/name conversions take the first node in document order, not element 0: node-sets produced by reverse axes are in descending order, so the node must be selected by a minimum-Pos() search (a loop keeping the candidate whose Pos() is smaller).")
	w.firstNodeRule(P, f, r)

	// R04.6 constant conversions
	docRule(P, "R04.6", "T", "Bool converts to 'true'/'false' and 1/0 with the right polarity; String.Bool and NodeSet.Bool are len > 0; Number.Number, String.String, Bool.Bool are identities; the builtins boolean, not, string, number apply Bool()/!Bool()/String()/Number() of their argument (default argument: the context result).")
	w.constantConversions(P, f, r)
}

// forAllFuncs visits every function (and method, and anonymous function) of a repository package.
func (w *World) forAllFuncs(pkgKey string, visit func(*ssa.Function)) {
	p := w.SSA[pkgKey]
	if p == nil {
		return
	}
	var fns []*ssa.Function
	seen := map[*ssa.Function]bool{}
	var add func(fn *ssa.Function)
	add = func(fn *ssa.Function) {
		if fn == nil || seen[fn] || len(fn.Blocks) == 0 {
			return
		}
		seen[fn] = true
		fns = append(fns, fn)
		for _, a := range fn.AnonFuncs {
			add(a)
		}
	}
	for _, m := range p.Members {
		switch x := m.(type) {
		case *ssa.Function:
			add(x)
		case *ssa.Type:
			for _, t := range []types.Type{x.Type(), types.NewPointer(x.Type())} {
				ms := w.Prog.MethodSets.MethodSet(t)
				for i := 0; i < ms.Len(); i++ {
					if fn := w.Prog.MethodValue(ms.At(i)); fn != nil && fn.Synthetic == "" {
						add(fn)
					}
				}
			}
		}
	}
	sort.Slice(fns, func(i, j int) bool {
		if fns[i].Pos() != fns[j].Pos() {
			return fns[i].Pos() < fns[j].Pos()
		}
		return fns[i].String() < fns[j].String()
	})
	for _, fn := range fns {
		visit(fn)
	}
}

// charsTested: the character constants fn (or a repository helper it calls) compares against, plus the characters
// of constant strings handed to the strings package (HasPrefix(s, "-"), IndexByte, ContainsRune, Trim cutsets ...).
func charsTested(fn *ssa.Function) map[int64]bool {
	seen := map[int64]bool{}
	for g := range staticReach(fn, func(x *ssa.Function) bool { return inRepo(x) }) {
		if !inRepo(g) {
			continue
		}
		allInstrs(g, func(in ssa.Instruction) {
			switch x := in.(type) {
			case *ssa.BinOp:
				if isCmpOp(x.Op) {
					for _, o := range []ssa.Value{x.X, x.Y} {
						if k, ok := constInt(o); ok {
							seen[k] = true
						}
						if str, ok := constString(o); ok {
							for _, r := range str {
								seen[int64(r)] = true
							}
						}
					}
				}
			case *ssa.Call:
				// a character handed to a helper of the package that tests for it (skipByte(s, i, '-'))
				if sc := staticCallee(x); sc != nil && inRepo(sc) {
					for _, a := range x.Call.Args {
						if k, ok := constInt(a); ok && isByteOrRune(a.Type()) {
							seen[k] = true
						}
					}
				}
				if sc := staticCallee(x); sc != nil && sc.Pkg != nil && (sc.Pkg.Pkg.Path() == "strings" || sc.Pkg.Pkg.Path() == "bytes" || sc.Pkg.Pkg.Path() == "unicode") {
					for _, a := range x.Call.Args {
						if str, ok := constString(a); ok {
							for _, r := range str {
								seen[int64(r)] = true
							}
						}
						if k, ok := constInt(a); ok {
							seen[k] = true
						}
					}
				}
			}
		})
	}
	return seen
}

func (w *World) validatorShape(P, name string) {
	fn := w.member("exec", name)
	if fn == nil {
		return
	}
	// forbidden delegations
	bad := ""
	for g := range staticReach(fn, func(x *ssa.Function) bool { return true }) {
		if !inRepo(g) {
			n := funcFullName(g)
			if strings.HasPrefix(n, "strconv.Parse") || strings.HasPrefix(n, "regexp.") || strings.HasPrefix(n, "(*regexp.") || strings.HasPrefix(n, "fmt.Sscan") {
				bad = n
			}
		}
	}
	// character tests present: comparisons against '0', '9', '.', '-'
	seen := charsTested(fn)
	// at least one digit: the accept condition contains a positivity test on an integer quantity other than the
	// length of the whole argument (a digit count, a difference of scan positions, the summed lengths of the digit
	// parts): "." and "-." consist of legal characters only and must still be rejected
	digitCount := false
	for g := range staticReach(fn, func(x *ssa.Function) bool { return inRepo(x) }) {
		if !inRepo(g) {
			continue
		}
		allInstrs(g, func(in ssa.Instruction) {
			bo, ok := in.(*ssa.BinOp)
			if !ok || !isCmpOp(bo.Op) {
				return
			}
			for _, pair := range [][2]ssa.Value{{bo.X, bo.Y}, {bo.Y, bo.X}} {
				k, isK := constInt(pair[1])
				if !isK || (k != 0 && k != 1) {
					continue
				}
				e := pair[0]
				if b, ok := e.Type().Underlying().(*types.Basic); !ok || b.Info()&types.IsInteger == 0 {
					continue
				}
				if _, isConst := e.(*ssa.Const); isConst {
					continue
				}
				// not simply the length of a parameter
				if c, ok := e.(*ssa.Call); ok && isLenOf(c, nil) {
					if _, isParam := c.Call.Args[0].(*ssa.Parameter); isParam {
						continue
					}
				}
				// a loop index compared with 0 is not a count
				if ascendingCounter(e) {
					continue
				}
				digitCount = true
			}
		})
	}
	chars := seen['0'] && seen['9'] && seen['.'] && seen['-']
	forbidden := seen['e'] || seen['E'] || seen['+'] || seen['x'] || seen['_']
	w.check(P, "R04.2", "number-syntax validator "+name, fn.Pos(), bad == "" && chars && !forbidden && digitCount,
		fmt.Sprintf("tests characters against '0','9','.','-': %v; mentions exponent/plus/hex/underscore characters: %v; delegates to %q; requires at least one digit (a positivity test on a digit count): %v", chars, forbidden, bad, digitCount))
}

type shadow struct {
	Earlier, Later string
	Pos            token.Pos
}

func nodeIface(t types.Type) (*types.Named, *types.Interface) {
	n, ok := types.Unalias(t).(*types.Named)
	if !ok || n.Obj().Pkg() == nil || n.Obj().Pkg().Path() != modPath+"/node" {
		return nil, nil
	}
	it, ok := n.Underlying().(*types.Interface)
	if !ok {
		return nil, nil
	}
	return n, it
}

func methodSubset(a, b *types.Interface) bool {
	// every method of a is a method of b
	for i := 0; i < a.NumMethods(); i++ {
		m := a.Method(i)
		found := false
		for j := 0; j < b.NumMethods(); j++ {
			if b.Method(j).Name() == m.Name() && types.Identical(b.Method(j).Type(), m.Type()) {
				found = true
			}
		}
		if !found {
			return false
		}
	}
	return true
}

func nodeAsserts(fn *ssa.Function) map[ssa.Value][]*ssa.TypeAssert {
	groups := map[ssa.Value][]*ssa.TypeAssert{}
	allInstrs(fn, func(in ssa.Instruction) {
		ta, ok := in.(*ssa.TypeAssert)
		if !ok || !ta.CommaOk {
			return
		}
		if n, _ := nodeIface(ta.AssertedType); n != nil {
			groups[ta.X] = append(groups[ta.X], ta)
		}
	})
	return groups
}

func countNodeSwitchArms(fn *ssa.Function) int {
	max := 0
	for _, g := range nodeAsserts(fn) {
		// arms chained through false edges
		n := 0
		for _, b := range g {
			chained := false
			for _, a := range g {
				if a != b && assertFalseGuards(b, a) {
					chained = true
				}
			}
			if chained {
				n++
			}
		}
		if n+1 > max && n > 0 {
			max = n + 1
		}
	}
	return max
}

// assertFalseGuards: block of b is reached only when assertion a failed.
func assertFalseGuards(b, a *ssa.TypeAssert) bool {
	for _, at := range guardAtoms(b.Block()) {
		if ex, ok := at.V.(*ssa.Extract); ok && ex.Tuple == ssa.Value(a) && ex.Index == 1 && !at.Pol {
			return true
		}
	}
	return false
}

func nodeSwitchShadows(fn *ssa.Function) []shadow {
	var out []shadow
	for _, g := range nodeAsserts(fn) {
		for _, a := range g {
			for _, b := range g {
				if a == b || !assertFalseGuards(b, a) {
					continue
				}
				na, ia := nodeIface(a.AssertedType)
				nb, ib := nodeIface(b.AssertedType)
				if methodSubset(ia, ib) {
					out = append(out, shadow{na.Obj().Name(), nb.Obj().Name(), b.Pos()})
				}
			}
		}
	}
	sort.Slice(out, func(i, j int) bool { return out[i].Pos < out[j].Pos })
	return out
}

// stringValueSwitch checks the accessor used per node kind in the string-value function.
func (w *World) stringValueSwitch(P string, r *Roles) {
	entry := w.member("exec", "GetCursorString")
	if entry == nil {
		w.undecided(P, "R04.4", "string-value function", 0, "exec.GetCursorString not found")
		return
	}
	want := map[string]string{"Namespace": "NamespaceValue", "Attribute": "AttributeValue", "CharData": "CharDataValue", "Comment": "CommentValue", "ProcInst": "ProcInstValue", "Element": "Children", "Root": "Children"}
	found := map[string]bool{}
	closure := staticReach(entry, func(g *ssa.Function) bool { return fnPkgKey(g) == "exec" })
	var sw *ssa.Function
	for g := range closure {
		if countNodeSwitchArms(g) >= 5 {
			sw = g
		}
	}
	if sw == nil {
		w.undecided(P, "R04.4", "string-value function", entry.Pos(), "no type switch over the node kinds reached from GetCursorString")
		return
	}
	for _, g := range nodeAsserts(sw) {
		for _, ta := range g {
			n, _ := nodeIface(ta.AssertedType)
			kind := n.Obj().Name()
			acc, known := want[kind]
			if !known {
				continue
			}
			// blocks where this assertion succeeded
			methods := map[string]bool{}
			arms := typeSwitchArms(sw)
			for _, b := range sw.Blocks {
				if !arms[b][ta] {
					continue
				}
				for _, in := range b.Instrs {
					c, isCall := in.(ssa.CallInstruction)
					if !isCall {
						continue
					}
					cc := c.Common()
					if cc.IsInvoke() {
						methods[cc.Method.Name()] = true
					} else if sc := cc.StaticCallee(); sc != nil && fnPkgKey(sc) == "exec" {
						for h := range staticReach(sc, func(x *ssa.Function) bool { return fnPkgKey(x) == "exec" && x != sw }) {
							allInstrs(h, func(in2 ssa.Instruction) {
								if c2, ok := in2.(ssa.CallInstruction); ok && c2.Common().IsInvoke() {
									methods[c2.Common().Method.Name()] = true
								}
							})
						}
					}
				}
			}
			found[kind] = true
			okAcc := methods[acc]
			// no foreign value accessor
			for m := range methods {
				for k2, a2 := range want {
					if k2 != kind && a2 == m && m != acc && m != "Children" && m != "CharDataValue" {
						okAcc = false
					}
				}
			}
			w.check(P, "R04.4", "string-value of node."+kind, ta.Pos(), okAcc, fmt.Sprintf("arm uses %v; required accessor %s", keys(methods), acc))
		}
	}
	for k := range want {
		if !found[k] {
			w.check(P, "R04.4", "string-value of node."+k, sw.Pos(), false, "the string-value switch has no arm for node."+k+": such nodes have the empty string-value")
		}
	}
	// element string-value: recursion restricted to element and character-data children
	for g := range closure {
		callsChildren := false
		allInstrs(g, func(in ssa.Instruction) {
			if c, ok := in.(*ssa.Call); ok {
				if _, ok := isMethodCall(c, "Children"); ok && c.Call.IsInvoke() {
					callsChildren = true
				}
			}
		})
		if !callsChildren {
			continue
		}
		kinds := map[string]bool{}
		for _, grp := range nodeAsserts(g) {
			for _, ta := range grp {
				n, _ := nodeIface(ta.AssertedType)
				kinds[n.Obj().Name()] = true
			}
		}
		recurses := false
		allInstrs(g, func(in ssa.Instruction) {
			if c, ok := in.(*ssa.Call); ok && staticCallee(c) == g {
				recurses = true
			}
		})
		good := kinds["Element"] && kinds["CharData"] && len(kinds) == 2 && recurses
		w.check(P, "R04.4", "element string-value walker "+g.Name(), g.Pos(), good, fmt.Sprintf("visits child kinds %v (must be exactly Element and CharData: comments and processing instructions do not contribute), recursive: %v", keys(kinds), recurses))
	}
}

// minPosHelper: fn(NodeSet) Cursor that loops over the set and keeps the candidate with smaller Pos().
func (w *World) isMinPosHelper(fn *ssa.Function, r *Roles) (bool, string) {
	if fn == nil || len(fn.Params) != 1 || fn.Signature.Results().Len() < 1 || fn.Signature.Results().Len() > 2 {
		return false, "not a selector function"
	}
	loops := loopBlocks(fn)
	found := false
	why := "no `candidate.Pos() < best.Pos()` search loop"
	set := ssa.Value(fn.Params[0])
	// an element of the set: a load of set[i] (also through the range form)
	isElem := func(v ssa.Value) bool {
		ld, ok := v.(*ssa.UnOp)
		if !ok || ld.Op != token.MUL {
			return false
		}
		ia, ok := ld.X.(*ssa.IndexAddr)
		if !ok {
			return false
		}
		if ia.X == set {
			return true
		}
		// an element of a sub-slice of the set (`for _, c := range set[1:]` after taking set[0] as the first best)
		if sl, ok := ia.X.(*ssa.Slice); ok && sl.X == set {
			return true
		}
		return false
	}
	// the running best: a phi in a loop whose incoming values are elements of the set (or itself / further such phis)
	var isBest func(v ssa.Value, seen map[ssa.Value]bool) bool
	isBest = func(v ssa.Value, seen map[ssa.Value]bool) bool {
		phi, ok := v.(*ssa.Phi)
		if !ok {
			return false
		}
		if seen[v] {
			return true
		}
		seen[v] = true
		for _, e := range phi.Edges {
			if !isElem(e) && !isBest(e, seen) {
				return false
			}
		}
		return true
	}
	// the position of the running best: best.Pos(), or a variable that tracks it (a phi over Pos() values of elements / bests)
	var isBestPos func(v ssa.Value, seen map[ssa.Value]bool) bool
	isBestPos = func(v ssa.Value, seen map[ssa.Value]bool) bool {
		if rcv, ok := isMethodCall(v, "Pos"); ok {
			return isBest(rcv, map[ssa.Value]bool{})
		}
		phi, ok := v.(*ssa.Phi)
		if !ok {
			return false
		}
		if seen[v] {
			return true
		}
		seen[v] = true
		for _, e := range phi.Edges {
			if rcv, ok := isMethodCall(e, "Pos"); ok && (isElem(rcv) || isBest(rcv, map[ssa.Value]bool{})) {
				continue
			}
			if !isBestPos(e, seen) {
				return false
			}
		}
		return true
	}
	isElemPos := func(v ssa.Value) bool {
		rcv, ok := isMethodCall(v, "Pos")
		return ok && isElem(rcv)
	}
	allInstrs(fn, func(in ssa.Instruction) {
		bo, ok := in.(*ssa.BinOp)
		if !ok || !loops[bo.Block()] {
			return
		}
		op := bo.Op
		switch {
		case isElemPos(bo.X) && isBestPos(bo.Y, map[ssa.Value]bool{}):
		case isElemPos(bo.Y) && isBestPos(bo.X, map[ssa.Value]bool{}):
			op = swapOp(op)
		default:
			return
		}
		// normalised: element op best ; must be <
		if op != token.LSS {
			why = "the search keeps the candidate under `" + op.String() + "`, which does not select the minimum position"
			return
		}
		// the running best must be what is returned
		allInstrs(fn, func(in2 ssa.Instruction) {
			if ret, ok := in2.(*ssa.Return); ok && len(ret.Results) >= 1 && len(ret.Results) <= 2 && isBest(ret.Results[0], map[ssa.Value]bool{}) {
				found = true
			}
		})
	})
	if found {
		return true, "minimum-Pos() search"
	}
	return false, why
}

func (w *World) firstNodeRule(P string, f *Facts, r *Roles) {
	n := 0
	// NodeSet.String
	if m := w.method("exec", "NodeSet", "String"); m != nil {
		sv := w.member("exec", "GetCursorString")
		allInstrs(m, func(in ssa.Instruction) {
			c, ok := in.(*ssa.Call)
			if !ok || staticCallee(c) != sv || len(c.Call.Args) != 1 {
				return
			}
			n++
			arg := c.Call.Args[0]
			if ex, isEx := arg.(*ssa.Extract); isEx && ex.Index == 0 {
				arg = ex.Tuple // (first node, found) handed back by the search
			}
			ok2, why := false, "the node whose string-value is taken is "+describe(arg)
			if ac, isCall := arg.(*ssa.Call); isCall {
				ok2, why = w.isMinPosHelper(staticCallee(ac), r)
			} else if ld, isLd := arg.(*ssa.UnOp); isLd {
				if ia, isIA := ld.X.(*ssa.IndexAddr); isIA {
					if k, isK := constInt(ia.Index); isK && k == 0 {
						why = "element 0 of the node-set is used: for node-sets in reverse document order (ancestor::, preceding::) that is the last node in document order"
					}
				}
			}
			w.check(P, "R04.5", "node-set to string conversion", c.Pos(), ok2, why)
		})
	}
	// name functions: the node whose Node() is inspected
	for _, bn := range []string{"name", "local-name", "namespace-uri"} {
		b := f.Builtins[bn]
		if b == nil {
			continue
		}
		seen := map[*ssa.Function]bool{}
		for _, impl := range w.builtinRoots(bn) {
			for g := range staticReach(impl, func(x *ssa.Function) bool { return fnPkgKey(x) == "exec" }) {
				if seen[g] {
					continue
				}
				seen[g] = true
				allInstrs(g, func(in ssa.Instruction) {
					c, ok := in.(*ssa.Call)
					if !ok || !c.Call.IsInvoke() || c.Call.Method.Name() != "Node" {
						return
					}
					if ok3, _ := w.isMinPosHelper(g, r); ok3 {
						return
					}
					recv := c.Call.Value
					if ex, isEx := recv.(*ssa.Extract); isEx && ex.Index == 0 {
						recv = ex.Tuple // (first node, found) handed back by the search
					}
					ok2, why := false, "the node whose name is taken is "+describe(recv)
					if p, isParam := recv.(*ssa.Parameter); isParam {
						// a helper that is handed the node: what every caller passes
						idx := -1
						for i, x := range g.Params {
							if x == p {
								idx = i
							}
						}
						sites := w.callersOf(g)
						all := len(sites) > 0 && idx >= 0
						for _, site := range sites {
							if idx < 0 || idx >= len(site.Call.Args) {
								all = false
								continue
							}
							ac, isCall := site.Call.Args[idx].(*ssa.Call)
							if !isCall {
								all = false
								continue
							}
							if okc, _ := w.isMinPosHelper(staticCallee(ac), r); !okc {
								all = false
							}
						}
						if all {
							ok2, why = true, "every caller passes the result of the minimum-Pos() search"
						}
					} else if ac, isCall := recv.(*ssa.Call); isCall {
						ok2, why = w.isMinPosHelper(staticCallee(ac), r)
					} else if ld, isLd := recv.(*ssa.UnOp); isLd {
						if ia, isIA := ld.X.(*ssa.IndexAddr); isIA {
							if k, isK := constInt(ia.Index); isK && k == 0 {
								why = "element 0 of the node-set is used instead of the first node in document order"
							}
						}
					}
					n++
					w.check(P, "R04.5", "node-set to name conversion in "+g.Name()+" (builtin "+bn+")", c.Pos(), ok2, why)
				})
			}
		}
	}
	w.floor(P, "R04.5", 2)
}

func (w *World) constantConversions(P string, f *Facts, r *Roles) {
	// Bool.String / Bool.Number via the class-free interpreter: use guards
	chk := func(typ, meth string, pred func(fn *ssa.Function) (bool, string)) {
		m := w.method("exec", typ, meth)
		if m == nil {
			w.check(P, "R04.6", typ+"."+meth, 0, false, "method missing")
			return
		}
		ok, why := pred(m)
		w.check(P, "R04.6", typ+"."+meth, m.Pos(), ok, why)
	}
	// returns under receiver-true guard
	boolReturns := func(wantTrue, wantFalse string) func(fn *ssa.Function) (bool, string) {
		return func(fn *ssa.Function) (bool, string) {
			got := map[bool]string{}
			allInstrs(fn, func(in ssa.Instruction) {
				ret, ok := in.(*ssa.Return)
				if !ok || len(ret.Results) != 1 {
					return
				}
				val := ""
				if s, ok := constString(ret.Results[0]); ok {
					val = s
				} else if k, ok := constFloat(ret.Results[0]); ok {
					val = fmt.Sprint(k)
				} else {
					return
				}
				pol, known := false, false
				for _, a := range guardAtoms(ret.Block()) {
					if stripConvAll(a.V) == ssa.Value(fn.Params[0]) {
						pol, known = a.Pol, true
					}
				}
				if known {
					got[pol] = val
				}
			})
			ok := got[true] == wantTrue && got[false] == wantFalse
			return ok, fmt.Sprintf("true -> %q, false -> %q (required %q / %q)", got[true], got[false], wantTrue, wantFalse)
		}
	}
	chk("Bool", "String", boolReturns("true", "false"))
	chk("Bool", "Number", boolReturns("1", "0"))
	identity := func(fn *ssa.Function) (bool, string) {
		ok := false
		allInstrs(fn, func(in ssa.Instruction) {
			if ret, isRet := in.(*ssa.Return); isRet && len(ret.Results) == 1 && stripConvAll(ret.Results[0]) == ssa.Value(fn.Params[0]) {
				ok = true
			}
		})
		return ok, fmt.Sprintf("returns the receiver unchanged: %v", ok)
	}
	chk("Bool", "Bool", identity)
	chk("Number", "Number", identity)
	chk("String", "String", identity)
	lenPositive := func(fn *ssa.Function) (bool, string) {
		ok := false
		allInstrs(fn, func(in ssa.Instruction) {
			ret, isRet := in.(*ssa.Return)
			if !isRet || len(ret.Results) != 1 {
				return
			}
			bo, isBo := ret.Results[0].(*ssa.BinOp)
			if !isBo {
				return
			}
			c, isCall := bo.X.(*ssa.Call)
			if !isCall {
				return
			}
			if b, isB := c.Call.Value.(*ssa.Builtin); !isB || b.Name() != "len" || stripConvAll(c.Call.Args[0]) != ssa.Value(fn.Params[0]) {
				return
			}
			k, isK := constInt(bo.Y)
			if isK && ((bo.Op == token.GTR && k == 0) || (bo.Op == token.NEQ && k == 0) || (bo.Op == token.GEQ && k == 1)) {
				ok = true
			}
		})
		return ok, fmt.Sprintf("returns len(receiver) > 0: %v", ok)
	}
	chk("String", "Bool", lenPositive)
	chk("NodeSet", "Bool", lenPositive)
	// builtins apply the matching method
	apply := func(bname, meth string, negate bool) {
		b := f.Builtins[bname]
		if b == nil {
			return // reported by R04.1
		}
		for ar, impl := range b.Fns {
			ok := false
			detail := "no success return"
			for _, sr := range successReturnsBound(impl, "exec", f.BuiltinBind[fmt.Sprintf("%s#%d", bname, ar)]) {
				v := stripConvAll(sr.Val)
				neg := false
				if u, isU := v.(*ssa.UnOp); isU && u.Op == token.NOT {
					neg = true
					v = stripConvAll(u.X)
				}
				recv, isM := isMethodCall(v, meth)
				if !isM {
					detail = "returns " + describe(v) + ", not " + meth + "() of the argument"
					continue
				}
				recv = sr.resolve(recv)
				fromArgs := sr.contains(recv, func(x ssa.Value) bool { return len(impl.Params) >= 2 && x == ssa.Value(impl.Params[1]) })
				fromCtx := sr.contains(recv, func(x ssa.Value) bool { _, isR := isMethodCall(x, "Result"); return isR })
				src := "?"
				if fromArgs {
					src = "argument"
				} else if fromCtx {
					src = "context result"
				}
				wantSrc := "argument"
				if ar == 0 {
					wantSrc = "context result"
				}
				ok = neg == negate && src == wantSrc
				detail = fmt.Sprintf("returns %s%s() of the %s", map[bool]string{true: "!", false: ""}[neg], meth, src)
			}
			w.check(P, "R04.6", fmt.Sprintf("builtin %s/%d", bname, ar), impl.Pos(), ok, detail)
		}
	}
	apply("boolean", "Bool", false)
	apply("not", "Bool", true)
	apply("string", "String", false)
	apply("number", "Number", false)
	w.floor(P, "R04.6", 12)
}

// builtinRoots: the implementations of a builtin and the functions of package exec they were specialised with (bound
// to the free variables of a closure built by a factory).
func (w *World) builtinRoots(name string) []*ssa.Function {
	b := w.Facts().Builtins[name]
	if b == nil {
		return nil
	}
	var out []*ssa.Function
	seen := map[*ssa.Function]bool{}
	add := func(g *ssa.Function) {
		if g != nil && !seen[g] && fnPkgKey(g) == "exec" {
			seen[g] = true
			out = append(out, g)
		}
	}
	for _, impl := range b.impls() {
		add(impl)
	}
	for ar := range b.Fns {
		for _, v := range w.Facts().BuiltinBind[fmt.Sprintf("%s#%d", name, ar)] {
			switch x := stripConv(v).(type) {
			case *ssa.Function:
				add(x)
			case *ssa.MakeClosure:
				g, _ := x.Fn.(*ssa.Function)
				add(g)
			}
		}
	}
	sortFuncs(out)
	return out
}
