package main

import (
	"fmt"
	"go/token"
	"go/types"
	"sort"
	"strings"

	"golang.org/x/tools/go/ssa"
)

func init() {
	register("C07", checkC07)
	notDecided["C07"] = "the results for concrete strings and numbers; UTF-8 validity beyond the byte/character unit discipline; the tie behaviour of round() used by substring (C06)."
}

var stringBuiltins = []string{"concat", "starts-with", "contains", "substring-before", "substring-after", "substring", "string-length", "normalize-space", "translate", "string"}

func isStringType(t types.Type) bool {
	b, ok := t.Underlying().(*types.Basic)
	return ok && b.Info()&types.IsString != 0
}

func isRuneSlice(t types.Type) bool {
	s, ok := t.Underlying().(*types.Slice)
	if !ok {
		return false
	}
	b, ok := s.Elem().Underlying().(*types.Basic)
	return ok && b.Kind() == types.Int32
}

// charDerived: v is computed from an XPath number (Number() of something) or a rune count.
func charDerived(v ssa.Value) bool {
	return sliceContains(v, func(x ssa.Value) bool {
		if _, ok := isMethodCall(x, "Number"); ok {
			return true
		}
		if c, ok := x.(*ssa.Call); ok {
			if sc := staticCallee(c); sc != nil && strings.HasPrefix(funcFullName(sc), "unicode/utf8.RuneCount") {
				return true
			}
			if b, ok := c.Call.Value.(*ssa.Builtin); ok && b.Name() == "len" && isRuneSlice(c.Call.Args[0].Type()) {
				return true
			}
		}
		return false
	})
}

// byteDerived: v is computed from a byte offset into a string: the key of a string range, len(string),
// or a strings.Index* result.
func byteDerived(v ssa.Value) bool {
	return sliceContains(v, func(x ssa.Value) bool {
		switch y := x.(type) {
		case *ssa.Extract:
			if nx, ok := y.Tuple.(*ssa.Next); ok && nx.IsString && y.Index == 1 {
				return true
			}
		case *ssa.Call:
			if b, ok := y.Call.Value.(*ssa.Builtin); ok && b.Name() == "len" && isStringType(y.Call.Args[0].Type()) {
				return true
			}
			if sc := staticCallee(y); sc != nil && strings.HasPrefix(funcFullName(sc), "strings.Index") {
				return true
			}
		}
		return false
	})
}

func (w *World) builtinClosure(name string) []*ssa.Function {
	b := w.Facts().Builtins[name]
	if b == nil {
		return nil
	}
	seen := map[*ssa.Function]bool{}
	var out []*ssa.Function
	add := func(root *ssa.Function) {
		for g := range staticReach(root, func(x *ssa.Function) bool { return fnPkgKey(x) == "exec" }) {
			if !seen[g] {
				seen[g] = true
				out = append(out, g)
			}
		}
	}
	for _, impl := range b.impls() {
		add(impl)
	}
	// functions the implementation was specialised with (a closure built by a factory): bound to its free variables
	for ar := range b.Fns {
		for _, v := range w.Facts().BuiltinBind[fmt.Sprintf("%s#%d", name, ar)] {
			switch x := stripConv(v).(type) {
			case *ssa.Function:
				if fnPkgKey(x) == "exec" {
					add(x)
				}
			case *ssa.MakeClosure:
				if g, ok := x.Fn.(*ssa.Function); ok && fnPkgKey(g) == "exec" {
					add(g)
				}
			}
		}
	}
	sort.Slice(out, func(i, j int) bool { return out[i].Name() < out[j].Name() })
	return out
}

func checkC07(w *World) {
	const P = "C07"
	f := w.Facts()
	r := w.Roles()
	for _, e := range r.err {
		w.undecided(P, "R00.roles", "role resolution: "+e, 0, e)
	}
	docRule(P, "R07.1", "F units", "unit discipline in the string builtins: a Go string (bytes) is never sliced with a bound that derives from an XPath number or a rune count; a byte obtained by indexing a string is never converted to a string or rune; the Number returned by string-length derives from a rune count, not from len(string).")
	docRule(P, "R07.2", "T forbidden API", "whitespace class: the string builtins do not reach strings.TrimSpace, strings.Fields, unicode.IsSpace or their Func variants (Unicode's whitespace class is not XPath's); the whitespace characters normalize-space tests for are exactly #x20 #x9 #xD #xA; it collapses (a pending-space state or equivalent write of a single ' ').")
	docRule(P, "R07.3", "F+D taint", "a slice bound that derives from a user number reaches a slice expression only as the result of a clamp: a package-local function in which the float-to-int conversion of the value is guarded by a NaN test, a lower-bound test against 0 and an upper-bound test against the length.")
	docRule(P, "R07.4", "D", "translate is a single pass over the characters of the source with a map built from the second argument in which the first occurrence of a character wins (the map update is guarded by a failed lookup of the same key); the replacement is read from the third argument only under an index < length test (shorter third argument deletes); no strings.Replace*/NewReplacer (sequential replacement is not simultaneous mapping).")
	docRule(P, "R07.5", "D", "argument access: a builtin reads args[k] only when its arity test (or its slot in the overload table) guarantees more than k arguments; the zero-argument forms read the context result and never args.")
	docRule(P, "R07.6", "T", "callee table: starts-with = strings.HasPrefix(arg0, arg1); contains = strings.Contains(arg0, arg1); substring-before/after slice arg0 at strings.Index(arg0, arg1) (after: plus len(arg1)) and return '' when the index is negative; concat writes String() of every argument in ascending order.")

	for _, bn := range stringBuiltins {
		if f.Builtins[bn] == nil {
			w.check(P, "R07.1", "builtin "+bn, 0, false, "not registered")
			continue
		}
		for _, fn := range w.builtinClosure(bn) {
			w.unitDiscipline(P, bn, fn)
		}
	}
	w.floor(P, "R07.1", 10)

	// string-length result derives from a rune count
	if b := f.Builtins["string-length"]; b != nil {
		for ar, impl := range b.Fns {
			ok := false
			detail := "no Number result found"
			// the implementation, or the function it was specialised with (`onArgumentString(stringLength)`)
			scan := []*ssa.Function{impl}
			for _, v := range f.BuiltinBind[fmt.Sprintf("string-length#%d", ar)] {
				if g, isFn := stripConv(v).(*ssa.Function); isFn && fnPkgKey(g) == "exec" {
					scan = append(scan, g)
				}
			}
			for _, sfn := range scan {
				allInstrs(sfn, func(in ssa.Instruction) {
					ret, isRet := in.(*ssa.Return)
					if !isRet || len(ret.Results) == 0 || len(ret.Results) > 2 {
						return
					}
					if len(ret.Results) == 2 && !isNilConst(ret.Results[1]) {
						return
					}
					v := stripConvAll(ret.Results[0])
					c, isCall := v.(*ssa.Call)
					if !isCall {
						detail = "returns " + describe(v)
						return
					}
					if sc := staticCallee(c); sc != nil && strings.HasPrefix(funcFullName(sc), "unicode/utf8.RuneCount") {
						ok, detail = true, "returns "+funcFullName(sc)
						return
					}
					if bi, isB := c.Call.Value.(*ssa.Builtin); isB && bi.Name() == "len" {
						if isRuneSlice(c.Call.Args[0].Type()) {
							ok, detail = true, "returns len([]rune)"
						} else {
							detail = "returns len of a " + c.Call.Args[0].Type().String() + ": a byte count, not a character count"
						}
					}
				})
			}
			w.check(P, "R07.1", fmt.Sprintf("string-length/%d result unit", ar), impl.Pos(), ok, detail)
		}
	}

	// R07.2
	forbidden := map[string]bool{"strings.TrimSpace": true, "strings.Fields": true, "unicode.IsSpace": true, "strings.FieldsFunc": false, "strings.TrimFunc": false}
	for _, bn := range stringBuiltins {
		var bad []string
		for _, fn := range w.builtinClosure(bn) {
			allInstrs(fn, func(in ssa.Instruction) {
				if c, ok := in.(ssa.CallInstruction); ok {
					if sc := staticCallee(c); sc != nil && forbidden[funcFullName(sc)] {
						bad = append(bad, funcFullName(sc)+" in "+fn.Name())
					}
				}
			})
		}
		if f.Builtins[bn] != nil {
			w.check(P, "R07.2", "builtin "+bn+": whitespace API", f.Builtins[bn].Pos, len(bad) == 0, fmt.Sprintf("Unicode-whitespace functions reached: %v", bad))
		}
	}
	if f.Builtins["normalize-space"] != nil {
		ws := map[int64]bool{}
		for _, fn := range w.builtinClosure("normalize-space") {
			allInstrs(fn, func(in ssa.Instruction) {
				switch x := in.(type) {
				case *ssa.BinOp:
					if x.Op == token.EQL || x.Op == token.NEQ {
						for _, o := range []ssa.Value{x.X, x.Y} {
							if k, ok := constInt(o); ok {
								if b, isB := o.Type().Underlying().(*types.Basic); isB && (b.Kind() == types.Uint8 || b.Kind() == types.Int32) {
									ws[k] = true
								}
							}
						}
					}
				case *ssa.Call:
					if sc := staticCallee(x); sc != nil && strings.HasPrefix(funcFullName(sc), "strings.") {
						for _, a := range x.Call.Args {
							if s, ok := constString(a); ok && len(s) > 0 && len(s) <= 8 {
								for _, c := range s {
									ws[int64(c)] = true
								}
							}
						}
					}
				}
			})
		}
		want := map[int64]bool{0x20: true, 0x9: true, 0xD: true, 0xA: true}
		var got []string
		exact := len(ws) >= 4
		for k := range ws {
			got = append(got, fmt.Sprintf("#x%X", k))
			if !want[k] {
				exact = false
			}
		}
		for k := range want {
			if !ws[k] {
				exact = false
			}
		}
		sort.Strings(got)
		w.check(P, "R07.2", "normalize-space: whitespace class", f.Builtins["normalize-space"].Pos, exact, fmt.Sprintf("characters tested: %v; XPath whitespace is exactly #x20 #x9 #xD #xA", got))
		// collapse: writes a single space constant somewhere in a loop
		writesSpace := false
		for _, fn := range w.builtinClosure("normalize-space") {
			loops := loopBlocks(fn)
			allInstrs(fn, func(in ssa.Instruction) {
				c, ok := in.(*ssa.Call)
				if !ok || !loops[c.Block()] {
					return
				}
				for _, a := range c.Call.Args {
					if k, ok := constInt(a); ok && k == 0x20 {
						writesSpace = true
					}
					if s, ok := constString(a); ok && s == " " {
						writesSpace = true
					}
				}
			})
		}
		w.check(P, "R07.2", "normalize-space: collapses runs", f.Builtins["normalize-space"].Pos, writesSpace, fmt.Sprintf("a single space is written inside the scanning loop: %v (a trim-only implementation leaves inner runs)", writesSpace))
	}
	w.floor(P, "R07.2", 11)

	// R07.3 clamps
	for _, fn := range w.builtinClosure("substring") {
		allInstrs(fn, func(in ssa.Instruction) {
			sl, ok := in.(*ssa.Slice)
			if !ok {
				return
			}
			for which, b := range map[string]ssa.Value{"low": sl.Low, "high": sl.High} {
				if b == nil {
					continue
				}
				if _, isC := constInt(b); isC {
					continue
				}
				if !charDerived(b) {
					continue
				}
				okc, why := w.isClamped(b)
				w.check(P, "R07.3", fmt.Sprintf("substring: %s bound of the slice in %s", which, fn.Name()), sl.Pos(), okc, why)
				// NaN: every user number feeding the bound must have been tested with IsNaN (false edge) before the slice
				var roots []ssa.Value
				backSlice(b, func(v ssa.Value) bool {
					if _, ok := isMethodCall(v, "Number"); ok {
						roots = append(roots, v)
						return false
					}
					return true
				})
				nanOK := len(roots) > 0
				for _, root := range roots {
					tested := false
					for _, a := range guardAtoms(sl.Block()) {
						c, ok := a.V.(*ssa.Call)
						if !ok || a.Pol || staticCallee(c) == nil || funcFullName(staticCallee(c)) != "math.IsNaN" {
							continue
						}
						if sliceContains(c.Call.Args[0], func(v ssa.Value) bool { return v == root }) {
							tested = true
						}
					}
					if !tested {
						nanOK = false
					}
				}
				w.check(P, "R07.3", fmt.Sprintf("substring: NaN excluded before the %s bound of the slice in %s", which, fn.Name()), sl.Pos(), nanOK, fmt.Sprintf("every number argument feeding the bound is known not to be NaN at the slice (IsNaN tested on a value computed from it): %v (a clamp maps NaN to 0, so an untested NaN position selects characters instead of nothing)", nanOK))
			}
		})
	}
	// the two-argument form selects everything from the start position on: its end bound must not be computed from the start
	if b := f.Builtins["substring"]; b != nil && b.Fns[-1] != nil {
		impl := b.Fns[-1]
		args := impl.Params[len(impl.Params)-1]
		isArg := func(v ssa.Value, k int64) bool {
			recv, ok := isMethodCall(v, "Number")
			if !ok {
				return false
			}
			ld, ok := recv.(*ssa.UnOp)
			if !ok {
				return false
			}
			ia, ok := ld.X.(*ssa.IndexAddr)
			if !ok || ia.X != ssa.Value(args) {
				return false
			}
			kk, ok := constInt(ia.Index)
			return ok && kk == k
		}
		threeArgGuard := func(b *ssa.BasicBlock) bool {
			for _, a := range guardAtoms(b) {
				if bo, ok := a.V.(*ssa.BinOp); ok && isLenOf(bo.X, nil) {
					if k, isK := constInt(bo.Y); isK && ((bo.Op == token.EQL && k == 3 && a.Pol) || (bo.Op == token.EQL && k == 2 && !a.Pol) || (bo.Op == token.NEQ && k == 3 && !a.Pol) || (bo.Op == token.GTR && k == 2 && a.Pol) || (bo.Op == token.GEQ && k == 3 && a.Pol)) {
						return true
					}
				}
			}
			return false
		}
		allInstrs(impl, func(in ssa.Instruction) {
			sl, ok := in.(*ssa.Slice)
			if !ok || sl.High == nil {
				return
			}
			if _, isC := constInt(sl.High); isC || !charDerived(sl.High) {
				return
			}
			// does the high bound depend on args[1] through a value that is not confined to the three-argument path?
			dep := false
			seen := map[ssa.Value]bool{}
			var walk func(v ssa.Value, guarded bool)
			walk = func(v ssa.Value, guarded bool) {
				if v == nil || seen[v] && !guarded {
					return
				}
				seen[v] = true
				if isArg(v, 1) {
					if !guarded {
						dep = true
					}
					return
				}
				if phi, ok := v.(*ssa.Phi); ok {
					for i, e := range phi.Edges {
						g := guarded || threeArgGuard(phi.Block().Preds[i])
						if ei, ok := e.(ssa.Instruction); ok && threeArgGuard(ei.Block()) {
							g = true
						}
						walk(e, g)
					}
					return
				}
				if inst, ok := v.(ssa.Instruction); ok {
					g := guarded || threeArgGuard(inst.Block())
					for _, op := range inst.Operands(nil) {
						if *op != nil {
							walk(*op, g)
						}
					}
				}
			}
			walk(sl.High, false)
			w.check(P, "R07.3", "substring: end bound of the two-argument form", sl.Pos(), !dep, fmt.Sprintf("the end bound depends on the start position outside the three-argument path: %v (with an infinite end, start + length is NaN for a start of -Infinity and the whole string is lost)", dep))
		})
	}
	w.floorSites(P, "R07.3", 5)

	// R07.4 translate
	w.translateShape(P, f)

	// R07.5 argument access (all builtins)
	var bnames []string
	for n := range f.Builtins {
		bnames = append(bnames, n)
	}
	sort.Strings(bnames)
	for _, bn := range bnames {
		b := f.Builtins[bn]
		for ar, impl := range b.Fns {
			w.argAccess(P, bn, ar, impl)
		}
	}
	w.floor(P, "R07.5", 25)
	w.argOrContext(P, f)

	// R07.6 callee table
	w.stringCallees(P, f)
}

func (w *World) unitDiscipline(P, bn string, fn *ssa.Function) {
	n := 0
	allInstrs(fn, func(in ssa.Instruction) {
		switch x := in.(type) {
		case *ssa.Slice:
			if !isStringType(x.X.Type()) {
				return
			}
			for which, b := range map[string]ssa.Value{"low": x.Low, "high": x.High} {
				if b == nil {
					continue
				}
				if charDerived(b) {
					n++
					w.check(P, "R07.1", fmt.Sprintf("%s: %s bound of a string slice in %s", bn, which, fn.Name()), x.Pos(), false, "a Go string is sliced by bytes, but the bound derives from an XPath number / character count: multi-byte characters are split or mis-positioned")
				}
			}
		case *ssa.IndexAddr:
			if isRuneSlice(x.X.Type()) {
				if _, isC := constInt(x.Index); !isC && byteDerived(x.Index) && !ascendingCounter(x.Index) {
					n++
					w.check(P, "R07.1", fmt.Sprintf("%s: rune slice indexed with a byte offset in %s", bn, fn.Name()), x.Pos(), false, "the index derives from a byte position in a string (string range key, len(string) or strings.Index) but addresses a []rune, whose positions are characters: wrong partner after any multi-byte character")
				}
			}
		case *ssa.Convert:
			// byte -> string
			from, ok1 := x.X.Type().Underlying().(*types.Basic)
			if ok1 && from.Kind() == types.Uint8 && isStringType(x.Type()) {
				_, isLookup := x.X.(*ssa.Lookup)
				_, isIndex := x.X.(*ssa.Index)
				if isLookup || isIndex {
					n++
					w.check(P, "R07.1", fmt.Sprintf("%s: byte of a string converted to a string in %s", bn, fn.Name()), x.Pos(), false, "s[i] is a byte; string(byte) yields the code point of that byte value, which is wrong (and invalid UTF-8 handling) for every non-ASCII character")
				}
			}
		}
	})
	if n == 0 {
		w.check(P, "R07.1", fmt.Sprintf("%s: %s", bn, fn.Name()), fn.Pos(), true, "no byte/character unit confusion")
	}
}

// isClamped: v is the result of a call to a clamp function applied to a float.
func (w *World) isClamped(v ssa.Value) (bool, string) {
	c, ok := v.(*ssa.Call)
	if !ok {
		return false, "the bound is " + describe(v) + ": a user-derived number reaches the slice expression without passing a clamp (negative or oversized values panic with 'slice bounds out of range')"
	}
	sc := staticCallee(c)
	if sc == nil || fnPkgKey(sc) != "exec" {
		return false, "the bound is the result of " + calleeName(c) + ", not of a package-local clamp"
	}
	var fparam, nparam *ssa.Parameter
	for _, p := range sc.Params {
		if b, ok := p.Type().Underlying().(*types.Basic); ok {
			if b.Kind() == types.Float64 {
				fparam = p
			} else if b.Kind() == types.Int {
				nparam = p
			}
		}
	}
	if fparam == nil || nparam == nil {
		return false, sc.Name() + " is not a clamp (needs a float64 value and an int length)"
	}
	good := true
	why := sc.Name() + ": every int(f) is guarded by a NaN test, f >= 0 and f <= n"
	nconv := 0
	allInstrs(sc, func(in ssa.Instruction) {
		cv, ok := in.(*ssa.Convert)
		if !ok || !isFloatToInt(cv) {
			return
		}
		nconv++
		nan, lo, hi := false, false, false
		for _, a := range guardAtoms(cv.Block()) {
			if call, ok := a.V.(*ssa.Call); ok && staticCallee(call) != nil && funcFullName(staticCallee(call)) == "math.IsNaN" && !a.Pol {
				nan = true
			}
			bo, ok := a.V.(*ssa.BinOp)
			if !ok {
				continue
			}
			x, y, op := bo.X, bo.Y, bo.Op
			if stripConvAll(y) == ssa.Value(fparam) {
				x, y, op = y, x, swapOp(op)
			}
			if stripConvAll(x) != ssa.Value(fparam) {
				if bo.X == bo.Y && bo.Op == token.EQL && a.Pol {
					nan = true
				}
				continue
			}
			// an ordered comparison of f that is known to be TRUE excludes NaN (every comparison with NaN is false)
			switch op {
			case token.LSS, token.LEQ, token.GTR, token.GEQ, token.EQL:
				if a.Pol {
					nan = true
				}
			case token.NEQ:
				if !a.Pol {
					nan = true
				}
			}
			if k, isK := constFloat(y); isK && k == 0 {
				if (op == token.LSS && !a.Pol) || (op == token.GEQ && a.Pol) {
					lo = true
				}
			}
			if stripConvAll(y) == ssa.Value(nparam) {
				if ((op == token.GTR || op == token.GEQ) && !a.Pol) || ((op == token.LEQ || op == token.LSS) && a.Pol) {
					hi = true
				}
			}
		}
		if !(nan && lo && hi) {
			good = false
			why = fmt.Sprintf("%s: int(f) at %s guarded by NaN test: %v, lower bound: %v, upper bound: %v", sc.Name(), w.pos(cv.Pos()), nan, lo, hi)
		}
	})
	if nconv == 0 {
		return false, sc.Name() + " contains no guarded conversion"
	}
	return good, why
}

func (w *World) translateShape(P string, f *Facts) {
	b := f.Builtins["translate"]
	if b == nil {
		return
	}
	fns := w.builtinClosure("translate")
	var bad []string
	for _, fn := range fns {
		allInstrs(fn, func(in ssa.Instruction) {
			if c, ok := in.(ssa.CallInstruction); ok {
				if sc := staticCallee(c); sc != nil {
					n := funcFullName(sc)
					if strings.HasPrefix(n, "strings.Replace") || n == "strings.NewReplacer" {
						bad = append(bad, n)
					}
				}
			}
		})
	}
	w.check(P, "R07.4", "translate: no sequential replacement", b.Pos, len(bad) == 0, fmt.Sprintf("replacement functions used: %v (translate(\"abc\",\"ab\",\"ba\") must be \"bac\")", bad))
	nUpd, nIdx := 0, 0
	for _, fn := range fns {
		allInstrs(fn, func(in ssa.Instruction) {
			switch x := in.(type) {
			case *ssa.MapUpdate:
				mt, ok := x.Map.Type().Underlying().(*types.Map)
				if !ok {
					return
				}
				if kb, ok := mt.Key().Underlying().(*types.Basic); !ok || kb.Kind() != types.Int32 {
					return
				}
				nUpd++
				first := false
				for _, a := range guardAtoms(x.Block()) {
					if ex, ok := a.V.(*ssa.Extract); ok && ex.Index == 1 && !a.Pol {
						if lk, ok := ex.Tuple.(*ssa.Lookup); ok && sameObj(lk.X, x.Map) && lk.Index == x.Key {
							first = true
						}
					}
				}
				// or: the second argument is walked from its end, so the first occurrence is written last
				backwards := false
				if !first {
					backSlice(x.Key, func(v ssa.Value) bool {
						if ia, ok := v.(*ssa.IndexAddr); ok && descendingCounter(ia.Index) {
							backwards = true
						}
						if ix, ok := v.(*ssa.Index); ok && descendingCounter(ix.Index) {
							backwards = true
						}
						return true
					})
				}
				w.check(P, "R07.4", "translate: first occurrence wins", x.Pos(), first || backwards, fmt.Sprintf("the map update is guarded by a failed lookup of the same character: %v; or the second argument is walked backwards so that the first occurrence is written last: %v (otherwise a later duplicate in the second argument overrides the first)", first, backwards))
			case *ssa.IndexAddr:
				if !isRuneSlice(x.X.Type()) {
					return
				}
				if _, isC := constInt(x.Index); isC {
					return
				}
				// index that comes out of the map: needs i < len(slice)
				fromMap := sliceContains(x.Index, func(v ssa.Value) bool { _, ok := v.(*ssa.Lookup); return ok })
				if !fromMap {
					return
				}
				nIdx++
				guarded := false
				for _, a := range guardAtoms(x.Block()) {
					bo, ok := a.V.(*ssa.BinOp)
					if !ok {
						continue
					}
					isLen := func(v ssa.Value) bool {
						c, ok := v.(*ssa.Call)
						if !ok {
							return false
						}
						bi, ok := c.Call.Value.(*ssa.Builtin)
						return ok && bi.Name() == "len" && sameObj(c.Call.Args[0], x.X)
					}
					if bo.X == x.Index && isLen(bo.Y) && ((bo.Op == token.LSS && a.Pol) || (bo.Op == token.GEQ && !a.Pol)) {
						guarded = true
					}
					if bo.Y == x.Index && isLen(bo.X) && ((bo.Op == token.GTR && a.Pol) || (bo.Op == token.LEQ && !a.Pol)) {
						guarded = true
					}
				}
				w.check(P, "R07.4", "translate: replacement read under a length test", x.Pos(), guarded, fmt.Sprintf("third-argument character read only when index < len: %v (a shorter third argument deletes; unguarded it panics)", guarded))
			}
		})
	}
	if nUpd == 0 || nIdx == 0 {
		w.check(P, "R07.4", "translate: character map", b.Pos, false, fmt.Sprintf("no rune-keyed map built from the second argument (%d updates) / no guarded read of the third argument (%d reads): not a simultaneous character mapping", nUpd, nIdx))
	}
	w.floor(P, "R07.4", 3)
}

// argAccess checks every args[k] in impl against the arity guarantee.
func (w *World) argAccess(P, bn string, ar int, impl *ssa.Function) {
	if len(impl.Params) < 2 {
		return
	}
	args := impl.Params[len(impl.Params)-1]
	maxIdx := -1
	unguardedVar := false
	// functions the implementation was specialised with (a closure built by a factory): bound to its free variables
	bind := w.Facts().BuiltinBind[fmt.Sprintf("%s#%d", bn, ar)]
	boundCallee := func(c *ssa.Call) *ssa.Function {
		if bind == nil || staticCallee(c) != nil || c.Call.IsInvoke() {
			return nil
		}
		v := c.Call.Value
		if ld, ok := v.(*ssa.UnOp); ok {
			v = ld.X
		}
		fv, ok := v.(*ssa.FreeVar)
		if !ok {
			return nil
		}
		switch b := stripConv(bind[fv]).(type) {
		case *ssa.Function:
			return b
		case *ssa.MakeClosure:
			g, _ := b.Fn.(*ssa.Function)
			return g
		}
		return nil
	}
	// argument reads inside a bound function that is handed the argument slice
	allInstrs(impl, func(in ssa.Instruction) {
		c, ok := in.(*ssa.Call)
		if !ok {
			return
		}
		g := boundCallee(c)
		if g == nil {
			return
		}
		for i, a := range c.Call.Args {
			if a != ssa.Value(args) || i >= len(g.Params) {
				continue
			}
			allInstrs(g, func(in2 ssa.Instruction) {
				ia, ok := in2.(*ssa.IndexAddr)
				if !ok || ia.X != ssa.Value(g.Params[i]) {
					return
				}
				if k, isC := constInt(ia.Index); isC {
					if int(k) > maxIdx {
						maxIdx = int(k)
					}
				} else {
					unguardedVar = true
				}
			})
		}
	})
	allInstrs(impl, func(in ssa.Instruction) {
		ia, ok := in.(*ssa.IndexAddr)
		if !ok || ia.X != ssa.Value(args) {
			return
		}
		k, isC := constInt(ia.Index)
		if !isC {
			if !ascendingCounter(ia.Index) {
				unguardedVar = true
			}
			return
		}
		// the argument counts that can reach this access: every guard on len(args) that dominates it, evaluated
		// over the finite domain of counts (any mix of ==, !=, <, <=, >, >= in any nesting)
		need := int64(k) + 1
		lo, feasible := minFeasible(guardAtoms(ia.Block()), func(v ssa.Value) bool {
			c, ok := stripConv(v).(*ssa.Call)
			if !ok {
				return false
			}
			bi, ok := c.Call.Value.(*ssa.Builtin)
			return ok && bi.Name() == "len" && c.Call.Args[0] == ssa.Value(args)
		})
		if !feasible || lo >= need {
			return
		}
		if int(k) > maxIdx {
			maxIdx = int(k)
		}
	})
	min := ar
	if ar < 0 {
		ks := arityTests(impl)
		min = 0
		if len(ks) > 0 {
			min = ks[0]
		}
	}
	ok := maxIdx < min && !unguardedVar
	detail := fmt.Sprintf("reads args up to index %d; guaranteed argument count %d", maxIdx, min)
	if ar == 0 {
		usesCtx := false
		allInstrs(impl, func(in ssa.Instruction) {
			if c, isCall := in.(*ssa.Call); isCall {
				if g := boundCallee(c); g != nil {
					allInstrs(g, func(in2 ssa.Instruction) {
						if c2, ok := in2.(*ssa.Call); ok {
							if _, isR := isMethodCall(c2, "Result"); isR {
								usesCtx = true
							}
						}
					})
				}
				if sc := staticCallee(c); sc != nil && fnPkgKey(sc) == "exec" && helperReadsContext(sc, c, impl, 0) {
					usesCtx = true
				}
				if _, isR := isMethodCall(c, "Result"); isR {
					usesCtx = true
				}
				if _, isR := isMethodCall(c, "ContextPosition"); isR {
					usesCtx = true
				}
				if _, isR := isMethodCall(c, "ContextSize"); isR {
					usesCtx = true
				}
			}
		})
		if bn != "true" && bn != "false" {
			ok = ok && usesCtx
			detail += fmt.Sprintf("; zero-argument form reads the context: %v", usesCtx)
		}
	}
	w.check(P, "R07.5", fmt.Sprintf("builtin %s/%d argument access", bn, ar), impl.Pos(), ok, detail)
}

func (w *World) stringCallees(P string, f *Facts) {
	for bn, callee := range map[string]string{"starts-with": "strings.HasPrefix", "contains": "strings.Contains", "substring-before": "strings.Index", "substring-after": "strings.Index"} {
		b := f.Builtins[bn]
		if b == nil || b.Fns[-1] == nil {
			continue
		}
		impl := b.Fns[-1]
		// the implementation read together with the helpers it hands its arguments (or a literal) to
		view := w.flatten(impl)
		argIdx := func(v ssa.Value) int {
			// v = args[k].String()
			recv, ok := isMethodCall(view.res(v), "String")
			if !ok {
				return -1
			}
			ld, ok := recv.(*ssa.UnOp)
			if !ok {
				return -1
			}
			ia, ok := ld.X.(*ssa.IndexAddr)
			if !ok || len(impl.Params) < 2 || view.res(ia.X) != ssa.Value(impl.Params[len(impl.Params)-1]) {
				return -1
			}
			k, ok := constInt(ia.Index)
			if !ok {
				return -1
			}
			return int(k)
		}
		ok := false
		detail := "no call of " + callee
		var idxCall, cutCall *ssa.Call
		view.all(func(in ssa.Instruction) {
			c, isCall := in.(*ssa.Call)
			if !isCall || staticCallee(c) == nil || !strings.HasPrefix(funcFullName(staticCallee(c)), "strings.") {
				return
			}
			n := funcFullName(staticCallee(c))
			if n == "strings.Cut" && callee == "strings.Index" {
				// the library's own "split at the first match": same search, the parts come back ready-made
				a0, a1 := argIdx(c.Call.Args[0]), argIdx(c.Call.Args[1])
				ok = a0 == 0 && a1 == 1
				detail = fmt.Sprintf("strings.Cut(args[%d].String(), args[%d].String())", a0, a1)
				cutCall = c
				return
			}
			if n != callee {
				detail = "calls " + n + " instead of " + callee
				return
			}
			a0, a1 := argIdx(c.Call.Args[0]), argIdx(c.Call.Args[1])
			ok = a0 == 0 && a1 == 1
			detail = fmt.Sprintf("%s(args[%d].String(), args[%d].String())", callee, a0, a1)
			idxCall = c
		})
		w.check(P, "R07.6", "builtin "+bn+" callee", impl.Pos(), ok, detail)
		if callee == "strings.Index" && cutCall != nil {
			// the part returned is the one before (substring-before) / after (substring-after) the match, and only
			// when a match was found
			wantPart := 0
			if bn == "substring-after" {
				wantPart = 1
			}
			okPart, okGuard := false, false
			view.all(func(in ssa.Instruction) {
				ret, isRet := in.(*ssa.Return)
				if !isRet || len(ret.Results) == 0 {
					return
				}
				if len(ret.Results) == 2 && !isNilConst(ret.Results[1]) {
					return
				}
				ex, isEx := view.res(stripConvAll(ret.Results[0])).(*ssa.Extract)
				if !isEx || ex.Tuple != ssa.Value(cutCall) || !view.feasible(ret.Block()) {
					return
				}
				okPart = ex.Index == wantPart
				for _, a := range view.guards(ret.Block()) {
					if g, ok := a.V.(*ssa.Extract); ok && g.Tuple == ssa.Value(cutCall) && g.Index == 2 && a.Pol {
						okGuard = true
					}
				}
			})
			// without a match Cut returns (s, "", false): the "after" part is already the empty string then, the
			// "before" part is the whole string and must not be returned
			if wantPart == 1 {
				okGuard = true
			}
			w.check(P, "R07.6", "builtin "+bn+" slice", impl.Pos(), okPart && okGuard, fmt.Sprintf("returns the part of arg0 %s the first match: %v; only when a match was found (needed for the part before): %v", map[int]string{0: "before", 1: "after"}[wantPart], okPart, okGuard))
		}
		if callee == "strings.Index" && idxCall != nil {
			// slice shape and negative-index guard
			okSlice, okGuard := false, false
			view.all(func(in ssa.Instruction) {
				sl, isSl := in.(*ssa.Slice)
				if !isSl || argIdx(sl.X) != 0 || !view.feasible(sl.Block()) {
					return
				}
				for _, a := range view.guards(sl.Block()) {
					if bo, ok := a.V.(*ssa.BinOp); ok && bo.X == ssa.Value(idxCall) {
						if k, isK := constInt(bo.Y); isK && ((bo.Op == token.LSS && k == 0 && !a.Pol) || (bo.Op == token.GEQ && k == 0 && a.Pol) || (bo.Op == token.EQL && k == -1 && !a.Pol)) {
							okGuard = true
						}
					}
				}
				var low, high ssa.Value
				if sl.Low != nil {
					low = view.res(sl.Low)
				}
				if sl.High != nil {
					high = view.res(sl.High)
				}
				if bn == "substring-before" {
					okSlice = low == nil && high == ssa.Value(idxCall)
				} else {
					if high == nil && low != nil {
						if bo, ok := low.(*ssa.BinOp); ok && bo.Op == token.ADD {
							isLenA1 := func(v ssa.Value) bool {
								c, ok := v.(*ssa.Call)
								if !ok {
									return false
								}
								bi, ok := c.Call.Value.(*ssa.Builtin)
								return ok && bi.Name() == "len" && argIdx(c.Call.Args[0]) == 1
							}
							okSlice = (bo.X == ssa.Value(idxCall) && isLenA1(bo.Y)) || (bo.Y == ssa.Value(idxCall) && isLenA1(bo.X))
						}
					}
				}
			})
			w.check(P, "R07.6", "builtin "+bn+" slice", impl.Pos(), okSlice && okGuard, fmt.Sprintf("slices arg0 at the match position (after: + len(arg1)): %v; only when the index is not negative: %v", okSlice, okGuard))
		}
	}
	if b := f.Builtins["concat"]; b != nil && b.Fns[-1] != nil {
		impl := b.Fns[-1]
		ok := false
		allInstrs(impl, func(in ssa.Instruction) {
			c, isCall := in.(*ssa.Call)
			if !isCall || staticCallee(c) == nil || !strings.Contains(funcFullName(staticCallee(c)), "WriteString") {
				return
			}
			recv, isS := isMethodCall(c.Call.Args[len(c.Call.Args)-1], "String")
			if !isS {
				return
			}
			if ld, isLd := recv.(*ssa.UnOp); isLd {
				if ia, isIA := ld.X.(*ssa.IndexAddr); isIA && ia.X == ssa.Value(impl.Params[len(impl.Params)-1]) && ascendingCounter(ia.Index) {
					ok = true
				}
			}
		})
		w.check(P, "R07.6", "builtin concat", impl.Pos(), ok, fmt.Sprintf("writes String() of each argument in ascending order: %v", ok))
	}
	w.floor(P, "R07.6", 7)
}

// helperReadsContext: the call hands a context parameter of the caller to a helper of the package that reads the
// context result (position, size) from it, directly or one helper further.
func helperReadsContext(sc *ssa.Function, c *ssa.Call, caller *ssa.Function, depth int) bool {
	if depth > 3 || len(sc.Blocks) == 0 {
		return false
	}
	ctx := map[ssa.Value]bool{}
	for i, a := range c.Call.Args {
		if i >= len(sc.Params) {
			break
		}
		if _, isI := a.Type().Underlying().(*types.Interface); !isI {
			continue
		}
		if _, isP := a.(*ssa.Parameter); isP {
			ctx[sc.Params[i]] = true
		}
	}
	if len(ctx) == 0 {
		return false
	}
	found := false
	allInstrs(sc, func(in ssa.Instruction) {
		c2, ok := in.(*ssa.Call)
		if !ok {
			return
		}
		for _, m := range []string{"Result", "ContextPosition", "ContextSize"} {
			if recv, is := isMethodCall(c2, m); is && ctx[recv] {
				found = true
			}
		}
		if sc2 := staticCallee(c2); sc2 != nil && fnPkgKey(sc2) == "exec" && helperReadsContext(sc2, c2, sc, depth+1) {
			found = true
		}
	})
	return found
}
