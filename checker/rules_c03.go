package main

import (
	"fmt"
	"go/token"
	"go/types"
	"sort"
	"strings"

	"golang.org/x/tools/go/ssa"
)

func init() {
	register("C03", checkC03)
	notDecided["C03"] = "commutativity/associativity/idempotence of union and the counting identity as input/output statements (they follow from 'forward-sorted, duplicate-free, unique positions', which is what the rules establish); uniqueness of positions is decided under C10."
}

// valueNormalised: v is the result of sort+dedupe in the given direction (dir>0 forward, <0 backward, 0 any).
func (w *World) valueNormalised(v ssa.Value, dir int, depth int) (bool, string) {
	ef := w.ExecFacts()
	v = stripConv(v)
	if depth > 5 {
		return false, "value flow too deep"
	}
	switch x := v.(type) {
	case *ssa.Phi:
		for _, e := range x.Edges {
			if ok, why := w.valueNormalised(e, dir, depth+1); !ok {
				return false, why
			}
		}
		return true, ""
	case *ssa.Call:
		sc := staticCallee(x)
		if sc == nil {
			return false, "value comes from a dynamic call"
		}
		if n := ef.Normalisers[sc]; n != nil {
			if dir > 0 && !n.Forward {
				return false, "normalised in reverse document order by " + sc.Name()
			}
			if dir < 0 && n.Forward {
				return false, "normalised in document order by " + sc.Name() + " where reverse order is required"
			}
			return true, ""
		}
		for _, n := range ef.Normalisers {
			if n.Dedupe == sc && len(x.Call.Args) == 1 {
				return w.valueNormalised(x.Call.Args[0], dir, depth+1)
			}
		}
		if fnPkgKey(sc) == "exec" {
			// every return of the callee is normalised, treating its parameters as opaque
			ok, why := true, ""
			n := 0
			allInstrs(sc, func(in ssa.Instruction) {
				if ret, isRet := in.(*ssa.Return); isRet && len(ret.Results) >= 1 {
					n++
					if ok2, why2 := w.valueNormalised(ret.Results[0], dir, depth+1); !ok2 {
						ok, why = false, why2
					}
				}
			})
			if n == 0 {
				return false, "callee has no return"
			}
			return ok, why
		}
		return false, "value is the result of " + funcFullName(sc) + ", not of sort+dedupe"
	}
	return false, fmt.Sprintf("value (%T) did not pass through sort+dedupe", v)
}

func checkC03(w *World) {
	const P = "C03"
	f := w.Facts()
	r := w.Roles()
	ef := w.ExecFacts()
	for _, e := range append(append([]string{}, r.err...), ef.err...) {
		w.undecided(P, "R00.roles", "role resolution: "+e, 0, e)
	}
	// R03.1
	docRule(P, "R03.1", "P", "every axis selector of the axis dispatch returns only values that passed through a sort+dedupe normaliser (document order or reverse document order, never unsorted concatenations): node-sets built from several context nodes would otherwise contain duplicates and mixed-order runs.")
	if ef.Axis != nil {
		var axes []string
		for n := range ef.Axis.Arms {
			axes = append(axes, n)
		}
		sort.Strings(axes)
		for _, n := range axes {
			arm := ef.Axis.Arms[n]
			if arm.Callee == nil {
				continue
			}
			ok, why := w.returnsNormalised(arm.Callee, 0, 0)
			w.check(P, "R03.1", "selector of axis "+n, arm.Callee.Pos(), ok, fmt.Sprintf("%s: %s", arm.Callee.Name(), orOK(why)))
		}
	}
	w.floor(P, "R03.1", 12)

	// R03.2
	docRule(P, "R03.2", "D+T", "inside each normaliser the sort call precedes the dedupe of the same slice; the sort type's Less is a strict comparison of a[i].Pos() with a[j].Pos(); the dedupe keeps an element iff its Pos() differs from the last kept one (same key as the sort), and always keeps the first.")
	var ns []*Normaliser
	for _, n := range ef.Normalisers {
		ns = append(ns, n)
	}
	sort.Slice(ns, func(i, j int) bool { return ns[i].Fn.Name() < ns[j].Fn.Name() })
	dirs := map[bool]int{}
	for _, n := range ns {
		dirs[n.Forward]++
		w.check(P, "R03.2", "normaliser "+n.Fn.Name(), n.Fn.Pos(), true, fmt.Sprintf("sort.Sort(%s) dominates dedupe %s; Less is strict on Pos(); forward=%v", n.SortTyp.Obj().Name(), n.Dedupe.Name(), n.Forward))
		ok, why := w.dedupeShape(n.Dedupe)
		w.check(P, "R03.2", "dedupe used by "+n.Fn.Name(), n.Dedupe.Pos(), ok, why)
	}
	w.check(P, "R03.2", "a forward and a backward normaliser exist", 0, dirs[true] >= 1 && dirs[false] >= 1, fmt.Sprintf("forward: %d, backward: %d (sort types whose Less is not a strict Pos() comparison are not recognised as normalisers: %v)", dirs[true], dirs[false], ef.err))
	w.floor(P, "R03.2", 5)

	// R03.3 union
	docRule(P, "R03.3", "P+D", "the union handler requires both operands to be node-sets (error otherwise) and stores only a value that passed through the forward normaliser: a union is in document order and duplicate-free.")
	if h := f.Handlers["UnionExprUnion"]; h != nil {
		nAssert := 0
		allInstrs(h.Fn, func(in ssa.Instruction) {
			if ta, ok := in.(*ssa.TypeAssert); ok && ta.CommaOk && types.Identical(ta.AssertedType, r.NodeSet) {
				nAssert++
			}
		})
		w.check(P, "R03.3", "union operands are type-tested", h.Fn.Pos(), nAssert >= 2, fmt.Sprintf("%d comma-ok assertions to NodeSet", nAssert))
		nStore := 0
		allInstrs(h.Fn, func(in ssa.Instruction) {
			st, ok := in.(*ssa.Store)
			if !ok {
				return
			}
			fa, ok := st.Addr.(*ssa.FieldAddr)
			if !ok || fa.Field != r.CtxResultField {
				return
			}
			nStore++
			ok2, why := w.valueNormalised(st.Val, 1, 0)
			w.check(P, "R03.3", "union result", st.Pos(), ok2, orOK(why))
		})
		if nStore == 0 {
			w.undecided(P, "R03.3", "union result", h.Fn.Pos(), "no store to the context result found")
		}
	} else {
		w.check(P, "R03.3", "union handler", 0, false, "no handler for UnionExprUnion")
	}
	w.floor(P, "R03.3", 2)

	// R03.4 filters preserve order
	docRule(P, "R03.4", "F", "node tests and predicates are filters: the node-set they store is built only by appending elements of the incoming node-set inside one ascending loop over it (order and uniqueness are inherited, nothing foreign is added).")
	var filterNTs []string
	for nt := range f.Handlers {
		if nt == "Predicate" || len(nt) > 8 && (nt[:8] == "NameTest" || nt[:8] == "NodeTest") && nt != "NodeTestAndPredicate" {
			filterNTs = append(filterNTs, nt)
		}
	}
	sort.Strings(filterNTs)
	done := map[*ssa.Function]bool{}
	for _, nt := range filterNTs {
		h := f.Handlers[nt]
		for _, fn := range w.handlerClosureH(h) {
			if done[fn] {
				continue
			}
			done[fn] = true
			w.filterLoops(P, fn, r)
		}
	}
	w.floorSites(P, "R03.4", 6)
	// R03.5 concatenations stored by handlers
	docRule(P, "R03.5", "P", "a node-set that a handler stores as the context result after concatenating several node-sets (append of a slice with ...) passed through the forward normaliser on every path; the union builds its concatenation in a slice allocated by the handler (appending onto an operand would reorder the caller's variable).")
	n5 := 0
	doneH := map[*ssa.Function]bool{}
	var hnts []string
	for nt := range f.Handlers {
		hnts = append(hnts, nt)
	}
	sort.Strings(hnts)
	for _, nt := range hnts {
		for _, fn := range w.handlerClosureH(f.Handlers[nt]) {
			if doneH[fn] || len(fn.Params) == 0 {
				continue
			}
			doneH[fn] = true
			for _, st := range resultStores(fn, r) {
				var isConcat func(v ssa.Value, depth int) bool
				isConcat = func(v ssa.Value, depth int) bool {
					c, ok := v.(*ssa.Call)
					if !ok {
						return false
					}
					// a helper of the package that concatenates and hands the result back
					if g := staticCallee(c); g != nil && fnPkgKey(g) == "exec" && depth < 2 && len(g.Blocks) > 0 {
						found := false
						allInstrs(g, func(in ssa.Instruction) {
							if ret, isRet := in.(*ssa.Return); isRet && len(ret.Results) == 1 {
								if sliceContains(ret.Results[0], func(x ssa.Value) bool { return isConcat(x, depth+1) }) {
									found = true
								}
							}
						})
						return found
					}
					b, ok := c.Call.Value.(*ssa.Builtin)
					if !ok || b.Name() != "append" || !types.Identical(c.Type(), r.NodeSet) && !isCursorSlice(c.Type(), r) {
						return false
					}
					// appending a whole slice (not a one-element varargs array)
					if sl, ok := c.Call.Args[1].(*ssa.Slice); ok {
						if _, isAlloc := sl.X.(*ssa.Alloc); isAlloc {
							return false
						}
					}
					if depth > 0 {
						// inside a helper: only the concatenation of node-sets the helper was handed (a parameter, or an
						// element of a parameter), not of what it computes itself (an axis selector has its own order)
						fromParam := false
						backSlice(c.Call.Args[1], func(x ssa.Value) bool {
							if _, isCall := x.(*ssa.Call); isCall {
								return false
							}
							if _, isP := x.(*ssa.Parameter); isP {
								fromParam = true
							}
							return true
						})
						return fromParam
					}
					return true
				}
				concat := sliceContains(st.Val, func(v ssa.Value) bool { return isConcat(v, 0) })
				if !concat {
					continue
				}
				n5++
				ok, why := w.valueNormalised(st.Val, 1, 0)
				w.check(P, "R03.5", "concatenated node-set stored by "+fn.Name(), st.Pos(), ok, orOK(why))
			}
		}
	}
	if h := f.Handlers["UnionExprUnion"]; h != nil {
		allInstrs(h.Fn, func(in ssa.Instruction) {
			c, ok := in.(*ssa.Call)
			if !ok {
				return
			}
			b, ok := c.Call.Value.(*ssa.Builtin)
			if !ok || b.Name() != "append" {
				return
			}
			base := c.Call.Args[0]
			local := false
			seen := map[ssa.Value]bool{}
			var isLocal func(v ssa.Value) bool
			isLocal = func(v ssa.Value) bool {
				if seen[v] {
					return true
				}
				seen[v] = true
				switch x := v.(type) {
				case *ssa.MakeSlice:
					return true
				case *ssa.Slice:
					_, isAlloc := x.X.(*ssa.Alloc)
					return isAlloc
				case *ssa.Call:
					if bb, ok := x.Call.Value.(*ssa.Builtin); ok && bb.Name() == "append" {
						return isLocal(x.Call.Args[0])
					}
				case *ssa.Phi:
					for _, e := range x.Edges {
						if !isLocal(e) {
							return false
						}
					}
					return true
				}
				return false
			}
			local = isLocal(base)
			n5++
			w.check(P, "R03.5", "union concatenates into its own slice", c.Pos(), local, fmt.Sprintf("the slice appended to was allocated by the handler: %v", local))
		})
	}
	w.floorSites(P, "R03.5", 3)
	// R03.6 node-sets are never modified in place
	docRule(P, "R03.6", "F", "no function of the evaluator writes into a node-set it did not allocate itself: every append to, element store into, copy into or sort of a NodeSet (or []store.Cursor) has a first argument that originates only from a make/composite literal/append chain local to the function (a node-set received through the context, a parameter or a variable is shared with the caller, with sibling contexts of a predicate loop and with the bound variable; filtering it in place with s[:0] corrupts them).")
	eff := w.Effects()
	cg := w.CallGraph()
	isNS := func(t types.Type) bool {
		if p, ok := t.Underlying().(*types.Pointer); ok {
			t = p.Elem()
		}
		sl, ok := t.Underlying().(*types.Slice)
		if !ok {
			return false
		}
		return types.Identical(t, r.NodeSet) || types.Identical(sl.Elem(), r.Cursor)
	}
	// foreignAt: the non-local origins of v in fn; an origin that is a parameter of fn is pushed to every caller.
	var foreignAt func(fn *ssa.Function, v ssa.Value, seen map[string]bool) []string
	foreignAt = func(fn *ssa.Function, v ssa.Value, seen map[string]bool) []string {
		var out []string
		// the slice kept in a field of an accumulator object of the package: local iff every store into that field,
		// anywhere in the package, is a make, or an append to / a re-slice of the field itself
		if w.accumulatorField(v) {
			return nil
		}
		for t := range eff.newOriginCtx(fn).origin(v) {
			if t == "L" {
				continue
			}
			var k int
			if n, _ := fmt.Sscanf(t, "P%d", &k); n == 1 && !strings.HasSuffix(t, "*") && k < len(fn.Params) {
				key := fmt.Sprintf("%s#%d", fn.String(), k)
				if seen[key] {
					continue
				}
				seen[key] = true
				node := cg.Nodes[fn]
				if node == nil || len(node.In) == 0 {
					out = append(out, "parameter "+fn.Params[k].Name()+" of "+fn.Name()+" (no caller found)")
					continue
				}
				for _, e := range node.In {
					if !inRepo(e.Caller.Func) {
						out = append(out, "parameter "+fn.Params[k].Name()+" of "+fn.Name()+" (called from outside the repository: "+e.Caller.Func.String()+")")
						continue
					}
					args := callArgs(e.Site)
					if k >= len(args) {
						continue
					}
					for _, f2 := range foreignAt(e.Caller.Func, args[k], seen) {
						out = append(out, f2+" via "+e.Caller.Func.Name()+"->"+fn.Name())
					}
				}
				continue
			}
			out = append(out, t+" in "+fn.Name())
		}
		sort.Strings(out)
		return out
	}
	sortIface := func(fn *ssa.Function) bool { // Len/Less/Swap of a sort.Interface implementation: covered by the sort.Sort site
		if fn.Signature.Recv() == nil {
			return false
		}
		switch fn.Name() {
		case "Len", "Less", "Swap":
			return true
		}
		return false
	}
	w.forAllFuncs("exec", func(fn *ssa.Function) {
		if sortIface(fn) {
			return
		}
		site := func(pos token.Pos, what string, target ssa.Value) {
			if !isNS(target.Type()) {
				return
			}
			foreign := foreignAt(fn, target, map[string]bool{})
			w.check(P, "R03.6", what+" in "+fn.Name(), pos, len(foreign) == 0, fmt.Sprintf("target originates from memory not allocated by the evaluation: %v", foreign))
		}
		allInstrs(fn, func(in ssa.Instruction) {
			switch x := in.(type) {
			case *ssa.Store:
				if ia, ok := x.Addr.(*ssa.IndexAddr); ok {
					if _, isArr := ia.X.Type().Underlying().(*types.Pointer); !isArr {
						site(x.Pos(), "element store", ia.X)
					}
				}
			case *ssa.Call:
				if b, ok := x.Call.Value.(*ssa.Builtin); ok {
					if (b.Name() == "append" || b.Name() == "copy") && len(x.Call.Args) > 0 {
						site(x.Pos(), b.Name(), x.Call.Args[0])
					}
					return
				}
				if sc := staticCallee(x); sc != nil && sc.Pkg != nil && sc.Pkg.Pkg.Path() == "sort" && len(x.Call.Args) > 0 {
					a := x.Call.Args[0]
					if mi, ok := a.(*ssa.MakeInterface); ok {
						a = mi.X
					}
					if ct, ok := a.(*ssa.ChangeType); ok {
						a = ct.X
					}
					site(x.Pos(), "sort."+sc.Name(), a)
				}
			}
		})
	})
	w.floorSites(P, "R03.6", 20)
	// abbreviated steps (@, .., //, implicit child) collect only through the normalising selectors
	w.include(P, "C01", "R01.4")
	// two nodes are duplicates when their positions are equal: every node must get a position of its own
	w.include(P, "C10", "R10.4", "R10.10")
}

// dedupeShape: fn(slice) returns a slice to which elements of the input are appended under Pos() != Pos()
// of the last kept element, the first element unconditionally.
func (w *World) dedupeShape(fn *ssa.Function) (bool, string) {
	neq := 0
	bad := ""
	allInstrs(fn, func(in ssa.Instruction) {
		ifi, ok := in.(*ssa.If)
		if !ok {
			return
		}
		bo, ok := ifi.Cond.(*ssa.BinOp)
		if !ok {
			return
		}
		_, okx := isMethodCall(bo.X, "Pos")
		_, oky := isMethodCall(bo.Y, "Pos")
		if !okx || !oky {
			return
		}
		// the true edge of != (or the false edge of ==) must lead to an append
		var keep *ssa.BasicBlock
		switch bo.Op {
		case token.NEQ:
			keep = ifi.Block().Succs[0]
		case token.EQL:
			keep = ifi.Block().Succs[1]
		default:
			bad = "neighbours compared with " + bo.Op.String() + " instead of (in)equality"
			return
		}
		hasAppend := false
		for _, i2 := range keep.Instrs {
			if c, ok := i2.(*ssa.Call); ok {
				if b, ok := c.Call.Value.(*ssa.Builtin); ok && b.Name() == "append" {
					hasAppend = true
				}
			}
		}
		if hasAppend {
			neq++
		} else {
			bad = "the element is kept on the equal-position branch"
		}
	})
	if bad != "" {
		return false, bad
	}
	if neq == 0 {
		return false, "no `keep iff Pos() differs from the last kept` test found in " + fn.Name()
	}
	return true, fmt.Sprintf("%s keeps an element iff its Pos() differs from the last kept element's", fn.Name())
}

// filterLoops checks every append to a NodeSet-typed slice in fn.
func (w *World) filterLoops(P string, fn *ssa.Function, r *Roles) {
	type keepSite struct {
		call *ssa.Call
		idx  ssa.Value
	}
	var keeps []keepSite
	allInstrs(fn, func(in ssa.Instruction) {
		c, ok := in.(*ssa.Call)
		if !ok {
			return
		}
		b, ok := c.Call.Value.(*ssa.Builtin)
		if !ok || b.Name() != "append" || len(c.Call.Args) != 2 {
			return
		}
		if !types.Identical(c.Type(), r.NodeSet) {
			return
		}
		// appended elements: the varargs array
		sl, ok := c.Call.Args[1].(*ssa.Slice)
		if !ok {
			w.check(P, "R03.4", "filter append in "+fn.Name(), c.Pos(), false, "appends a whole slice, not single elements of the input")
			return
		}
		al, ok := sl.X.(*ssa.Alloc)
		if !ok {
			w.check(P, "R03.4", "filter append in "+fn.Name(), c.Pos(), false, "appends a slice of unknown origin")
			return
		}
		good := true
		why := "appends the loop element of the incoming node-set"
		for _, st := range storesInto(al) {
			v := st.Val
			ld, ok := v.(*ssa.UnOp)
			if !ok {
				good, why = false, "appended value is not an element of the incoming node-set"
				continue
			}
			ia, ok := ld.X.(*ssa.IndexAddr)
			if !ok {
				good, why = false, "appended value is not an element of the incoming node-set"
				continue
			}
			// base must be the NodeSet asserted from the context result
			base := ia.X
			if !w.isIncomingNodeSet(base, fn, r, 0) {
				good, why = false, "appended element comes from a slice that is not the incoming node-set"
			}
			// index must be an ascending loop counter: phi(-1|0, idx+1)
			if !ascendingCounter(ia.Index) {
				good, why = false, "the loop over the incoming node-set is not an ascending index loop"
			}
		}
		w.check(P, "R03.4", "filter append in "+fn.Name(), c.Pos(), good, why)
		if good {
			for _, st := range storesInto(al) {
				if ld, ok := st.Val.(*ssa.UnOp); ok {
					if ia, ok := ld.X.(*ssa.IndexAddr); ok {
						keeps = append(keeps, keepSite{c, ia.Index})
					}
				}
			}
		}
	})
	// an element is kept at most once: no path of one iteration passes two appends of the same loop element
	for i, a := range keeps {
		for j, b := range keeps {
			if i == j || a.idx != b.idx {
				continue
			}
			var header *ssa.BasicBlock
			switch x := a.idx.(type) {
			case *ssa.Phi:
				header = x.Block()
			case *ssa.BinOp:
				if ph, ok := x.X.(*ssa.Phi); ok {
					header = ph.Block()
				}
			}
			if header == nil {
				continue
			}
			twice := false
			if a.call.Block() == b.call.Block() {
				twice = instrIndex(a.call) < instrIndex(b.call)
			} else {
				seen := map[*ssa.BasicBlock]bool{}
				var walk func(x *ssa.BasicBlock)
				walk = func(x *ssa.BasicBlock) {
					if seen[x] || x == header {
						return
					}
					seen[x] = true
					if x == b.call.Block() {
						twice = true
						return
					}
					for _, sc := range x.Succs {
						walk(sc)
					}
				}
				for _, sc := range a.call.Block().Succs {
					walk(sc)
				}
			}
			if twice && kindExclusive(a.call.Block(), b.call.Block()) {
				twice = false // the two appends sit under tests for node kinds that no node has together
			}
			if twice {
				w.check(P, "R03.4", "an element is kept at most once in "+fn.Name(), b.call.Pos(), false, fmt.Sprintf("the append at %s is followed, in the same iteration, by a second append of the same element: a node that passes both tests is in the result twice", w.pos(a.call.Pos())))
			}
		}
	}
}

func ascendingCounter(v ssa.Value) bool {
	// range loops: idx = phi(-1, idx+1) + 1 ; for loops: phi(0, idx+1)
	if bo, ok := v.(*ssa.BinOp); ok && bo.Op == token.ADD {
		if k, ok := constInt(bo.Y); ok && k == 1 {
			v = bo.X
		}
	}
	phi, ok := v.(*ssa.Phi)
	if !ok {
		return false
	}
	okInit, okStep := false, false
	for _, e := range phi.Edges {
		if k, ok := constInt(e); ok && (k == -1 || k == 0) {
			okInit = true
			continue
		}
		if bo, ok := e.(*ssa.BinOp); ok && bo.Op == token.ADD {
			if k, ok := constInt(bo.Y); ok && k == 1 && bo.X == ssa.Value(phi) {
				okStep = true
				continue
			}
		}
		return false
	}
	return okInit && okStep
}

// isIncomingNodeSet: v is the context result asserted to a node-set, or a parameter of a filter driver for which every
// caller in the package passes such a value.
func (w *World) isIncomingNodeSet(v ssa.Value, fn *ssa.Function, r *Roles, depth int) bool {
	if ex, ok := v.(*ssa.Extract); ok {
		ta, ok := ex.Tuple.(*ssa.TypeAssert)
		return ok && types.Identical(ta.AssertedType, r.NodeSet)
	}
	p, ok := v.(*ssa.Parameter)
	if !ok || depth > 2 {
		return false
	}
	idx := -1
	for i, x := range fn.Params {
		if x == p {
			idx = i
		}
	}
	sites := w.callersOf(fn)
	if idx < 0 || len(sites) == 0 {
		return false
	}
	for _, site := range sites {
		if idx >= len(site.Call.Args) || !w.isIncomingNodeSet(site.Call.Args[idx], site.Parent(), r, depth+1) {
			return false
		}
	}
	return true
}

// accumulatorField: v is (a re-slice of) the value loaded from field F of a struct type T declared in package exec, and
// every store into T.F in the package keeps the invariant "a slice allocated by the evaluator": the stored value is a
// make, a composite literal, or an append to / re-slice of a value loaded from T.F itself (appending elements never
// makes the backing array foreign).
func (w *World) accumulatorField(v ssa.Value) bool {
	field := func(x ssa.Value) (*types.Struct, int, bool) {
		for i := 0; i < 4; i++ {
			switch y := x.(type) {
			case *ssa.Slice:
				x = y.X
				continue
			case *ssa.ChangeType:
				x = y.X
				continue
			}
			break
		}
		ld, ok := x.(*ssa.UnOp)
		if !ok || ld.Op != token.MUL {
			return nil, 0, false
		}
		fa, ok := ld.X.(*ssa.FieldAddr)
		if !ok {
			return nil, 0, false
		}
		pt, ok := fa.X.Type().Underlying().(*types.Pointer)
		if !ok {
			return nil, 0, false
		}
		n, ok := types.Unalias(pt.Elem()).(*types.Named)
		if !ok || n.Obj().Pkg() == nil || n.Obj().Pkg().Path() != modPath+"/exec" || n.Obj().Exported() {
			return nil, 0, false
		}
		st, ok := n.Underlying().(*types.Struct)
		if !ok {
			return nil, 0, false
		}
		return st, fa.Field, true
	}
	st, f, ok := field(v)
	if !ok {
		return false
	}
	var local func(x ssa.Value, depth int) bool
	local = func(x ssa.Value, depth int) bool {
		if depth > 6 {
			return false
		}
		switch y := x.(type) {
		case *ssa.MakeSlice:
			return true
		case *ssa.Const:
			return y.Value == nil // nil slice
		case *ssa.Slice:
			if _, isAlloc := y.X.(*ssa.Alloc); isAlloc {
				return true // composite literal
			}
			return local(y.X, depth+1)
		case *ssa.ChangeType:
			return local(y.X, depth+1)
		case *ssa.Phi:
			for _, e := range y.Edges {
				if e != ssa.Value(y) && !local(e, depth+1) {
					return false
				}
			}
			return true
		case *ssa.Call:
			if b, isB := y.Call.Value.(*ssa.Builtin); isB && b.Name() == "append" {
				return local(y.Call.Args[0], depth+1)
			}
			return false
		case *ssa.UnOp:
			s2, f2, ok2 := field(y)
			return ok2 && s2 == st && f2 == f
		}
		return false
	}
	n, all := 0, true
	w.forAllFuncs("exec", func(fn *ssa.Function) {
		allInstrs(fn, func(in ssa.Instruction) {
			s, ok := in.(*ssa.Store)
			if !ok {
				return
			}
			fa, ok := s.Addr.(*ssa.FieldAddr)
			if !ok || fa.Field != f {
				return
			}
			pt, ok := fa.X.Type().Underlying().(*types.Pointer)
			if !ok {
				return
			}
			if s2, ok := pt.Elem().Underlying().(*types.Struct); !ok || s2 != st {
				return
			}
			n++
			if !local(s.Val, 0) {
				all = false
			}
		})
	})
	return n > 0 && all
}

// kindClassOf: the node kinds of package node fall into classes no node belongs to two of: named nodes (NamedNode,
// Element, Attribute), namespace, character data, comment, processing instruction.
func kindClassOf(t types.Type) string {
	n, _ := nodeIface(t)
	if n == nil {
		return ""
	}
	switch n.Obj().Name() {
	case "NamedNode", "Element", "Attribute":
		return "named"
	case "Namespace", "CharData", "Comment", "ProcInst":
		return n.Obj().Name()
	}
	return ""
}

// kindExclusive: blocks a and b are reached only under successful assertions of one node to kinds of different
// classes.
func kindExclusive(a, b *ssa.BasicBlock) bool {
	type test struct {
		subject ssa.Value
		class   string
	}
	tests := func(blk *ssa.BasicBlock) []test {
		var out []test
		for _, at := range guardAtoms(blk) {
			ex, ok := at.V.(*ssa.Extract)
			if !ok || ex.Index != 1 || !at.Pol {
				continue
			}
			ta, ok := ex.Tuple.(*ssa.TypeAssert)
			if !ok {
				continue
			}
			cl := kindClassOf(ta.AssertedType)
			if cl == "" {
				continue
			}
			// the asserted value: X.Node() of some cursor X
			subj := ta.X
			if c, isCall := ta.X.(*ssa.Call); isCall && c.Call.IsInvoke() && c.Call.Method.Name() == "Node" {
				subj = c.Call.Value
			}
			out = append(out, test{subj, cl})
		}
		return out
	}
	for _, x := range tests(a) {
		for _, y := range tests(b) {
			if x.subject == y.subject && x.class != y.class {
				return true
			}
		}
	}
	return false
}
