package main

import (
	"go/token"
	"go/types"
	"sort"

	"golang.org/x/tools/go/ssa"
)

// ---------- backward slice ----------

// backSlice visits v and everything it is computed from inside its function: operands, the values
// stored into allocations it reads from, phi edges. visit returning false stops descent below that value.
func backSlice(v ssa.Value, visit func(ssa.Value) bool) {
	seen := map[ssa.Value]bool{}
	var walk func(v ssa.Value)
	walk = func(v ssa.Value) {
		if v == nil || seen[v] {
			return
		}
		seen[v] = true
		if !visit(v) {
			return
		}
		switch x := v.(type) {
		case *ssa.Alloc:
			for _, st := range storesInto(x) {
				walk(st.Val)
			}
			return
		case *ssa.MakeMap:
			// values and keys put into the map in this function
			for _, r := range referrers(x) {
				if mu, ok := r.(*ssa.MapUpdate); ok && mu.Map == ssa.Value(x) {
					walk(mu.Value)
					walk(mu.Key)
				}
			}
			return
		case *ssa.MakeSlice:
			return
		case *ssa.FreeVar:
			// a variable of the enclosing function captured by a function literal: what was bound to it
			if b := freeVarBinding(x); b != nil {
				walk(b)
			}
			return
		}
		if in, ok := v.(ssa.Instruction); ok {
			for _, op := range in.Operands(nil) {
				if *op != nil {
					walk(*op)
				}
			}
		}
	}
	walk(v)
}

// storesInto returns the Store instructions that write through an address derived from alloc
// (the alloc itself, or FieldAddr/IndexAddr chains on it).
func storesInto(a ssa.Value) []*ssa.Store {
	var out []*ssa.Store
	seen := map[ssa.Value]bool{}
	var walk func(addr ssa.Value)
	walk = func(addr ssa.Value) {
		if seen[addr] {
			return
		}
		seen[addr] = true
		for _, r := range referrers(addr) {
			switch x := r.(type) {
			case *ssa.Store:
				if x.Addr == addr {
					out = append(out, x)
				}
			case *ssa.FieldAddr:
				if x.X == addr {
					walk(x)
				}
			case *ssa.IndexAddr:
				if x.X == addr {
					walk(x)
				}
			}
		}
	}
	walk(a)
	return out
}

// sliceContains: does the backward slice of v contain a value satisfying pred?
func sliceContains(v ssa.Value, pred func(ssa.Value) bool) bool {
	found := false
	backSlice(v, func(x ssa.Value) bool {
		if found {
			return false
		}
		if pred(x) {
			found = true
			return false
		}
		return true
	})
	return found
}

// isFieldLoad: v is a load of field idx of a *struct value (any base).
func isFieldLoad(v ssa.Value, st *types.Named, idx int) bool {
	u, ok := v.(*ssa.UnOp)
	if !ok || u.Op != token.MUL {
		return false
	}
	fa, ok := u.X.(*ssa.FieldAddr)
	if !ok || fa.Field != idx {
		return false
	}
	pt, ok := fa.X.Type().Underlying().(*types.Pointer)
	return ok && types.Identical(pt.Elem(), st)
}

// ---------- axis dispatch, selectors, normalisers ----------

type AxisArm struct {
	Name     string
	Callee   *ssa.Function
	Pos      token.Pos
	Fields   map[int]ssa.Value // table-of-records form: the values of the record's fields
	SelField int
}

type AxisTable struct {
	Lookup     *ssa.Lookup // table-driven form: the lookup of the axis name
	Handler    *ssa.Function
	Arms       map[string]*AxisArm
	DefaultOK  bool // default arm leaves the result untouched (returns without storing)
	DefaultWhy string
	err        []string
}

type Normaliser struct {
	Fn      *ssa.Function
	Forward bool
	Dedupe  *ssa.Function
	SortTyp *types.Named
}

// normShape describes a function that sorts one of its slice parameters and returns it deduplicated.
type normShape struct {
	DirParam   int // index of the sort.Interface parameter that carries the ordering, -1 when the ordering is fixed
	Dir        int // +1 ascending Pos(), -1 descending (when fixed)
	SliceParam int
	SortTyp    *types.Named
	Dedupe     *ssa.Function
	Err        string
	// FuncDir: index+1 of the parameter (a function of two cursors) that carries the ordering: the sort type is a
	// struct holding the slice and that function, and its Less applies the function to elements i and j
	FuncDir int
}

var normShapeCache = map[*ssa.Function]*normShape{}

// normShape analyses fn: (A) sort.Sort(T(p)) with a named sort type T over parameter p, every return is dedupe(..p..)
// after the sort; (B) sort.Sort(order) with `order` a sort.Interface parameter, every return dedupe(..p..); (C) every
// return is a call of a function of shape A/B with fn's parameter (and, for B, T(p)) handed on.
func (w *World) normShape(fn *ssa.Function, depth int) *normShape {
	if sh, ok := normShapeCache[fn]; ok {
		return sh
	}
	normShapeCache[fn] = nil
	if depth > 3 || len(fn.Blocks) == 0 || fn.Signature.Results().Len() != 1 {
		return nil
	}
	paramIdx := func(v ssa.Value) int {
		v = stripConv(v)
		for i, p := range fn.Params {
			if ssa.Value(p) == v {
				return i
			}
		}
		return -1
	}
	// the dedupe chain: calls of one-argument functions of the package around a parameter
	var chain func(v ssa.Value) (int, *ssa.Function)
	chain = func(v ssa.Value) (int, *ssa.Function) {
		c, ok := stripConv(v).(*ssa.Call)
		if !ok {
			return -1, nil
		}
		sc := staticCallee(c)
		if sc == nil || fnPkgKey(sc) != "exec" || len(c.Call.Args) != 1 {
			return -1, nil
		}
		if k := paramIdx(c.Call.Args[0]); k >= 0 {
			return k, sc
		}
		if k, inner := chain(c.Call.Args[0]); k >= 0 {
			return k, inner
		}
		return -1, nil
	}
	var rets []*ssa.Return
	var sorts []*ssa.Call
	allInstrs(fn, func(in ssa.Instruction) {
		switch x := in.(type) {
		case *ssa.Return:
			rets = append(rets, x)
		case *ssa.Call:
			if sc := staticCallee(x); sc != nil && funcFullName(sc) == "sort.Sort" && len(x.Call.Args) == 1 {
				sorts = append(sorts, x)
			}
		}
	})
	if len(rets) == 0 {
		return nil
	}
	if len(sorts) == 1 {
		sc := sorts[0]
		sh := &normShape{DirParam: -1, SliceParam: -1}
		arg := sc.Call.Args[0]
		// sort.Sort(sort.Reverse(T(p))): the opposite direction of T
		reversed := false
		if rc, ok := arg.(*ssa.Call); ok && staticCallee(rc) != nil && funcFullName(staticCallee(rc)) == "sort.Reverse" && len(rc.Call.Args) == 1 {
			arg = rc.Call.Args[0]
			reversed = true
		}
		if mi, ok := arg.(*ssa.MakeInterface); ok && structSortLiteral(mi.X) != nil {
			al := structSortLiteral(mi.X)
			st := mi.X.Type().(*types.Named)
			sliceField, funcField, swapped, okL := w.lessDelegates(st)
			if !okL {
				return nil
			}
			ks, kf := -1, -1
			for _, stv := range storesInto(al) {
				fa, isFA := stv.Addr.(*ssa.FieldAddr)
				if !isFA || fa.X != ssa.Value(al) {
					continue
				}
				if fa.Field == sliceField {
					ks = paramIdx(stv.Val)
				}
				if fa.Field == funcField {
					kf = paramIdx(stv.Val)
				}
			}
			if ks < 0 || kf < 0 || reversed {
				return nil
			}
			sh.SliceParam, sh.SortTyp, sh.FuncDir = ks, st, kf+1
			if swapped {
				sh.FuncDir = -(kf + 1)
			}
		} else if mi, ok := arg.(*ssa.MakeInterface); ok {
			st, isNamed := mi.X.Type().(*types.Named)
			k := paramIdx(mi.X)
			if !isNamed || k < 0 {
				return nil
			}
			dir, derr := w.lessDirection(st)
			if derr != "" {
				sh.Err = "sort type " + st.Obj().Name() + ": " + derr
				normShapeCache[fn] = sh
				return sh
			}
			if reversed {
				dir = -dir
			}
			sh.Dir, sh.SortTyp, sh.SliceParam = dir, st, k
		} else if k := paramIdx(arg); k >= 0 {
			if _, isIface := fn.Params[k].Type().Underlying().(*types.Interface); !isIface {
				return nil
			}
			sh.DirParam = k
		} else {
			return nil
		}
		// a struct sort type holding the slice and a comparison function that arrives as a parameter
		if mi, ok := arg.(*ssa.MakeInterface); ok && sh.SortTyp == nil && sh.DirParam < 0 {
			_ = mi
		}
		for _, ret := range rets {
			k, d := chain(ret.Results[0])
			if k < 0 || d == nil {
				return nil
			}
			if sh.SliceParam >= 0 && k != sh.SliceParam {
				return nil
			}
			sh.SliceParam = k
			// the sort comes first
			dc := stripConv(ret.Results[0]).(*ssa.Call)
			if !(sc.Block() == dc.Block() && instrIndex(sc) < instrIndex(dc)) && !(sc.Block() != dc.Block() && sc.Block().Dominates(dc.Block())) {
				// the innermost call may sit in another block: accept domination of the return
				if !sc.Block().Dominates(ret.Block()) {
					return nil
				}
			}
			sh.Dedupe = d
		}
		normShapeCache[fn] = sh
		return sh
	}
	if len(sorts) == 0 {
		// wrapper: every return hands the parameter to a function of known shape
		var sh *normShape
		for _, ret := range rets {
			c, ok := stripConv(ret.Results[0]).(*ssa.Call)
			if !ok {
				return nil
			}
			g := staticCallee(c)
			if g == nil || fnPkgKey(g) != "exec" || g == fn {
				return nil
			}
			gs := w.normShape(g, depth+1)
			if gs == nil || gs.Err != "" || gs.SliceParam >= len(c.Call.Args) {
				return nil
			}
			k := paramIdx(c.Call.Args[gs.SliceParam])
			if k < 0 {
				return nil
			}
			cur := &normShape{DirParam: -1, Dir: gs.Dir, SliceParam: k, SortTyp: gs.SortTyp, Dedupe: gs.Dedupe}
			if gs.FuncDir != 0 {
				fi := gs.FuncDir
				if fi < 0 {
					fi = -fi
				}
				fi--
				if fi >= len(c.Call.Args) {
					return nil
				}
				cmp, isFn := stripConv(c.Call.Args[fi]).(*ssa.Function)
				if !isFn {
					return nil
				}
				dir := posComparison(cmp)
				if dir == 0 {
					return nil
				}
				if gs.FuncDir < 0 {
					dir = -dir
				}
				cur.Dir = dir
			}
			if gs.DirParam >= 0 {
				if gs.DirParam >= len(c.Call.Args) {
					return nil
				}
				mi, ok := c.Call.Args[gs.DirParam].(*ssa.MakeInterface)
				if !ok {
					return nil
				}
				st, isNamed := mi.X.Type().(*types.Named)
				if !isNamed || paramIdx(mi.X) != k {
					return nil
				}
				dir, derr := w.lessDirection(st)
				if derr != "" {
					return nil
				}
				cur.Dir, cur.SortTyp = dir, st
			}
			if sh != nil && (sh.Dir != cur.Dir || sh.SliceParam != cur.SliceParam) {
				return nil
			}
			sh = cur
		}
		normShapeCache[fn] = sh
		return sh
	}
	return nil
}

type ExecFacts struct {
	Axis        *AxisTable
	Normalisers map[*ssa.Function]*Normaliser
	Selectors   map[*ssa.Function][]string // selector function -> axis names it serves
	err         []string
}

var execFactsCache *ExecFacts

func (w *World) ExecFacts() *ExecFacts {
	if execFactsCache != nil {
		return execFactsCache
	}
	ef := &ExecFacts{Normalisers: map[*ssa.Function]*Normaliser{}, Selectors: map[*ssa.Function][]string{}}
	execFactsCache = ef
	f := w.Facts()
	r := w.Roles()
	// normalisers: functions of exec that sort (a conversion of) a slice parameter with a sort type of known direction
	// and return it through the dedupe, directly or through a shared helper that receives the ordering as a value
	p := w.SSA["exec"]
	var names []string
	for name := range p.Members {
		names = append(names, name)
	}
	sort.Strings(names)
	for _, name := range names {
		fn, ok := p.Members[name].(*ssa.Function)
		if !ok {
			continue
		}
		sh := w.normShape(fn, 0)
		if sh == nil || sh.DirParam >= 0 || sh.Err != "" {
			if sh != nil && sh.Err != "" {
				ef.err = append(ef.err, sh.Err)
			}
			continue
		}
		ef.Normalisers[fn] = &Normaliser{Fn: fn, Forward: sh.Dir > 0, SortTyp: sh.SortTyp, Dedupe: sh.Dedupe}
	}
	// axis dispatch
	if h := f.Handlers["AxisName"]; h != nil {
		ef.Axis = w.extractAxisTable(h.Fn, r)
	} else {
		ef.err = append(ef.err, "no handler for AxisName")
	}
	if ef.Axis != nil {
		for name, arm := range ef.Axis.Arms {
			if arm.Callee != nil {
				ef.Selectors[arm.Callee] = append(ef.Selectors[arm.Callee], name)
			}
		}
		for _, s := range ef.Selectors {
			sort.Strings(s)
		}
	}
	return ef
}

func instrIndex(in ssa.Instruction) int {
	for i, x := range in.Block().Instrs {
		if x == in {
			return i
		}
	}
	return -1
}

// lessDirection: +1 when Less(i,j) is a[i].Pos() < a[j].Pos() (ascending), -1 when >, after normalising
// operand order; "" error otherwise (non-strict comparison, other key).
func (w *World) lessDirection(t *types.Named) (int, string) {
	var less *ssa.Function
	ms := w.Prog.MethodSets.MethodSet(t)
	for i := 0; i < ms.Len(); i++ {
		if ms.At(i).Obj().Name() == "Less" {
			less = w.Prog.MethodValue(ms.At(i))
		}
	}
	if less == nil || len(less.Params) != 3 {
		return 0, "no Less method"
	}
	var res int
	msg := "no comparison of Pos() values returned"
	allInstrs(less, func(in ssa.Instruction) {
		ret, ok := in.(*ssa.Return)
		if !ok || len(ret.Results) != 1 {
			return
		}
		bo, ok := ret.Results[0].(*ssa.BinOp)
		if !ok {
			msg = "Less does not return a comparison"
			return
		}
		ix := func(v ssa.Value) int { // which index parameter does this Pos() call use
			recv, ok := isMethodCall(v, "Pos")
			if !ok {
				return 0
			}
			ld, ok := recv.(*ssa.UnOp)
			if !ok {
				return 0
			}
			ia, ok := ld.X.(*ssa.IndexAddr)
			if !ok {
				return 0
			}
			if ia.Index == ssa.Value(less.Params[1]) {
				return 1
			}
			if ia.Index == ssa.Value(less.Params[2]) {
				return 2
			}
			return 0
		}
		a, b := ix(bo.X), ix(bo.Y)
		if a == 0 || b == 0 || a == b {
			msg = "Less does not compare a[i].Pos() with a[j].Pos()"
			return
		}
		op := bo.Op
		if a == 2 { // swapped: a[j] op a[i]  ==  a[i] op' a[j]
			switch op {
			case token.LSS:
				op = token.GTR
			case token.GTR:
				op = token.LSS
			}
		}
		switch op {
		case token.LSS:
			res = 1
		case token.GTR:
			res = -1
		default:
			msg = "Less is not a strict comparison (" + bo.Op.String() + "): equal keys would be reordered unstably and sort.Sort's contract is broken"
		}
	})
	if res == 0 {
		return 0, msg
	}
	return res, ""
}

func (w *World) extractAxisTable(h *ssa.Function, r *Roles) *AxisTable {
	at := &AxisTable{Handler: h, Arms: map[string]*AxisArm{}}
	// the chain of string equality tests on one value
	var tested ssa.Value
	var lastIf *ssa.If
	type cmp struct {
		name string
		ifi  *ssa.If
	}
	var cmps []cmp
	allInstrs(h, func(in ssa.Instruction) {
		ifi, ok := in.(*ssa.If)
		if !ok {
			return
		}
		bo, ok := ifi.Cond.(*ssa.BinOp)
		if !ok || bo.Op != token.EQL {
			return
		}
		s, isStr := constString(bo.Y)
		x := bo.X
		if !isStr {
			s, isStr = constString(bo.X)
			x = bo.Y
		}
		if !isStr {
			return
		}
		if tested == nil {
			tested = x
		}
		if x != tested {
			return
		}
		cmps = append(cmps, cmp{s, ifi})
		lastIf = ifi
	})
	if len(cmps) == 0 {
		if w.axisTableFromMap(h, r, at) {
			return at
		}
	} else {
		// string comparisons that select no selector (they only set the principal node type, say) next to a table of
		// selectors: the table is the dispatch
		anyCall := false
		for _, c := range cmps {
			for _, in := range c.ifi.Block().Succs[0].Instrs {
				if call, ok := in.(*ssa.Call); ok {
					if sc := staticCallee(call); sc != nil && fnPkgKey(sc) == "exec" {
						anyCall = true
					}
				}
			}
		}
		if !anyCall {
			at2 := &AxisTable{Handler: h, Arms: map[string]*AxisArm{}}
			if w.axisTableFromMap(h, r, at2) && len(at2.Arms) > 0 {
				return at2
			}
		}
	}
	for _, c := range cmps {
		body := c.ifi.Block().Succs[0]
		arm := &AxisArm{Name: c.name, Pos: c.ifi.Pos()}
		for _, in := range body.Instrs {
			if call, ok := in.(*ssa.Call); ok {
				if sc := staticCallee(call); sc != nil && fnPkgKey(sc) == "exec" {
					arm.Callee = sc
					arm.Pos = call.Pos()
					break
				}
			}
		}
		if _, dup := at.Arms[c.name]; dup {
			at.err = append(at.err, "axis "+c.name+" tested twice")
		}
		at.Arms[c.name] = arm
	}
	if lastIf != nil {
		def := lastIf.Block().Succs[1]
		// default arm: must return nil error without storing to the result field and without calling a selector
		stores, calls := false, false
		var walk func(b *ssa.BasicBlock, depth int)
		seen := map[*ssa.BasicBlock]bool{}
		walk = func(b *ssa.BasicBlock, depth int) {
			if seen[b] || depth > 3 {
				return
			}
			seen[b] = true
			for _, in := range b.Instrs {
				switch x := in.(type) {
				case *ssa.Store:
					if fa, ok := x.Addr.(*ssa.FieldAddr); ok && fa.Field == r.CtxResultField {
						stores = true
					}
				case *ssa.Call:
					if sc := staticCallee(x); sc != nil && fnPkgKey(sc) == "exec" {
						calls = true
					}
				}
			}
			for _, s := range b.Succs {
				walk(s, depth+1)
			}
		}
		walk(def, 0)
		at.DefaultOK = !stores && !calls
		if !at.DefaultOK {
			at.DefaultWhy = "default arm stores a result or calls a selector"
		}
	}
	return at
}

// mapEntry is one key/value pair of a package-level map literal.
type mapEntry struct {
	Key, Val ssa.Value
	Pos      token.Pos
}

// globalMapLiteral reads the entries of `var g = map[K]V{...}` from the package initialiser (the make and the
// updates go/ssa emits for the literal); ok is false when g is initialised in any other way or updated elsewhere.
func (w *World) globalMapLiteral(g *ssa.Global) ([]mapEntry, bool) {
	if g.Pkg == nil {
		return nil, false
	}
	var mm *ssa.MakeMap
	nStores := 0
	for _, m := range g.Pkg.Members {
		fn, ok := m.(*ssa.Function)
		if !ok {
			continue
		}
		fns := append([]*ssa.Function{fn}, fn.AnonFuncs...)
		for _, f := range fns {
			allInstrs(f, func(in ssa.Instruction) {
				switch x := in.(type) {
				case *ssa.Store:
					if x.Addr == ssa.Value(g) {
						nStores++
						if f.Name() == "init" {
							mm, _ = stripConv(x.Val).(*ssa.MakeMap)
						}
					}
				case *ssa.MapUpdate:
					if ld, ok := x.Map.(*ssa.UnOp); ok && ld.X == ssa.Value(g) {
						nStores += 2 // updated through the variable after initialisation
					}
				}
			})
		}
	}
	if mm == nil || nStores != 1 {
		return nil, false
	}
	var out []mapEntry
	for _, rr := range referrers(mm) {
		switch x := rr.(type) {
		case *ssa.MapUpdate:
			if x.Map == ssa.Value(mm) {
				out = append(out, mapEntry{x.Key, x.Value, x.Pos()})
			}
		case *ssa.Store, *ssa.DebugRef:
		default:
			if _, isCT := rr.(*ssa.ChangeType); !isCT {
				return nil, false
			}
		}
	}
	return out, true
}

// axisTableFromMap: the table-driven form of the axis dispatch: the handler looks the axis name (the text of the
// production) up in a package-level map[string]func(NodeSet) Result literal; a hit stores the result of calling
// the looked-up selector on the incoming node-set, a miss leaves the result untouched.
func (w *World) axisTableFromMap(h *ssa.Function, r *Roles, at *AxisTable) bool {
	var lk *ssa.Lookup
	var g *ssa.Global
	allInstrs(h, func(in ssa.Instruction) {
		l, ok := in.(*ssa.Lookup)
		if !ok || !l.CommaOk {
			return
		}
		ld, ok := l.X.(*ssa.UnOp)
		if !ok {
			return
		}
		gg, ok := ld.X.(*ssa.Global)
		if !ok {
			return
		}
		mt, ok := gg.Type().(*types.Pointer).Elem().Underlying().(*types.Map)
		if !ok {
			return
		}
		if b, ok := mt.Key().Underlying().(*types.Basic); !ok || b.Kind() != types.String {
			return
		}
		if _, ok := mt.Elem().Underlying().(*types.Signature); !ok {
			// a table of records {selector, ...}: one field is the selector
			st, isSt := mt.Elem().Underlying().(*types.Struct)
			if !isSt {
				return
			}
			nf := 0
			for i := 0; i < st.NumFields(); i++ {
				if _, isSig := st.Field(i).Type().Underlying().(*types.Signature); isSig {
					nf++
				}
			}
			if nf != 1 {
				return
			}
		}
		lk, g = l, gg
	})
	if lk == nil {
		return false
	}
	// the key is the text of the production
	if c, ok := lk.Index.(*ssa.Call); !ok || staticCallee(c) == nil || staticCallee(c).Name() != "GetString" {
		at.err = append(at.err, "axis table lookup key is not the text of the production")
	}
	at.Lookup = lk
	entries, ok := w.globalMapLiteral(g)
	if !ok {
		at.err = append(at.err, "axis table "+g.Name()+" is not a map literal that is never updated")
		return true
	}
	for _, e := range entries {
		name, ok := constString(e.Key)
		if !ok {
			at.err = append(at.err, "axis table entry with a non-constant key")
			continue
		}
		arm := &AxisArm{Name: name, Pos: e.Pos}
		val := stripConv(e.Val)
		// record entry: the literal is built in a cell and loaded: take the selector field and keep the constant fields
		if ld, isLd := val.(*ssa.UnOp); isLd {
			if al, isAl := ld.X.(*ssa.Alloc); isAl {
				arm.Fields = map[int]ssa.Value{}
				for _, st := range storesInto(al) {
					if fa, isFA := st.Addr.(*ssa.FieldAddr); isFA && fa.X == ssa.Value(al) {
						arm.Fields[fa.Field] = st.Val
						switch fv := stripConv(st.Val).(type) {
						case *ssa.Function:
							val = fv
							arm.SelField = fa.Field
						case *ssa.MakeClosure:
							val = fv
							arm.SelField = fa.Field
						}
					}
				}
			}
		}
		switch v := val.(type) {
		case *ssa.Function:
			arm.Callee = v
		case *ssa.MakeClosure:
			arm.Callee, _ = v.Fn.(*ssa.Function)
		}
		if _, dup := at.Arms[name]; dup {
			at.err = append(at.err, "axis "+name+" listed twice")
		}
		at.Arms[name] = arm
	}
	// hit: the looked-up function is called on the incoming node-set and the result stored; miss: nothing happens
	var okEx, fnEx ssa.Value
	for _, rr := range referrers(lk) {
		if ex, isEx := rr.(*ssa.Extract); isEx {
			if ex.Index == 1 {
				okEx = ex
			} else {
				fnEx = ex
			}
		}
	}
	hitStores, missClean := false, true
	allInstrs(h, func(in ssa.Instruction) {
		hit, miss := false, false
		for _, a := range guardAtoms(in.Block()) {
			if a.V == okEx {
				if a.Pol {
					hit = true
				} else {
					miss = true
				}
			}
		}
		switch x := in.(type) {
		case *ssa.Store:
			fa, isFA := x.Addr.(*ssa.FieldAddr)
			if !isFA || fa.Field != r.CtxResultField {
				return
			}
			if c, isCall := stripConv(x.Val).(*ssa.Call); isCall && (c.Call.Value == fnEx || isFieldOf(c.Call.Value, fnEx)) && hit {
				hitStores = true
			} else if !hit {
				missClean = false
			}
		case *ssa.Call:
			if miss {
				if sc := staticCallee(x); sc != nil && fnPkgKey(sc) == "exec" {
					missClean = false
				}
			}
		}
	})
	if !hitStores {
		at.err = append(at.err, "the looked-up selector's result is not stored as the context result on a hit")
	}
	at.DefaultOK = missClean && okEx != nil
	if !at.DefaultOK {
		at.DefaultWhy = "a miss in the axis table stores a result or calls a selector"
	}
	return true
}

// cursorMethodsReached: names of store.Cursor interface methods invoked by fn or by exec-package
// functions it calls statically (transitively).
func (w *World) cursorMethodsReached(fn *ssa.Function) map[string]bool {
	out := map[string]bool{}
	for g := range staticReach(fn, func(f *ssa.Function) bool { return fnPkgKey(f) == "exec" }) {
		allInstrs(g, func(in ssa.Instruction) {
			c, ok := in.(ssa.CallInstruction)
			if !ok {
				return
			}
			cc := c.Common()
			if cc.IsInvoke() {
				if n, ok := cc.Value.Type().(*types.Named); ok && n.Obj().Name() == "Cursor" {
					out[cc.Method.Name()] = true
				}
			}
		})
	}
	return out
}

// returnsNormalised reports whether every value returned by fn is the result of a normaliser of the
// given direction (dir>0 forward, dir<0 backward, 0 any), directly or through a callee whose every
// return is. Returns the offending description otherwise.
func (w *World) returnsNormalised(fn *ssa.Function, dir int, depth int) (bool, string) {
	return w.returnsNormalisedWith(fn, dir, depth, nil)
}

// returnsNormalisedWith: as returnsNormalised, with the function values bound to fn's parameters at the call under
// examination (a loop driver that applies the clean-up function it was given).
func (w *World) returnsNormalisedWith(fn *ssa.Function, dir int, depth int, bound map[*ssa.Parameter]*ssa.Function) (bool, string) {
	ef := w.ExecFacts()
	if depth > 4 {
		return false, "call chain too deep"
	}
	ok := true
	why := ""
	n := 0
	allInstrs(fn, func(in ssa.Instruction) {
		ret, isRet := in.(*ssa.Return)
		if !isRet || len(ret.Results) < 1 {
			return
		}
		n++
		v := stripConv(ret.Results[0])
		vals := []ssa.Value{v}
		if phi, isPhi := v.(*ssa.Phi); isPhi {
			vals = nil
			for _, e := range phi.Edges {
				vals = append(vals, stripConv(e))
			}
		}
		for _, v := range vals {
			c, isCall := v.(*ssa.Call)
			if !isCall {
				ok = false
				why = "returns a value that did not pass through sort+dedupe (" + w.pos(ret.Pos()) + ")"
				continue
			}
			sc := staticCallee(c)
			if sc == nil {
				if p, isParam := c.Call.Value.(*ssa.Parameter); isParam && bound[p] != nil {
					sc = bound[p]
				}
			}
			if nn := ef.Normalisers[sc]; nn != nil {
				if dir > 0 && !nn.Forward {
					ok, why = false, "normalised in reverse document order by "+sc.Name()
				}
				if dir < 0 && nn.Forward {
					ok, why = false, "normalised in document order by "+sc.Name()+" although the axis is a reverse axis"
				}
				continue
			}
			if sc != nil && fnPkgKey(sc) == "exec" {
				// function values handed to the callee
				b2 := map[*ssa.Parameter]*ssa.Function{}
				for i, a := range c.Call.Args {
					if i >= len(sc.Params) {
						break
					}
					switch x := stripConv(a).(type) {
					case *ssa.Function:
						b2[sc.Params[i]] = x
					case *ssa.MakeClosure:
						if f2, ok := x.Fn.(*ssa.Function); ok {
							b2[sc.Params[i]] = f2
						}
					case *ssa.Parameter:
						if bound[x] != nil {
							b2[sc.Params[i]] = bound[x]
						}
					}
				}
				if ok2, why2 := w.returnsNormalisedWith(sc, dir, depth+1, b2); !ok2 {
					ok, why = false, why2
				}
				continue
			}
			ok = false
			why = "returns a value that did not pass through sort+dedupe (" + w.pos(ret.Pos()) + ")"
		}
	})
	if n == 0 {
		return false, "no return"
	}
	return ok, why
}

// isFieldOf: v is a field read of the record value rec (Field on the value, or a load through a cell holding it).
func isFieldOf(v, rec ssa.Value) bool {
	switch x := v.(type) {
	case *ssa.Field:
		return x.X == rec
	case *ssa.UnOp:
		if fa, ok := x.X.(*ssa.FieldAddr); ok {
			if al, ok := fa.X.(*ssa.Alloc); ok {
				for _, st := range storesInto(al) {
					if st.Addr == ssa.Value(al) && st.Val == rec {
						return true
					}
				}
			}
		}
	}
	return false
}

// structSortLiteral: v is the value of a struct literal built in place (a load of a local); returns the local.
func structSortLiteral(v ssa.Value) *ssa.Alloc {
	ld, ok := v.(*ssa.UnOp)
	if !ok || ld.Op != token.MUL {
		return nil
	}
	al, ok := ld.X.(*ssa.Alloc)
	if !ok {
		return nil
	}
	if _, isStruct := al.Type().(*types.Pointer).Elem().Underlying().(*types.Struct); !isStruct {
		return nil
	}
	if _, isNamed := al.Type().(*types.Pointer).Elem().(*types.Named); !isNamed {
		return nil
	}
	return al
}

// lessDelegates: the Less method of struct type t returns f(s[i], s[j]) where s and f are fields of the receiver:
// the indices of those fields, and whether the elements are passed in the order (j, i).
func (w *World) lessDelegates(t *types.Named) (sliceField, funcField int, swapped, ok bool) {
	var less *ssa.Function
	ms := w.Prog.MethodSets.MethodSet(t)
	for i := 0; i < ms.Len(); i++ {
		if ms.At(i).Obj().Name() == "Less" {
			less = w.Prog.MethodValue(ms.At(i))
		}
	}
	if less == nil || len(less.Params) != 3 {
		return 0, 0, false, false
	}
	fieldOf := func(v ssa.Value) int {
		switch x := v.(type) {
		case *ssa.Field:
			if x.X == ssa.Value(less.Params[0]) {
				return x.Field
			}
		case *ssa.UnOp:
			if fa, isFA := x.X.(*ssa.FieldAddr); isFA && x.Op == token.MUL {
				if al, isAl := fa.X.(*ssa.Alloc); isAl {
					// the receiver spilled into a local
					for _, st := range storesInto(al) {
						if st.Addr == ssa.Value(al) && st.Val == ssa.Value(less.Params[0]) {
							return fa.Field
						}
					}
				}
				if fa.X == ssa.Value(less.Params[0]) {
					return fa.Field
				}
			}
		}
		return -1
	}
	found := false
	allInstrs(less, func(in ssa.Instruction) {
		ret, isRet := in.(*ssa.Return)
		if !isRet || len(ret.Results) != 1 {
			return
		}
		c, isCall := ret.Results[0].(*ssa.Call)
		if !isCall || c.Call.IsInvoke() || c.Call.StaticCallee() != nil || len(c.Call.Args) != 2 {
			return
		}
		ff := fieldOf(c.Call.Value)
		if ff < 0 {
			return
		}
		elem := func(v ssa.Value) (int, int) { // (slice field, which index parameter)
			ld, isLd := v.(*ssa.UnOp)
			if !isLd {
				return -1, 0
			}
			ia, isIA := ld.X.(*ssa.IndexAddr)
			if !isIA {
				return -1, 0
			}
			sfield := fieldOf(ia.X)
			switch ia.Index {
			case ssa.Value(less.Params[1]):
				return sfield, 1
			case ssa.Value(less.Params[2]):
				return sfield, 2
			}
			return -1, 0
		}
		s1, i1 := elem(c.Call.Args[0])
		s2, i2 := elem(c.Call.Args[1])
		if s1 < 0 || s1 != s2 || i1 == 0 || i2 == 0 || i1 == i2 {
			return
		}
		sliceField, funcField, swapped, found = s1, ff, i1 == 2, true
	})
	return sliceField, funcField, swapped, found
}

// posComparison: cmp(a, b) returns a.Pos() < b.Pos() (+1) or a.Pos() > b.Pos() (-1), strictly; 0 otherwise.
func posComparison(cmp *ssa.Function) int {
	if len(cmp.Params) != 2 || len(cmp.Blocks) != 1 {
		return 0
	}
	ret, ok := cmp.Blocks[0].Instrs[len(cmp.Blocks[0].Instrs)-1].(*ssa.Return)
	if !ok || len(ret.Results) != 1 {
		return 0
	}
	bo, ok := ret.Results[0].(*ssa.BinOp)
	if !ok {
		return 0
	}
	which := func(v ssa.Value) int {
		recv, ok := isMethodCall(v, "Pos")
		if !ok {
			return 0
		}
		switch recv {
		case ssa.Value(cmp.Params[0]):
			return 1
		case ssa.Value(cmp.Params[1]):
			return 2
		}
		return 0
	}
	a, b := which(bo.X), which(bo.Y)
	if a == 0 || b == 0 || a == b {
		return 0
	}
	dir := 0
	switch bo.Op {
	case token.LSS:
		dir = 1
	case token.GTR:
		dir = -1
	}
	if a == 2 {
		dir = -dir
	}
	return dir
}
