package main

import (
	"fmt"
	"go/constant"
	"go/token"
	"go/types"
	"sort"
	"strings"

	"golang.org/x/tools/go/ssa"
)

// R01.14: principal node type.
//
// XPath 1.0 2.3: a name test (`*`, `p:*`, `x`, `p:x`) is true only for nodes of the principal node type of the step's
// axis: attributes on the attribute axis, namespace nodes on the namespace axis, elements on every other axis. The
// name tests run after the axis as separate handlers, and an attribute looks like an element to them (node.Attribute
// includes node.NamedNode), so on the axes that can deliver an attribute or namespace context node itself (self,
// ancestor-or-self, descendant-or-self) a name test keeps it unless it knows which axis it follows. Hence there has
// to be a piece of state that carries the axis' principal node type from the axis to the name test:
//
//	(a) a field F of the evaluation context that the axis handler sets on every path, to one constant on the
//	    attribute arm, another on the namespace arm and a third on all other arms (and the `@` abbreviation sets
//	    the attribute constant, the implicit child axis of a step the element constant);
//	(b) every way a name-test handler keeps a named node is conditional on a predicate over F and the node;
//	(c) that predicate, evaluated for every value of F and every node kind, is true exactly for attributes under
//	    the attribute constant, namespaces under the namespace constant, and elements (named, not attribute)
//	    otherwise.
func (w *World) checkPrincipalNodeType(P string, f *Facts, r *Roles, ef *ExecFacts) {
	docRule(P, "R01.14", "T+D+F A<->S", "principal node type: the axis handler stores into a context field, on every path, a constant that is one value on the attribute arm, another on the namespace arm and a third on every other arm (the `@` abbreviation stores the attribute value, the implicit child axis the element value; the context copy carries the field: R01.8); every keep of a named node in a name-test handler is conditional on a predicate of that field and the node, and the predicate is true exactly for attributes / namespace nodes / elements (named and not attribute) under the respective value: `@x/self::*`, `@x/self::x` and `@x/ancestor-or-self::*` do not select the attribute.")
	at := ef.Axis
	if at == nil || at.Handler == nil || r.CtxType == nil {
		w.undecided(P, "R01.14", "axis handler", 0, "axis dispatch not identified")
		return
	}
	st, _ := r.CtxType.Underlying().(*types.Struct)
	h := at.Handler
	// candidate fields: constant stores into a field of the handler's context parameter
	cands := map[int]bool{}
	allInstrs(h, func(in ssa.Instruction) {
		s, ok := in.(*ssa.Store)
		if !ok {
			return
		}
		fa, ok := s.Addr.(*ssa.FieldAddr)
		if !ok || len(h.Params) == 0 || fa.X != ssa.Value(ctxParam(h)) {
			return
		}
		if fa.Field == r.CtxResultField || fa.Field == r.CtxPosField || fa.Field == r.CtxSizeField || fa.Field == r.CtxRootField {
			return
		}
		cands[fa.Field] = true
	})
	if len(cands) == 0 {
		w.check(P, "R01.14", "axis handler records the principal node type", h.Pos(), false,
			"the axis handler stores nothing but the node-set into the context: the name tests that follow cannot know whether the axis was attribute, namespace or another one, and keep every named node: `/r/a/@x/self::*` selects the attribute x, `@x/ancestor-or-self::*` includes it (the principal node type of those axes is element)")
		w.floor(P, "R01.14", 1)
		return
	}
	var fields []int
	for k := range cands {
		fields = append(fields, k)
	}
	sort.Ints(fields)
	F := fields[0]
	fname := st.Field(F).Name()
	// (a) value of F at every success return of the handler, per axis spelling
	axes := []string{"ancestor", "ancestor-or-self", "attribute", "child", "descendant", "descendant-or-self", "following", "following-sibling", "namespace", "parent", "preceding", "preceding-sibling", "self"}
	vals := map[string]string{}
	for _, ax := range axes {
		v, why := fieldAtSuccess(h, F, ax, at)
		if why != "" {
			w.undecided(P, "R01.14", "axis "+ax+": principal node type", h.Pos(), why)
			continue
		}
		vals[ax] = v
	}
	cA, cN := vals["attribute"], vals["namespace"]
	for _, ax := range axes {
		v, ok := vals[ax]
		if !ok {
			continue
		}
		good, want := false, ""
		switch ax {
		case "attribute":
			good, want = v != "" && v != vals["child"] && v != cN, "a value of its own"
		case "namespace":
			good, want = v != "" && v != vals["child"] && v != cA, "a value of its own"
		default:
			good, want = v != "" && v == vals["child"] && v != cA && v != cN, "the element value "+vals["child"]
		}
		w.check(P, "R01.14", "axis "+ax+": principal node type", h.Pos(), good, fmt.Sprintf("context field %s after the %s axis = %s; required: %s", fname, ax, orElse(v, "not set on every path"), want))
	}
	cE := vals["child"]
	// abbreviations
	for nt, hd := range f.Handlers {
		for _, a := range f.Alts[nt] {
			if len(a.Syms) == 1 && !a.Syms[0].IsNT && a.Syms[0].Name == "@" {
				v, why := fieldAtSuccess(hd.Fn, F, "", nil)
				if why != "" {
					w.undecided(P, "R01.14", "abbreviation @: principal node type", hd.Fn.Pos(), why)
				} else {
					w.check(P, "R01.14", "abbreviation @: principal node type", hd.Fn.Pos(), v == cA && v != "", fmt.Sprintf("context field %s after `@` = %s; required the attribute value %s", fname, orElse(v, "not set on every path"), cA))
				}
			}
		}
	}
	// implicit child axis: the call of the child selector in the Step handler is accompanied by a store of cE
	if arm := at.Arms["child"]; arm != nil && arm.Callee != nil {
		if hs := f.Handlers["Step"]; hs != nil {
			n := 0
			for _, g := range w.handlerClosureH(hs) {
				allInstrs(g, func(in ssa.Instruction) {
					c, ok := in.(*ssa.Call)
					if !ok {
						return
					}
					applies := staticCallee(c) == arm.Callee
					for _, a := range c.Call.Args {
						if fv, isFn := stripConv(a).(*ssa.Function); isFn && fv == arm.Callee {
							applies = true // the selector handed to a helper that applies it
						}
					}
					if !applies {
						return
					}
					n++
					got := ""
					b := c.Block()
					for hop := 0; hop < 3 && b != nil; hop++ {
						for _, in2 := range b.Instrs {
							if s, ok := in2.(*ssa.Store); ok {
								if fa, ok := s.Addr.(*ssa.FieldAddr); ok && fa.Field == F {
									got = constText(s.Val)
								}
							}
						}
						if len(b.Succs) == 1 {
							b = b.Succs[0]
						} else if iff, isIf := b.Instrs[len(b.Instrs)-1].(*ssa.If); isIf && isErrTest(iff.Cond) {
							// continue on the path without an error
							bo := iff.Cond.(*ssa.BinOp)
							if bo.Op == token.NEQ {
								b = b.Succs[1]
							} else {
								b = b.Succs[0]
							}
						} else {
							b = nil
						}
					}
					w.check(P, "R01.14", "implicit child axis: principal node type", c.Pos(), got == cE && got != "", fmt.Sprintf("context field %s where the Step handler applies the child selector = %s; required the element value %s", fname, orElse(got, "not set"), cE))
				})
			}
			if n == 0 {
				w.undecided(P, "R01.14", "implicit child axis: principal node type", hs.Fn.Pos(), "the child selector is not applied in the Step handler")
			}
		}
	}
	// (b) + (c)
	var nts []string
	for nt := range f.Alts {
		if strings.HasPrefix(nt, "NameTest") && f.Handlers[nt] != nil {
			nts = append(nts, nt)
		}
	}
	sort.Strings(nts)
	preds := map[*ssa.Function]bool{}
	doneSite := map[*ssa.Call]bool{}
	for _, nt := range nts {
		for _, ks := range w.keepSites(f.Handlers[nt].Fn, r) {
			if ks.Err != "" || doneSite[ks.Append] {
				continue
			}
			named, nsOnly := false, false
			var pred *ssa.Function
			for _, a := range ks.Atoms {
				if ex, ok := a.V.(*ssa.Extract); ok && ex.Index == 1 && a.Pol {
					if ta, ok := ex.Tuple.(*ssa.TypeAssert); ok {
						if n, _ := nodeIface(ta.AssertedType); n != nil {
							switch n.Obj().Name() {
							case "NamedNode", "Element", "Attribute":
								named = true
							case "Namespace":
								nsOnly = true
							}
						}
					}
				}
				if c, ok := a.V.(*ssa.Call); ok && a.Pol {
					if sc := staticCallee(c); sc != nil && fnPkgKey(sc) == "exec" && loadsField(sc, r.CtxType, F) {
						pred = sc
					}
				}
			}
			if nsOnly && !named {
				continue // the library's own rule for name tests on the namespace axis (excluded by the property)
			}
			doneSite[ks.Append] = true
			if pred != nil {
				preds[pred] = true
			}
			w.check(P, "R01.14", "name test "+nt+": node kept only if it is of the principal node type", ks.Append.Pos(), pred != nil,
				fmt.Sprintf("the keep is conditional on a predicate over the context field %s: %v", fname, pred != nil))
		}
	}
	var pl []*ssa.Function
	for p := range preds {
		pl = append(pl, p)
	}
	sortFuncs(pl)
	for _, p := range pl {
		w.principalPredicate(P, p, r, F, cA, cN, cE)
	}
	if len(pl) == 0 {
		w.undecided(P, "R01.14", "principal node type predicate", h.Pos(), "no predicate over "+fname+" guards a name test")
	}
	w.floor(P, "R01.14", 16)
}

func constText(v ssa.Value) string {
	if c, ok := v.(*ssa.Const); ok && c.Value != nil {
		return c.Value.ExactString()
	}
	return ""
}

func loadsField(fn *ssa.Function, ctx *types.Named, field int) bool {
	found := false
	allInstrs(fn, func(in ssa.Instruction) {
		if ld, ok := in.(*ssa.UnOp); ok && ld.Op == token.MUL {
			if fa, ok := ld.X.(*ssa.FieldAddr); ok && fa.Field == field {
				if pt, ok := fa.X.Type().Underlying().(*types.Pointer); ok && types.Identical(pt.Elem(), ctx) {
					found = true
				}
			}
		}
	})
	return found
}

// fieldAtSuccess walks fn with every comparison of a string against a constant decided as if the string were axis
// (all other branches are explored both ways) and returns the constant that field F of the first parameter holds at
// the nil-error returns: "" when some path leaves it unset, an explanation when it is not a single constant.
func fieldAtSuccess(fn *ssa.Function, F int, axis string, tbl *AxisTable) (string, string) {
	type state struct {
		b   *ssa.BasicBlock
		val string
	}
	if len(fn.Blocks) == 0 {
		return "", "no body"
	}
	seen := map[state]bool{}
	results := map[string]bool{}
	why := ""
	var walk func(b *ssa.BasicBlock, val string, depth int)
	walk = func(b *ssa.BasicBlock, val string, depth int) {
		if seen[state{b, val}] || depth > 400 {
			return
		}
		seen[state{b, val}] = true
		for _, in := range b.Instrs {
			switch x := in.(type) {
			case *ssa.Store:
				if fa, ok := x.Addr.(*ssa.FieldAddr); ok && fa.Field == F && len(fn.Params) > 0 && fa.X == ssa.Value(ctxParam(fn)) {
					if t := constText(x.Val); t != "" {
						val = t
					} else if t := tableField(x.Val, axis, tbl); t != "" {
						val = t
					} else if t := constReturnFor(x.Val, axis); t != "" {
						val = t
					} else if t, _, ok := constTableLookup(x.Val, axis); ok && t != "" {
						val = t
					} else {
						val = "?"
						why = "a value that is not a constant is stored into the field"
					}
				}
			case *ssa.Return:
				if len(x.Results) > 0 && isNilConst(x.Results[len(x.Results)-1]) {
					results[val] = true
				}
				return
			case *ssa.If:
				// table-driven dispatch: the comma-ok of the lookup of the axis name
				if ex, ok := x.Cond.(*ssa.Extract); ok && tbl != nil && tbl.Lookup != nil && ex.Tuple == ssa.Value(tbl.Lookup) && ex.Index == 1 && axis != "" {
					if _, hit := tbl.Arms[axis]; hit {
						walk(b.Succs[0], val, depth+1)
					} else {
						walk(b.Succs[1], val, depth+1)
					}
					return
				}
				// a second table keyed by the axis name (axis -> principal node type): the comma-ok of its lookup
				if _, present, ok := constTableLookup(x.Cond, axis); ok && axis != "" {
					if present {
						walk(b.Succs[0], val, depth+1)
					} else {
						walk(b.Succs[1], val, depth+1)
					}
					return
				}
				if bo, ok := x.Cond.(*ssa.BinOp); ok && axis != "" && (bo.Op == token.EQL || bo.Op == token.NEQ) {
					s, isS := constString(bo.Y)
					if !isS {
						s, isS = constString(bo.X)
					}
					if isS {
						eq := s == axis
						if bo.Op == token.NEQ {
							eq = !eq
						}
						if eq {
							walk(b.Succs[0], val, depth+1)
						} else {
							walk(b.Succs[1], val, depth+1)
						}
						return
					}
				}
				walk(b.Succs[0], val, depth+1)
				walk(b.Succs[1], val, depth+1)
				return
			}
		}
		for _, s := range b.Succs {
			walk(s, val, depth+1)
		}
	}
	walk(fn.Blocks[0], "", 0)
	if why != "" {
		return "", why
	}
	if len(results) == 0 {
		return "", "no successful return"
	}
	if len(results) > 1 {
		return "", ""
	}
	for v := range results {
		return v, ""
	}
	return "", ""
}

// principalPredicate evaluates the predicate for the three field values and the four kinds of node.
func (w *World) principalPredicate(P string, p *ssa.Function, r *Roles, F int, cA, cN, cE string) {
	type kind struct {
		name                  string
		named, attr, ns, want bool
	}
	kinds := []kind{{"element", true, false, false, false}, {"attribute", true, true, false, false}, {"namespace", false, false, true, false}, {"text/comment/PI/root", false, false, false, false}}
	fvals := []struct{ name, c string }{{"attribute", cA}, {"namespace", cN}, {"element", cE}}
	var bad []string
	for _, fv := range fvals {
		for _, k := range kinds {
			want := false
			switch fv.name {
			case "attribute":
				want = k.attr
			case "namespace":
				want = k.ns
			default:
				want = k.named && !k.attr
			}
			got, ok := simulateBool(p, func(v ssa.Value) (bool, bool) {
				switch x := v.(type) {
				case *ssa.BinOp:
					if x.Op == token.EQL || x.Op == token.NEQ {
						var c *ssa.Const
						var other ssa.Value
						if cc, isC := x.Y.(*ssa.Const); isC {
							c, other = cc, x.X
						} else if cc, isC := x.X.(*ssa.Const); isC {
							c, other = cc, x.Y
						}
						if c != nil && c.Value != nil && c.Value.Kind() != constant.Bool {
							if ld, isLd := other.(*ssa.UnOp); isLd && ld.Op == token.MUL {
								if fa, isFA := ld.X.(*ssa.FieldAddr); isFA && fa.Field == F {
									eq := c.Value.ExactString() == fv.c
									if x.Op == token.NEQ {
										eq = !eq
									}
									return eq, true
								}
							}
						}
					}
				case *ssa.Extract:
					if ta, isTA := x.Tuple.(*ssa.TypeAssert); isTA && x.Index == 1 {
						if n, _ := nodeIface(ta.AssertedType); n != nil {
							switch n.Obj().Name() {
							case "Attribute":
								return k.attr, true
							case "Namespace":
								return k.ns, true
							case "NamedNode", "Element":
								// node.Element has the method set of node.NamedNode: attribute nodes satisfy it too
								return k.named, true
							default:
								return false, true
							}
						}
					}
				}
				return false, false
			})
			if !ok {
				bad = append(bad, fmt.Sprintf("%s/%s: not evaluable", fv.name, k.name))
			} else if got != want {
				bad = append(bad, fmt.Sprintf("principal %s, %s node: %v, required %v", fv.name, k.name, got, want))
			}
		}
	}
	w.check(P, "R01.14", "principal node type predicate "+p.Name(), p.Pos(), len(bad) == 0, orElse(strings.Join(bad, "; "), "true exactly for attributes / namespace nodes / elements under the attribute / namespace / element value (12 combinations evaluated)"))
}

// simulateBool runs a small branch-only function to its return for one assignment of its atomic conditions and
// returns the boolean it returns. Values the assignment does not know, other than constants, negations and phis,
// make it give up.
func simulateBool(fn *ssa.Function, atom func(ssa.Value) (bool, bool)) (bool, bool) {
	if len(fn.Blocks) == 0 {
		return false, false
	}
	var prev *ssa.BasicBlock
	b := fn.Blocks[0]
	var eval func(v ssa.Value, depth int) (bool, bool)
	phiVal := map[*ssa.Phi]ssa.Value{}
	eval = func(v ssa.Value, depth int) (bool, bool) {
		if depth > 20 {
			return false, false
		}
		if val, ok := atom(v); ok {
			return val, true
		}
		switch x := v.(type) {
		case *ssa.Const:
			if x.Value != nil && x.Value.Kind() == constant.Bool {
				return constant.BoolVal(x.Value), true
			}
		case *ssa.UnOp:
			if x.Op == token.NOT {
				val, ok := eval(x.X, depth+1)
				return !val, ok
			}
		case *ssa.Phi:
			if e, ok := phiVal[x]; ok {
				return eval(e, depth+1)
			}
		case *ssa.BinOp:
			if x.Op == token.EQL || x.Op == token.NEQ {
				a, ok1 := eval(x.X, depth+1)
				c, ok2 := eval(x.Y, depth+1)
				if ok1 && ok2 {
					return (a == c) == (x.Op == token.EQL), true
				}
			}
		case *ssa.Call:
			// a predicate of the repository over the same subject (`isAttributeNode(n)`): evaluated the same way
			if sc := staticCallee(x); sc != nil && inRepo(sc) && sc != fn && len(sc.Blocks) > 0 && sc.Signature.Results().Len() == 1 && depth < 6 {
				if b, isB := sc.Signature.Results().At(0).Type().Underlying().(*types.Basic); isB && b.Kind() == types.Bool {
					return simulateBool(sc, atom)
				}
			}
		}
		return false, false
	}
	for steps := 0; steps < 500; steps++ {
		for _, in := range b.Instrs {
			if ph, ok := in.(*ssa.Phi); ok && prev != nil {
				for i, p := range b.Preds {
					if p == prev {
						phiVal[ph] = ph.Edges[i]
					}
				}
			}
		}
		last := b.Instrs[len(b.Instrs)-1]
		switch x := last.(type) {
		case *ssa.Return:
			if len(x.Results) != 1 {
				return false, false
			}
			return eval(x.Results[0], 0)
		case *ssa.If:
			val, ok := eval(x.Cond, 0)
			if !ok {
				return false, false
			}
			prev = b
			if val {
				b = b.Succs[0]
			} else {
				b = b.Succs[1]
			}
		case *ssa.Jump:
			prev = b
			b = b.Succs[0]
		default:
			return false, false
		}
	}
	return false, false
}

// tableField: v is a field of the record looked up in the axis table; the constant that field has in the entry of axis.
func tableField(v ssa.Value, axis string, tbl *AxisTable) string {
	if tbl == nil || tbl.Lookup == nil || axis == "" {
		return ""
	}
	arm := tbl.Arms[axis]
	if arm == nil || arm.Fields == nil {
		return ""
	}
	var rec ssa.Value
	for _, rr := range referrers(tbl.Lookup) {
		if ex, ok := rr.(*ssa.Extract); ok && ex.Index == 0 {
			rec = ex
		}
	}
	field := -1
	switch x := v.(type) {
	case *ssa.Field:
		if x.X == rec {
			field = x.Field
		}
	case *ssa.UnOp:
		if fa, ok := x.X.(*ssa.FieldAddr); ok && isFieldOf(x, rec) {
			field = fa.Field
		}
	}
	if field < 0 {
		return ""
	}
	return constText(arm.Fields[field])
}

// constReturnFor: v is the result of a package function applied to the axis name; the constant that function returns
// when every comparison of a string with a constant is decided as if the string were axis.
func constReturnFor(v ssa.Value, axis string) string {
	c, ok := v.(*ssa.Call)
	if !ok || axis == "" {
		return ""
	}
	fn := staticCallee(c)
	if fn == nil || fnPkgKey(fn) != "exec" || len(fn.Blocks) == 0 || fn.Signature.Results().Len() != 1 {
		return ""
	}
	hasString := false
	for _, p := range fn.Params {
		if isStringType(p.Type()) {
			hasString = true
		}
	}
	if !hasString {
		return ""
	}
	results := map[string]bool{}
	seen := map[*ssa.BasicBlock]bool{}
	var walk func(b *ssa.BasicBlock)
	walk = func(b *ssa.BasicBlock) {
		if seen[b] {
			return
		}
		seen[b] = true
		for _, in := range b.Instrs {
			switch x := in.(type) {
			case *ssa.Return:
				results[constText(x.Results[0])] = true
				return
			case *ssa.If:
				if bo, ok := x.Cond.(*ssa.BinOp); ok && (bo.Op == token.EQL || bo.Op == token.NEQ) {
					s, isS := constString(bo.Y)
					if !isS {
						s, isS = constString(bo.X)
					}
					if isS {
						eq := (s == axis) == (bo.Op == token.EQL)
						if eq {
							walk(b.Succs[0])
						} else {
							walk(b.Succs[1])
						}
						return
					}
				}
				walk(b.Succs[0])
				walk(b.Succs[1])
				return
			}
		}
		for _, s := range b.Succs {
			walk(s)
		}
	}
	walk(fn.Blocks[0])
	if len(results) != 1 {
		return ""
	}
	for r := range results {
		return r
	}
	return ""
}

// constTableLookup: v is the value (Extract #0) or the comma-ok (Extract #1) of a lookup, keyed by a string, in a
// package-level map literal with constant values; returns the constant stored for key (as text) and whether the key
// is present. ok is false when v is nothing of the kind.
func constTableLookup(v ssa.Value, key string) (val string, present bool, ok bool) {
	ex, isEx := v.(*ssa.Extract)
	if !isEx {
		return "", false, false
	}
	lk, isLk := ex.Tuple.(*ssa.Lookup)
	if !isLk || !lk.CommaOk {
		return "", false, false
	}
	ld, isLd := lk.X.(*ssa.UnOp)
	if !isLd {
		return "", false, false
	}
	g, isG := ld.X.(*ssa.Global)
	if !isG || theWorld == nil {
		return "", false, false
	}
	ents, isLit := theWorld.globalMapLiteral(g)
	if !isLit {
		return "", false, false
	}
	for _, e := range ents {
		k, isS := constString(e.Key)
		if !isS {
			return "", false, false
		}
		if _, isC := e.Val.(*ssa.Const); !isC {
			return "", false, false // not a table of constants (the selector table is handled elsewhere)
		}
		if k == key {
			val, present = constText(e.Val), true
		}
	}
	return val, present, true
}
