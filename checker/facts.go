package main

import (
	"fmt"
	"go/ast"
	"go/constant"
	"go/token"
	"go/types"
	"sort"
	"strings"

	"golang.org/x/tools/go/ssa"
)

// Sym is one symbol of a grammar alternate.
type Sym struct {
	IsNT bool
	Name string // NT name, or the terminal's spelling ("=", "ncname", ...)
}

// Alt is one alternate of a nonterminal as found in the generated slot table.
type Alt struct {
	NT   string
	Idx  int
	Syms []Sym
}

func (a Alt) NTs() []string {
	var r []string
	for _, s := range a.Syms {
		if s.IsNT {
			r = append(r, s.Name)
		}
	}
	return r
}
func (a Alt) Ts() []string {
	var r []string
	for _, s := range a.Syms {
		if !s.IsNT {
			r = append(r, s.Name)
		}
	}
	return r
}
func (a Alt) String() string {
	s := a.NT + " :"
	for _, y := range a.Syms {
		if y.IsNT {
			s += " " + y.Name
		} else {
			s += fmt.Sprintf(" %q", y.Name)
		}
	}
	return s
}

// Handler is one registration contextFunctions[NT] = fn.
type Handler struct {
	NT  string
	Fn  *ssa.Function
	Pos token.Pos
	// Bind: for a handler that is a closure built by a factory (`handlers[nt] = binaryOp(add)`): what each free
	// variable of the closure holds, in terms of the values at the registration
	Bind map[*ssa.FreeVar]ssa.Value
	// ParamBind: for a handler that only delegates to a generic evaluator with extra arguments
	// (`func less(c, e) error { return relational(c, e, lt) }`): Fn is the generic evaluator, Wrapper the registered
	// function, and ParamBind what the evaluator's extra parameters hold
	ParamBind map[*ssa.Parameter]ssa.Value
	Wrapper   *ssa.Function
}

// boundFunc: the function a callee value of the handler body stands for: a function itself, or a free variable of the
// handler's closure that was bound to one at the registration.
func (h *Handler) boundFunc(v ssa.Value) *ssa.Function {
	v = stripConv(v)
	if ld, ok := v.(*ssa.UnOp); ok && ld.Op == token.MUL {
		v = ld.X
	}
	switch x := v.(type) {
	case *ssa.Function:
		return x
	case *ssa.MakeClosure:
		f, _ := x.Fn.(*ssa.Function)
		return f
	case *ssa.Parameter:
		if h == nil || h.ParamBind == nil {
			return nil
		}
		switch b := stripConv(h.ParamBind[x]).(type) {
		case *ssa.Function:
			return b
		case *ssa.MakeClosure:
			f, _ := b.Fn.(*ssa.Function)
			return f
		case *ssa.UnOp:
			// a package-level function value that is set once, in the package initialiser
			if g, ok := b.X.(*ssa.Global); ok && b.Op == token.MUL {
				return globalFuncValue(g)
			}
		}
	case *ssa.FreeVar:
		if h == nil || h.Bind == nil {
			return nil
		}
		switch b := stripConv(h.Bind[x]).(type) {
		case *ssa.Function:
			return b
		case *ssa.MakeClosure:
			f, _ := b.Fn.(*ssa.Function)
			return f
		}
	}
	return nil
}

// Builtin is one entry of the builtin function table.
type Builtin struct {
	Name  string // local name (space must be "")
	Space string
	Fns   map[int]*ssa.Function // arity -> implementation when built from an overload helper; key -1 = single implementation
	Pos   token.Pos
}

func (b *Builtin) impls() []*ssa.Function {
	var r []*ssa.Function
	var ks []int
	for k := range b.Fns {
		ks = append(ks, k)
	}
	sort.Ints(ks)
	for _, k := range ks {
		r = append(r, b.Fns[k])
	}
	return r
}

type Facts struct {
	NTNames    []string
	TNames     []string
	Alts       map[string][]Alt // by NT
	NumAlts    int
	Handlers   map[string]*Handler
	HandlerDup []string
	Builtins   map[string]*Builtin
	BuiltinVar *ssa.Global
	// BuiltinBind: for builtin implementations that are closures built by a factory: what their free variables hold
	// (keyed by "<overload table or builtin name>#<arity>")
	BuiltinBind map[string]map[*ssa.FreeVar]ssa.Value
	HandlerVar  *ssa.Global
	err         []string
}

func (w *World) factSummary() map[string]int {
	f := w.facts
	if f == nil {
		return nil
	}
	return map[string]int{"nonterminals": len(f.NTNames), "terminals": len(f.TNames), "alternates": f.NumAlts, "handlers": len(f.Handlers), "builtins": len(f.Builtins)}
}

// Facts extracts (once) the shared fact tables from the loaded program.
func (w *World) Facts() *Facts {
	if w.facts != nil {
		return w.facts
	}
	f := &Facts{Alts: map[string][]Alt{}, Handlers: map[string]*Handler{}, Builtins: map[string]*Builtin{}}
	w.facts = f
	w.extractGrammar(f)
	w.extractHandlers(f)
	w.extractBuiltins(f)
	// a value bound to a factory's closure may itself be the closure another factory returns
	// (`contextOrArgument(nameOf(localOnly))`): read it as that closure, with the closure's own bindings
	for _, bind := range f.BuiltinBind {
		for i := 0; i < 3; i++ {
			changed := false
			for fv, v := range bind {
				if call, ok := stripConv(v).(*ssa.Call); ok {
					if fn, inner := closureFromFactory(call); fn != nil {
						bind[fv] = fn
						for k, iv := range inner {
							bind[k] = iv
						}
						changed = true
					}
				}
			}
			if !changed {
				break
			}
		}
	}
	return f
}

func (w *World) findVarDecl(pkgKey, name string) (*ast.ValueSpec, *types.Info) {
	p := w.Pkgs[pkgKey]
	if p == nil {
		return nil, nil
	}
	for _, file := range p.Syntax {
		for _, d := range file.Decls {
			gd, ok := d.(*ast.GenDecl)
			if !ok || gd.Tok != token.VAR {
				continue
			}
			for _, s := range gd.Specs {
				vs := s.(*ast.ValueSpec)
				for _, n := range vs.Names {
					if n.Name == name {
						return vs, p.TypesInfo
					}
				}
			}
		}
	}
	return nil, nil
}

func (w *World) extractGrammar(f *Facts) {
	symPkg := "grammar/parser/symbols"
	slotPkg := "grammar/parser/slot"
	readStrings := func(name string) []string {
		vs, _ := w.findVarDecl(symPkg, name)
		if vs == nil || len(vs.Values) != 1 {
			f.err = append(f.err, "symbols."+name+" not found")
			return nil
		}
		cl, ok := vs.Values[0].(*ast.CompositeLit)
		if !ok {
			f.err = append(f.err, "symbols."+name+" is not a composite literal")
			return nil
		}
		var out []string
		info := w.Pkgs[symPkg].TypesInfo
		for _, e := range cl.Elts {
			tv := info.Types[e]
			if tv.Value == nil || tv.Value.Kind() != constant.String {
				f.err = append(f.err, "symbols."+name+": non-constant element")
				return nil
			}
			out = append(out, constant.StringVal(tv.Value))
		}
		return out
	}
	f.NTNames = readStrings("ntToString")
	f.TNames = readStrings("tToString")
	vs, info := w.findVarDecl(slotPkg, "slots")
	if vs == nil || len(vs.Values) != 1 {
		f.err = append(f.err, "slot.slots not found")
		return
	}
	cl, ok := vs.Values[0].(*ast.CompositeLit)
	if !ok {
		f.err = append(f.err, "slot.slots is not a composite literal")
		return
	}
	symsPkgTypes := w.Pkgs[symPkg].Types
	ntType := symsPkgTypes.Scope().Lookup("NT").Type()
	for _, e := range cl.Elts {
		kv, ok := e.(*ast.KeyValueExpr)
		if !ok {
			continue
		}
		sl, ok := kv.Value.(*ast.CompositeLit)
		if !ok || len(sl.Elts) < 4 {
			f.err = append(f.err, "slot.slots: unexpected entry shape")
			continue
		}
		intOf := func(x ast.Expr) (int64, bool) {
			tv := info.Types[x]
			if tv.Value == nil {
				return 0, false
			}
			return constant.Int64Val(constant.ToInt(tv.Value))
		}
		nt, ok1 := intOf(sl.Elts[0])
		alt, ok2 := intOf(sl.Elts[1])
		pos, ok3 := intOf(sl.Elts[2])
		if !ok1 || !ok2 || !ok3 {
			f.err = append(f.err, "slot.slots: non-constant slot header")
			continue
		}
		if pos != 0 {
			continue
		}
		symsLit, ok := sl.Elts[3].(*ast.CompositeLit)
		if !ok {
			f.err = append(f.err, "slot.slots: symbols not a literal")
			continue
		}
		if int(nt) >= len(f.NTNames) {
			f.err = append(f.err, "slot.slots: NT index out of range")
			continue
		}
		a := Alt{NT: f.NTNames[nt], Idx: int(alt)}
		for _, se := range symsLit.Elts {
			tv := info.Types[se]
			v, ok := intOf(se)
			if !ok {
				f.err = append(f.err, "slot.slots: non-constant symbol")
				continue
			}
			if types.Identical(tv.Type, ntType) {
				a.Syms = append(a.Syms, Sym{true, f.NTNames[v]})
			} else {
				if int(v) >= len(f.TNames) {
					f.err = append(f.err, "slot.slots: T index out of range")
					continue
				}
				a.Syms = append(a.Syms, Sym{false, f.TNames[v]})
			}
		}
		f.Alts[a.NT] = append(f.Alts[a.NT], a)
		f.NumAlts++
	}
	for nt := range f.Alts {
		alts := f.Alts[nt]
		sort.Slice(alts, func(i, j int) bool { return alts[i].Idx < alts[j].Idx })
	}
}

// extractHandlers finds every MapUpdate on a package-level map[symbols.NT]func(...) of package exec.
func (w *World) extractHandlers(f *Facts) {
	p := w.SSA["exec"]
	if p == nil {
		f.err = append(f.err, "package exec not loaded")
		return
	}
	for _, m := range p.Members {
		fn, ok := m.(*ssa.Function)
		if !ok || fn.Synthetic == "" && fn.Name() != "init" {
			// hand-written init functions are named init#k
		}
		_ = fn
	}
	var inits []*ssa.Function
	for name, m := range p.Members {
		if fn, ok := m.(*ssa.Function); ok && (name == "init" || (len(name) > 5 && name[:5] == "init#")) {
			inits = append(inits, fn)
		}
	}
	sort.Slice(inits, func(i, j int) bool { return inits[i].Name() < inits[j].Name() })
	for _, in := range inits {
		allInstrs(in, func(i ssa.Instruction) {
			mu, ok := i.(*ssa.MapUpdate)
			if !ok {
				return
			}
			load, ok := mu.Map.(*ssa.UnOp)
			if !ok {
				return
			}
			g, ok := load.X.(*ssa.Global)
			if !ok {
				return
			}
			mt, ok := g.Type().(*types.Pointer).Elem().Underlying().(*types.Map)
			if !ok {
				return
			}
			kn, ok := mt.Key().(*types.Named)
			if !ok || kn.Obj().Name() != "NT" || kn.Obj().Pkg().Path() != modPath+"/grammar/parser/symbols" {
				return
			}
			f.HandlerVar = g
			register := func(key, val ssa.Value, pos token.Pos) {
				k, ok := constInt(key)
				if !ok || int(k) >= len(f.NTNames) {
					f.err = append(f.err, "handler registration with non-constant key at "+w.pos(pos))
					return
				}
				var hf *ssa.Function
				var bind map[*ssa.FreeVar]ssa.Value
				switch v := stripConv(val).(type) {
				case *ssa.Function:
					hf = v
				case *ssa.MakeClosure:
					hf, _ = v.Fn.(*ssa.Function)
				case *ssa.Call:
					// a factory of the package that returns a closure: the handler is the closure, its free
					// variables hold the factory's arguments
					hf, bind = closureFromFactory(v)
				}
				if hf == nil {
					f.err = append(f.err, "handler registration with non-function value at "+w.pos(pos))
					return
				}
				nt := f.NTNames[k]
				if old, dup := f.Handlers[nt]; dup && old.Fn != hf {
					f.HandlerDup = append(f.HandlerDup, nt)
				}
				hd := &Handler{NT: nt, Fn: hf, Pos: pos, Bind: bind}
				if g, pb := delegatesTo(hf); g != nil {
					hd.Fn, hd.ParamBind, hd.Wrapper = g, pb, hf
				}
				// a method value (`arithmeticOp(add).exec`): the handler is the method, its receiver is bound
				if mc, isMC := stripConv(val).(*ssa.MakeClosure); isMC && strings.Contains(hf.Synthetic, "bound method") && len(mc.Bindings) == 1 {
					var m *ssa.Function
					allInstrs(hf, func(in ssa.Instruction) {
						if c, ok := in.(ssa.CallInstruction); ok {
							if sc := c.Common().StaticCallee(); sc != nil && inRepo(sc) {
								m = sc
							}
						}
					})
					if m != nil && len(m.Params) >= 3 {
						hd.Fn, hd.Wrapper = m, hf
						hd.ParamBind = map[*ssa.Parameter]ssa.Value{m.Params[0]: mc.Bindings[0]}
					}
				}
				f.Handlers[nt] = hd
			}
			// `for nt, fn := range table { handlers[nt] = fn }`: the entries of the table that is ranged over
			if kx, ok := mu.Key.(*ssa.Extract); ok {
				if nx, ok := kx.Tuple.(*ssa.Next); ok {
					if rg, ok := nx.Iter.(*ssa.Range); ok {
						if vx, ok := mu.Value.(*ssa.Extract); ok && vx.Tuple == kx.Tuple && kx.Index == 1 && vx.Index == 2 {
							if ents, ok := w.mapLiteralEntries(rg.X, 0); ok {
								for _, e := range ents {
									register(e.Key, e.Val, e.Pos)
								}
								return
							}
						}
					}
				}
			}
			register(mu.Key, mu.Value, mu.Pos())
		})
	}
}

// extractBuiltins reads the package-level map[XmlName]Function literal of package exec that is
// copied into every evaluation context (the builtin library) from the SSA of the package initialiser.
func (w *World) extractBuiltins(f *Facts) {
	p := w.SSA["exec"]
	if p == nil {
		return
	}
	init := p.Func("init")
	if init == nil {
		f.err = append(f.err, "exec.init not found")
		return
	}
	// overload helpers: globals of a map[int]Function type initialised in init
	overloads := map[*ssa.Global]map[int]*ssa.Function{}
	// First pass: find MakeMap stored to globals.
	mapOfGlobal := map[ssa.Value]*ssa.Global{}
	allInstrs(init, func(i ssa.Instruction) {
		st, ok := i.(*ssa.Store)
		if !ok {
			return
		}
		g, ok := st.Addr.(*ssa.Global)
		if !ok {
			return
		}
		if mm, ok := stripConv(st.Val).(*ssa.MakeMap); ok {
			mapOfGlobal[mm] = g
		}
	})
	isFuncType := func(t types.Type) bool {
		n, ok := t.(*types.Named)
		return ok && n.Obj().Name() == "Function" && n.Obj().Pkg() != nil && n.Obj().Pkg().Path() == modPath+"/exec"
	}
	// an overload table built by a factory of the package (`var nameDispatch = nameOverloads(kind)`)
	allInstrs(init, func(i ssa.Instruction) {
		st, ok := i.(*ssa.Store)
		if !ok {
			return
		}
		g, ok := st.Addr.(*ssa.Global)
		if !ok {
			return
		}
		call, ok := stripConv(st.Val).(*ssa.Call)
		if !ok {
			return
		}
		tbl, binds := overloadsFromFactory(call)
		if len(tbl) == 0 {
			return
		}
		overloads[g] = tbl
		if f.BuiltinBind == nil {
			f.BuiltinBind = map[string]map[*ssa.FreeVar]ssa.Value{}
		}
		for k := range tbl {
			f.BuiltinBind[fmt.Sprintf("%s#%d", g.Name(), k)] = binds[k]
		}
	})
	var builtinMap ssa.Value
	allInstrs(init, func(i ssa.Instruction) {
		mu, ok := i.(*ssa.MapUpdate)
		if !ok {
			return
		}
		g := mapOfGlobal[mu.Map]
		if g == nil {
			return
		}
		mt, ok := mu.Map.Type().Underlying().(*types.Map)
		if !ok || !isFuncType(mt.Elem()) {
			return
		}
		if b, ok := mt.Key().Underlying().(*types.Basic); ok && b.Info()&types.IsInteger != 0 {
			k, ok := constInt(mu.Key)
			fn, _ := stripConv(mu.Value).(*ssa.Function)
			if fn == nil {
				// an entry built by a factory of the package (`nameFunction(kind, operand)`): the closure it returns
				if call, isCall := stripConv(mu.Value).(*ssa.Call); isCall {
					if cf, bind := closureFromFactory(call); cf != nil {
						fn = cf
						if f.BuiltinBind == nil {
							f.BuiltinBind = map[string]map[*ssa.FreeVar]ssa.Value{}
						}
						f.BuiltinBind[fmt.Sprintf("%s#%d", g.Name(), k)] = bind
					}
				}
			}
			if !ok || fn == nil {
				f.err = append(f.err, "overload table with non-constant entry at "+w.pos(mu.Pos()))
				return
			}
			if overloads[g] == nil {
				overloads[g] = map[int]*ssa.Function{}
			}
			overloads[g][int(k)] = fn
		}
	})
	allInstrs(init, func(i ssa.Instruction) {
		mu, ok := i.(*ssa.MapUpdate)
		if !ok {
			return
		}
		g := mapOfGlobal[mu.Map]
		if g == nil {
			return
		}
		mt, ok := mu.Map.Type().Underlying().(*types.Map)
		if !ok || !isFuncType(mt.Elem()) {
			return
		}
		kn, ok := mt.Key().(*types.Named)
		if !ok || kn.Obj().Name() != "XmlName" {
			return
		}
		builtinMap = mu.Map
		f.BuiltinVar = g
		// key: struct constant built via Alloc+FieldAddr stores, or a Const-composed struct. go/ssa
		// materialises composite struct literal keys through an Alloc; resolve field stores.
		space, local, ok := w.structStringPair(mu.Key)
		if !ok {
			f.err = append(f.err, "builtin table key not constant at "+w.pos(mu.Pos()))
			return
		}
		b := &Builtin{Name: local, Space: space, Fns: map[int]*ssa.Function{}, Pos: mu.Pos()}
		switch v := stripConv(mu.Value).(type) {
		case *ssa.Function:
			b.Fns[-1] = v
		case *ssa.Call:
			// overloadHelper.build(): receiver is a load of an overload global
			resolved := false
			if len(v.Call.Args) >= 1 {
				if ld, ok := v.Call.Args[0].(*ssa.UnOp); ok {
					if og, ok := ld.X.(*ssa.Global); ok && overloads[og] != nil {
						for k, fn := range overloads[og] {
							b.Fns[k] = fn
							if bd, ok := f.BuiltinBind[fmt.Sprintf("%s#%d", og.Name(), k)]; ok {
								f.BuiltinBind[fmt.Sprintf("%s#%d", local, k)] = bd
							}
						}
						resolved = true
					}
				}
			}
			if !resolved && len(v.Call.Args) >= 1 {
				// overloadHelper.build() on a table built by a factory (`nameDispatch(kind).build()`)
				if fc, isCall := stripConv(v.Call.Args[0]).(*ssa.Call); isCall {
					if tbl, binds := overloadsFromFactory(fc); len(tbl) > 0 {
						if f.BuiltinBind == nil {
							f.BuiltinBind = map[string]map[*ssa.FreeVar]ssa.Value{}
						}
						for k, fn := range tbl {
							b.Fns[k] = fn
							f.BuiltinBind[fmt.Sprintf("%s#%d", local, k)] = binds[k]
						}
						resolved = true
					}
				}
			}
			if !resolved {
				if cf, bind := closureFromFactory(v); cf != nil {
					b.Fns[-1] = cf
					if f.BuiltinBind == nil {
						f.BuiltinBind = map[string]map[*ssa.FreeVar]ssa.Value{}
					}
					f.BuiltinBind[local+"#-1"] = bind
					resolved = true
				}
			}
			if !resolved {
				f.err = append(f.err, "builtin "+local+": value is a call that does not resolve to an overload table at "+w.pos(mu.Pos()))
			}
		case *ssa.MakeClosure:
			if fn, ok := v.Fn.(*ssa.Function); ok {
				b.Fns[-1] = fn
			}
		default:
			f.err = append(f.err, "builtin "+local+": unresolved value at "+w.pos(mu.Pos()))
		}
		key := local
		if space != "" {
			key = "{" + space + "}" + local
		}
		f.Builtins[key] = b
	})
	_ = builtinMap
}

// structStringPair resolves a two-string-field struct value (XmlName) built from constants.
func (w *World) structStringPair(v ssa.Value) (string, string, bool) {
	v = stripConv(v)
	// pattern: UnOp(*, Alloc) with stores to FieldAddr 0/1
	if u, ok := v.(*ssa.UnOp); ok && u.Op == token.MUL {
		if al, ok := u.X.(*ssa.Alloc); ok {
			vals := map[int]string{}
			for _, r := range referrers(al) {
				fa, ok := r.(*ssa.FieldAddr)
				if !ok {
					continue
				}
				for _, rr := range referrers(fa) {
					if st, ok := rr.(*ssa.Store); ok && st.Addr == fa {
						if s, ok := constString(st.Val); ok {
							vals[fa.Field] = s
						} else {
							return "", "", false
						}
					}
				}
			}
			return vals[0], vals[1], true
		}
	}
	if c, ok := v.(*ssa.Const); ok && c.Value == nil {
		return "", "", true
	}
	return "", "", false
}

// mapLiteralEntries: the key/value pairs of a map value that is a composite literal: made in the same function, returned
// by a function of the repository whose only result is such a literal, or held in a package-level variable
// initialised with one.
func (w *World) mapLiteralEntries(v ssa.Value, depth int) ([]mapEntry, bool) {
	if depth > 3 {
		return nil, false
	}
	switch x := stripConv(v).(type) {
	case *ssa.MakeMap:
		var out []mapEntry
		ok := true
		for _, rr := range referrers(x) {
			switch y := rr.(type) {
			case *ssa.MapUpdate:
				if y.Map == ssa.Value(x) {
					out = append(out, mapEntry{y.Key, y.Value, y.Pos()})
				}
			case *ssa.Return, *ssa.Range, *ssa.Store, *ssa.DebugRef:
			default:
				ok = false
			}
		}
		return out, ok && len(out) > 0
	case *ssa.Call:
		sc := staticCallee(x)
		if sc == nil || !inRepo(sc) || len(x.Call.Args) != 0 {
			return nil, false
		}
		var ret ssa.Value
		n := 0
		allInstrs(sc, func(in ssa.Instruction) {
			if r, ok := in.(*ssa.Return); ok && len(r.Results) == 1 {
				ret = r.Results[0]
				n++
			}
		})
		if n != 1 {
			return nil, false
		}
		return w.mapLiteralEntries(ret, depth+1)
	case *ssa.UnOp:
		if g, ok := x.X.(*ssa.Global); ok {
			return w.globalMapLiteral(g)
		}
	}
	return nil, false
}

// closureFromFactory: call is `factory(args...)` where factory (a function of the repository) has a single return of
// a function literal; returns that literal and, for each of its free variables that captures a parameter of the
// factory, the argument passed for that parameter at this call.
func closureFromFactory(call *ssa.Call) (*ssa.Function, map[*ssa.FreeVar]ssa.Value) {
	sc := staticCallee(call)
	if sc == nil || !inRepo(sc) || len(sc.Blocks) == 0 {
		return nil, nil
	}
	var mc *ssa.MakeClosure
	n := 0
	allInstrs(sc, func(in ssa.Instruction) {
		if r, ok := in.(*ssa.Return); ok && len(r.Results) == 1 {
			n++
			if m, ok := stripConv(r.Results[0]).(*ssa.MakeClosure); ok {
				mc = m
			}
		}
	})
	if n != 1 || mc == nil {
		return nil, nil
	}
	fn, _ := mc.Fn.(*ssa.Function)
	if fn == nil {
		return nil, nil
	}
	bind := map[*ssa.FreeVar]ssa.Value{}
	for i, b := range mc.Bindings {
		if i >= len(fn.FreeVars) {
			break
		}
		var param *ssa.Parameter
		switch x := b.(type) {
		case *ssa.Parameter:
			param = x
		case *ssa.Alloc:
			for _, st := range storesInto(x) {
				if st.Addr == ssa.Value(x) {
					if p, ok := st.Val.(*ssa.Parameter); ok {
						param = p
					}
				}
			}
		}
		if param == nil {
			continue
		}
		for k, p := range sc.Params {
			if p == param && k < len(call.Call.Args) {
				bind[fn.FreeVars[i]] = call.Call.Args[k]
			}
		}
	}
	return fn, bind
}

// delegatesTo: hf does nothing but `return g(ctx, expr, extra...)` with its own two parameters passed through and
// function values (or constants) as the extra arguments: returns g and what its extra parameters are bound to.
func delegatesTo(hf *ssa.Function) (*ssa.Function, map[*ssa.Parameter]ssa.Value) {
	if hf == nil || len(hf.Params) != 2 || len(hf.Blocks) != 1 {
		return nil, nil
	}
	var call *ssa.Call
	n := 0
	for _, in := range hf.Blocks[0].Instrs {
		switch x := in.(type) {
		case *ssa.Call:
			call = x
			n++
		case *ssa.MakeClosure, *ssa.Return, *ssa.DebugRef, *ssa.ChangeType:
		default:
			return nil, nil
		}
	}
	if n != 1 || call == nil {
		return nil, nil
	}
	g := staticCallee(call)
	if g == nil || !inRepo(g) || len(call.Call.Args) < 3 || len(g.Params) != len(call.Call.Args) {
		return nil, nil
	}
	if call.Call.Args[0] != ssa.Value(hf.Params[0]) || call.Call.Args[1] != ssa.Value(hf.Params[1]) {
		return nil, nil
	}
	ret, ok := hf.Blocks[0].Instrs[len(hf.Blocks[0].Instrs)-1].(*ssa.Return)
	if !ok || len(ret.Results) != 1 || ret.Results[0] != ssa.Value(call) {
		return nil, nil
	}
	pb := map[*ssa.Parameter]ssa.Value{}
	for i := 2; i < len(call.Call.Args); i++ {
		switch stripConv(call.Call.Args[i]).(type) {
		case *ssa.Function, *ssa.MakeClosure, *ssa.Const:
			pb[g.Params[i]] = call.Call.Args[i]
		default:
			return nil, nil
		}
	}
	return g, pb
}

// overloadsFromFactory: call is `factory(args...)` where factory returns a map literal from arities to functions
// (literals capturing the factory's parameters, or plain functions): the table and, per entry, what the captured
// parameters are bound to at this call.
func overloadsFromFactory(call *ssa.Call) (map[int]*ssa.Function, map[int]map[*ssa.FreeVar]ssa.Value) {
	sc := staticCallee(call)
	if sc == nil || !inRepo(sc) || len(sc.Blocks) == 0 {
		return nil, nil
	}
	var mm *ssa.MakeMap
	n := 0
	allInstrs(sc, func(in ssa.Instruction) {
		if r, ok := in.(*ssa.Return); ok && len(r.Results) == 1 {
			n++
			if m, ok := stripConv(r.Results[0]).(*ssa.MakeMap); ok {
				mm = m
			}
		}
	})
	if n != 1 || mm == nil {
		return nil, nil
	}
	mt, ok := mm.Type().Underlying().(*types.Map)
	if !ok {
		return nil, nil
	}
	if b, ok := mt.Key().Underlying().(*types.Basic); !ok || b.Info()&types.IsInteger == 0 {
		return nil, nil
	}
	tbl := map[int]*ssa.Function{}
	binds := map[int]map[*ssa.FreeVar]ssa.Value{}
	bad := false
	for _, rr := range referrers(mm) {
		mu, ok := rr.(*ssa.MapUpdate)
		if !ok || mu.Map != ssa.Value(mm) {
			continue
		}
		k, isK := constInt(mu.Key)
		if !isK {
			bad = true
			continue
		}
		switch x := stripConv(mu.Value).(type) {
		case *ssa.Function:
			tbl[int(k)] = x
		case *ssa.MakeClosure:
			fn, _ := x.Fn.(*ssa.Function)
			if fn == nil {
				bad = true
				continue
			}
			tbl[int(k)] = fn
			bind := map[*ssa.FreeVar]ssa.Value{}
			for i, bv := range x.Bindings {
				if i >= len(fn.FreeVars) {
					break
				}
				var param *ssa.Parameter
				switch y := bv.(type) {
				case *ssa.Parameter:
					param = y
				case *ssa.Alloc:
					for _, st := range storesInto(y) {
						if st.Addr == ssa.Value(y) {
							if p, ok := st.Val.(*ssa.Parameter); ok {
								param = p
							}
						}
					}
				}
				if param == nil {
					continue
				}
				for j, p := range sc.Params {
					if p == param && j < len(call.Call.Args) {
						bind[fn.FreeVars[i]] = call.Call.Args[j]
					}
				}
			}
			binds[int(k)] = bind
		default:
			bad = true
		}
	}
	if bad {
		return nil, nil
	}
	return tbl, binds
}

// globalFuncValue: the function a package-level variable of function type holds: it is stored exactly once in the whole
// program, in the package initialiser, and the value is a function or a literal.
func globalFuncValue(g *ssa.Global) *ssa.Function {
	if g.Pkg == nil || theWorld == nil {
		return nil
	}
	var out *ssa.Function
	n := 0
	for k := range theWorld.SSA {
		theWorld.forAllFuncs(k, func(fn *ssa.Function) {
			allInstrs(fn, func(in ssa.Instruction) {
				st, ok := in.(*ssa.Store)
				if !ok || st.Addr != ssa.Value(g) {
					return
				}
				n++
				if fn.Name() != "init" || fn.Pkg != g.Pkg {
					n++
				}
				switch v := stripConv(st.Val).(type) {
				case *ssa.Function:
					out = v
				case *ssa.MakeClosure:
					out, _ = v.Fn.(*ssa.Function)
				}
			})
		})
	}
	// the initialiser is not among the functions forAllFuncs visits for every package layout: look there too
	if ini := g.Pkg.Func("init"); ini != nil && n == 0 {
		allInstrs(ini, func(in ssa.Instruction) {
			st, ok := in.(*ssa.Store)
			if !ok || st.Addr != ssa.Value(g) {
				return
			}
			n++
			switch v := stripConv(st.Val).(type) {
			case *ssa.Function:
				out = v
			case *ssa.MakeClosure:
				out, _ = v.Fn.(*ssa.Function)
			}
		})
	}
	if n != 1 {
		return nil
	}
	return out
}
