package main

import (
	"go/token"
	"go/types"

	"golang.org/x/tools/go/ssa"
)

// A keepSite is one way a filter keeps an element of the incoming node-set: an append of the loop element to the
// result, with everything known to hold when it happens. The conditions are collected across function boundaries:
// a filter helper that takes the predicate as a function value (`filterNodes(nodeSet, func(n node.Node) bool {...})`)
// contributes the conditions of the helper's own loop plus, for every path on which the predicate bound at the call
// in this handler can return true, the conditions of that path.
type keepSite struct {
	Append *ssa.Call
	Atoms  []atom
	Fns    []*ssa.Function // the functions the atoms come from (helper, predicate literals)
	Err    string
}

// keepSites collects the keep sites of the filter rooted at handler h (functions of package exec reachable from it,
// the expression dispatcher and other handlers excluded).
func (w *World) keepSites(h *ssa.Function, r *Roles) []keepSite {
	f := w.Facts()
	handlers := f.handlersByFn()
	scope := map[*ssa.Function]bool{}
	for g := range staticReach(h, func(x *ssa.Function) bool {
		if fnPkgKey(x) != "exec" || x == r.ExecContext {
			return false
		}
		if _, isHandler := handlers[x]; isHandler && x != h {
			return false
		}
		return true
	}) {
		scope[g] = true
	}
	var out []keepSite
	var fns []*ssa.Function
	for g := range scope {
		fns = append(fns, g)
	}
	sortFuncs(fns)
	for _, g := range fns {
		allInstrs(g, func(in ssa.Instruction) {
			c, ok := in.(*ssa.Call)
			if !ok {
				return
			}
			b, ok := c.Call.Value.(*ssa.Builtin)
			if !ok || b.Name() != "append" || !types.Identical(c.Type(), r.NodeSet) {
				return
			}
			for _, ks := range w.expandKeep(guardAtoms(c.Block()), g, scope, 0) {
				ks.Append = c
				ks.Fns = append([]*ssa.Function{g}, ks.Fns...)
				out = append(out, ks)
			}
		})
	}
	return out
}

// expandKeep replaces every atom "a function value held in a parameter / captured variable of fn returned true" by the
// conditions under which the function bound to it (at the calls of fn inside scope) returns true.
func (w *World) expandKeep(atoms []atom, fn *ssa.Function, scope map[*ssa.Function]bool, depth int) []keepSite {
	if depth > 4 {
		return []keepSite{{Atoms: atoms, Err: "predicate nesting too deep"}}
	}
	for i, a := range atoms {
		c, ok := a.V.(*ssa.Call)
		if !ok || c.Call.IsInvoke() || staticCallee(c) != nil {
			continue
		}
		if _, isB := c.Call.Value.(*ssa.Builtin); isB {
			continue
		}
		rest := append(append([]atom{}, atoms[:i]...), atoms[i+1:]...)
		if !a.Pol {
			return []keepSite{{Atoms: atoms, Err: "an element is kept when a predicate function returns false"}}
		}
		preds, err := boundFunctions(c.Call.Value, fn, scope, 0)
		if err != "" || len(preds) == 0 {
			return []keepSite{{Atoms: atoms, Err: "the predicate function cannot be resolved: " + err}}
		}
		var out []keepSite
		for _, p := range preds {
			for _, path := range trueReturns(p) {
				merged := append(append([]atom{}, rest...), path...)
				for _, ks := range w.expandKeep(merged, p, scope, depth+1) {
					ks.Fns = append([]*ssa.Function{p}, ks.Fns...)
					out = append(out, ks)
				}
			}
		}
		return out
	}
	return []keepSite{{Atoms: atoms}}
}

// boundFunctions: the functions a function-typed value of fn may be at run time, resolved through parameters (the
// arguments at the static calls of fn inside scope) and captured variables (the binding where the literal is made).
func boundFunctions(v ssa.Value, fn *ssa.Function, scope map[*ssa.Function]bool, depth int) ([]*ssa.Function, string) {
	if depth > 5 {
		return nil, "binding chain too long"
	}
	v = throughCells(stripConv(v))
	switch x := v.(type) {
	case *ssa.Function:
		return []*ssa.Function{x}, ""
	case *ssa.MakeClosure:
		if f2, ok := x.Fn.(*ssa.Function); ok {
			return []*ssa.Function{f2}, ""
		}
	case *ssa.Phi:
		var out []*ssa.Function
		for _, e := range x.Edges {
			fs, err := boundFunctions(e, fn, scope, depth+1)
			if err != "" {
				return nil, err
			}
			out = append(out, fs...)
		}
		return out, ""
	case *ssa.FreeVar:
		if b := freeVarBinding(x); b != nil && fn.Parent() != nil {
			return boundFunctions(b, fn.Parent(), scope, depth+1)
		}
		return nil, "captured variable with more than one binding"
	case *ssa.Parameter:
		idx := -1
		for i, p := range fn.Params {
			if p == x {
				idx = i
			}
		}
		var out []*ssa.Function
		sites := 0
		var err string
		for g := range scope {
			allInstrs(g, func(in ssa.Instruction) {
				c, ok := in.(ssa.CallInstruction)
				if !ok || c.Common().StaticCallee() != fn || idx < 0 || idx >= len(c.Common().Args) {
					return
				}
				sites++
				fs, e := boundFunctions(c.Common().Args[idx], g, scope, depth+1)
				if e != "" {
					err = e
				}
				out = append(out, fs...)
			})
		}
		if sites == 0 {
			return nil, "no call of " + fn.Name() + " in the handler's closure"
		}
		return out, err
	}
	return nil, "function value of unknown origin (" + describe(v) + ")"
}

// trueReturns: for every return of the boolean function p that is not the constant false, the conditions known to hold
// when p returns true there (the guards of the return plus what the returned expression being true implies).
func trueReturns(p *ssa.Function) [][]atom {
	var out [][]atom
	allInstrs(p, func(in ssa.Instruction) {
		ret, ok := in.(*ssa.Return)
		if !ok || len(ret.Results) != 1 {
			return
		}
		var vals []ssa.Value
		var extra [][]atom
		v := ret.Results[0]
		if phi, ok := v.(*ssa.Phi); ok && phi.Block() == ret.Block() {
			// one path per incoming edge: the conditions of the predecessor plus the value on that edge
			for i, e := range phi.Edges {
				pb := phi.Block().Preds[i]
				g := guardAtoms(pb)
				if len(pb.Instrs) > 0 {
					if ifi, ok := pb.Instrs[len(pb.Instrs)-1].(*ssa.If); ok && len(pb.Succs) == 2 && pb.Succs[0] != pb.Succs[1] {
						if pb.Succs[0] == phi.Block() {
							g = append(g, valueAtoms(ifi.Cond, true)...)
						} else {
							g = append(g, valueAtoms(ifi.Cond, false)...)
						}
					}
				}
				vals = append(vals, e)
				extra = append(extra, g)
			}
		} else {
			vals = append(vals, v)
			extra = append(extra, guardAtoms(ret.Block()))
		}
		for i, val := range vals {
			if c, ok := val.(*ssa.Const); ok && c.Value != nil {
				if c.Value.String() == "false" {
					continue
				}
				out = append(out, extra[i])
				continue
			}
			out = append(out, append(append([]atom{}, extra[i]...), valueAtoms(val, true)...))
		}
	})
	return out
}

func sortFuncs(fns []*ssa.Function) {
	for i := 1; i < len(fns); i++ {
		for j := i; j > 0 && (fns[j].Pos() < fns[j-1].Pos() || (fns[j].Pos() == fns[j-1].Pos() && fns[j].String() < fns[j-1].String())); j-- {
			fns[j], fns[j-1] = fns[j-1], fns[j]
		}
	}
}

var _ = token.NoPos
