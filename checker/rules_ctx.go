package main

import (
	"fmt"
	"go/types"
	"sort"

	"golang.org/x/tools/go/ssa"
)

// R01.13: completeness of every evaluation context that is built outside the public entry point.
//
// The evaluator hands predicates, operands and function arguments their own context object. Whatever way that
// object is built (the copy method, a whole-struct copy, a constructor helper, a composite literal), it has to carry
// every field of the context it was derived from; a literal that names only some fields leaves the others zero
// (position() = 1 and last() = 0 inside function arguments, an absolute path without a root, variables and
// namespace bindings lost). Only the result, position and size may be set to something else (that is what a
// predicate or a step does), which other rules decide.
func (w *World) checkContextConstruction(P string, f *Facts, r *Roles) {
	docRule(P, "R01.13", "F", "every evaluation context constructed in package exec, other than the seed built by the public entry point, starts as a complete copy of an existing context: it is assigned as a whole from the copy method, from a dereferenced context or from a helper that returns such a value, or every field of a composite literal is taken from the same field of one existing context (the builtin table may come from the package-level table); result, position and size may be overridden afterwards.")
	if r.CtxType == nil {
		w.undecided(P, "R01.13", "context type", 0, "context type not identified")
		return
	}
	st, _ := r.CtxType.Underlying().(*types.Struct)
	if st == nil {
		return
	}
	overridable := map[int]bool{r.CtxResultField: true}
	if r.CtxPosField >= 0 {
		overridable[r.CtxPosField] = true
	}
	if r.CtxSizeField >= 0 {
		overridable[r.CtxSizeField] = true
	}
	// the evaluator proper: everything reachable from the dispatcher, the registered handlers and the builtins. The
	// seed context is built outside of it (by the public entry point or a constructor it calls) and is decided by
	// the seed rules (C18 R18.1, C02 R02.3).
	evalFns := map[*ssa.Function]bool{}
	addRoot := func(fn *ssa.Function) {
		for g := range staticReach(fn, func(x *ssa.Function) bool { return fnPkgKey(x) == "exec" }) {
			evalFns[g] = true
		}
	}
	if r.ExecContext != nil {
		addRoot(r.ExecContext)
	}
	for _, h := range f.Handlers {
		addRoot(h.Fn)
	}
	for _, b := range f.Builtins {
		for _, fn := range b.impls() {
			addRoot(fn)
		}
	}
	isSeed := func(fn *ssa.Function) bool {
		for g := fn; g != nil; g = g.Parent() {
			if evalFns[g] {
				return false
			}
		}
		return true
	}
	// completeValue: v is a complete context value
	var completeFn func(fn *ssa.Function, depth int) bool
	var completeValue func(v ssa.Value, depth int) bool
	completeValue = func(v ssa.Value, depth int) bool {
		switch x := v.(type) {
		case *ssa.Call:
			sc := staticCallee(x)
			if sc == nil {
				return false
			}
			if sc == r.CopyCtx {
				return true
			}
			return depth < 4 && completeFn(sc, depth+1)
		case *ssa.UnOp:
			// *p where p is an existing context (parameter, field, another complete local)
			if pt, ok := x.X.Type().(*types.Pointer); ok && types.Identical(pt.Elem(), r.CtxType) {
				if al, ok := x.X.(*ssa.Alloc); ok {
					return w.ctxAllocComplete(al, r, st, overridable, completeValue, depth+1)
				}
				return true
			}
		case *ssa.Phi:
			for _, e := range x.Edges {
				if !completeValue(e, depth+1) {
					return false
				}
			}
			return len(x.Edges) > 0
		}
		return false
	}
	cache := map[*ssa.Function]int{}
	completeFn = func(fn *ssa.Function, depth int) bool {
		if c, ok := cache[fn]; ok {
			return c == 1
		}
		cache[fn] = 1 // optimistic for recursion
		ok := fnPkgKey(fn) == "exec" && len(fn.Blocks) > 0
		n := 0
		if ok {
			allInstrs(fn, func(in ssa.Instruction) {
				ret, isRet := in.(*ssa.Return)
				if !isRet {
					return
				}
				for _, rv := range ret.Results {
					if types.Identical(rv.Type(), r.CtxType) {
						n++
						if !completeValue(rv, depth) {
							ok = false
						}
					}
				}
			})
		}
		ok = ok && n > 0
		if ok {
			cache[fn] = 1
		} else {
			cache[fn] = 2
		}
		return ok
	}
	var fns []*ssa.Function
	w.forAllFuncs("exec", func(fn *ssa.Function) { fns = append(fns, fn) })
	sort.Slice(fns, func(i, j int) bool { return fns[i].Pos() < fns[j].Pos() })
	n := 0
	for _, fn := range fns {
		if isSeed(fn) || fn == r.CopyCtx {
			continue
		}
		allInstrs(fn, func(in ssa.Instruction) {
			al, ok := in.(*ssa.Alloc)
			if !ok {
				return
			}
			pt, ok := al.Type().(*types.Pointer)
			if !ok || !types.Identical(pt.Elem(), r.CtxType) {
				return
			}
			n++
			ok = w.ctxAllocComplete(al, r, st, overridable, completeValue, 0)
			w.check(P, "R01.13", fmt.Sprintf("context object built in %s", fnName(fn)), al.Pos(), ok,
				fmt.Sprintf("the context built here starts as a complete copy of an existing context: %v (a partial literal leaves position, size, root or the bindings zero for everything evaluated in it)", ok))
		})
	}
	// the copy method itself is decided by R01.8
	w.floorSites(P, "R01.13", 3)
}

// ctxAllocComplete: the context cell al receives a complete value before anything else: a whole-value store of a
// complete value, or field stores covering every non-overridable field from the same field of one existing context.
func (w *World) ctxAllocComplete(al *ssa.Alloc, r *Roles, st *types.Struct, overridable map[int]bool, completeValue func(ssa.Value, int) bool, depth int) bool {
	if depth > 6 {
		return false
	}
	whole := false
	fields := map[int]bool{}
	var src ssa.Value
	sameSrc := true
	for _, rr := range referrers(al) {
		switch x := rr.(type) {
		case *ssa.Store:
			if x.Addr == ssa.Value(al) {
				if completeValue(x.Val, depth) {
					whole = true
				} else {
					return false
				}
			}
		case *ssa.FieldAddr:
			for _, r2 := range referrers(x) {
				s, ok := r2.(*ssa.Store)
				if !ok || s.Addr != ssa.Value(x) {
					continue
				}
				if overridable[x.Field] {
					fields[x.Field] = true
					continue
				}
				// value must be a load of the same field of an existing context, or the package-level builtin table
				if ld, ok := s.Val.(*ssa.UnOp); ok {
					if sfa, ok := ld.X.(*ssa.FieldAddr); ok && sfa.Field == x.Field {
						if pt, ok := sfa.X.Type().(*types.Pointer); ok && types.Identical(pt.Elem(), r.CtxType) {
							if src == nil {
								src = sfa.X
							} else if src != sfa.X {
								sameSrc = false
							}
							fields[x.Field] = true
							continue
						}
					}
					if g, ok := ld.X.(*ssa.Global); ok && w.Facts().BuiltinVar != nil && g == w.Facts().BuiltinVar {
						fields[x.Field] = true
						continue
					}
				}
				if !whole {
					// a field of a not-yet-complete object set from something else
					fields[x.Field] = false
				}
			}
		}
	}
	if whole {
		return true
	}
	if !sameSrc {
		return false
	}
	// a literal has to name every field: an omitted position or size is the zero value, not the caller's
	for i := 0; i < st.NumFields(); i++ {
		if !fields[i] {
			return false
		}
	}
	return true
}
