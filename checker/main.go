package main

import (
	"flag"
	"fmt"
	"os"
	"runtime/debug"
	"sort"
	"strconv"
	"strings"
	"time"
)

type propCheck func(w *World)

var registry = map[string]propCheck{}

func register(id string, f propCheck) { registry[id] = f }

var onlyRule string
var verifDir string

func main() {
	prop := flag.String("property", "", "property id (C01..C20) or 'all'")
	tier := flag.String("tier", "", "quick|thorough (default: $VERIF_TIER or quick)")
	repo := flag.String("repo", "/repo", "repository root to analyse")
	verif := flag.String("verif", "/verif", "verification directory (evidence, known findings)")
	replay := flag.String("replay", "", "replay file: re-evaluates the rule of the recorded obligation")
	dump := flag.String("dump", "", "debug: dump facts|ssa:<pkg>.<fn>")
	flag.StringVar(&onlyRule, "only", "", "evaluate only obligations of this rule id when printing (debug/replay)")
	flag.Parse()
	if *tier == "" {
		*tier = os.Getenv("VERIF_TIER")
	}
	if *tier != "thorough" {
		*tier = "quick"
	}
	seed := 0
	if s := os.Getenv("VERIF_SEED"); s != "" {
		seed, _ = strconv.Atoi(s)
	}
	if *replay != "" {
		p, r, err := readReplay(*replay)
		if err != nil {
			fmt.Println("ERROR:", err)
			os.Exit(1)
		}
		*prop, onlyRule = p, r
	}
	verifDir = *verif
	t0 := time.Now()
	w, err := loadWorld(*repo, *tier, "")
	if err != nil {
		fmt.Println("ERROR loading program:", err)
		if *prop != "" && *prop != "all" {
			fmt.Printf("VIOLATION property=%s replay=%s\n", *prop, "-")
		}
		os.Exit(1)
	}
	if *dump != "" {
		doDump(w, *dump)
		return
	}
	var props []string
	if *prop == "all" {
		for k := range registry {
			props = append(props, k)
		}
		sort.Strings(props)
	} else if _, ok := registry[*prop]; ok {
		props = []string{*prop}
	} else {
		fmt.Printf("unknown property %q\n", *prop)
		os.Exit(2)
	}
	exit := 0
	for _, p := range props {
		func() {
			defer func() {
				if r := recover(); r != nil {
					w.undecided(p, "R00.panic", "checker panic", 0, fmt.Sprintf("%v\n%s", r, debug.Stack()))
				}
			}()
			f := w.Facts()
			for _, e := range f.err {
				w.undecided(p, "R00.facts", "fact extraction: "+e, 0, e)
			}
			registry[p](w)
		}()
		extra := map[string]interface{}{}
		if *tier == "thorough" {
			thoroughExtras(w, p, extra)
		}
		if c := w.finish(p, *verif, seed, time.Since(t0).Seconds(), extra); c != 0 {
			exit = 1
		}
	}
	os.Exit(exit)
}

func readReplay(path string) (string, string, error) {
	b, err := os.ReadFile(path)
	if err != nil {
		return "", "", err
	}
	s := string(b)
	get := func(key string) string {
		i := strings.Index(s, "\""+key+"\": \"")
		if i < 0 {
			return ""
		}
		r := s[i+len(key)+5:]
		return r[:strings.Index(r, "\"")]
	}
	p, r := get("property"), get("rule")
	if p == "" {
		return "", "", fmt.Errorf("replay file %s has no property", path)
	}
	return p, r, nil
}

var debugHook func(w *World, what string) bool

func doDump(w *World, what string) {
	if debugHook != nil && debugHook(w, what) {
		return
	}
	f := w.Facts()
	switch {
	case what == "facts":
		fmt.Println("errors:", f.err)
		fmt.Println("NTs:", len(f.NTNames), "Ts:", len(f.TNames), "alts:", f.NumAlts)
		var nts []string
		for nt := range f.Alts {
			nts = append(nts, nt)
		}
		sort.Strings(nts)
		for _, nt := range nts {
			for _, a := range f.Alts[nt] {
				h := ""
				if hd := f.Handlers[nt]; hd != nil {
					h = "  -> " + hd.Fn.Name()
				}
				fmt.Println(" ", a.String(), h)
			}
		}
		fmt.Println("handlers:", len(f.Handlers), "dups:", f.HandlerDup)
		var bs []string
		for k := range f.Builtins {
			bs = append(bs, k)
		}
		sort.Strings(bs)
		for _, k := range bs {
			b := f.Builtins[k]
			s := ""
			for ar, fn := range b.Fns {
				s += fmt.Sprintf(" %d:%s", ar, fn.Name())
			}
			fmt.Println("  builtin", k, s)
		}
	case strings.HasPrefix(what, "ssa:"):
		name := strings.TrimPrefix(what, "ssa:")
		i := strings.LastIndex(name, ".")
		fn := w.member(name[:i], name[i+1:])
		if fn == nil {
			fmt.Println("not found")
			return
		}
		fn.WriteTo(os.Stdout)
	}
}

func init() {
	debugHook = func(w *World, what string) bool {
		if !strings.HasPrefix(what, "method:") {
			return false
		}
		parts := strings.Split(strings.TrimPrefix(what, "method:"), ".")
		fn := w.method(parts[0], parts[1], parts[2])
		if fn != nil {
			fn.WriteTo(os.Stdout)
		}
		return true
	}
}

func init() {
	prev := debugHook
	debugHook = func(w *World, what string) bool {
		if strings.HasPrefix(what, "effects:") {
			name := strings.TrimPrefix(what, "effects:")
			i := strings.LastIndex(name, ".")
			fn := w.member(name[:i], name[i+1:])
			if fn == nil {
				fmt.Println("not found")
				return true
			}
			e := w.Effects()
			s := e.summary(fn)
			fmt.Println("W:", s.W.list())
			e.settle()
			fmt.Println("R:", s.R.list())
			fmt.Println("Rc:", s.Rc.list())
			for k, v := range s.S {
				fmt.Println("S", k, v.list())
			}
			for _, wr := range s.Writes {
				fmt.Println("  write", w.pos(wr.Pos), wr.What, wr.Tags.list())
			}
			return true
		}
		return prev(w, what)
	}
}
