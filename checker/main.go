package main

import (
	"fmt"
	"os"
	"time"

	"golang.org/x/tools/go/packages"
	"golang.org/x/tools/go/ssa"
	"golang.org/x/tools/go/ssa/ssautil"
)

func main() {
	t0 := time.Now()
	cfg := &packages.Config{Mode: packages.LoadAllSyntax, Dir: "/repo", Env: append(os.Environ(), "GOFLAGS=-mod=mod", "GOPROXY=off", "GOSUMDB=off", "GOTOOLCHAIN=local", "GOWORK=off")}
	pkgs, err := packages.Load(cfg, "./...")
	if err != nil {
		panic(err)
	}
	fmt.Println(len(pkgs), time.Since(t0))
	for _, p := range pkgs {
		fmt.Println(p.PkgPath, len(p.Errors))
	}
	prog, _ := ssautil.AllPackages(pkgs, ssa.InstantiateGenerics)
	prog.Build()
	fmt.Println(time.Since(t0))
}
