package main

import (
	"fmt"
	"go/token"
	"go/types"
	"sort"
	"strings"

	"golang.org/x/tools/go/ssa"
)

func init() {
	register("C20", checkC20)
	notDecided["C20"] = "round-trip fidelity of the -m serialisation (newline replacement inside comments and processing instructions, namespace prefixes chosen by encoding/xml), MIME detection per file extension, the effect of unreadable files — all input/output behaviour of encoding/xml, mime and the file system; the printed bytes for concrete inputs."
}

func mainGlobalLoad(v ssa.Value) string {
	// *flagPtr: load of a load of a global
	for i := 0; i < 3; i++ {
		ld, ok := v.(*ssa.UnOp)
		if !ok || ld.Op != token.MUL {
			return ""
		}
		if g, ok := ld.X.(*ssa.Global); ok && g.Pkg.Pkg.Name() == "main" {
			return g.Name()
		}
		v = ld.X
	}
	return ""
}

func checkC20(w *World) {
	const P = "C20"
	docRule(P, "R20.1", "T", "every flag variable the command defines is read by code reachable from main or a worker; the -s and -v bindings flow into the ContextSettings callback passed to Exec (NamespaceDecls, Variables); -e and -u flow into the xml.Decoder options callback passed to ReadXml (Entity, Strict).")
	docRule(P, "R20.2", "T siblings", "file-type agreement: the keys of the valid-type table, the case labels of the cursor factory and the constants assigned by MIME detection are the same set {xml, html, json}, and each case calls the reader of that name.")
	docRule(P, "R20.3", "D siblings", "record shape: in both record writers the `path: ` prefix is emitted iff not (suppress-flag or path == \"-\"); an empty node-set returns before any output; -a writes one record per node in ascending order; every record ends in a newline constant.")
	docRule(P, "R20.4", "F", "-m: every byte sequence written to the per-file buffer in XML mode is the result of a newline-replacing call (\"\\n\" -> \"&#10;\") followed by one newline; the serialiser's type switch covers all node kinds unshadowed.")
	docRule(P, "R20.5", "D", "directories: the walker returns fs.SkipDir for a directory iff -r is off; diagnostics are written to os.Stderr only, results to standard output only through the single print of C14 R14.3.")
	pkg := w.SSA["xsel"]
	if pkg == nil {
		w.undecided(P, "R20.1", "command", 0, "package xsel (command) not loaded")
		return
	}
	mainFn := pkg.Func("main")
	var all []*ssa.Function
	w.forAllFuncs("xsel", func(fn *ssa.Function) { all = append(all, fn) })

	// R20.1 flags
	flagGlobals := map[string]bool{}
	init := pkg.Func("init")
	allInstrs(init, func(in ssa.Instruction) {
		st, ok := in.(*ssa.Store)
		if !ok {
			return
		}
		g, ok := st.Addr.(*ssa.Global)
		if !ok {
			return
		}
		if c, ok := st.Val.(*ssa.Call); ok && staticCallee(c) != nil && strings.HasPrefix(funcFullName(staticCallee(c)), "flag.") {
			flagGlobals[g.Name()] = true
		}
	})
	// flag.Var(target, ...) in main
	allInstrs(mainFn, func(in ssa.Instruction) {
		c, ok := in.(*ssa.Call)
		if !ok || staticCallee(c) == nil || funcFullName(staticCallee(c)) != "flag.Var" {
			return
		}
		if n := mainGlobalLoad(stripConv(c.Call.Args[0])); n != "" {
			flagGlobals[n] = true
		}
	})
	var fnames []string
	for n := range flagGlobals {
		fnames = append(fnames, n)
	}
	sort.Strings(fnames)
	for _, n := range fnames {
		g, _ := pkg.Members[n].(*ssa.Global)
		read := ""
		for _, fn := range all {
			if fn == init {
				continue
			}
			allInstrs(fn, func(in ssa.Instruction) {
				ld, ok := in.(*ssa.UnOp)
				if !ok || ld.X != ssa.Value(g) {
					return
				}
				// the loaded pointer/map must be used by something other than flag registration
				for _, rr := range referrers(ld) {
					if c, ok := rr.(*ssa.Call); ok && staticCallee(c) != nil && funcFullName(staticCallee(c)) == "flag.Var" {
						continue
					}
					if mi, ok := rr.(*ssa.MakeInterface); ok {
						onlyFlag := true
						for _, r2 := range referrers(mi) {
							if c, ok := r2.(*ssa.Call); !ok || staticCallee(c) == nil || funcFullName(staticCallee(c)) != "flag.Var" {
								onlyFlag = false
							}
						}
						if onlyFlag {
							continue
						}
					}
					read = fn.Name()
				}
			})
		}
		w.check(P, "R20.1", "flag variable "+n, g.Pos(), read != "", "read in "+orElse(read, "no function: the option has no effect"))
	}
	w.floor(P, "R20.1", 9)
	// bindings flow
	// the globals are identified by the command-line letter they are registered under (the public interface of the
	// command), the variable map by the type of the field it ends up in; never by their names
	flagLetter := map[string]string{} // letter -> global name
	allInstrs(init, func(in ssa.Instruction) {
		st, ok := in.(*ssa.Store)
		if !ok {
			return
		}
		g, ok := st.Addr.(*ssa.Global)
		if !ok {
			return
		}
		if c, ok := st.Val.(*ssa.Call); ok && staticCallee(c) != nil && strings.HasPrefix(funcFullName(staticCallee(c)), "flag.") && len(c.Call.Args) > 0 {
			if l, ok := constString(c.Call.Args[0]); ok {
				flagLetter[l] = g.Name()
			}
		}
	})
	allInstrs(mainFn, func(in ssa.Instruction) {
		c, ok := in.(*ssa.Call)
		if !ok || staticCallee(c) == nil || funcFullName(staticCallee(c)) != "flag.Var" || len(c.Call.Args) < 2 {
			return
		}
		if n := mainGlobalLoad(stripConv(c.Call.Args[0])); n != "" {
			if l, ok := constString(c.Call.Args[1]); ok {
				flagLetter[l] = n
			}
		}
	})
	flow := func(cbResultField, letter string, target string) {
		global := flagLetter[letter]
		if letter == "v" {
			// the variables are converted into a map of the field's own type first: the global of that type
			global = ""
			for n, m := range pkg.Members {
				if g, ok := m.(*ssa.Global); ok {
					if mt, ok := g.Type().(*types.Pointer).Elem().Underlying().(*types.Map); ok {
						if kn, ok := types.Unalias(mt.Key()).(*types.Named); ok && kn.Obj().Name() == "XmlName" {
							global = n
						}
					}
				}
			}
		}
		if global == "" {
			w.undecided(P, "R20.1", fmt.Sprintf("option -%s reaches %s through %s", letter, cbResultField, target), 0, "no package-level variable is registered for the option")
			return
		}
		found := false
		for _, fn := range all {
			allInstrs(fn, func(in ssa.Instruction) {
				st, ok := in.(*ssa.Store)
				if !ok {
					return
				}
				fa, ok := st.Addr.(*ssa.FieldAddr)
				if !ok || fieldName(fa) != cbResultField {
					return
				}
				if sliceContains(st.Val, func(v ssa.Value) bool { g, ok := v.(*ssa.Global); return ok && g.Name() == global }) {
					// the enclosing function is passed to target
					for _, caller := range all {
						allInstrs(caller, func(in2 ssa.Instruction) {
							c, ok := in2.(*ssa.Call)
							if !ok || staticCallee(c) == nil || !strings.HasSuffix(funcFullName(staticCallee(c)), target) {
								return
							}
							for _, a := range c.Call.Args {
								if sliceContains(a, func(v ssa.Value) bool { return v == ssa.Value(fn) }) {
									found = true
								}
							}
						})
					}
				}
			})
		}
		w.check(P, "R20.1", fmt.Sprintf("option -%s reaches %s through %s", letter, cbResultField, target), 0, found, fmt.Sprintf("%v (variable %s)", found, global))
	}
	flow("NamespaceDecls", "s", "xsel.Exec")
	flow("Variables", "v", "xsel.Exec")
	flow("Entity", "e", "xsel.ReadXml")
	flow("Strict", "u", "xsel.ReadXml")

	// bindings are taken verbatim from the command line
	docRule(P, "R20.6", "F", "the -s/-v/-e option parser stores the text before '=' as the key and the text after it as the value, unmodified (no trimming or case folding); the -m serialiser names every start tag, end tag and attribute with the node's own Space() and Local(), unconditionally.")
	for _, fn := range all {
		if fn.Name() != "Set" || len(fn.Params) != 2 {
			continue
		}
		verbatim := false
		modifies := ""
		allInstrs(fn, func(in ssa.Instruction) {
			switch x := in.(type) {
			case *ssa.MapUpdate:
				isElem := func(v ssa.Value, k int64) bool {
					ld, ok := v.(*ssa.UnOp)
					if !ok {
						return false
					}
					ia, ok := ld.X.(*ssa.IndexAddr)
					if !ok {
						return false
					}
					kk, ok := constInt(ia.Index)
					if !ok || kk != k {
						return false
					}
					c, ok := ia.X.(*ssa.Call)
					return ok && staticCallee(c) != nil && strings.HasPrefix(funcFullName(staticCallee(c)), "strings.Split")
				}
				if isElem(x.Key, 0) && isElem(x.Value, 1) {
					verbatim = true
				}
			case *ssa.Call:
				if sc := staticCallee(x); sc != nil {
					n := funcFullName(sc)
					if strings.HasPrefix(n, "strings.Trim") || strings.HasPrefix(n, "strings.To") || n == "strings.Fields" {
						modifies = n
					}
				}
			}
		})
		w.check(P, "R20.6", "option values are bound verbatim", fn.Pos(), verbatim && modifies == "", fmt.Sprintf("map[part before '='] = part after '=' unchanged: %v; modifying call: %s", verbatim, orNone(modifies)))
	}
	nNames := 0
	for _, fn := range all {
		groups := map[ssa.Value]map[string]string{}
		var order []ssa.Value
		allInstrs(fn, func(in ssa.Instruction) {
			st, ok := in.(*ssa.Store)
			if !ok {
				return
			}
			fa, ok := st.Addr.(*ssa.FieldAddr)
			if !ok {
				return
			}
			pt, ok := fa.X.Type().Underlying().(*types.Pointer)
			if !ok {
				return
			}
			n, ok := types.Unalias(pt.Elem()).(*types.Named)
			if !ok || n.Obj().Name() != "Name" || n.Obj().Pkg() == nil || n.Obj().Pkg().Path() != "encoding/xml" {
				return
			}
			if groups[fa.X] == nil {
				groups[fa.X] = map[string]string{}
				order = append(order, fa.X)
			}
			if c, ok := st.Val.(*ssa.Call); ok && c.Call.IsInvoke() {
				groups[fa.X][fieldName(fa)] = c.Call.Method.Name()
			} else {
				groups[fa.X][fieldName(fa)] = describe(st.Val)
			}
		})
		for _, base := range order {
			got := groups[base]
			nNames++
			w.check(P, "R20.6", "xml.Name built in "+fn.Name(), base.Pos(), got["Space"] == "Space" && got["Local"] == "Local", fmt.Sprintf("Space <- %s, Local <- %s (must be the node's Space() and Local() on every path)", got["Space"], got["Local"]))
		}
	}
	w.floor(P, "R20.6", 2) // the option parser and at least one xml.Name construction (shared helpers reduce the count)

	// R20.2 file types
	valid := map[string]bool{}
	allInstrs(init, func(in ssa.Instruction) {
		mu, ok := in.(*ssa.MapUpdate)
		if !ok {
			return
		}
		mt, ok := mu.Map.Type().Underlying().(*types.Map)
		if !ok || !isStringType(mt.Key()) {
			return
		}
		if b, ok := mt.Elem().Underlying().(*types.Basic); !ok || b.Kind() != types.Bool {
			return
		}
		if s, ok := constString(mu.Key); ok {
			valid[s] = true
		}
	})
	var factory *ssa.Function
	for _, fn := range all {
		if fn.Signature.Results().Len() == 2 && len(fn.Params) == 2 && isStringType(fn.Params[1].Type()) {
			if n, ok := types.Unalias(fn.Signature.Results().At(0).Type()).(*types.Named); ok && n.Obj().Name() == "Cursor" {
				factory = fn
			}
		}
	}
	cases := map[string]string{}
	if factory != nil {
		for s, ifi := range constStringArms(factory) {
			for _, in := range ifi.Block().Succs[0].Instrs {
				if c, ok := in.(*ssa.Call); ok && staticCallee(c) != nil {
					cases[s] = staticCallee(c).Name()
				}
			}
		}
		// table form: the type name is looked up in a package-level map from type names to reader functions
		allInstrs(factory, func(in ssa.Instruction) {
			lk, ok := in.(*ssa.Lookup)
			if !ok {
				return
			}
			ld, ok := lk.X.(*ssa.UnOp)
			if !ok {
				return
			}
			g, ok := ld.X.(*ssa.Global)
			if !ok {
				return
			}
			entries, ok := w.globalMapLiteral(g)
			if !ok {
				return
			}
			for _, e := range entries {
				k, ok := constString(e.Key)
				if !ok {
					continue
				}
				var fn *ssa.Function
				switch v := stripConv(e.Val).(type) {
				case *ssa.Function:
					fn = v
				case *ssa.MakeClosure:
					fn, _ = v.Fn.(*ssa.Function)
				}
				if fn == nil {
					continue
				}
				if !inRepoMain(fn) {
					cases[k] = fn.Name()
					continue
				}
				// a literal in the command: the reader it calls
				allInstrs(fn, func(in2 ssa.Instruction) {
					if c, ok := in2.(*ssa.Call); ok && staticCallee(c) != nil && strings.HasPrefix(staticCallee(c).Name(), "Read") {
						cases[k] = staticCallee(c).Name()
					}
				})
			}
		})
	}
	// the types the MIME detection can choose: the string constants that flow into the factory's type parameter at its
	// call sites (through variables, and through the results of functions of the command)
	detected := map[string]bool{}
	if factory != nil {
		seenV := map[ssa.Value]bool{}
		var flow func(v ssa.Value, depth int)
		flow = func(v ssa.Value, depth int) {
			if v == nil || seenV[v] || depth > 12 {
				return
			}
			seenV[v] = true
			if s, ok := constString(v); ok {
				if s != "" { // "" = not determined yet
					detected[s] = true
				}
				return
			}
			switch x := v.(type) {
			case *ssa.Phi:
				for _, e := range x.Edges {
					flow(e, depth+1)
				}
			case *ssa.Extract:
				if c, ok := x.Tuple.(*ssa.Call); ok {
					if g := staticCallee(c); g != nil && fnPkgKey(g) == "xsel" {
						allInstrs(g, func(in ssa.Instruction) {
							if r, ok := in.(*ssa.Return); ok && x.Index < len(r.Results) {
								flow(r.Results[x.Index], depth+1)
							}
						})
					}
				}
			case *ssa.Call:
				if g := staticCallee(x); g != nil && fnPkgKey(g) == "xsel" {
					allInstrs(g, func(in ssa.Instruction) {
						if r, ok := in.(*ssa.Return); ok && len(r.Results) > 0 {
							flow(r.Results[0], depth+1)
						}
					})
				}
			case *ssa.Parameter:
				// a parameter of a function of the command: what its callers pass
				fn := x.Parent()
				for i, p := range fn.Params {
					if p != x {
						continue
					}
					for _, caller := range all {
						allInstrs(caller, func(in ssa.Instruction) {
							if c, ok := in.(ssa.CallInstruction); ok && c.Common().StaticCallee() == fn && i < len(c.Common().Args) {
								flow(c.Common().Args[i], depth+1)
							}
						})
					}
				}
			case *ssa.UnOp:
				if al, ok := x.X.(*ssa.Alloc); ok {
					for _, st := range storesInto(al) {
						flow(st.Val, depth+1)
					}
				}
				// a field of a row of a package-level table of structs (read in place, or through the range variable the row
				// was copied into)
				if fa, ok := x.X.(*ssa.FieldAddr); ok {
					var rows []*ssa.IndexAddr
					switch b := fa.X.(type) {
					case *ssa.IndexAddr:
						rows = append(rows, b)
					case *ssa.Alloc:
						for _, st := range storesInto(b) {
							if ld, ok := st.Val.(*ssa.UnOp); ok {
								if ia, ok := ld.X.(*ssa.IndexAddr); ok {
									rows = append(rows, ia)
								}
							}
						}
					}
					for _, ia := range rows {
						var g *ssa.Global
						switch b := ia.X.(type) {
						case *ssa.Global:
							g = b
						case *ssa.UnOp:
							g, _ = b.X.(*ssa.Global)
						}
						if g == nil {
							continue
						}
						allInstrs(init, func(in ssa.Instruction) {
							st, ok := in.(*ssa.Store)
							if !ok {
								return
							}
							sfa, ok := st.Addr.(*ssa.FieldAddr)
							if !ok || sfa.Field != fa.Field {
								return
							}
							sia, ok := sfa.X.(*ssa.IndexAddr)
							if !ok {
								return
							}
							base := sia.X
							if al, isAl := base.(*ssa.Alloc); isAl {
								for _, rr := range referrers(al) {
									if sl, ok := rr.(*ssa.Slice); ok {
										for _, r2 := range referrers(sl) {
											if st2, ok := r2.(*ssa.Store); ok && st2.Addr == ssa.Value(g) {
												base = g
											}
										}
									}
								}
							}
							if base == ssa.Value(g) {
								flow(st.Val, depth+1)
							}
						})
					}
				}
				// an element of a package-level table of type names (array or slice literal)
				if ia, ok := x.X.(*ssa.IndexAddr); ok {
					var g *ssa.Global
					switch b := ia.X.(type) {
					case *ssa.Global:
						g = b
					case *ssa.UnOp:
						g, _ = b.X.(*ssa.Global)
					}
					if g != nil {
						allInstrs(init, func(in ssa.Instruction) {
							st, ok := in.(*ssa.Store)
							if !ok {
								return
							}
							sia, ok := st.Addr.(*ssa.IndexAddr)
							if !ok {
								return
							}
							base := sia.X
							if al, isAl := base.(*ssa.Alloc); isAl {
								// slice literal: the backing array is stored into the global after slicing
								for _, rr := range referrers(al) {
									if sl, ok := rr.(*ssa.Slice); ok {
										for _, r2 := range referrers(sl) {
											if st2, ok := r2.(*ssa.Store); ok && st2.Addr == ssa.Value(g) {
												base = g
											}
										}
									}
								}
							}
							if base == ssa.Value(g) {
								flow(st.Val, depth+1)
							}
						})
					}
				}
			case *ssa.ChangeType:
				flow(x.X, depth+1)
			case *ssa.Convert:
				flow(x.X, depth+1)
			case *ssa.Index:
				// an element of (a copy of) a package-level array of type names
				if ld, ok := x.X.(*ssa.UnOp); ok {
					if g, ok := ld.X.(*ssa.Global); ok {
						allInstrs(init, func(in ssa.Instruction) {
							if st, ok := in.(*ssa.Store); ok {
								if sia, ok := st.Addr.(*ssa.IndexAddr); ok && sia.X == ssa.Value(g) {
									flow(st.Val, depth+1)
								}
							}
						})
					}
				}
			}
		}
		for _, caller := range all {
			allInstrs(caller, func(in ssa.Instruction) {
				if c, ok := in.(ssa.CallInstruction); ok && c.Common().StaticCallee() == factory && len(c.Common().Args) > 1 {
					flow(c.Common().Args[1], 0)
				}
			})
		}
	}
	// -t takes precedence: the MIME lookup (and its failure) happens only when no type was forced
	if g := flagLetter["t"]; g != "" {
		nLookups, guardedLookups := 0, 0
		all_ := all
		for _, fn := range all {
			allInstrs(fn, func(in ssa.Instruction) {
				c, ok := in.(*ssa.Call)
				if !ok || staticCallee(c) == nil {
					return
				}
				n := funcFullName(staticCallee(c))
				if n != "mime.ParseMediaType" && n != "mime.TypeByExtension" {
					return
				}
				nLookups++
				var guardedAt func(b *ssa.BasicBlock, depth int) bool
				guardedAt = func(b *ssa.BasicBlock, depth int) bool {
					for _, a := range guardAtoms(b) {
						bo, ok := a.V.(*ssa.BinOp)
						if !ok {
							continue
						}
						str, isS := constString(bo.Y)
						other := bo.X
						if !isS {
							str, isS = constString(bo.X)
							other = bo.Y
						}
						if !isS || str != "" {
							continue
						}
						forced := sliceContains(other, func(v ssa.Value) bool { return mainGlobalLoad(v) == g })
						if forced && ((bo.Op == token.EQL && a.Pol) || (bo.Op == token.NEQ && !a.Pol)) {
							return true
						}
					}
					// the detection may live in a helper that is only called when no type was forced
					if depth >= 2 {
						return false
					}
					sites, all := 0, true
					for _, caller := range all_ {
						allInstrs(caller, func(in2 ssa.Instruction) {
							if c2, ok := in2.(*ssa.Call); ok && staticCallee(c2) == b.Parent() {
								sites++
								if !guardedAt(c2.Block(), depth+1) {
									all = false
								}
							}
						})
					}
					return sites > 0 && all
				}
				if guardedAt(c.Block(), 0) {
					guardedLookups++
				}
				for _, a := range []atom{} {
					bo, ok := a.V.(*ssa.BinOp)
					if !ok {
						continue
					}
					str, isS := constString(bo.Y)
					other := bo.X
					if !isS {
						str, isS = constString(bo.X)
						other = bo.Y
					}
					if !isS || str != "" {
						continue
					}
					// the forced type: *fileType (possibly copied into a local)
					forced := sliceContains(other, func(v ssa.Value) bool { return mainGlobalLoad(v) == g })
					if forced && ((bo.Op == token.EQL && a.Pol) || (bo.Op == token.NEQ && !a.Pol)) {
						guardedLookups++
						break
					}
				}
			})
		}
		w.check(P, "R20.2", "-t overrides detection", w.fnPos(factory), nLookups > 0 && nLookups == guardedLookups, fmt.Sprintf("%d MIME lookups, %d of them only when no type was forced with -t (a file without a registered extension must be readable with -t)", nLookups, guardedLookups))
	}
	wantReaders := map[string]string{"xml": "ReadXml", "html": "ReadHtml", "json": "ReadJson"}
	for t, rd := range wantReaders {
		ok := valid[t] && cases[t] == rd && detected[t]
		w.check(P, "R20.2", "file type "+t, w.fnPos(factory), ok, fmt.Sprintf("in the valid-type table: %v; factory case calls %q (required %s); assigned by MIME detection: %v", valid[t], cases[t], rd, detected[t]))
	}
	extra := []string{}
	for t := range valid {
		if wantReaders[t] == "" {
			extra = append(extra, "valid:"+t)
		}
	}
	for t := range cases {
		if wantReaders[t] == "" {
			extra = append(extra, "case:"+t)
		}
	}
	for t := range detected {
		if wantReaders[t] == "" {
			extra = append(extra, "detected:"+t)
		}
	}
	sort.Strings(extra)
	w.check(P, "R20.2", "no other file type", w.fnPos(factory), len(extra) == 0, fmt.Sprintf("types mentioned in only some of the three places: %v", extra))
	w.floor(P, "R20.2", 5)

	// R20.3 prefix gating
	type writerInfo struct {
		fn    *ssa.Function
		gates map[string]bool // truth assignment key -> prefix emitted
		undec string
	}
	var writers []writerInfo
	for _, fn := range all {
		var prefixCalls, plainCalls []*ssa.Call
		allInstrs(fn, func(in ssa.Instruction) {
			c, ok := in.(*ssa.Call)
			if !ok || staticCallee(c) == nil || funcFullName(staticCallee(c)) != "fmt.Fprintf" {
				return
			}
			if s, ok := constString(c.Call.Args[1]); ok {
				if strings.HasPrefix(s, "%s: ") {
					prefixCalls = append(prefixCalls, c)
				} else if strings.HasPrefix(s, "%s") {
					plainCalls = append(plainCalls, c)
				}
			}
		})
		// a record writer may also take its prefix from a helper of the command that returns <path> + ": "
		viaHelper := false
		if len(prefixCalls) == 0 && len(fn.Params) >= 2 {
			allInstrs(fn, func(in ssa.Instruction) {
				c, ok := in.(*ssa.Call)
				if !ok {
					return
				}
				g := staticCallee(c)
				if g == nil || fnPkgKey(g) != "xsel" || g.Signature.Results().Len() != 1 {
					return
				}
				allInstrs(g, func(in2 ssa.Instruction) {
					if r, ok := in2.(*ssa.Return); ok && len(r.Results) == 1 {
						if sliceContains(r.Results[0], isPrefixValue) {
							viaHelper = true
						}
					}
				})
			})
		}
		if (len(prefixCalls) == 0 && !viaHelper) || len(fn.Params) < 2 {
			continue
		}
		if viaHelper && len(prefixCalls) == 0 {
			wi := writerInfo{fn: fn, gates: map[string]bool{}}
			for _, sup := range []bool{false, true} {
				for _, dash := range []bool{false, true} {
					emitted, und := simulatePrefix(fn, sup, dash, flagLetter["n"])
					if und != "" {
						wi.undec = und
					}
					wi.gates[fmt.Sprintf("suppress=%v stdin=%v", sup, dash)] = emitted
				}
			}
			writers = append(writers, wi)
			continue
		}
		// skip diagnostics (stderr)
		isRecord := false
		for _, c := range prefixCalls {
			if !isGlobalLoad(c.Call.Args[0], "os", "Stderr") {
				isRecord = true
			}
		}
		if !isRecord {
			continue
		}
		wi := writerInfo{fn: fn, gates: map[string]bool{}}
		for _, sup := range []bool{false, true} {
			for _, dash := range []bool{false, true} {
				emitted, und := simulatePrefix(fn, sup, dash, flagLetter["n"])
				if und != "" {
					wi.undec = und
				}
				wi.gates[fmt.Sprintf("suppress=%v stdin=%v", sup, dash)] = emitted
			}
		}
		writers = append(writers, wi)
	}
	sort.Slice(writers, func(i, j int) bool { return writers[i].fn.Name() < writers[j].fn.Name() })
	for _, wi := range writers {
		if wi.undec != "" {
			w.undecided(P, "R20.3", "prefix gating in "+wi.fn.Name(), wi.fn.Pos(), wi.undec)
			continue
		}
		ok := true
		for k, v := range wi.gates {
			want := k == "suppress=false stdin=false"
			if v != want {
				ok = false
			}
		}
		w.check(P, "R20.3", "prefix gating in "+wi.fn.Name(), wi.fn.Pos(), ok, fmt.Sprintf("prefix emitted per assignment: %v (required: only when neither -n nor stdin)", wi.gates))
	}
	// newline termination of records: format strings of the record writers end in \n, or a "\n" write follows
	for _, wi := range writers {
		nl := false
		allInstrs(wi.fn, func(in ssa.Instruction) {
			c, ok := in.(*ssa.Call)
			if !ok || staticCallee(c) == nil {
				return
			}
			for _, a := range c.Call.Args {
				if s, ok := constString(a); ok && strings.HasSuffix(s, "\n") {
					nl = true
				}
			}
		})
		w.check(P, "R20.3", "records end in a newline in "+wi.fn.Name(), wi.fn.Pos(), nl, fmt.Sprintf("%v", nl))
	}
	// empty node-set early return and -a loop
	var execFn *ssa.Function
	for _, fn := range all {
		allInstrs(fn, func(in ssa.Instruction) {
			if c, ok := in.(*ssa.Call); ok && staticCallee(c) != nil && funcFullName(staticCallee(c)) == modPath+".Exec" {
				execFn = fn
			}
		})
	}
	if execFn == nil {
		w.undecided(P, "R20.3", "per-file execution", 0, "no call of xsel.Exec in the command")
	} else {
		// the per-file function and the functions of the command it was split into
		var cands []*ssa.Function
		for g := range staticReach(execFn, func(x *ssa.Function) bool { return fnPkgKey(x) == "xsel" }) {
			if fnPkgKey(g) == "xsel" {
				cands = append(cands, g)
			}
		}
		sort.Slice(cands, func(i, j int) bool { return cands[i].String() < cands[j].String() })
		early := false
		for _, g := range cands {
			allInstrs(g, func(in ssa.Instruction) {
				ret, ok := in.(*ssa.Return)
				if !ok {
					return
				}
				for _, a := range guardAtoms(ret.Block()) {
					if bo, ok := a.V.(*ssa.BinOp); ok && isLenOf(bo.X, nil) {
						if k, isK := constInt(bo.Y); isK && k == 0 && bo.Op == token.EQL && a.Pol {
							// no output call dominates this return
							quiet := true
							for _, b := range g.Blocks {
								if b.Dominates(ret.Block()) {
									for _, in2 := range b.Instrs {
										if c, ok := in2.(*ssa.Call); ok && staticCallee(c) != nil && strings.HasPrefix(funcFullName(staticCallee(c)), "fmt.Print") {
											quiet = false
										}
									}
								}
							}
							if quiet {
								early = true
							}
						}
					}
				}
			})
		}
		w.check(P, "R20.3", "empty node-set prints nothing", execFn.Pos(), early, fmt.Sprintf("returns before any output when the node-set is empty: %v", early))
		perNode := false
		for _, g := range cands {
			loops := loopBlocks(g)
			allInstrs(g, func(in ssa.Instruction) {
				c, ok := in.(*ssa.Call)
				if !ok || !loops[c.Block()] || staticCallee(c) == nil {
					return
				}
				for _, wi := range writers {
					if staticCallee(c) == wi.fn {
						// guarded by the -a flag, argument is a one-node set of the loop element
						flagOK := false
						for _, a := range guardAtoms(c.Block()) {
							if n := mainGlobalLoad(a.V); n != "" && n == flagLetter["a"] && a.Pol {
								flagOK = true
							}
						}
						asc := false
						allInstrs(g, func(in2 ssa.Instruction) {
							if ia, ok := in2.(*ssa.IndexAddr); ok && loops[ia.Block()] && ascendingCounter(ia.Index) {
								asc = true
							}
						})
						if flagOK && asc {
							perNode = true
						}
					}
				}
			})
		}
		w.check(P, "R20.3", "-a writes one record per node in order", execFn.Pos(), perNode, fmt.Sprintf("%v", perNode))
	}
	w.floorSites(P, "R20.3", 6)

	// R20.4 newline replacement in XML mode
	var xmlWriter *ssa.Function
	for _, fn := range all {
		allInstrs(fn, func(in ssa.Instruction) {
			if c, ok := in.(*ssa.Call); ok && staticCallee(c) != nil && funcFullName(staticCallee(c)) == "encoding/xml.NewEncoder" {
				xmlWriter = fn
			}
		})
	}
	if xmlWriter == nil {
		w.undecided(P, "R20.4", "XML record writer", 0, "no function creating an xml.Encoder")
	} else {
		nW := 0
		allInstrs(xmlWriter, func(in ssa.Instruction) {
			c, ok := in.(*ssa.Call)
			if !ok || staticCallee(c) == nil {
				return
			}
			n := funcFullName(staticCallee(c))
			if n != "(*bytes.Buffer).Write" && n != "(*bytes.Buffer).WriteString" {
				return
			}
			if c.Call.Args[0] != ssa.Value(xmlWriter.Params[0]) {
				return
			}
			nW++
			arg := c.Call.Args[1]
			if s, ok := constString(arg); ok {
				w.check(P, "R20.4", "constant written to the per-file buffer", c.Pos(), s == "\n", fmt.Sprintf("%q", s))
				return
			}
			if s := bytesConst(arg); s != "?" {
				w.check(P, "R20.4", "constant written to the per-file buffer", c.Pos(), s == "\n", fmt.Sprintf("%q", s))
				return
			}
			repl := false
			if rc, ok := arg.(*ssa.Call); ok && staticCallee(rc) != nil && funcFullName(staticCallee(rc)) == "bytes.ReplaceAll" {
				from := bytesConst(rc.Call.Args[1])
				to := bytesConst(rc.Call.Args[2])
				repl = from == "\n" && to == "&#10;"
			}
			w.check(P, "R20.4", "serialised node written to the per-file buffer", c.Pos(), repl, fmt.Sprintf("passes bytes.ReplaceAll(\"\\n\", \"&#10;\"): %v (a record must stay on one line)", repl))
		})
		if nW == 0 {
			w.undecided(P, "R20.4", "XML record writer", xmlWriter.Pos(), "no write to the per-file buffer found")
		}
	}
	// serialiser switch coverage
	var ser *ssa.Function
	for _, fn := range all {
		if countNodeSwitchArms(fn) >= 5 {
			ser = fn
		}
	}
	if ser == nil {
		w.undecided(P, "R20.4", "serialiser", 0, "no type switch over node kinds in the command")
	} else {
		kinds := map[string]bool{}
		for _, grp := range nodeAsserts(ser) {
			for _, ta := range grp {
				n, _ := nodeIface(ta.AssertedType)
				kinds[n.Obj().Name()] = true
			}
		}
		var missing []string
		for _, k := range []string{"Attribute", "CharData", "Comment", "Element", "Namespace", "ProcInst", "Root"} {
			if !kinds[k] {
				missing = append(missing, k)
			}
		}
		w.check(P, "R20.4", "serialiser covers every node kind, unshadowed", ser.Pos(), len(missing) == 0 && len(nodeSwitchShadows(ser)) == 0, fmt.Sprintf("missing kinds: %v; shadowed arms: %d", missing, len(nodeSwitchShadows(ser))))
	}
	w.floorSites(P, "R20.4", 3)

	// R20.5 walker and diagnostics
	var walker *ssa.Function
	for _, fn := range all {
		allInstrs(fn, func(in ssa.Instruction) {
			ret, ok := in.(*ssa.Return)
			if !ok || len(ret.Results) != 1 {
				return
			}
			if ld, ok := ret.Results[0].(*ssa.UnOp); ok {
				if g, ok := ld.X.(*ssa.Global); ok && g.Name() == "SkipDir" {
					walker = fn
				}
			}
		})
	}
	if walker == nil {
		w.check(P, "R20.5", "directory handling", 0, false, "no function returns fs.SkipDir: directories are always descended")
	} else {
		okSkip := false
		nSkip, nSkipOK := 0, 0
		for _, fn2 := range all {
			allInstrs(fn2, func(in ssa.Instruction) {
				ret, ok := in.(*ssa.Return)
				if !ok || len(ret.Results) != 1 {
					return
				}
				ld, ok := ret.Results[0].(*ssa.UnOp)
				if !ok {
					return
				}
				if g, ok := ld.X.(*ssa.Global); !ok || (g.Name() != "SkipDir" && g.Name() != "SkipAll") {
					return
				}
				nSkip++
				recursiveOff, isDir := false, false
				for _, a := range guardAtoms(ret.Block()) {
					if mainGlobalLoad(a.V) == "recursive" && !a.Pol {
						recursiveOff = true
					}
					if c, ok := a.V.(*ssa.Call); ok && c.Call.IsInvoke() && c.Call.Method.Name() == "IsDir" && a.Pol {
						isDir = true
					}
				}
				if recursiveOff && isDir {
					nSkipOK++
				}
			})
		}
		allInstrs(walker, func(in ssa.Instruction) {
			ret, ok := in.(*ssa.Return)
			if !ok || len(ret.Results) != 1 {
				return
			}
			ld, ok := ret.Results[0].(*ssa.UnOp)
			if !ok {
				return
			}
			if g, ok := ld.X.(*ssa.Global); !ok || g.Name() != "SkipDir" {
				return
			}
			recursiveOff, isDir := false, false
			for _, a := range guardAtoms(ret.Block()) {
				if mainGlobalLoad(a.V) == "recursive" && !a.Pol {
					recursiveOff = true
				}
				if c, ok := a.V.(*ssa.Call); ok && c.Call.IsInvoke() && c.Call.Method.Name() == "IsDir" && a.Pol {
					isDir = true
				}
			}
			okSkip = recursiveOff && isDir
		})
		// every entry that is not a directory is processed: below the IsDir() == false test the walker branches on
		// nothing but the command's own flags (a filter on the entry's type or name silently skips input files:
		// symbolic links are not "regular" for the DirEntry the walk hands over)
		var filters []string
		allInstrs(walker, func(in ssa.Instruction) {
			iff, ok := in.(*ssa.If)
			if !ok {
				return
			}
			file := false
			for _, a := range guardAtoms(iff.Block()) {
				if c, ok := a.V.(*ssa.Call); ok && c.Call.IsInvoke() && c.Call.Method.Name() == "IsDir" && !a.Pol {
					file = true
				}
			}
			if !file {
				return
			}
			flagOnly := false
			backSlice(iff.Cond, func(v ssa.Value) bool {
				if mainGlobalLoad(v) != "" {
					flagOnly = true
					return false
				}
				return true
			})
			if !flagOnly {
				filters = append(filters, w.pos(iff.Pos()))
			}
		})
		w.check(P, "R20.5", "every non-directory entry is processed", walker.Pos(), len(filters) == 0, "branches on something other than a command flag once the entry is known not to be a directory: "+orElse(strings.Join(filters, ", "), "none"))
		w.check(P, "R20.5", "SkipDir iff -r is off", walker.Pos(), okSkip && nSkip == nSkipOK, fmt.Sprintf("%d returns of fs.SkipDir/SkipAll, %d of them for a directory with the recursive flag false (returned for a file, SkipDir silently drops the rest of that file's directory)", nSkip, nSkipOK))
	}
	// -m copies every attribute of an element into the start tag it writes
	docRule(P, "R20.7", "D", "-m serialisation: the function that builds the xml.StartElement of an element appends one xml.Attr per cursor of Attributes(): the loop over the attributes contains no branch besides its own bound (a filter, a de-duplication by local name or a limit drops attributes, and the record no longer parses back to the same node).")
	nAttrLoops := 0
	for _, fn := range all {
		appendsAttr := false
		allInstrs(fn, func(in ssa.Instruction) {
			if c, ok := in.(*ssa.Call); ok {
				if b, ok := c.Call.Value.(*ssa.Builtin); ok && b.Name() == "append" {
					if sl, ok := c.Type().Underlying().(*types.Slice); ok {
						if n, ok := types.Unalias(sl.Elem()).(*types.Named); ok && n.Obj().Pkg() != nil && n.Obj().Pkg().Path() == "encoding/xml" && n.Obj().Name() == "Attr" {
							appendsAttr = true
						}
					}
				}
			}
		})
		if !appendsAttr {
			continue
		}
		loops := loopBlocks(fn)
		var extra []string
		allInstrs(fn, func(in ssa.Instruction) {
			iff, ok := in.(*ssa.If)
			if !ok || !loops[iff.Block()] {
				return
			}
			if bo, ok := iff.Cond.(*ssa.BinOp); ok && bo.Op == token.LSS && (ascendingCounter(bo.X) || isCounterPhi2(bo.X)) {
				return
			}
			extra = append(extra, w.pos(iff.Pos()))
		})
		nAttrLoops++
		w.check(P, "R20.7", "attributes copied by "+fn.Name(), fn.Pos(), len(extra) == 0, "branches inside the attribute loop other than its bound: "+orElse(strings.Join(extra, ", "), "none"))
	}
	if nAttrLoops == 0 {
		w.undecided(P, "R20.7", "start-tag writer", 0, "no function of the command appends xml.Attr values")
	}
	w.floor(P, "R20.7", 1)
	nDiag, badDiag := 0, 0
	for _, fn := range all {
		allInstrs(fn, func(in ssa.Instruction) {
			c, ok := in.(*ssa.Call)
			if !ok || staticCallee(c) == nil {
				return
			}
			n := funcFullName(staticCallee(c))
			if !strings.HasPrefix(n, "fmt.Fprint") {
				return
			}
			dst := c.Call.Args[0]
			// diagnostics: messages whose format mentions an error / starts with a capitalised sentence
			msg := ""
			if len(c.Call.Args) > 1 {
				msg, _ = constString(c.Call.Args[1])
			}
			if isGlobalLoad(dst, "os", "Stderr") {
				nDiag++
				return
			}
			if isGlobalLoad(dst, "os", "Stdout") {
				badDiag++
				w.check(P, "R20.5", "formatted write to os.Stdout in "+fn.Name(), c.Pos(), false, "writes directly to standard output: results must go through the per-file buffer, diagnostics to os.Stderr ("+msg+")")
			}
		})
	}
	w.check(P, "R20.5", "diagnostics go to os.Stderr", 0, nDiag >= 8 && badDiag == 0, fmt.Sprintf("%d diagnostic writes to os.Stderr, %d formatted writes to os.Stdout", nDiag, badDiag))
	w.floor(P, "R20.5", 2)
	// every input is processed: a worker slot taken for a file is given back on every way out of the worker
	w.include(P, "C14", "R14.4")
}

// bytesConst: a []byte("literal") conversion.
func bytesConst(v ssa.Value) string {
	if cv, ok := v.(*ssa.Convert); ok {
		if s, ok := constString(cv.X); ok {
			return s
		}
	}
	// a package-level byte slice initialised once with []byte("literal") and never assigned again
	if ld, ok := v.(*ssa.UnOp); ok {
		if g, ok := ld.X.(*ssa.Global); ok && g.Pkg != nil {
			val, n := "?", 0
			for _, m := range g.Pkg.Members {
				fn, ok := m.(*ssa.Function)
				if !ok {
					continue
				}
				for _, f := range append([]*ssa.Function{fn}, fn.AnonFuncs...) {
					allInstrs(f, func(in ssa.Instruction) {
						if st, ok := in.(*ssa.Store); ok && st.Addr == ssa.Value(g) {
							n++
							if cv, ok := st.Val.(*ssa.Convert); ok {
								if s, ok := constString(cv.X); ok {
									val = s
								}
							}
						}
					})
				}
			}
			if n == 1 {
				return val
			}
		}
	}
	return "?"
}

// simulatePrefix walks fn deciding branches on the suppress flag and on path == "-"; reports whether a
// Fprintf with a "%s: " format to a non-stderr writer is executed on the first iteration.
// prefixSim walks one function of the command under an assignment of the two inputs that gate the record prefix
// (the -n flag and "the input is stdin"), following calls of helper functions of the command.
type prefixSim struct {
	suppress, dash bool
	suppressVar    string // the package variable registered for -n
	depth          int
}

// isPrefixValue: a string that starts a record with the file name: <path> + ": ".
func isPrefixValue(v ssa.Value) bool {
	bo, ok := v.(*ssa.BinOp)
	if !ok || bo.Op != token.ADD {
		return false
	}
	if s, ok := constString(bo.Y); ok && strings.HasSuffix(s, ": ") {
		return true
	}
	return false
}

// run returns whether a prefix is emitted on the path taken, the value returned (first result) and a reason when the
// path cannot be decided.
func (ps *prefixSim) run(fn *ssa.Function) (emitted bool, ret ssa.Value, undecided string) {
	if ps.depth > 4 || len(fn.Blocks) == 0 {
		return false, nil, "helper nesting too deep"
	}
	b := fn.Blocks[0]
	var prev *ssa.BasicBlock
	visited := map[*ssa.BasicBlock]int{}
	resolve := func(v ssa.Value) ssa.Value {
		for i := 0; i < 4; i++ {
			phi, ok := v.(*ssa.Phi)
			if !ok {
				return v
			}
			found := false
			for j, p := range phi.Block().Preds {
				if p == prev && phi.Block() == b {
					v, found = phi.Edges[j], true
					break
				}
			}
			if !found {
				return v
			}
		}
		return v
	}
	phiNow := map[*ssa.Phi]ssa.Value{}
	var eval func(v ssa.Value) (bool, bool)
	eval = func(v ssa.Value) (bool, bool) {
		switch x := v.(type) {
		case *ssa.Const:
			if x.Value != nil && (x.Value.String() == "true" || x.Value.String() == "false") {
				return x.Value.String() == "true", true
			}
		case *ssa.UnOp:
			if x.Op == token.NOT {
				r, ok := eval(x.X)
				return !r, ok
			}
			if n := mainGlobalLoad(x); n != "" && n == ps.suppressVar {
				return ps.suppress, true
			}
		case *ssa.BinOp:
			for _, pair := range [][2]ssa.Value{{x.X, x.Y}, {x.Y, x.X}} {
				if s, ok := constString(pair[1]); ok && s == "-" {
					if x.Op == token.EQL {
						return ps.dash, true
					}
					if x.Op == token.NEQ {
						return !ps.dash, true
					}
				}
			}
		case *ssa.Phi:
			if t, ok := phiNow[x]; ok {
				return eval(t)
			}
		case *ssa.Call:
			if g := staticCallee(x); g != nil && fnPkgKey(g) == "xsel" && g.Signature.Results().Len() == 1 {
				if bt, ok := g.Signature.Results().At(0).Type().Underlying().(*types.Basic); ok && bt.Kind() == types.Bool {
					sub := &prefixSim{ps.suppress, ps.dash, ps.suppressVar, ps.depth + 1}
					_, rv, und := sub.run(g)
					if und != "" || rv == nil {
						return false, false
					}
					return sub.evalConst(rv)
				}
			}
		}
		return false, false
	}
	for steps := 0; steps < 200; steps++ {
		visited[b]++
		if visited[b] > 1 {
			return emitted, nil, "" // second iteration of a loop: same decisions
		}
		var next *ssa.BasicBlock
		for _, in := range b.Instrs {
			switch x := in.(type) {
			case *ssa.Phi:
				phiNow[x] = resolve(x)
			case *ssa.Call:
				if staticCallee(x) != nil && funcFullName(staticCallee(x)) == "fmt.Fprintf" {
					if s, ok := constString(x.Call.Args[1]); ok && strings.HasPrefix(s, "%s: ") && !isGlobalLoad(x.Call.Args[0], "os", "Stderr") {
						emitted = true
					}
				}
				// a helper of the command that produces the prefix (or writes it)
				if g := staticCallee(x); g != nil && fnPkgKey(g) == "xsel" && g != fn {
					if g.Signature.Results().Len() != 1 {
						continue
					}
					if bt, ok := g.Signature.Results().At(0).Type().Underlying().(*types.Basic); ok && bt.Kind() == types.String {
						sub := &prefixSim{ps.suppress, ps.dash, ps.suppressVar, ps.depth + 1}
						_, rv, und := sub.run(g)
						if und != "" {
							return emitted, nil, und
						}
						if rv != nil && isPrefixValue(rv) {
							emitted = true
						}
					}
				}
			case *ssa.If:
				val, ok := eval(x.Cond)
				if !ok {
					// loop conditions and error tests: take the path that continues the function body (true for range loops, false for err != nil)
					if bo, isBo := x.Cond.(*ssa.BinOp); isBo && bo.Op == token.LSS {
						val = true
					} else if bo, isBo := x.Cond.(*ssa.BinOp); isBo && bo.Op == token.NEQ && isNilConst(bo.Y) {
						val = false
					} else {
						return emitted, nil, "branch on a condition other than the suppress flag, the stdin marker, a loop bound or an error test"
					}
				}
				prev = b
				if val {
					next = b.Succs[0]
				} else {
					next = b.Succs[1]
				}
			case *ssa.Jump:
				prev = b
				next = b.Succs[0]
			case *ssa.Return:
				var rv ssa.Value
				if len(x.Results) > 0 {
					rv = x.Results[0]
					if phi, ok := rv.(*ssa.Phi); ok {
						if t, ok := phiNow[phi]; ok {
							rv = t
						}
					}
				}
				return emitted, rv, ""
			}
		}
		if next == nil {
			return emitted, nil, ""
		}
		b = next
	}
	return emitted, nil, "path too long"
}

func (ps *prefixSim) evalConst(v ssa.Value) (bool, bool) {
	switch x := v.(type) {
	case *ssa.Const:
		if x.Value != nil && (x.Value.String() == "true" || x.Value.String() == "false") {
			return x.Value.String() == "true", true
		}
	case *ssa.UnOp:
		if x.Op == token.NOT {
			r, ok := ps.evalConst(x.X)
			return !r, ok
		}
		if n := mainGlobalLoad(x); n != "" && n == ps.suppressVar {
			return ps.suppress, true
		}
	case *ssa.BinOp:
		for _, pair := range [][2]ssa.Value{{x.X, x.Y}, {x.Y, x.X}} {
			if s, ok := constString(pair[1]); ok && s == "-" {
				if x.Op == token.EQL {
					return ps.dash, true
				}
				if x.Op == token.NEQ {
					return !ps.dash, true
				}
			}
		}
	}
	return false, false
}

func simulatePrefix(fn *ssa.Function, suppress, dash bool, suppressVar string) (bool, string) {
	ps := &prefixSim{suppress: suppress, dash: dash, suppressVar: suppressVar}
	e, _, u := ps.run(fn)
	return e, u
}

func inRepoMain(fn *ssa.Function) bool {
	return fnPkgKey(fn) == "xsel" && fn.Pkg != nil && fn.Pkg.Pkg.Name() == "main" || (fn.Parent() != nil && fn.Parent().Pkg != nil && fn.Parent().Pkg.Pkg.Name() == "main")
}

// isCounterPhi2: v is the index of a range loop as go/ssa builds it (phi of -1/0 and itself plus one).
func isCounterPhi2(v ssa.Value) bool {
	if bo, ok := v.(*ssa.BinOp); ok && bo.Op == token.ADD {
		if k, isK := constInt(bo.Y); isK && k == 1 {
			_, isPhi := bo.X.(*ssa.Phi)
			return isPhi
		}
	}
	_, isPhi := v.(*ssa.Phi)
	return isPhi
}
