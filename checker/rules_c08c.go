package main

import (
	"fmt"
	"go/token"
	"go/types"

	"golang.org/x/tools/go/ssa"
)

// lexerSetPredicates (R08.15): the two rune-set predicates of the generated lexer decide every character class of every
// token (NCName characters, digits, the characters a literal may contain). Each must compare the rune with every
// member of the set.
func (w *World) lexerSetPredicates(P string) {
	docRule(P, "R08.15", "T", "rune-set predicates of the generated lexer (functions of package grammar/lexer with the signature (rune, []rune) bool): one answer is returned exactly when the rune equals a member of the set reached by an ascending scan from the first member, the opposite answer only when the scan has passed the last member; no other test (a cut-off, a search that presumes an ordering) stands between a member and the comparison. A different but correct membership algorithm is reported as undecided.")
	lp := w.SSA["grammar/lexer"]
	if lp == nil {
		w.undecided(P, "R08.15", "lexer", 0, "package grammar/lexer not loaded")
		return
	}
	n := 0
	var fns []*ssa.Function
	for _, m := range lp.Members {
		fn, ok := m.(*ssa.Function)
		if !ok || len(fn.Blocks) == 0 {
			continue
		}
		sig := fn.Signature
		if sig.Recv() != nil || sig.Params().Len() != 2 || sig.Results().Len() != 1 {
			continue
		}
		if b, ok := sig.Params().At(0).Type().Underlying().(*types.Basic); !ok || b.Kind() != types.Int32 {
			continue
		}
		sl, ok := sig.Params().At(1).Type().Underlying().(*types.Slice)
		if !ok {
			continue
		}
		if b, ok := sl.Elem().Underlying().(*types.Basic); !ok || b.Kind() != types.Int32 {
			continue
		}
		if b, ok := sig.Results().At(0).Type().Underlying().(*types.Basic); !ok || b.Kind() != types.Bool {
			continue
		}
		fns = append(fns, fn)
	}
	sortFuncs(fns)
	for _, fn := range fns {
		n++
		r, set := ssa.Value(fn.Params[0]), ssa.Value(fn.Params[1])
		isMember := func(v ssa.Value) bool {
			ld, ok := v.(*ssa.UnOp)
			if !ok || ld.Op != token.MUL {
				return false
			}
			ia, ok := ld.X.(*ssa.IndexAddr)
			return ok && ia.X == set && ascendingCounter(ia.Index)
		}
		classify := func(a atom) string {
			bo, ok := a.V.(*ssa.BinOp)
			if !ok {
				return "other"
			}
			switch {
			case bo.Op == token.EQL && ((bo.X == r && isMember(bo.Y)) || (bo.Y == r && isMember(bo.X))):
				return "eq"
			case bo.Op == token.LSS && ascendingCounter(bo.X) && isLenOf(bo.Y, set):
				return "bound"
			}
			return "other"
		}
		var onEq, onEnd []bool
		why := ""
		allInstrs(fn, func(in ssa.Instruction) {
			ret, ok := in.(*ssa.Return)
			if !ok {
				return
			}
			c, isC := ret.Results[0].(*ssa.Const)
			if !isC || c.Value == nil {
				why = "a result that is not a constant at " + w.pos(ret.Pos())
				return
			}
			val := c.Value.String() == "true"
			eq, end := false, false
			for _, a := range guardAtoms(ret.Block()) {
				switch classify(a) {
				case "eq":
					if a.Pol {
						eq = true
					}
				case "bound":
					if !a.Pol {
						end = true
					}
				default:
					why = "a test other than the comparison with a member and the end of the set decides the answer at " + w.pos(ret.Pos())
				}
			}
			switch {
			case eq && !end:
				onEq = append(onEq, val)
			case end && !eq:
				onEnd = append(onEnd, val)
			default:
				why = "an answer that follows neither from an equal member nor from the end of the set at " + w.pos(ret.Pos())
			}
		})
		ok := why == "" && len(onEq) == 1 && len(onEnd) == 1 && onEq[0] != onEnd[0]
		detail := fmt.Sprintf("answers on an equal member: %v; after the last member: %v", onEq, onEnd)
		if why != "" {
			detail += "; " + why
		}
		if !ok && why == "" && len(onEq) == 0 {
			w.undecided(P, "R08.15", "lexer."+fn.Name(), fn.Pos(), "no scan with a comparison per member found: "+detail)
			continue
		}
		w.check(P, "R08.15", "lexer."+fn.Name(), fn.Pos(), ok, detail)
	}
	_ = n
	w.floor(P, "R08.15", 2)
}
