package main

import (
	"fmt"
	"go/token"
	"go/types"
	"sort"
	"strings"

	"golang.org/x/tools/go/ssa"
)

func init() {
	register("C12", checkC12)
	notDecided["C12"] = "language-range matching on concrete tags (the comparison is a few lines whose correctness on all tags is not a structural fact: only its ingredients are checked); the names reported for concrete documents."
}

func checkC12(w *World) {
	const P = "C12"
	f := w.Facts()
	r := w.Roles()
	docRule(P, "R12.1", "X+T K<->S", "local-name/namespace-uri/name share an implementation that consults, per node kind, the accessor XPath prescribes: named nodes -> Local()/Space(); processing instructions -> Target(); namespace nodes -> Prefix(); namespace-uri of the latter two is empty (their arms are excluded by a test of the name-part selector); an empty node-set gives the empty string; a non-node-set argument is an error; name() is the local name when the URI is empty, else the library's {uri}local notation.")
	docRule(P, "R12.2", "T+D", "lang(): does not reach golang.org/x/text/language (a fuzzy locale matcher); looks up xml:lang through store.GetAttribute with the constants http://www.w3.org/XML/1998/namespace and lang; climbs with Parent() under a root test (Pos() != 0); starts from the parent for non-elements; returns at the nearest hit; the comparison is ASCII-case-insensitive equality of the argument with the tag or with its prefix before a '-' at exactly the argument's length.")
	docRule(P, "R12.3", "ref", "count(): C06 R06.4; first node in document order for name functions: C04 R04.5 (re-evaluated here).")

	// R12.1
	var nameFn *ssa.Function
	for _, bn := range []string{"name", "local-name", "namespace-uri"} {
		b := f.Builtins[bn]
		if b == nil {
			w.check(P, "R12.1", "builtin "+bn, 0, false, "not registered")
			continue
		}
		for _, g := range w.builtinClosure(bn) {
			n := 0
			for _, grp := range nodeAsserts(g) {
				n += len(grp)
			}
			if n >= 1 {
				nameFn = g
			}
		}
	}
	// the shared implementation may be split: the function that receives the name-part selector is the root, the
	// functions of the package it hands the node to belong to it
	var nameParts []*ssa.Function
	if nameFn != nil {
		hasSelector := func(g *ssa.Function) bool {
			for _, p := range g.Params {
				if b, ok := p.Type().Underlying().(*types.Basic); ok && b.Info()&types.IsInteger != 0 {
					return true
				}
			}
			return false
		}
		for _, bn := range []string{"name", "local-name", "namespace-uri"} {
			for _, g := range w.builtinClosure(bn) {
				if !hasSelector(g) || g == nameFn {
					continue
				}
				for h := range staticReach(g, func(x *ssa.Function) bool { return fnPkgKey(x) == "exec" }) {
					if h == nameFn {
						nameFn = g // the selector-taking caller of the function with the node tests: the root
					}
				}
			}
		}
		for h := range staticReach(nameFn, func(x *ssa.Function) bool { return fnPkgKey(x) == "exec" }) {
			if h == nameFn || fnPkgKey(h) != "exec" {
				continue
			}
			n := 0
			for _, grp := range nodeAsserts(h) {
				n += len(grp)
			}
			if n >= 1 {
				if okm, _ := w.isMinPosHelper(h, w.Roles()); !okm {
					nameParts = append(nameParts, h)
				}
			}
		}
		sortFuncs(nameParts)
	}
	if nameFn == nil {
		w.undecided(P, "R12.1", "name functions", 0, "no function with node-kind tests reachable from name/local-name/namespace-uri")
	} else {
		want := map[string][]string{"NamedNode": {"Local", "Space"}, "ProcInst": {"Target"}, "Namespace": {"Prefix"}}
		found := map[string]bool{}
		var selector *ssa.Parameter
		for _, p := range nameFn.Params {
			if b, ok := p.Type().Underlying().(*types.Basic); ok && b.Info()&types.IsInteger != 0 {
				selector = p
			}
		}
		// the selector as the parts see it: their parameters that the root (or another part) binds to it
		selectorVals := map[ssa.Value]bool{}
		if selector != nil {
			selectorVals[selector] = true
		}
		for round := 0; round < 3; round++ {
			for _, part := range nameParts {
				for _, site := range w.callersOf(part) {
					for i, a := range site.Call.Args {
						if selectorVals[a] && i < len(part.Params) {
							selectorVals[part.Params[i]] = true
						}
					}
				}
			}
		}
		type partAssert struct {
			fn *ssa.Function
			ta *ssa.TypeAssert
		}
		var asserts []partAssert
		for _, part := range append([]*ssa.Function{nameFn}, nameParts...) {
			for _, grp := range nodeAsserts(part) {
				for _, ta := range grp {
					asserts = append(asserts, partAssert{part, ta})
				}
			}
		}
		for _, pa := range asserts {
			{
				ta, part := pa.ta, pa.fn
				n, _ := nodeIface(ta.AssertedType)
				kind := n.Obj().Name()
				if kind == "Element" || kind == "Attribute" {
					kind = "NamedNode"
				}
				accs, known := want[kind]
				if !known {
					continue
				}
				found[kind] = true
				used := map[string]bool{}
				selectorGuard := false
				arms := typeSwitchArms(part)
				for _, b := range part.Blocks {
					if !arms[b][ta] {
						continue
					}
					atoms := guardAtoms(b)
					if part != nameFn {
						// what is known where the root hands the node to this part
						for _, site := range w.callersOf(part) {
							if site.Parent() == nameFn {
								atoms = append(atoms, guardAtoms(site.Block())...)
							}
						}
					}
					for _, at := range atoms {
						if bo, ok := at.V.(*ssa.BinOp); ok && (selectorVals[bo.X] || selectorVals[bo.Y]) {
							selectorGuard = true
						}
					}
					// accessors used in the arm, also inside helpers of the package that the arm hands the node to
					withCallees([]*ssa.BasicBlock{b}, "exec", part, func(in ssa.Instruction) {
						if c, ok := in.(*ssa.Call); ok && c.Call.IsInvoke() {
							used[c.Call.Method.Name()] = true
						}
					})
				}
				ok := true
				for _, a := range accs {
					if !used[a] {
						ok = false
					}
				}
				// no foreign accessor
				for m := range used {
					for k2, a2 := range want {
						if k2 == kind {
							continue
						}
						for _, x := range a2 {
							if x == m {
								ok = false
							}
						}
					}
				}
				detail := fmt.Sprintf("arm uses %v, required %v", keys(used), accs)
				if kind != "NamedNode" {
					ok = ok && selectorGuard
					detail += fmt.Sprintf("; reached only after the namespace-uri selector was excluded: %v", selectorGuard)
				}
				w.check(P, "R12.1", "name of node."+kind, ta.Pos(), ok, detail)
			}
		}
		for k := range want {
			if !found[k] {
				w.check(P, "R12.1", "name of node."+k, nameFn.Pos(), false, "no arm for node."+k+": name()/local-name() of such nodes is the empty string")
			}
		}
		// shadowing inside the name function
		for _, sh := range nodeSwitchShadows(nameFn) {
			w.check(P, "R12.1", "name function: shadowed arm "+sh.Later, sh.Pos, false, "arm node."+sh.Later+" is unreachable after node."+sh.Earlier)
		}
		// empty node-set and non-node-set
		emptyOK, errOK := false, false
		allInstrs(nameFn, func(in ssa.Instruction) {
			ret, ok := in.(*ssa.Return)
			if !ok || len(ret.Results) != 2 {
				return
			}
			if isNilConst(ret.Results[0]) && !isNilConst(ret.Results[1]) {
				errOK = true
			}
			if s, isS := constString(ret.Results[0]); isS && s == "" {
				for _, a := range guardAtoms(ret.Block()) {
					if bo, ok := a.V.(*ssa.BinOp); ok && isLenOf(bo.X, nil) {
						if k, isK := constInt(bo.Y); isK && k == 0 && bo.Op == token.EQL && a.Pol {
							emptyOK = true
						}
					}
				}
			}
		})
		w.check(P, "R12.1", "name functions: empty node-set and wrong argument type", nameFn.Pos(), emptyOK && errOK, fmt.Sprintf("empty node-set returns \"\": %v; non-node-set returns an error: %v", emptyOK, errOK))
		// expanded-name notation
		fmtOK := false
		withCallees(nameFn.Blocks, "exec", nameFn, func(in ssa.Instruction) {
			if c, ok := in.(*ssa.Call); ok && staticCallee(c) != nil && funcFullName(staticCallee(c)) == "fmt.Sprintf" {
				if s, ok := constString(c.Call.Args[0]); ok && s == "{%s}%s" {
					fmtOK = true
				}
			}
		})
		w.check(P, "R12.1", "name(): {uri}local notation", nameFn.Pos(), fmtOK, fmt.Sprintf("%v", fmtOK))
	}
	w.floor(P, "R12.1", 5)

	// R12.2 lang
	if b := f.Builtins["lang"]; b == nil || b.Fns[-1] == nil {
		w.check(P, "R12.2", "builtin lang", 0, false, "not registered")
	} else {
		impl := b.Fns[-1]
		closure := w.builtinClosure("lang")
		var bad []string
		for _, g := range closure {
			allInstrs(g, func(in ssa.Instruction) {
				if c, ok := in.(ssa.CallInstruction); ok {
					if sc := staticCallee(c); sc != nil && !inRepo(sc) {
						pk := ""
						if sc.Pkg != nil {
							pk = sc.Pkg.Pkg.Path()
						} else if o := sc.Object(); o != nil && o.Pkg() != nil {
							pk = o.Pkg().Path()
						}
						if strings.HasPrefix(pk, "golang.org/x/text") {
							bad = append(bad, funcFullName(sc))
						}
					}
				}
			})
		}
		sort.Strings(bad)
		w.check(P, "R12.2", "lang: no locale matcher", impl.Pos(), len(bad) == 0, fmt.Sprintf("x/text functions reached: %v", bad))
		// GetAttribute constants
		getOK := false
		var getCall *ssa.Call
		// (in the builtin itself or in a helper of the package it was split into)
		forClosure := func(visit func(ssa.Instruction)) {
			for _, g := range closure {
				if fnPkgKey(g) == "exec" {
					allInstrs(g, visit)
				}
			}
		}
		forClosure(func(in ssa.Instruction) {
			c, ok := in.(*ssa.Call)
			if !ok || staticCallee(c) == nil || funcFullName(staticCallee(c)) != modPath+"/store.GetAttribute" {
				return
			}
			s1, ok1 := constString(c.Call.Args[1])
			s2, ok2 := constString(c.Call.Args[2])
			if ok1 && ok2 && s1 == "http://www.w3.org/XML/1998/namespace" && s2 == "lang" {
				getOK = true
				getCall = c
			}
		})
		w.check(P, "R12.2", "lang: xml:lang lookup", impl.Pos(), getOK, fmt.Sprintf("store.GetAttribute(n, \"http://www.w3.org/XML/1998/namespace\", \"lang\"): %v", getOK))
		if getCall != nil {
			// climb under root test; the looked-up cursor is a phi fed by Parent()
			n := getCall.Call.Args[0]
			rootTest := false
			for _, pt := range posTests(getCall.Block()) {
				if pt.Recv == n && pt.NonZero {
					rootTest = true
				}
			}
			climbs := false
			if phi, ok := n.(*ssa.Phi); ok {
				for _, e := range phi.Edges {
					if recv, ok := isMethodCall(e, "Parent"); ok && recv == n {
						climbs = true
					}
				}
			}
			w.check(P, "R12.2", "lang: climbs to the nearest xml:lang", getCall.Pos(), rootTest && climbs, fmt.Sprintf("lookup under n.Pos() != 0: %v; n = n.Parent() on a miss: %v", rootTest, climbs))
			// nearest hit returns
			returns := false
			for _, b := range getCall.Parent().Blocks {
				for _, a := range guardAtoms(b) {
					if ex, ok := a.V.(*ssa.Extract); ok && ex.Tuple == ssa.Value(getCall) && ex.Index == 1 && a.Pol {
						// the block returns, or leaves the loops for good (`break search`) straight to a return
						loops := loopBlocks(getCall.Parent())
						cur := b
						for steps := 0; steps < 5 && cur != nil; steps++ {
							last := cur.Instrs[len(cur.Instrs)-1]
							if _, isRet := last.(*ssa.Return); isRet {
								returns = true
								break
							}
							if _, isJump := last.(*ssa.Jump); !isJump || loops[cur.Succs[0]] {
								break
							}
							cur = cur.Succs[0]
						}
					}
				}
			}
			// ... and the climb continues only on a miss: the step to the parent is taken only where the lookup is known
			// to have failed (a hit with an empty value is still the nearest declaration: xml:lang="" switches the
			// language off for the subtree)
			climbOnlyOnMiss := true
			climbSeen := false
			if phi, ok := n.(*ssa.Phi); ok {
				for _, e := range phi.Edges {
					pc, isCall := e.(*ssa.Call)
					if !isCall {
						continue
					}
					if recv, ok := isMethodCall(pc, "Parent"); !ok || recv != n {
						continue
					}
					climbSeen = true
					miss := false
					for _, a := range guardAtoms(pc.Block()) {
						if ex, ok := a.V.(*ssa.Extract); ok && ex.Tuple == ssa.Value(getCall) && ex.Index == 1 && !a.Pol {
							miss = true
						}
					}
					if !miss {
						climbOnlyOnMiss = false
					}
				}
			}
			w.check(P, "R12.2", "lang: decides at the nearest hit", getCall.Pos(), returns && (!climbSeen || climbOnlyOnMiss), fmt.Sprintf("returns the comparison result as soon as an xml:lang is found: %v; climbs on only when none was found on the node: %v", returns, climbOnlyOnMiss))
			// non-elements start from the parent
			startParent := false
			forClosure(func(in ssa.Instruction) {
				c, ok := in.(*ssa.Call)
				if !ok {
					return
				}
				if _, isP := isMethodCall(c, "Parent"); !isP {
					return
				}
				for _, a := range guardAtoms(c.Block()) {
					if ex, ok := a.V.(*ssa.Extract); ok && ex.Index == 1 && !a.Pol {
						if ta, ok := ex.Tuple.(*ssa.TypeAssert); ok {
							if nn, _ := nodeIface(ta.AssertedType); nn != nil && nn.Obj().Name() == "Element" {
								startParent = true
							}
						}
					}
				}
			})
			w.check(P, "R12.2", "lang: non-element context nodes start from their parent", impl.Pos(), startParent, fmt.Sprintf("%v", startParent))
		}
		// comparison ingredients
		dash, fold, lenIdx := false, false, false
		for _, g := range closure {
			if g == impl {
				continue
			}
			allInstrs(g, func(in ssa.Instruction) {
				switch x := in.(type) {
				case *ssa.BinOp:
					if x.Op == token.EQL {
						if k, ok := constInt(x.Y); ok && k == '-' {
							dash = true
							// the indexed position is len(argument)
							if idx, ok := x.X.(*ssa.Index); ok && isLenOf(idx.Index, nil) {
								lenIdx = true
							}
						}
					}
				case *ssa.Call:
					if sc := staticCallee(x); sc != nil {
						n := funcFullName(sc)
						if n == "strings.EqualFold" || n == "strings.ToLower" || n == "strings.ToUpper" {
							fold = true
						}
					}
				}
			})
		}
		w.check(P, "R12.2", "lang: comparison", impl.Pos(), dash && fold && lenIdx, fmt.Sprintf("tests for '-' : %v, at position len(argument): %v; case-insensitive comparison: %v", dash, lenIdx, fold))
	}
	// the attribute lookup itself
	docRule(P, "R12.4", "D", "store.GetAttribute reports an attribute as found only under the conjunction Space() == space and Local() == local on the same attribute, and keeps searching otherwise (a returned 'found' inside the search loop is the constant true under both tests; 'not found' is returned only after the loop).")
	if ga := w.member("store", "GetAttribute"); ga != nil {
		loops := loopBlocks(ga)
		allInstrs(ga, func(in ssa.Instruction) {
			ret, ok := in.(*ssa.Return)
			if !ok || len(ret.Results) != 2 {
				return
			}
			c, isConst := ret.Results[1].(*ssa.Const)
			foundTrue := isConst && c.Value != nil && c.Value.String() == "true"
			sp, lo := false, false
			for _, a := range guardAtoms(ret.Block()) {
				bo, ok := a.V.(*ssa.BinOp)
				if !ok || !((bo.Op == token.EQL && a.Pol) || (bo.Op == token.NEQ && !a.Pol)) {
					continue
				}
				for _, o := range []ssa.Value{bo.X, bo.Y} {
					if _, ok := isMethodCall(o, "Space"); ok {
						sp = true
					}
					if _, ok := isMethodCall(o, "Local"); ok {
						lo = true
					}
				}
			}
			inLoop := loops[ret.Block()]
			for _, a := range guardAtoms(ret.Block()) {
				// reached through a branch taken inside the loop body
				if in2, ok := a.V.(ssa.Instruction); ok && loops[in2.Block()] {
					if bo, ok := a.V.(*ssa.BinOp); !ok || !isLenOf(bo.Y, nil) {
						inLoop = true
					}
				}
			}
			if inLoop || !isNilConst(ret.Results[0]) {
				w.check(P, "R12.4", "GetAttribute: a return from inside the search", ret.Pos(), foundTrue && sp && lo, fmt.Sprintf("found is the constant true: %v; under Space() == space: %v and Local() == local: %v", foundTrue, sp, lo))
			} else {
				w.check(P, "R12.4", "GetAttribute: not found after the search", ret.Pos(), isConst && !foundTrue, "returns (nil, false) after the loop")
			}
		})
	} else {
		w.undecided(P, "R12.4", "store.GetAttribute", 0, "not found")
	}
	w.floor(P, "R12.4", 2)
	w.floorSites(P, "R12.2", 6)

	// R12.3 shared
	before := len(w.Obs)
	w.firstNodeRule(P, f, r)
	for _, o := range w.Obs[before:] {
		o.Rule = "R12.3"
	}
	delete(w.floors, P+"|R04.5")
	before = len(w.Obs)
	w.checkNumericBuiltins(P, f, r)
	var keep []*Obligation
	for i, o := range w.Obs {
		if i >= before && !strings.Contains(o.Construct, "count") {
			continue
		}
		if i >= before {
			o.Rule = "R12.3"
		}
		keep = append(keep, o)
	}
	w.Obs = keep
	delete(w.floors, P+"|R06.4")
	delete(w.floors, P+"|R06.6")
	w.floor(P, "R12.3", 3)
	w.include(P, "C07", "R07.7") // default: the context node - only without an argument
}
